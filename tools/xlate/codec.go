package main

// xlate codec: reads pkg/protocol/codec/*_codec.go, codec.go Init(), and
// pkg/protocol/message/*.go from the repository's working tree and writes
// coq/Gen/GoLayouts.v: for every codec type the field sequence its Encode
// writes and the one its Decode reads, the message struct it asserts, its
// GetMessageType constant (with value), every message's GetTypeCode, and the
// registration list of Init().  Statements are matched on their printed,
// whitespace-normalised form; anything not matched becomes FUnknown "<text>",
// which no well-formedness check accepts.

import (
	"bytes"
	"fmt"
	"go/ast"
	"go/parser"
	"go/printer"
	"go/token"
	"os"
	"path/filepath"
	"regexp"
	"sort"
	"strconv"
	"strings"
)

type fieldRow struct {
	Name string
	Kind string // Coq term of type fkind
}

type codecInfo struct {
	Name      string
	Embeds    []string
	Msg       string // message struct asserted in Encode / built in Decode
	TypeConst string
	Enc, Dec  []fieldRow
	hasEnc    bool
	hasDec    bool
	encBody   *ast.BlockStmt
	decBody   *ast.BlockStmt
}

var wsRe = regexp.MustCompile(`\s+`)

func printNode(fset *token.FileSet, n ast.Node) string {
	var b bytes.Buffer
	printer.Fprint(&b, fset, n)
	return strings.TrimSpace(wsRe.ReplaceAllString(b.String(), " "))
}

func coqStr(s string) string {
	return `"` + strings.ReplaceAll(s, `"`, `""`) + `"`
}

var widthOf = map[string]int{"8": 1, "16": 2, "32": 4, "64": 8}
var maxOf = map[string]string{"MaxInt8": "127", "MaxInt16": "32767", "MaxInt32": "2147483647", "MaxUint8": "255", "MaxUint16": "65535"}

func lastSel(path string) string {
	// data.Xid -> Xid ; req.AbstractGlobalEndRequest.Xid -> Xid
	i := strings.LastIndex(path, ".")
	return path[i+1:]
}

var (
	// ---- encode side ----
	reEncAssert   = regexp.MustCompile(`^(\w+)(?:, _)? := in\.\(message\.(\w+)\)$`)
	reNewBufEmpty = regexp.MustCompile(`^buf := bytes\.NewByteBuffer\(\[\]byte\{\}\)$`)
	reWStr        = regexp.MustCompile(`^bytes\.WriteString(8|16|32|64)Length\((?:string\()?(\w+(?:\.\w+)+)\)?, buf\)$`)
	reWByte       = regexp.MustCompile(`^buf\.WriteByte\(byte\((\w+(?:\.\w+)+)\)\)$`)
	reWInt64      = regexp.MustCompile(`^buf\.WriteInt64\((\w+(?:\.\w+)+)\)$`)
	reDurAssign   = regexp.MustCompile(`^(\w+) := uint32\(int64\((\w+(?:\.\w+)+)\) / 1e6\)$`)
	reWU32Var     = regexp.MustCompile(`^buf\.WriteUint32\((\w+)\)$`)
	reVarU16      = regexp.MustCompile(`^var (\w+) uint16$`)
	reIfSet1      = regexp.MustCompile(`^if (\w+(?:\.\w+)+) \{ (\w+) = 1 \}$`)
	reWU16Var     = regexp.MustCompile(`^buf\.WriteUint16\((\w+)\)$`)
	reIfBool8     = regexp.MustCompile(`^if (\w+(?:\.\w+)+) \{ buf\.WriteByte\(byte\(1\)\) \} else \{ buf\.WriteByte\(byte\(0\)\) \}$`)
	reIfMsgEnc    = regexp.MustCompile(`^if (\w+(?:\.\w+)+) == message\.ResultCodeFailed \{ msg := (\w+(?:\.\w+)+) if len\((\w+(?:\.\w+)+)\) > math\.(\w+) \{ msg = (\w+(?:\.\w+)+)\[:math\.(\w+)\] \} bytes\.WriteString(8|16|32|64)Length\(msg, buf\) \}$`)
	reRetBuf      = regexp.MustCompile(`^return buf\.Bytes\(\)$`)
	reRetDelegEnc = regexp.MustCompile(`^return \w+\.(\w+)\.Encode\(\w+\.\w+\)$`)
	rePrefDeleg   = regexp.MustCompile(`^b := \w+\.(\w+)\.Encode\(\w+\.\w+\)$`)
	reNewBufB     = regexp.MustCompile(`^buf := bytes\.NewByteBuffer\(b\)$`)
	// ---- decode side ----
	reDecNew      = regexp.MustCompile(`^data := message\.(\w+)\{\}$`)
	reNewBufIn    = regexp.MustCompile(`^buf := bytes\.NewByteBuffer\(in\)$`)
	reRStr        = regexp.MustCompile(`^(\w+(?:\.\w+)+) = (?:\[\]byte\()?bytes\.ReadString(8|16|32|64)Length\(buf\)\)?$`)
	reRByte       = regexp.MustCompile(`^(\w+(?:\.\w+)+) = [\w.]+\(bytes\.ReadByte\(buf\)\)$`)
	reRI64        = regexp.MustCompile(`^(\w+(?:\.\w+)+) = int64\(bytes\.ReadUInt64\(buf\)\)$`)
	reDurRead     = regexp.MustCompile(`^(\w+) := int64\(bytes\.ReadUInt32\(buf\)\) \* 1e6$`)
	reDurSet      = regexp.MustCompile(`^(\w+(?:\.\w+)+) = time\.Duration\((\w+)\)$`)
	reRU16Var     = regexp.MustCompile(`^(\w+) := bytes\.ReadUInt16\(buf\)$`)
	reIfEq1       = regexp.MustCompile(`^if (\w+) == 1 \{ (\w+(?:\.\w+)+) = true \}$`)
	reRByteVar2   = regexp.MustCompile(`^(\w+), _ := buf\.ReadByte\(\)$`)
	reIfIdent     = regexp.MustCompile(`^if (\w+) == byte\(1\) \{ (\w+(?:\.\w+)+) = true \} else if (\w+) == byte\(0\) \{ (\w+(?:\.\w+)+) = false \}$`)
	reIfMsgDec    = regexp.MustCompile(`^if (\w+(?:\.\w+)+) == message\.ResultCodeFailed \{ (\w+(?:\.\w+)+) = bytes\.ReadString(8|16|32|64)Length\(buf\) \}$`)
	reRetData     = regexp.MustCompile(`^return data$`)
	reRByteVar    = regexp.MustCompile(`^(\w+) := bytes\.ReadByte\(buf\)$`)
	reRetCompose  = regexp.MustCompile(`^return message\.(\w+)\{ (\w+): data, (\w+): [\w.]+\((\w+)\), \}$`)
	reDelegDec    = regexp.MustCompile(`^(\w+) := \w+\.(\w+)\.Decode\(in\)$`)
	reDelegAssert = regexp.MustCompile(`^(\w+) := (\w+)\.\(message\.(\w+)\)$`)
	reRetWrap     = regexp.MustCompile(`^return message\.(\w+)\{ (\w+): (\w+), \}$`)
	reRetConst    = regexp.MustCompile(`^return message\.(\w+)$`)
)

func unknown(s string) fieldRow { return fieldRow{"?", "FUnknown " + coqStr(s)} }

// translate an Encode body. parent(name) gives the layout of an embedded codec.
func xlateEncode(fset *token.FileSet, c *codecInfo, parent func(string, bool) ([]fieldRow, string)) {
	var rows []fieldRow
	durVar := map[string]string{}
	boolVar := map[string]string{}
	for _, st := range c.encBody.List {
		s := printNode(fset, st)
		switch {
		case reEncAssert.MatchString(s):
			c.Msg = reEncAssert.FindStringSubmatch(s)[2]
		case reNewBufEmpty.MatchString(s), reRetBuf.MatchString(s), reNewBufB.MatchString(s):
		case reWStr.MatchString(s):
			m := reWStr.FindStringSubmatch(s)
			rows = append(rows, fieldRow{lastSel(m[2]), fmt.Sprintf("FStr %d", widthOf[m[1]])})
		case reWByte.MatchString(s):
			m := reWByte.FindStringSubmatch(s)
			rows = append(rows, fieldRow{lastSel(m[1]), "FInt 1"})
		case reWInt64.MatchString(s):
			m := reWInt64.FindStringSubmatch(s)
			rows = append(rows, fieldRow{lastSel(m[1]), "FInt 8"})
		case reDurAssign.MatchString(s):
			m := reDurAssign.FindStringSubmatch(s)
			durVar[m[1]] = lastSel(m[2])
		case reWU32Var.MatchString(s) && durVar[reWU32Var.FindStringSubmatch(s)[1]] != "":
			rows = append(rows, fieldRow{durVar[reWU32Var.FindStringSubmatch(s)[1]], "FDurMs"})
		case reVarU16.MatchString(s):
			boolVar[reVarU16.FindStringSubmatch(s)[1]] = "?"
		case reIfSet1.MatchString(s) && boolVar[reIfSet1.FindStringSubmatch(s)[2]] == "?":
			m := reIfSet1.FindStringSubmatch(s)
			boolVar[m[2]] = lastSel(m[1])
		case reWU16Var.MatchString(s) && len(boolVar[reWU16Var.FindStringSubmatch(s)[1]]) > 1:
			rows = append(rows, fieldRow{boolVar[reWU16Var.FindStringSubmatch(s)[1]], "FBool 2"})
		case reIfBool8.MatchString(s):
			rows = append(rows, fieldRow{lastSel(reIfBool8.FindStringSubmatch(s)[1]), "FBool 1"})
		case reIfMsgEnc.MatchString(s):
			m := reIfMsgEnc.FindStringSubmatch(s)
			// the condition must test the field written just before; source, length test and slice must agree
			prevOK := len(rows) > 0 && rows[len(rows)-1].Name == lastSel(m[1]) && rows[len(rows)-1].Kind == "FInt 1"
			if !prevOK || m[2] != m[3] || m[3] != m[5] || m[4] != m[6] || maxOf[m[4]] == "" {
				rows = append(rows, unknown(s))
			} else {
				rows = append(rows, fieldRow{lastSel(m[2]), fmt.Sprintf("FMsgIf %d %s", widthOf[m[7]], maxOf[m[4]])})
			}
		case reRetDelegEnc.MatchString(s):
			pr, pm := parent(reRetDelegEnc.FindStringSubmatch(s)[1], true)
			rows = append(rows, pr...)
			_ = pm
		case rePrefDeleg.MatchString(s):
			pr, _ := parent(rePrefDeleg.FindStringSubmatch(s)[1], true)
			rows = append(rows, pr...)
		default:
			rows = append(rows, unknown(s))
		}
	}
	c.Enc = rows
}

func xlateDecode(fset *token.FileSet, c *codecInfo, parent func(string, bool) ([]fieldRow, string)) {
	var rows []fieldRow
	durVar := map[string]bool{}
	u16Var := map[string]bool{}
	byteVar2 := map[string]bool{}
	byteVar := map[string]int{} // var -> row index to be named by the return statement
	delegVar := map[string]bool{}
	for _, st := range c.decBody.List {
		s := printNode(fset, st)
		switch {
		case reDecNew.MatchString(s):
			if c.Msg == "" {
				c.Msg = reDecNew.FindStringSubmatch(s)[1]
			}
		case reNewBufIn.MatchString(s), reRetData.MatchString(s):
		case reRStr.MatchString(s):
			m := reRStr.FindStringSubmatch(s)
			rows = append(rows, fieldRow{lastSel(m[1]), fmt.Sprintf("FStr %d", widthOf[m[2]])})
		case reRByte.MatchString(s):
			rows = append(rows, fieldRow{lastSel(reRByte.FindStringSubmatch(s)[1]), "FInt 1"})
		case reRI64.MatchString(s):
			rows = append(rows, fieldRow{lastSel(reRI64.FindStringSubmatch(s)[1]), "FInt 8"})
		case reDurRead.MatchString(s):
			durVar[reDurRead.FindStringSubmatch(s)[1]] = true
		case reDurSet.MatchString(s) && durVar[reDurSet.FindStringSubmatch(s)[2]]:
			rows = append(rows, fieldRow{lastSel(reDurSet.FindStringSubmatch(s)[1]), "FDurMs"})
		case reRU16Var.MatchString(s):
			u16Var[reRU16Var.FindStringSubmatch(s)[1]] = true
		case reIfEq1.MatchString(s) && u16Var[reIfEq1.FindStringSubmatch(s)[1]]:
			rows = append(rows, fieldRow{lastSel(reIfEq1.FindStringSubmatch(s)[2]), "FBool 2"})
		case reRByteVar2.MatchString(s):
			byteVar2[reRByteVar2.FindStringSubmatch(s)[1]] = true
		case reIfIdent.MatchString(s):
			m := reIfIdent.FindStringSubmatch(s)
			if byteVar2[m[1]] && m[1] == m[3] && m[2] == m[4] {
				rows = append(rows, fieldRow{lastSel(m[2]), "FBool 1"})
			} else {
				rows = append(rows, unknown(s))
			}
		case reIfMsgDec.MatchString(s):
			m := reIfMsgDec.FindStringSubmatch(s)
			prevOK := len(rows) > 0 && rows[len(rows)-1].Name == lastSel(m[1]) && rows[len(rows)-1].Kind == "FInt 1"
			if !prevOK {
				rows = append(rows, unknown(s))
			} else {
				rows = append(rows, fieldRow{lastSel(m[2]), fmt.Sprintf("FMsgIf %d 0", widthOf[m[3]])})
			}
		case reRByteVar.MatchString(s):
			byteVar[reRByteVar.FindStringSubmatch(s)[1]] = len(rows)
			rows = append(rows, fieldRow{"?" + reRByteVar.FindStringSubmatch(s)[1], "FInt 1"})
		case reRetCompose.MatchString(s):
			m := reRetCompose.FindStringSubmatch(s)
			if idx, ok := byteVar[m[4]]; ok {
				rows[idx].Name = m[3]
				c.Msg = m[1]
			} else {
				rows = append(rows, unknown(s))
			}
		case reDelegDec.MatchString(s):
			m := reDelegDec.FindStringSubmatch(s)
			pr, _ := parent(m[2], false)
			rows = append(rows, pr...)
			delegVar[m[1]] = true
		case reDelegAssert.MatchString(s) && delegVar[reDelegAssert.FindStringSubmatch(s)[2]]:
			delegVar[reDelegAssert.FindStringSubmatch(s)[1]] = true
		case reRetWrap.MatchString(s) && delegVar[reRetWrap.FindStringSubmatch(s)[3]]:
			// wraps the embedded part into the concrete message
		default:
			rows = append(rows, unknown(s))
		}
	}
	for i := range rows {
		if strings.HasPrefix(rows[i].Name, "?") && !strings.HasPrefix(rows[i].Kind, "FUnknown") {
			rows[i] = unknown("value read into " + rows[i].Name[1:] + " is never stored in the message")
		}
	}
	c.Dec = rows
}

// evaluate `const ( X T = iota + k ; Y ; ... )` blocks of package message
func constValues(files []*ast.File, fset *token.FileSet) map[string]int64 {
	out := map[string]int64{}
	for _, f := range files {
		for _, d := range f.Decls {
			gd, ok := d.(*ast.GenDecl)
			if !ok || gd.Tok != token.CONST {
				continue
			}
			var lastExpr string
			for i, sp := range gd.Specs {
				vs := sp.(*ast.ValueSpec)
				if len(vs.Values) > 0 {
					lastExpr = printNode(fset, vs.Values[0])
				}
				v, ok := evalIota(lastExpr, int64(i))
				if ok {
					for _, n := range vs.Names {
						out[n.Name] = v
					}
				}
			}
		}
	}
	return out
}

var reIotaPlus = regexp.MustCompile(`^iota \+ (\d+)$`)
var reLit = regexp.MustCompile(`^(\d+)$`)
var reConv = regexp.MustCompile(`^\w+\((\d+)\)$`)

func evalIota(e string, iota int64) (int64, bool) {
	if e == "iota" {
		return iota, true
	}
	if m := reIotaPlus.FindStringSubmatch(e); m != nil {
		k, _ := strconv.ParseInt(m[1], 10, 64)
		return iota + k, true
	}
	if m := reLit.FindStringSubmatch(e); m != nil {
		k, _ := strconv.ParseInt(m[1], 10, 64)
		return k, true
	}
	if m := reConv.FindStringSubmatch(e); m != nil {
		k, _ := strconv.ParseInt(m[1], 10, 64)
		return k, true
	}
	return 0, false
}

func parseDir(fset *token.FileSet, dir string) []*ast.File {
	ents, err := os.ReadDir(dir)
	if err != nil {
		fatal(err)
	}
	var files []*ast.File
	for _, e := range ents {
		n := e.Name()
		if !strings.HasSuffix(n, ".go") || strings.HasSuffix(n, "_test.go") {
			continue
		}
		f, err := parser.ParseFile(fset, filepath.Join(dir, n), nil, 0)
		if err != nil {
			fatal(err)
		}
		files = append(files, f)
	}
	return files
}

func recvName(fd *ast.FuncDecl) string {
	if fd.Recv == nil || len(fd.Recv.List) == 0 {
		return ""
	}
	t := fd.Recv.List[0].Type
	if st, ok := t.(*ast.StarExpr); ok {
		t = st.X
	}
	if id, ok := t.(*ast.Ident); ok {
		return id.Name
	}
	return ""
}

func xlateCodec(repo, out string) {
	fset := token.NewFileSet()
	cfiles := parseDir(fset, filepath.Join(repo, "pkg/protocol/codec"))
	mfiles := parseDir(fset, filepath.Join(repo, "pkg/protocol/message"))
	consts := constValues(mfiles, fset)

	codecs := map[string]*codecInfo{}
	get := func(n string) *codecInfo {
		if codecs[n] == nil {
			codecs[n] = &codecInfo{Name: n}
		}
		return codecs[n]
	}
	var initRegs []string
	var initUnknown []string
	reReg := regexp.MustCompile(`^GetCodecManager\(\)\.RegisterCodec\(CodecTypeSeata, &(\w+)\{\}\)$`)
	for _, f := range cfiles {
		for _, d := range f.Decls {
			switch x := d.(type) {
			case *ast.GenDecl:
				for _, sp := range x.Specs {
					ts, ok := sp.(*ast.TypeSpec)
					if !ok {
						continue
					}
					st, ok := ts.Type.(*ast.StructType)
					if !ok || !strings.HasSuffix(ts.Name.Name, "Codec") {
						continue
					}
					c := get(ts.Name.Name)
					for _, fl := range st.Fields.List {
						if len(fl.Names) == 0 {
							c.Embeds = append(c.Embeds, printNode(fset, fl.Type))
						}
					}
				}
			case *ast.FuncDecl:
				rn := recvName(x)
				if rn == "" && x.Name.Name == "Init" {
					for _, st := range x.Body.List {
						s := printNode(fset, st)
						if m := reReg.FindStringSubmatch(s); m != nil {
							initRegs = append(initRegs, m[1])
						} else {
							initUnknown = append(initUnknown, s)
						}
					}
				}
				if !strings.HasSuffix(rn, "Codec") {
					continue
				}
				c := get(rn)
				switch x.Name.Name {
				case "Encode":
					c.encBody, c.hasEnc = x.Body, true
				case "Decode":
					c.decBody, c.hasDec = x.Body, true
				case "GetMessageType":
					if len(x.Body.List) == 1 {
						if m := reRetConst.FindStringSubmatch(printNode(fset, x.Body.List[0])); m != nil {
							c.TypeConst = m[1]
						}
					}
				}
			}
		}
	}
	done := map[string]bool{}
	var parent func(string, bool) ([]fieldRow, string)
	var doCodec func(c *codecInfo)
	parent = func(n string, enc bool) ([]fieldRow, string) {
		p := codecs[n]
		if p == nil {
			return []fieldRow{unknown("delegation to unknown codec " + n)}, ""
		}
		doCodec(p)
		if enc {
			return append([]fieldRow{}, p.Enc...), p.Msg
		}
		return append([]fieldRow{}, p.Dec...), p.Msg
	}
	doCodec = func(c *codecInfo) {
		if done[c.Name] {
			return
		}
		done[c.Name] = true
		if c.hasEnc {
			xlateEncode(fset, c, parent)
		} else {
			c.Enc = []fieldRow{unknown("no Encode method")}
		}
		if c.hasDec {
			xlateDecode(fset, c, parent)
		} else {
			c.Dec = []fieldRow{unknown("no Decode method")}
		}
	}
	var names []string
	for n := range codecs {
		names = append(names, n)
	}
	sort.Strings(names)
	for _, n := range names {
		doCodec(codecs[n])
	}

	// message GetTypeCode methods
	msgType := map[string]string{}
	for _, f := range mfiles {
		for _, d := range f.Decls {
			fd, ok := d.(*ast.FuncDecl)
			if !ok || fd.Name.Name != "GetTypeCode" || fd.Body == nil || len(fd.Body.List) != 1 {
				continue
			}
			s := printNode(fset, fd.Body.List[0])
			if m := regexp.MustCompile(`^return (\w+)$`).FindStringSubmatch(s); m != nil {
				msgType[recvName(fd)] = m[1]
			}
		}
	}

	var b strings.Builder
	b.WriteString("(* GENERATED by tools/xlate codec from /repo's working tree. Do not edit. *)\n")
	b.WriteString("From Coq Require Import String List NArith.\nFrom SeataV Require Import Codec.Layout Codec.Table.\nImport ListNotations.\nOpen Scope string_scope.\nOpen Scope N_scope.\n\n")
	rowsCoq := func(rs []fieldRow) string {
		var ps []string
		for _, r := range rs {
			ps = append(ps, fmt.Sprintf("(%s, %s)", coqStr(r.Name), r.Kind))
		}
		return "[" + strings.Join(ps, "; ") + "]"
	}
	b.WriteString("Definition go_codecs : list codec_row := [\n")
	first := true
	for _, n := range names {
		c := codecs[n]
		if c.TypeConst == "" {
			continue // abstract helper codec (embedded only): it has no GetMessageType
		}
		if !first {
			b.WriteString(";\n")
		}
		first = false
		tv, ok := consts[c.TypeConst]
		tvs := fmt.Sprintf("%d", tv)
		if !ok {
			tvs = "0 (* unknown constant *)"
		}
		fmt.Fprintf(&b, "  {| c_name := %s; c_msg := %s; c_type := %s;\n     c_enc := %s;\n     c_dec := %s |}",
			coqStr(c.Name), coqStr(c.Msg), tvs, rowsCoq(c.Enc), rowsCoq(c.Dec))
	}
	b.WriteString("\n].\n\n")
	b.WriteString("Definition go_init_registered : list string := [")
	for i, r := range initRegs {
		if i > 0 {
			b.WriteString("; ")
		}
		b.WriteString(coqStr(r))
	}
	b.WriteString("].\n\n")
	b.WriteString("Definition go_init_unknown : list string := [")
	for i, r := range initUnknown {
		if i > 0 {
			b.WriteString("; ")
		}
		b.WriteString(coqStr(r))
	}
	b.WriteString("].\n\n")
	var mnames []string
	for n := range msgType {
		mnames = append(mnames, n)
	}
	sort.Strings(mnames)
	b.WriteString("Definition go_msg_typecode : list (string * N) := [")
	k := 0
	for _, n := range mnames {
		v, ok := consts[msgType[n]]
		if !ok {
			continue
		}
		if k > 0 {
			b.WriteString("; ")
		}
		k++
		fmt.Fprintf(&b, "(%s, %d)", coqStr(n), v)
	}
	b.WriteString("].\n\n")
	fmt.Fprintf(&b, "Definition go_result_code_failed : N := %d.\n", consts["ResultCodeFailed"])
	if err := os.WriteFile(out, []byte(b.String()), 0o644); err != nil {
		fatal(err)
	}
}
