package main

// xlate undo (C08): regenerates coq/Gen/UndoSwitch.v from the source of the undo-log codec:
//   types/image.go       decodeColumnValue's JDBC-type switch (case labels -> recognised case body),
//                        the generic tail and decodeInteger, MarshalJSON's type switch,
//                        UnmarshalJSON's UseNumber
//   types/const.go       the JDBCType constants
//   types/sql.go         SQLType constants, MarshalText / UnmarshalText tables
//   compressor/compressor_type.go   GetCompressor: spelling -> compressor struct
// Case bodies are compared (whitespace-normalised) with the bodies the model understands; anything
// else becomes GrUnknown "<source>", which wf_table rejects.

import (
	"fmt"
	"go/ast"
	"go/parser"
	"go/token"
	"os"
	"path/filepath"
	"regexp"
	"sort"
	"strconv"
	"strings"
)

func init() { translators["undo"] = xlateUndo }

var undoReInt = regexp.MustCompile(`^-?\d+$`)
var undoReIotaPlus = regexp.MustCompile(`^iota \+ (\d+)$`)

// integer and string constants of a package (typed or untyped, iota, iota + k, literals)
func undoConsts(fset *token.FileSet, files []*ast.File) (map[string]int64, map[string]string) {
	ints, strs := map[string]int64{}, map[string]string{}
	for _, f := range files {
		for _, d := range f.Decls {
			gd, ok := d.(*ast.GenDecl)
			if !ok || gd.Tok != token.CONST {
				continue
			}
			last := ""
			for i, sp := range gd.Specs {
				vs := sp.(*ast.ValueSpec)
				if len(vs.Values) > 0 {
					last = printNode(fset, vs.Values[0])
				}
				for _, n := range vs.Names {
					switch {
					case last == "iota":
						ints[n.Name] = int64(i)
					case undoReIotaPlus.MatchString(last):
						k, _ := strconv.ParseInt(undoReIotaPlus.FindStringSubmatch(last)[1], 10, 64)
						ints[n.Name] = int64(i) + k
					case undoReInt.MatchString(last):
						k, _ := strconv.ParseInt(last, 10, 64)
						ints[n.Name] = k
					case strings.HasPrefix(last, `"`):
						if s, err := strconv.Unquote(last); err == nil {
							strs[n.Name] = s
						}
					}
				}
			}
		}
	}
	return ints, strs
}

func undoFunc(files []*ast.File, recv, name string) *ast.FuncDecl {
	for _, f := range files {
		for _, d := range f.Decls {
			if fd, ok := d.(*ast.FuncDecl); ok && fd.Name.Name == name && recvName(fd) == recv && fd.Body != nil {
				return fd
			}
		}
	}
	return nil
}

func undoBody(fset *token.FileSet, stmts []ast.Stmt) string {
	var parts []string
	for _, s := range stmts {
		parts = append(parts, printNode(fset, s))
	}
	return strings.Join(parts, " ; ")
}

var undoCaseBodies = map[string]string{
	`if number, ok := value.(json.Number); ok { return number.Float64() }`: "GrFloat",
	`if i, ok := decodeInteger(value); ok { if int64(int8(i)) == i { return int8(i), nil } return i, nil }`:   "GrInt W8",
	`if i, ok := decodeInteger(value); ok { if int64(int16(i)) == i { return int16(i), nil } return i, nil }`: "GrInt W16",
	`if i, ok := decodeInteger(value); ok { if int64(int32(i)) == i { return int32(i), nil } return i, nil }`: "GrInt W32",
	`if i, ok := decodeInteger(value); ok { return i, nil }`:                                                 "GrInt W64",
	`if text, ok := value.(string); ok { return time.Parse(time.RFC3339Nano, text) }`:                       "GrTime",
	`if text, ok := value.(string); ok { val, err := base64.StdEncoding.DecodeString(text) if err != nil { val = []byte(text) } return string(val), nil }`: "GrChar",
}

const undoGenericTail = `switch v := value.(type) { case string: if val, err := base64.StdEncoding.DecodeString(v); err == nil { return val, nil } return v, nil case json.Number: if i, ok := decodeInteger(v); ok { return i, nil } return v.Float64() } ; return value, nil`
const undoNilHead = `if value == nil { return nil, nil }`
const undoDecodeInteger = `number, ok := value.(json.Number) ; if !ok { return 0, false } ; i, err := strconv.ParseInt(number.String(), 10, 64) ; return i, err == nil`

func undoHex(s string) string {
	var b strings.Builder
	b.WriteString("[")
	for i := 0; i < len(s); i++ {
		if i > 0 {
			b.WriteString(";")
		}
		fmt.Fprintf(&b, "x%02x", s[i])
	}
	b.WriteString("]")
	return b.String()
}

func undoZ(v int64) string {
	if v < 0 {
		return fmt.Sprintf("(%d)", v)
	}
	return fmt.Sprintf("%d", v)
}

func xlateUndo(repo, out string) {
	fset := token.NewFileSet()
	tfiles := parseDir(fset, filepath.Join(repo, "pkg/datasource/sql/types"))
	ints, _ := undoConsts(fset, tfiles)

	// ---- decodeColumnValue
	var cases []string
	generic := "true"
	fd := undoFunc(tfiles, "", "decodeColumnValue")
	if fd == nil || len(fd.Body.List) < 3 {
		cases = append(cases, fmt.Sprintf("(0, GrUnknown %s)", coqStr("decodeColumnValue not found")))
		generic = "false"
	} else {
		if printNode(fset, fd.Body.List[0]) != undoNilHead {
			generic = "false"
		}
		sw, ok := fd.Body.List[1].(*ast.SwitchStmt)
		if !ok || sw.Tag == nil || printNode(fset, sw.Tag) != "columnType" || sw.Init != nil {
			cases = append(cases, fmt.Sprintf("(0, GrUnknown %s)", coqStr(printNode(fset, fd.Body.List[1]))))
		} else {
			for _, st := range sw.Body.List {
				cc := st.(*ast.CaseClause)
				body := undoBody(fset, cc.Body)
				g, known := undoCaseBodies[body]
				if !known {
					g = "GrUnknown " + coqStr(body)
				}
				if cc.List == nil { // a default clause changes what "no case" means
					cases = append(cases, fmt.Sprintf("(0, GrUnknown %s)", coqStr("default: "+body)))
					continue
				}
				for _, e := range cc.List {
					name := printNode(fset, e)
					v, ok := ints[name]
					if !ok {
						cases = append(cases, fmt.Sprintf("(0, GrUnknown %s)", coqStr("label "+name)))
						continue
					}
					cases = append(cases, fmt.Sprintf("(%s, %s)", undoZ(v), g))
				}
			}
		}
		if undoBody(fset, fd.Body.List[2:]) != undoGenericTail {
			generic = "false"
		}
	}
	if di := undoFunc(tfiles, "", "decodeInteger"); di == nil || undoBody(fset, di.Body.List) != undoDecodeInteger {
		generic = "false"
	}

	// ---- MarshalJSON's type switch, UnmarshalJSON's UseNumber
	strB64, timeRfc, useNumber := "false", "false", "false"
	if mj := undoFunc(tfiles, "ColumnImage", "MarshalJSON"); mj != nil {
		ast.Inspect(mj.Body, func(n ast.Node) bool {
			ts, ok := n.(*ast.TypeSwitchStmt)
			if !ok {
				return true
			}
			if printNode(fset, ts.Assign) != "v := c.Value.(type)" {
				return true
			}
			for _, st := range ts.Body.List {
				cc := st.(*ast.CaseClause)
				if len(cc.List) != 1 {
					continue
				}
				lab, body := printNode(fset, cc.List[0]), undoBody(fset, cc.Body)
				if lab == "string" && body == "value = []byte(v)" {
					strB64 = "true"
				}
				if lab == "time.Time" && body == "value = v.Format(time.RFC3339Nano)" {
					timeRfc = "true"
				}
			}
			return true
		})
		// the value that is finally marshalled must be the switched one
		if !strings.Contains(printNode(fset, mj.Body), "Value: value,") {
			strB64, timeRfc = "false", "false"
		}
	}
	if uj := undoFunc(tfiles, "ColumnImage", "UnmarshalJSON"); uj != nil {
		src := printNode(fset, uj.Body)
		if strings.Contains(src, "decoder.UseNumber() ") && strings.Contains(src, "decoder.Decode(&tmpImage)") &&
			strings.Contains(src, `decodeColumnValue(JDBCType(columnType), tmpImage["value"])`) {
			useNumber = "true"
		}
	}

	// ---- SQLType text tables
	var sqlText, sqlParse []string
	if mt := undoFunc(tfiles, "SQLType", "MarshalText"); mt != nil {
		ast.Inspect(mt.Body, func(n ast.Node) bool {
			cc, ok := n.(*ast.CaseClause)
			if !ok || len(cc.Body) != 1 {
				return true
			}
			m := regexp.MustCompile(`^return \[\]byte\("([^"]*)"\), nil$`).FindStringSubmatch(printNode(fset, cc.Body[0]))
			if m == nil {
				return true
			}
			for _, e := range cc.List {
				if v, ok := ints[printNode(fset, e)]; ok {
					sqlText = append(sqlText, fmt.Sprintf("(%s, %s)", undoZ(v), undoHex(m[1])))
				}
			}
			return true
		})
	}
	if ut := undoFunc(tfiles, "SQLType", "UnmarshalText"); ut != nil {
		ast.Inspect(ut.Body, func(n ast.Node) bool {
			cc, ok := n.(*ast.CaseClause)
			if !ok || len(cc.Body) != 1 {
				return true
			}
			m := regexp.MustCompile(`^\*s = (\w+)$`).FindStringSubmatch(printNode(fset, cc.Body[0]))
			if m == nil {
				return true
			}
			v, ok := ints[m[1]]
			if !ok {
				return true
			}
			for _, e := range cc.List {
				if s, err := strconv.Unquote(printNode(fset, e)); err == nil {
					sqlParse = append(sqlParse, fmt.Sprintf("(%s, %s)", undoHex(s), undoZ(v)))
				}
			}
			return true
		})
	}

	// ---- compressor selection
	cfset := token.NewFileSet()
	cf, err := parser.ParseFile(cfset, filepath.Join(repo, "pkg/compressor/compressor_type.go"), nil, 0)
	if err != nil {
		fatal(err)
	}
	_, cstrs := undoConsts(cfset, []*ast.File{cf})
	var comp []string
	if gc := undoFunc([]*ast.File{cf}, "CompressorType", "GetCompressor"); gc != nil {
		ast.Inspect(gc.Body, func(n ast.Node) bool {
			cc, ok := n.(*ast.CaseClause)
			if !ok || len(cc.Body) != 1 {
				return true
			}
			m := regexp.MustCompile(`^return &(\w+)\{\}$`).FindStringSubmatch(printNode(cfset, cc.Body[0]))
			if m == nil {
				return true
			}
			if cc.List == nil {
				if m[1] != "NoneCompressor" {
					comp = append(comp, fmt.Sprintf("([], %s)", coqStr("default:"+m[1])))
				}
				return true
			}
			for _, e := range cc.List {
				if s, ok := cstrs[printNode(cfset, e)]; ok {
					comp = append(comp, fmt.Sprintf("(%s, %s)", undoHex(s), coqStr(m[1])))
				}
			}
			return true
		})
	}
	sort.Strings(comp)

	var b strings.Builder
	b.WriteString("(* GENERATED by tools/xlate undo from pkg/datasource/sql/types/{image,const,sql}.go and\n   pkg/compressor/compressor_type.go -- do not edit *)\n")
	b.WriteString("From Coq Require Import List ZArith String.\nFrom Coq.Strings Require Import Byte.\nFrom SeataV Require Import Base.Bytes At.Values At.UndoCodec.\nImport ListNotations. Open Scope Z_scope. Open Scope string_scope.\n\n")
	b.WriteString("Definition go_undo_table : gotable := {|\n")
	b.WriteString("  tb_cases := [\n    " + strings.Join(cases, ";\n    ") + "];\n")
	b.WriteString("  tb_generic := " + generic + ";\n")
	b.WriteString("  tb_str_b64 := " + strB64 + ";\n  tb_time_rfc := " + timeRfc + ";\n  tb_use_number := " + useNumber + ";\n")
	b.WriteString("  tb_sql_text := [\n    " + strings.Join(sqlText, ";\n    ") + "];\n")
	b.WriteString("  tb_sql_parse := [\n    " + strings.Join(sqlParse, ";\n    ") + "];\n")
	b.WriteString("  tb_compress := [\n    " + strings.Join(comp, ";\n    ") + "]\n|}.\n")
	if err := os.WriteFile(out, []byte(b.String()), 0o644); err != nil {
		fatal(err)
	}
}
