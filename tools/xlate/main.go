package main

import (
	"fmt"
	"os"
)

func fatal(err error) {
	fmt.Fprintln(os.Stderr, "xlate:", err)
	os.Exit(2)
}

func main() {
	if len(os.Args) < 4 {
		fmt.Fprintln(os.Stderr, "usage: xlate <codec|...> <repo> <out.v>")
		os.Exit(2)
	}
	switch os.Args[1] {
	case "codec":
		xlateCodec(os.Args[2], os.Args[3])
	default:
		fmt.Fprintln(os.Stderr, "unknown translator", os.Args[1])
		os.Exit(2)
	}
}
