package main

import (
	"fmt"
	"os"
)

func fatal(err error) {
	fmt.Fprintln(os.Stderr, "xlate:", err)
	os.Exit(2)
}

// translators register themselves: `func init() { translators["name"] = fn }`
// (fn(repo, out string)); helpers shared by all: printNode, coqStr, parseDir,
// constValues, recvName in codec.go.
var translators = map[string]func(repo, out string){
	"codec": xlateCodec,
}

func main() {
	if len(os.Args) < 4 {
		fmt.Fprintln(os.Stderr, "usage: xlate <translator> <repo> <out.v>")
		os.Exit(2)
	}
	f, ok := translators[os.Args[1]]
	if !ok {
		fmt.Fprintln(os.Stderr, "unknown translator", os.Args[1])
		os.Exit(2)
	}
	f(os.Args[2], os.Args[3])
}
