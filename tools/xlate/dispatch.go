package main

// xlate dispatch (C15): reads pkg/remoting/processor/client (RegisterProcessor
// registrations reachable from client.RegisterProcessor(), and the Process
// bodies of the processors that consult a resource manager), pkg/remoting/getty/
// listener.go (OnMessage's lookup, RegisterProcessor's store), pkg/rm/rm_cache.go
// and the GetBranchType methods of the shipped resource managers, and writes
// coq/Gen/DispatchTable.v:
//
//   go_dispatch  : list (N * proc)      type code -> processor (PPhase2 row | POther name)
//   go_managers  : list (string * N)    manager type -> branch type it registers under
//   go_dispatch_unrecognised : list string
//
// Expressions in a row are canonical: a local that is assigned once from a field
// of `request` is replaced by `request.<Field>`, the first result of the manager
// call is `status`.  What is not found where expected goes to the unrecognised
// list, which the proof obligation requires to be empty.

import (
	"fmt"
	"go/ast"
	"go/token"
	"os"
	"path/filepath"
	"sort"
	"strings"
)

func init() { translators["dispatch"] = xlateDispatch }

type dispatchRow struct {
	req, rmKey, method, resp, respID string
	args, fields                     [][2]string
	errMode, rcErr, rcOk             int
	sends                            int
}

func dispatchPairs(p [][2]string) string {
	var parts []string
	for _, kv := range p {
		parts = append(parts, "("+coqStr(kv[0])+", "+coqStr(kv[1])+")")
	}
	return "[" + strings.Join(parts, "; ") + "]"
}

func xlateDispatch(repo, out string) {
	fset := token.NewFileSet()
	var unrec []string
	bad := func(f string, a ...interface{}) { unrec = append(unrec, fmt.Sprintf(f, a...)) }

	procFiles := parseDir(fset, filepath.Join(repo, "pkg/remoting/processor/client"))
	msgConsts := constValues(parseDir(fset, filepath.Join(repo, "pkg/protocol/message")), fset)
	brConsts := constValues(parseDir(fset, filepath.Join(repo, "pkg/protocol/branch")), fset)
	gettyFiles := parseDir(fset, filepath.Join(repo, "pkg/remoting/getty"))

	// ---- which init functions does RegisterProcessor() call
	called := map[string]bool{}
	if fd := futuresFindFunc(procFiles, "", "RegisterProcessor"); fd == nil {
		bad("client.RegisterProcessor not found")
	} else {
		for _, st := range fd.Body.List {
			es, ok := st.(*ast.ExprStmt)
			if !ok {
				bad("RegisterProcessor statement: %s", printNode(fset, st))
				continue
			}
			ce, ok := es.X.(*ast.CallExpr)
			if !ok || len(ce.Args) != 0 {
				bad("RegisterProcessor statement: %s", printNode(fset, st))
				continue
			}
			called[printNode(fset, ce.Fun)] = true
		}
	}

	// ---- registrations
	type reg struct {
		code int64
		proc string
	}
	var regs []reg
	for _, f := range procFiles {
		for _, d := range f.Decls {
			fd, ok := d.(*ast.FuncDecl)
			if !ok || fd.Body == nil || fd.Recv != nil || !called[fd.Name.Name] {
				continue
			}
			local := map[string]string{} // var -> processor type
			for _, st := range fd.Body.List {
				switch x := st.(type) {
				case *ast.AssignStmt:
					if len(x.Lhs) == 1 && len(x.Rhs) == 1 {
						txt := printNode(fset, x.Rhs[0])
						if strings.HasPrefix(txt, "&") && strings.HasSuffix(txt, "{}") {
							local[printNode(fset, x.Lhs[0])] = strings.TrimSuffix(strings.TrimPrefix(txt, "&"), "{}")
							continue
						}
					}
					bad("%s: %s", fd.Name.Name, printNode(fset, st))
				case *ast.ExprStmt:
					ce, ok := x.X.(*ast.CallExpr)
					if !ok || !strings.HasSuffix(printNode(fset, ce.Fun), "GetGettyClientHandlerInstance().RegisterProcessor") || len(ce.Args) != 2 {
						bad("%s: %s", fd.Name.Name, printNode(fset, st))
						continue
					}
					cn := strings.TrimPrefix(printNode(fset, ce.Args[0]), "message.")
					v, ok := msgConsts[cn]
					if !ok {
						bad("%s: unknown type code constant %s", fd.Name.Name, cn)
						continue
					}
					pt := printNode(fset, ce.Args[1])
					if t, ok := local[pt]; ok {
						pt = t
					} else if strings.HasPrefix(pt, "&") && strings.HasSuffix(pt, "{}") {
						pt = strings.TrimSuffix(strings.TrimPrefix(pt, "&"), "{}")
					} else {
						bad("%s: processor expression %s", fd.Name.Name, pt)
						continue
					}
					regs = append(regs, reg{v, pt})
				default:
					bad("%s: %s", fd.Name.Name, printNode(fset, st))
				}
			}
		}
	}
	// later registrations overwrite earlier ones (map store): keep the last per code, listed first
	sort.SliceStable(regs, func(i, j int) bool { return regs[i].code < regs[j].code })
	last := map[int64]string{}
	for _, r := range regs {
		last[r.code] = r.proc
	}

	// ---- listener: lookup by the body's type code, store by the registered code
	if fd := futuresFindFunc(gettyFiles, "gettyClientHandler", "OnMessage"); fd == nil ||
		!strings.Contains(printNode(fset, fd.Body), "processor := g.processorMap[mm.GetTypeCode()]") ||
		!strings.Contains(printNode(fset, fd.Body), "processor.Process(ctx, rpcMessage)") {
		bad("gettyClientHandler.OnMessage: lookup `g.processorMap[mm.GetTypeCode()]` / `processor.Process(ctx, rpcMessage)` not found")
	}
	if fd := futuresFindFunc(gettyFiles, "gettyClientHandler", "RegisterProcessor"); fd == nil ||
		!strings.Contains(printNode(fset, fd.Body), "g.processorMap[msgType] = processor") {
		bad("gettyClientHandler.RegisterProcessor: store `g.processorMap[msgType] = processor` not found")
	}

	// ---- the way of a response to the wire: SendAsyncResponse -> SendAsync -> sendAsync -> WritePkg.
	// Nothing but a missing / closed session may keep the frame from being written, and it goes out
	// under the id it was given (the model's Respond event is unconditional)
	if fd := futuresFindFunc(gettyFiles, "GettyRemotingClient", "SendAsyncResponse"); fd == nil {
		bad("GettyRemotingClient.SendAsyncResponse not found")
	} else {
		txt := printNode(fset, fd.Body)
		for _, want := range []string{"ID: msgID,", "Type: message.GettyRequestTypeResponse,", "Body: msg,", "return client.gettyRemoting.SendAsync(rpcMessage, nil, nil)"} {
			if !strings.Contains(txt, want) {
				bad("SendAsyncResponse: `%s` not found", want)
			}
		}
		if len(fd.Body.List) != 2 {
			bad("SendAsyncResponse has %d statements", len(fd.Body.List))
		}
	}
	earlyReturns := func(recv, name, marker string, allowed map[string]bool) {
		fd := futuresFindFunc(gettyFiles, recv, name)
		if fd == nil {
			bad("%s.%s not found", recv, name)
			return
		}
		reached := false
		for _, st := range fd.Body.List {
			if strings.Contains(printNode(fset, st), marker) {
				reached = true
				break
			}
			hasReturn := false
			ast.Inspect(st, func(n ast.Node) bool {
				if _, ok := n.(*ast.ReturnStmt); ok {
					hasReturn = true
				}
				return true
			})
			if !hasReturn {
				continue
			}
			if is, ok := st.(*ast.IfStmt); ok && is.Else == nil && is.Init == nil && allowed[printNode(fset, is.Cond)] {
				continue
			}
			bad("%s may give up before `%s`: %s", name, marker, printNode(fset, st))
		}
		if !reached {
			bad("%s: `%s` not found at the top level", name, marker)
		}
	}
	earlyReturns("GettyRemoting", "SendAsync", "g.sendAsync(s, msg, callback)", map[string]bool{"s == nil": true})
	earlyReturns("GettyRemoting", "sendAsync", "session.WritePkg(msg,", map[string]bool{"session == nil || session.IsClosed()": true})

	// ---- rows of the processors that consult a resource manager
	rows := map[string]*dispatchRow{}
	for _, f := range procFiles {
		for _, d := range f.Decls {
			fd, ok := d.(*ast.FuncDecl)
			if !ok || fd.Body == nil || fd.Name.Name != "Process" || fd.Recv == nil {
				continue
			}
			if !strings.Contains(printNode(fset, fd.Body), "GetResourceManager(") {
				continue
			}
			pname := recvName(fd)
			row := &dispatchRow{}
			rows[pname] = row
			alias := map[string]string{}
			statusVar := ""
			canon := func(e ast.Expr) string {
				t := printNode(fset, e)
				if a, ok := alias[t]; ok {
					return a
				}
				if t == statusVar && t != "" {
					return "status"
				}
				return t
			}
			for i, st := range fd.Body.List {
				as, ok := st.(*ast.AssignStmt)
				if !ok || len(as.Rhs) != 1 {
					continue
				}
				rhs := printNode(fset, as.Rhs[0])
				lhs0 := printNode(fset, as.Lhs[0])
				switch {
				case strings.HasPrefix(rhs, "rpcMessage.Body.(message.") && len(as.Lhs) == 1:
					if lhs0 != "request" {
						bad("%s: request bound to %s", pname, lhs0)
					}
					row.req = strings.TrimSuffix(strings.TrimPrefix(rhs, "rpcMessage.Body.(message."), ")")
				case strings.HasPrefix(rhs, "request.") && len(as.Lhs) == 1 && as.Tok == token.DEFINE:
					alias[lhs0] = rhs
				case strings.Contains(rhs, "GetResourceManager("):
					ce, ok := as.Rhs[0].(*ast.CallExpr)
					if !ok || len(as.Lhs) != 2 || len(ce.Args) != 2 || printNode(fset, as.Lhs[1]) != "err" {
						bad("%s: manager call %s", pname, printNode(fset, st))
						continue
					}
					sel, ok := ce.Fun.(*ast.SelectorExpr)
					if !ok {
						bad("%s: manager call %s", pname, printNode(fset, st))
						continue
					}
					row.method = sel.Sel.Name
					inner, ok := sel.X.(*ast.CallExpr)
					if !ok || printNode(fset, inner.Fun) != "rm.GetRmCacheInstance().GetResourceManager" || len(inner.Args) != 1 {
						bad("%s: manager lookup %s", pname, printNode(fset, sel.X))
						continue
					}
					row.rmKey = canon(inner.Args[0])
					statusVar = lhs0
					if printNode(fset, ce.Args[1]) != "branchResource" {
						bad("%s: manager argument %s", pname, printNode(fset, ce.Args[1]))
					}
					// the statement right after the manager call decides what a failure does:
					//   if err != nil { ...; return err }                                       -> 1 (silence)
					//   if err != nil { ...; if status == branch.BranchStatusUnknown { return err } } [else { log }]
					//                                                                           -> 2 (silence without a status)
					if i+1 < len(fd.Body.List) {
						if is, ok := fd.Body.List[i+1].(*ast.IfStmt); ok && printNode(fset, is.Cond) == "err != nil" && len(is.Body.List) > 0 {
							onlyLogs := func(l []ast.Stmt) bool {
								for _, x := range l {
									es, ok := x.(*ast.ExprStmt)
									if !ok || !strings.HasPrefix(printNode(fset, es), "log.") {
										return false
									}
								}
								return true
							}
							elseOK := is.Else == nil
							if eb, ok := is.Else.(*ast.BlockStmt); ok && onlyLogs(eb.List) {
								elseOK = true
							}
							isRetErr := func(x ast.Stmt) bool {
								rs, ok := x.(*ast.ReturnStmt)
								return ok && len(rs.Results) == 1 && printNode(fset, rs.Results[0]) == "err"
							}
							n := len(is.Body.List)
							lastSt := is.Body.List[n-1]
							switch {
							case elseOK && onlyLogs(is.Body.List[:n-1]) && isRetErr(lastSt):
								row.errMode = 1
							case elseOK && onlyLogs(is.Body.List[:n-1]):
								if inner, ok := lastSt.(*ast.IfStmt); ok && inner.Else == nil && inner.Init == nil &&
									printNode(fset, inner.Cond) == statusVar+" == branch.BranchStatusUnknown" &&
									len(inner.Body.List) == 1 && isRetErr(inner.Body.List[0]) {
									row.errMode = 2
								} else {
									bad("%s: error handling after the manager call: %s", pname, printNode(fset, is))
								}
							default:
								bad("%s: error handling after the manager call: %s", pname, printNode(fset, is))
							}
						}
					}
				case strings.HasPrefix(rhs, "rm.BranchResource{") && lhs0 == "branchResource":
					cl := as.Rhs[0].(*ast.CompositeLit)
					for _, el := range cl.Elts {
						kv, ok := el.(*ast.KeyValueExpr)
						if !ok {
							bad("%s: BranchResource element %s", pname, printNode(fset, el))
							continue
						}
						row.args = append(row.args, [2]string{printNode(fset, kv.Key), canon(kv.Value)})
					}
				case strings.HasPrefix(rhs, "message.") && lhs0 == "response":
					cl, ok := as.Rhs[0].(*ast.CompositeLit)
					if !ok {
						bad("%s: response %s", pname, rhs)
						continue
					}
					row.resp = strings.TrimPrefix(printNode(fset, cl.Type), "message.")
					ast.Inspect(cl, func(n ast.Node) bool {
						if kv, ok := n.(*ast.KeyValueExpr); ok {
							k := printNode(fset, kv.Key)
							if k == "Xid" || k == "BranchId" || k == "BranchStatus" {
								row.fields = append(row.fields, [2]string{k, canon(kv.Value)})
							}
						}
						return true
					})
				}
			}
			// result code: `if err != nil { resultCode = A; ... } else { resultCode = B }` and `ResultCode: resultCode`
			row.rcErr, row.rcOk = 9, 9
			rcOf := func(l []ast.Stmt) int {
				v := 9
				for _, x := range l {
					if as, ok := x.(*ast.AssignStmt); ok && len(as.Lhs) == 1 && len(as.Rhs) == 1 && printNode(fset, as.Lhs[0]) == "resultCode" {
						switch printNode(fset, as.Rhs[0]) {
						case "message.ResultCodeFailed":
							v = 0
						case "message.ResultCodeSuccess":
							v = 1
						default:
							v = 9
						}
					}
				}
				return v
			}
			for _, st := range fd.Body.List {
				is, ok := st.(*ast.IfStmt)
				if !ok || printNode(fset, is.Cond) != "err != nil" {
					continue
				}
				eb, ok := is.Else.(*ast.BlockStmt)
				if !ok || rcOf(is.Body.List) == 9 {
					continue
				}
				row.rcErr, row.rcOk = rcOf(is.Body.List), rcOf(eb.List)
			}
			if !strings.Contains(printNode(fset, fd.Body), "ResultCode: resultCode,") {
				bad("%s: the response's ResultCode is not the resultCode variable", pname)
				row.rcErr, row.rcOk = 9, 9
			}
			nAssign := 0
			ast.Inspect(fd.Body, func(n ast.Node) bool {
				if as, ok := n.(*ast.AssignStmt); ok && len(as.Lhs) == 1 && printNode(fset, as.Lhs[0]) == "resultCode" {
					nAssign++
				}
				return true
			})
			if nAssign != 2 {
				bad("%s: resultCode assigned %d times", pname, nAssign)
			}
			ast.Inspect(fd.Body, func(n ast.Node) bool {
				ce, ok := n.(*ast.CallExpr)
				if !ok || !strings.HasSuffix(printNode(fset, ce.Fun), ".SendAsyncResponse") {
					return true
				}
				row.sends++
				if len(ce.Args) != 2 || printNode(fset, ce.Args[1]) != "response" {
					bad("%s: SendAsyncResponse arguments %s", pname, printNode(fset, ce))
					return true
				}
				row.respID = canon(ce.Args[0])
				return true
			})
			// a response sent from inside a loop / goroutine would not be "one": only top-level statements may send
			top := 0
			for _, st := range fd.Body.List {
				if as, ok := st.(*ast.AssignStmt); ok && strings.Contains(printNode(fset, as), ".SendAsyncResponse(") {
					top++
				}
			}
			if top != row.sends {
				bad("%s: SendAsyncResponse not at the top level of Process", pname)
			}
		}
	}

	// ---- managers
	type mgr struct {
		name string
		bt   int64
	}
	var mgrs []mgr
	for _, dir := range []string{"pkg/datasource/sql", "pkg/rm/tcc"} {
		for _, f := range parseDir(fset, filepath.Join(repo, dir)) {
			for _, d := range f.Decls {
				fd, ok := d.(*ast.FuncDecl)
				if !ok || fd.Body == nil || fd.Name.Name != "GetBranchType" || !strings.HasSuffix(recvName(fd), "Manager") {
					continue
				}
				if len(fd.Body.List) != 1 {
					bad("%s.GetBranchType: %s", recvName(fd), printNode(fset, fd.Body))
					continue
				}
				rs, ok := fd.Body.List[0].(*ast.ReturnStmt)
				if !ok || len(rs.Results) != 1 {
					bad("%s.GetBranchType: %s", recvName(fd), printNode(fset, fd.Body))
					continue
				}
				cn := strings.TrimPrefix(printNode(fset, rs.Results[0]), "branch.")
				v, ok := brConsts[cn]
				if !ok {
					bad("%s.GetBranchType returns %s", recvName(fd), cn)
					continue
				}
				mgrs = append(mgrs, mgr{recvName(fd), v})
			}
		}
	}
	sort.Slice(mgrs, func(i, j int) bool { return mgrs[i].name < mgrs[j].name })
	rmFiles := parseDir(fset, filepath.Join(repo, "pkg/rm"))
	if fd := futuresFindFunc(rmFiles, "ResourceManagerCache", "RegisterResourceManager"); fd == nil ||
		!strings.Contains(printNode(fset, fd.Body), "resourceManagerMap.Store(resourceManager.GetBranchType(), resourceManager)") {
		bad("ResourceManagerCache.RegisterResourceManager: Store(resourceManager.GetBranchType(), resourceManager) not found")
	}
	if fd := futuresFindFunc(rmFiles, "ResourceManagerCache", "GetResourceManager"); fd == nil ||
		!strings.Contains(printNode(fset, fd.Body), "resourceManagerMap.Load(branchType)") {
		bad("ResourceManagerCache.GetResourceManager: Load(branchType) not found")
	}

	// ---- output
	var sb strings.Builder
	sb.WriteString("(* GENERATED by tools/xlate dispatch from the repository's working tree. Do not edit. *)\n")
	sb.WriteString("From Coq Require Import String List NArith.\nFrom SeataV Require Import Remoting.ProcessorModel.\nImport ListNotations.\nOpen Scope string_scope.\nOpen Scope N_scope.\n\n")
	sb.WriteString("Definition go_dispatch : list (N * proc) := [\n")
	var codes []int64
	for c := range last {
		codes = append(codes, c)
	}
	sort.Slice(codes, func(i, j int) bool { return codes[i] < codes[j] })
	for i, c := range codes {
		p := last[c]
		if i > 0 {
			sb.WriteString(";\n")
		}
		if row, ok := rows[p]; ok {
			b := fmt.Sprintf("%d %d %d", row.errMode, row.rcErr, row.rcOk)
			fmt.Fprintf(&sb, "  (%d, PPhase2 (mkRow %s %s %s\n      %s\n      %s %s\n      %s\n      %s %d%%nat))",
				c, coqStr(row.req), coqStr(row.rmKey), coqStr(row.method), dispatchPairs(row.args), b, coqStr(row.resp),
				dispatchPairs(row.fields), coqStr(row.respID), row.sends)
		} else {
			fmt.Fprintf(&sb, "  (%d, POther %s)", c, coqStr(p))
		}
	}
	sb.WriteString("].\n\nDefinition go_managers : list (string * N) := [")
	for i, m := range mgrs {
		if i > 0 {
			sb.WriteString("; ")
		}
		fmt.Fprintf(&sb, "(%s, %d)", coqStr(m.name), m.bt)
	}
	sb.WriteString("].\n\nDefinition go_dispatch_unrecognised : list string := [")
	for i, u := range unrec {
		if i > 0 {
			sb.WriteString("; ")
		}
		sb.WriteString(coqStr(u))
	}
	sb.WriteString("].\n")
	if err := os.WriteFile(out, []byte(sb.String()), 0o644); err != nil {
		fatal(err)
	}
}
