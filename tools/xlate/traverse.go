package main

// xlate traverse (C18): regenerates coq/Gen/Traverse.v from
//   pkg/datasource/sql/exec/at/base_executor.go   traversalArgs (which AST node kinds, and which of their
//                                                  fields, the WHERE-argument selection descends into) and
//                                                  buildSelectArgs (which parts of the statement are walked,
//                                                  whether the indexes are sorted before the arguments are picked)
// Every case clause of traversalArgs' type switch becomes a row (node type name, fields descended into);
// a statement of a clause body that is not one of the recognised shapes becomes an entry of
// traverse_unknown, which the well-formedness theorem of the model rejects.

import (
	"fmt"
	"go/ast"
	"go/parser"
	"go/token"
	"os"
	"path/filepath"
	"regexp"
	"strings"
)

func init() { translators["traverse"] = xlateTraverse }

var (
	traverseReAlias  = regexp.MustCompile(`^(\w+) := node\.\(\*(\w+)\.(\w+)\)$`)
	traverseReSlice  = regexp.MustCompile(`^(\w+) := node\.\(\*(\w+)\.(\w+)\)\.(\w+)$`)
	traverseReCall   = regexp.MustCompile(`^b\.traversalArgs\((\w+)\.(\w+), argsIndex\)$`)
	traverseReCallIx = regexp.MustCompile(`^b\.traversalArgs\((\w+)(?:\.(\w+))?\[i\], argsIndex\)$`)
	traverseReMarker = regexp.MustCompile(`^\*argsIndex = append\(\*argsIndex, int32\(node\.\(\*test_driver\.ParamMarkerExpr\)\.Order\)\)$`)
	traverseReRoot   = regexp.MustCompile(`b\.traversalArgs\(stmt\.([\w.]+), &selectArgsIndexs\)`)
	traverseReSpace  = regexp.MustCompile(`\s+`)
)

func traverseNorm(s string) string { return strings.TrimSpace(traverseReSpace.ReplaceAllString(s, " ")) }

func traverseList(xs []string) string {
	q := make([]string, len(xs))
	for i, x := range xs {
		q[i] = coqStr(x)
	}
	return "[" + strings.Join(q, "; ") + "]"
}

func xlateTraverse(repo, out string) {
	fset := token.NewFileSet()
	path := filepath.Join(repo, "pkg/datasource/sql/exec/at/base_executor.go")
	f, err := parser.ParseFile(fset, path, nil, 0)
	if err != nil {
		fatal(err)
	}
	var trav, sel *ast.FuncDecl
	for _, d := range f.Decls {
		if fd, ok := d.(*ast.FuncDecl); ok && fd.Body != nil && recvName(fd) == "baseExecutor" {
			switch fd.Name.Name {
			case "traversalArgs":
				trav = fd
			case "buildSelectArgs":
				sel = fd
			}
		}
	}
	if trav == nil || sel == nil {
		fatal(fmt.Errorf("traversalArgs / buildSelectArgs of baseExecutor not found in %s", path))
	}
	type row struct {
		kind   string
		fields []string
	}
	var rows []row
	var unknown []string
	var sw *ast.TypeSwitchStmt
	for _, s := range trav.Body.List {
		switch x := s.(type) {
		case *ast.TypeSwitchStmt:
			if sw != nil {
				unknown = append(unknown, "second type switch")
			}
			sw = x
		case *ast.IfStmt:
			if traverseNorm(printNode(fset, x)) != "if node == nil { return }" {
				unknown = append(unknown, traverseNorm(printNode(fset, x)))
			}
		default:
			unknown = append(unknown, traverseNorm(printNode(fset, s)))
		}
	}
	if sw == nil {
		fatal(fmt.Errorf("traversalArgs has no type switch"))
	}
	if traverseNorm(printNode(fset, sw.Assign)) != "node.(type)" {
		unknown = append(unknown, "switch on "+traverseNorm(printNode(fset, sw.Assign)))
	}
	for _, c := range sw.Body.List {
		cc := c.(*ast.CaseClause)
		if cc.List == nil {
			unknown = append(unknown, "default clause")
			continue
		}
		for _, ty := range cc.List {
			tn := traverseNorm(printNode(fset, ty)) // *ast.BinaryOperationExpr
			kind := tn[strings.LastIndex(tn, ".")+1:]
			r := row{kind: kind}
			alias := map[string]string{}  // variable -> "" (the node itself)
			slices := map[string]string{} // variable -> field
			var walk func(stmts []ast.Stmt)
			walk = func(stmts []ast.Stmt) {
				for _, s := range stmts {
					if fs, ok := s.(*ast.ForStmt); ok {
						hdr := traverseNorm(printNode(fset, fs.Init)) + ";" + traverseNorm(printNode(fset, fs.Cond)) + ";" + traverseNorm(printNode(fset, fs.Post))
						if !strings.HasPrefix(hdr, "i := 0;i < len(") || !strings.HasSuffix(hdr, ");i++") {
							unknown = append(unknown, kind+": for "+hdr)
							continue
						}
						over := strings.TrimSuffix(strings.TrimPrefix(hdr, "i := 0;i < len("), ");i++")
						for _, b := range fs.Body.List {
							t := traverseNorm(printNode(fset, b))
							m := traverseReCallIx.FindStringSubmatch(t)
							if m == nil {
								unknown = append(unknown, kind+": "+t)
								continue
							}
							what := m[1]
							if m[2] != "" {
								what += "." + m[2]
							}
							if what != over {
								unknown = append(unknown, kind+": loop over "+over+" visits "+what)
								continue
							}
							if fld, ok := slices[m[1]]; ok && m[2] == "" {
								r.fields = append(r.fields, fld)
							} else if _, ok := alias[m[1]]; ok && m[2] != "" {
								r.fields = append(r.fields, m[2])
							} else {
								unknown = append(unknown, kind+": "+t)
							}
						}
						continue
					}
					t := traverseNorm(printNode(fset, s))
					switch {
					case t == "break":
					case traverseReAlias.MatchString(t):
						m := traverseReAlias.FindStringSubmatch(t)
						if m[3] != kind {
							unknown = append(unknown, kind+": "+t)
						}
						alias[m[1]] = ""
					case traverseReSlice.MatchString(t):
						m := traverseReSlice.FindStringSubmatch(t)
						if m[3] != kind {
							unknown = append(unknown, kind+": "+t)
						}
						slices[m[1]] = m[4]
					case traverseReCall.MatchString(t):
						m := traverseReCall.FindStringSubmatch(t)
						if _, ok := alias[m[1]]; !ok {
							unknown = append(unknown, kind+": "+t)
						} else {
							r.fields = append(r.fields, m[2])
						}
					case traverseReMarker.MatchString(t) && kind == "ParamMarkerExpr":
						r.fields = append(r.fields, "@Order")
					default:
						unknown = append(unknown, kind+": "+t)
					}
				}
			}
			walk(cc.Body)
			rows = append(rows, r)
		}
	}
	// buildSelectArgs: the roots walked, the sort, the pick
	src := printNode(fset, sel.Body)
	var roots []string
	for _, m := range traverseReRoot.FindAllStringSubmatch(src, -1) {
		roots = append(roots, m[1])
	}
	if regexp.MustCompile(`for _, item := range stmt\.OrderBy\.Items \{\s*b\.traversalArgs\(item, &selectArgsIndexs\)`).MatchString(src) {
		roots = append(roots, "OrderBy.Items")
	}
	sorted := strings.Contains(src, "gxsort.Int32(selectArgsIndexs)")
	pick := regexp.MustCompile(`for _, index := range selectArgsIndexs \{\s*selectArgs = append\(selectArgs, args\[index\]\)`).MatchString(src)
	var sb strings.Builder
	sb.WriteString("(* GENERATED by tools/xlate traverse from pkg/datasource/sql/exec/at/base_executor.go -- do not edit *)\n")
	sb.WriteString("From Coq Require Import List String.\nImport ListNotations.\nOpen Scope string_scope.\n\n")
	sb.WriteString("(* node type name, fields of the node that traversalArgs descends into (\"@Order\": the marker's index is recorded) *)\n")
	sb.WriteString("Definition traverse_table : list (string * list string) :=\n  [")
	for i, r := range rows {
		if i > 0 {
			sb.WriteString(";\n   ")
		}
		sb.WriteString("(" + coqStr(r.kind) + ", " + traverseList(r.fields) + ")")
	}
	sb.WriteString("].\n\n(* statements of traversalArgs the translator does not understand (must be empty) *)\n")
	sb.WriteString("Definition traverse_unknown : list string := " + traverseList(unknown) + ".\n\n")
	sb.WriteString("(* parts of the SELECT statement that buildSelectArgs hands to traversalArgs *)\n")
	sb.WriteString("Definition select_roots : list string := " + traverseList(roots) + ".\n")
	sb.WriteString(fmt.Sprintf("Definition select_sorted : bool := %v.\nDefinition select_picks_by_index : bool := %v.\n", sorted, pick))
	if err := os.WriteFile(out, []byte(sb.String()), 0o644); err != nil {
		fatal(err)
	}
}
