package main

// xlate undoflow (C01 / C09 / C10): regenerates coq/Gen/UndoFlow.v from
//   undo/executor/mysql_undo_{insert,update,delete}_executor.go   constructor + ExecuteOn of each executor:
//        is dataValidationAndGoOn called before the compensating statement is prepared, is an image without
//        rows skipped, which image selects the current rows, which image's rows are replayed
//   undo/base/undo.go  Undo: do deferred closures assign to the named result, is the local transaction
//        rolled back on every exit that did not commit, is the connection closed, is a failed Commit
//        returned, is the log reversed, does an empty log return early
//   at_resource_manager.go  BranchRollback: the branch status per kind of RunUndo result
//   protocol/branch         the BranchStatus constants

import (
	"fmt"
	"go/ast"
	"go/token"
	"os"
	"path/filepath"
	"strings"
)

func init() { translators["undoflow"] = xlateUndoFlow }

func undoflowB(b bool) string {
	if b {
		return "true"
	}
	return "false"
}

// position of the first call whose printed function expression ends with name (token.NoPos if none)
func undoflowCallPos(fset *token.FileSet, n ast.Node, name string) token.Pos {
	pos := token.NoPos
	ast.Inspect(n, func(x ast.Node) bool {
		if c, ok := x.(*ast.CallExpr); ok && pos == token.NoPos {
			if strings.HasSuffix(printNode(fset, c.Fun), name) {
				pos = c.Pos()
			}
		}
		return true
	})
	return pos
}

func undoflowReturnsNil(fset *token.FileSet, b *ast.BlockStmt) bool {
	if len(b.List) != 1 {
		return false
	}
	r, ok := b.List[0].(*ast.ReturnStmt)
	return ok && len(r.Results) == 1 && printNode(fset, r.Results[0]) == "nil"
}

type undoflowExec struct{ validates, skips, curBefore, replaysBefore bool }

func undoflowExecutor(fset *token.FileSet, files []*ast.File, typ, ctor string) undoflowExec {
	var e undoflowExec
	fd := undoFunc(files, typ, "ExecuteOn")
	if fd == nil {
		fatal(fmt.Errorf("undoflow: %s.ExecuteOn not found", typ))
	}
	prep := undoflowCallPos(fset, fd.Body, "PrepareContext")
	val := undoflowCallPos(fset, fd.Body, "dataValidationAndGoOn")
	// the result of the validation must be honoured: an `if !ok { return nil }` and an `if err != nil { return err }` before the prepare
	honoured := false
	for _, st := range fd.Body.List {
		if is, ok := st.(*ast.IfStmt); ok && is.Pos() > val && (prep == token.NoPos || is.Pos() < prep) {
			if strings.HasPrefix(printNode(fset, is.Cond), "!") && undoflowReturnsNil(fset, is.Body) {
				honoured = true
			}
		}
	}
	e.validates = val != token.NoPos && (prep == token.NoPos || val < prep) && honoured
	// replayed image: the range statement over <x>Image.Rows
	replay := ""
	ast.Inspect(fd.Body, func(x ast.Node) bool {
		if r, ok := x.(*ast.RangeStmt); ok && replay == "" {
			t := printNode(fset, r.X)
			if strings.HasSuffix(t, ".Rows") {
				replay = strings.ToLower(t)
			}
		}
		return true
	})
	e.replaysBefore = strings.Contains(replay, "before")
	// skip of an image without rows: a top-level `if ... len(<image>.Rows) == 0 { return nil }` before the validation and the prepare
	for _, st := range fd.Body.List {
		is, ok := st.(*ast.IfStmt)
		if !ok || (prep != token.NoPos && is.Pos() > prep) || (val != token.NoPos && is.Pos() > val) {
			continue
		}
		c := printNode(fset, is.Cond)
		want := "AfterImage.Rows) == 0"
		if e.replaysBefore {
			want = "BeforeImage.Rows) == 0"
		}
		if strings.Contains(c, "len(") && strings.Contains(c, want) && undoflowReturnsNil(fset, is.Body) {
			e.skips = true
		}
	}
	// constructor: undoImage: sqlUndoLog.BeforeImage / AfterImage
	for _, f := range files {
		for _, d := range f.Decls {
			if cf, ok := d.(*ast.FuncDecl); ok && cf.Name.Name == ctor && cf.Body != nil {
				ast.Inspect(cf.Body, func(x ast.Node) bool {
					if kv, ok := x.(*ast.KeyValueExpr); ok && printNode(fset, kv.Key) == "undoImage" {
						e.curBefore = strings.HasSuffix(printNode(fset, kv.Value), "BeforeImage")
					}
					return true
				})
			}
		}
	}
	return e
}

func xlateUndoFlow(repo, out string) {
	fset := token.NewFileSet()
	base := filepath.Join(repo, "pkg", "datasource", "sql")
	exFiles := parseDir(fset, filepath.Join(base, "undo", "executor"))
	ins := undoflowExecutor(fset, exFiles, "mySQLUndoInsertExecutor", "newMySQLUndoInsertExecutor")
	upd := undoflowExecutor(fset, exFiles, "mySQLUndoUpdateExecutor", "newMySQLUndoUpdateExecutor")
	del := undoflowExecutor(fset, exFiles, "mySQLUndoDeleteExecutor", "newMySQLUndoDeleteExecutor")

	// ---- executor.go: the validation read
	checkLocks, readErrChecked := false, false
	for _, f := range exFiles {
		for _, d := range f.Decls {
			if gd, ok := d.(*ast.GenDecl); ok && gd.Tok == token.CONST {
				for _, sp := range gd.Specs {
					vs := sp.(*ast.ValueSpec)
					for i, n := range vs.Names {
						if n.Name == "checkSQLTemplate" && i < len(vs.Values) {
							checkLocks = strings.HasSuffix(strings.TrimSpace(strings.Trim(printNode(fset, vs.Values[i]), "\"`")), "FOR UPDATE")
						}
					}
				}
			}
		}
	}
	if qc := undoFunc(exFiles, "BaseExecutor", "queryCurrentRecords"); qc != nil {
		loopSeen := false
		for _, st := range qc.Body.List {
			switch x := st.(type) {
			case *ast.ForStmt:
				if strings.Contains(printNode(fset, x.Cond), "rows.Next()") {
					loopSeen = true
				}
			case *ast.IfStmt:
				txt := ""
				if x.Init != nil {
					txt = printNode(fset, x.Init)
				}
				txt += " " + printNode(fset, x.Cond)
				if loopSeen && strings.Contains(txt, "rows.Err()") && strings.Contains(txt, "!= nil") {
					if r, ok := x.Body.List[len(x.Body.List)-1].(*ast.ReturnStmt); ok && len(r.Results) == 2 && printNode(fset, r.Results[1]) != "nil" {
						readErrChecked = true
					}
				}
			}
		}
	} else {
		fatal(fmt.Errorf("undoflow: BaseExecutor.queryCurrentRecords not found"))
	}

	// ---- Undo
	ubFiles := parseDir(fset, filepath.Join(base, "undo", "base"))
	undo := undoFunc(ubFiles, "BaseUndoLogManager", "Undo")
	if undo == nil {
		fatal(fmt.Errorf("undoflow: BaseUndoLogManager.Undo not found"))
	}
	named := map[string]bool{}
	if undo.Type.Results != nil {
		for _, f := range undo.Type.Results.List {
			for _, n := range f.Names {
				named[n.Name] = true
			}
		}
	}
	assigns, rollsBack, closes, commitReturned, reverses, emptyEarly := false, false, false, false, false, false
	ast.Inspect(undo.Body, func(x ast.Node) bool {
		switch s := x.(type) {
		case *ast.DeferStmt:
			txt := printNode(fset, s.Call)
			if strings.Contains(txt, "conn.Close()") {
				closes = true
			}
			if fl, ok := s.Call.Fun.(*ast.FuncLit); ok {
				ast.Inspect(fl.Body, func(y ast.Node) bool {
					if as, ok := y.(*ast.AssignStmt); ok && as.Tok == token.ASSIGN {
						for _, l := range as.Lhs {
							if id, ok := l.(*ast.Ident); ok && named[id.Name] {
								assigns = true
							}
						}
					}
					if is, ok := y.(*ast.IfStmt); ok {
						c := printNode(fset, is.Cond)
						if (c == "!committed" || c == "err != nil") && strings.Contains(printNode(fset, is.Body), "tx.Rollback()") {
							rollsBack = true
						}
					}
					return true
				})
			} else if strings.Contains(txt, "tx.Rollback()") {
				rollsBack = true
			}
		case *ast.IfStmt:
			if s.Init != nil && strings.Contains(printNode(fset, s.Init), "tx.Commit()") && len(s.Body.List) > 0 {
				if r, ok := s.Body.List[len(s.Body.List)-1].(*ast.ReturnStmt); ok && len(r.Results) == 1 && printNode(fset, r.Results[0]) != "nil" {
					commitReturned = true
				}
			}
			if strings.Contains(printNode(fset, s.Cond), "len(sqlUndoLogs) == 0") && undoflowReturnsNil(fset, s.Body) {
				emptyEarly = true
			}
		case *ast.CallExpr:
			if strings.HasSuffix(printNode(fset, s.Fun), ".Reverse") {
				reverses = true
			}
		}
		return true
	})

	// ---- BranchRollback
	rmFiles := parseDir(fset, base)
	br := undoFunc(rmFiles, "ATSourceManager", "BranchRollback")
	if br == nil {
		fatal(fmt.Errorf("undoflow: ATSourceManager.BranchRollback not found"))
	}
	consts, _ := undoConsts(fset, parseDir(fset, filepath.Join(repo, "pkg", "protocol", "branch")))
	// remoting/processor/client/rm_branch_rollback_processor.go: what happens to (status, err != nil):
	// the `if err != nil` block after the BranchRollback call either returns (no response at all) or only
	// returns for BranchStatusUnknown and otherwise falls through to the response carrying the manager's status
	repliesOnError := false
	prFiles := parseDir(fset, filepath.Join(repo, "pkg", "remoting", "processor", "client"))
	if pf := undoFunc(prFiles, "rmBranchRollbackProcessor", "Process"); pf != nil {
		for _, st := range pf.Body.List {
			is, ok := st.(*ast.IfStmt)
			if !ok || printNode(fset, is.Cond) != "err != nil" || len(is.Body.List) == 0 {
				continue
			}
			if _, ret := is.Body.List[len(is.Body.List)-1].(*ast.ReturnStmt); ret {
				break // unconditional return: silent
			}
			for _, in := range is.Body.List {
				if iis, ok := in.(*ast.IfStmt); ok && strings.Contains(printNode(fset, iis.Cond), "status == branch.BranchStatusUnknown") {
					repliesOnError = true
				}
			}
			break
		}
	} else {
		fatal(fmt.Errorf("undoflow: rmBranchRollbackProcessor.Process not found"))
	}
	status := func(r *ast.ReturnStmt) string {
		if len(r.Results) != 2 {
			return "None"
		}
		if printNode(fset, r.Results[1]) != "nil" {
			// the error is returned next to the status: answered with that status when the processor does so
			// (never for BranchStatusUnknown = 0), else no response
			name := lastSel(printNode(fset, r.Results[0]))
			if v, ok := consts[name]; ok && repliesOnError && v != 0 {
				return fmt.Sprintf("(Some %d)", v)
			}
			return "None"
		}
		name := lastSel(printNode(fset, r.Results[0]))
		if v, ok := consts[name]; ok {
			return fmt.Sprintf("(Some %d)", v)
		}
		return "None"
	}
	stOK, stPlain, stUnretr, stOther := "None", "None", "None", "None"
	var runIf *ast.IfStmt
	for _, st := range br.Body.List {
		if is, ok := st.(*ast.IfStmt); ok && is.Init != nil && strings.Contains(printNode(fset, is.Init), "RunUndo") {
			runIf = is
		}
	}
	if runIf == nil {
		fatal(fmt.Errorf("undoflow: BranchRollback: `if err := ...RunUndo(...); err != nil` not found"))
	}
	for _, st := range runIf.Body.List {
		switch s := st.(type) {
		case *ast.IfStmt:
			c := printNode(fset, s.Cond)
			if len(s.Body.List) == 0 {
				continue
			}
			r, ok := s.Body.List[len(s.Body.List)-1].(*ast.ReturnStmt)
			if !ok {
				continue
			}
			if c == "!ok" {
				stPlain = status(r)
			} else if strings.Contains(c, "Unretriable") {
				stUnretr = status(r)
			}
		case *ast.ReturnStmt:
			stOther = status(s)
		}
	}
	if r, ok := br.Body.List[len(br.Body.List)-1].(*ast.ReturnStmt); ok {
		stOK = status(r)
	}

	var b strings.Builder
	b.WriteString("(* GENERATED by tools/xlate/undoflow.go from the repository's working tree. Do not edit. *)\n")
	b.WriteString("From Coq Require Import NArith Bool.\nFrom SeataV Require Import At.RollbackKinds.\nOpen Scope N_scope.\n\n")
	tbl := func(name, doc string, f func(e undoflowExec) bool) {
		fmt.Fprintf(&b, "(* %s *)\nDefinition %s (k : kind) : bool :=\n  match k with KInsert => %s | KUpdate => %s | KDelete => %s end.\n",
			doc, name, undoflowB(f(ins)), undoflowB(f(upd)), undoflowB(f(del)))
	}
	tbl("exec_validates", "ExecuteOn: dataValidationAndGoOn is called and honoured before the compensating statement is prepared", func(e undoflowExec) bool { return e.validates })
	tbl("exec_skips_empty", "ExecuteOn returns nil at once when the image it replays has no rows", func(e undoflowExec) bool { return e.skips })
	tbl("exec_current_by_before", "constructor: BaseExecutor.undoImage is the BeforeImage (true) / the AfterImage (false)", func(e undoflowExec) bool { return e.curBefore })
	tbl("exec_replays_before", "ExecuteOn replays the rows of the BeforeImage (true) / AfterImage (false)", func(e undoflowExec) bool { return e.replaysBefore })
	b.WriteString("\n(* undo/executor/executor.go: the validation read is a locking read (.. FOR UPDATE); a result set that breaks off is an error (rows.Err() checked after the loop) *)\n")
	fmt.Fprintf(&b, "Definition exec_check_locks : bool := %s.\n", undoflowB(checkLocks))
	fmt.Fprintf(&b, "Definition exec_read_errors_checked : bool := %s.\n", undoflowB(readErrChecked))
	b.WriteString("\n(* undo/base/undo.go Undo *)\n")
	fmt.Fprintf(&b, "Definition undo_cleanup_assigns_result : bool := %s.\n", undoflowB(assigns))
	fmt.Fprintf(&b, "Definition undo_rollback_unless_committed : bool := %s.\n", undoflowB(rollsBack))
	fmt.Fprintf(&b, "Definition undo_closes_conn : bool := %s.\n", undoflowB(closes))
	fmt.Fprintf(&b, "Definition undo_commit_error_returned : bool := %s.\n", undoflowB(commitReturned))
	fmt.Fprintf(&b, "Definition undo_reverses_log : bool := %s.\n", undoflowB(reverses))
	fmt.Fprintf(&b, "Definition undo_empty_log_returns_early : bool := %s.\n", undoflowB(emptyEarly))
	b.WriteString("\n(* at_resource_manager.go BranchRollback + rm_branch_rollback_processor.go: status answered per result of RunUndo; None = no response *)\n")
	fmt.Fprintf(&b, "Definition processor_replies_on_error : bool := %s.\n", undoflowB(repliesOnError))
	fmt.Fprintf(&b, "Definition status_ok : option N := %s.\n", strings.Trim(stOK, " "))
	fmt.Fprintf(&b, "Definition status_plain_error : option N := %s.\n", stPlain)
	fmt.Fprintf(&b, "Definition status_unretriable : option N := %s.\n", stUnretr)
	fmt.Fprintf(&b, "Definition status_other_seata_error : option N := %s.\n", stOther)
	if err := os.WriteFile(out, []byte(b.String()), 0o644); err != nil {
		fatal(err)
	}
}
