package main

// xlate fence (C06): reads pkg/rm/tcc/fence/handler/tcc_fence_wrapper_handler.go and
// pkg/rm/tcc/fence/fence_api.go from the repository's working tree and writes
// coq/Gen/FenceRules.v: the decision tables of PrepareFence / CommitFence /
// RollbackFence (which `if` on the record just read leads to refuse / skip the
// business / proceed / compare-and-set update / insert), the old status named by
// the compare-and-set, the phase dispatch of doFence and the shape of WithFence.
// Statements are matched on their printed, whitespace-normalised form; anything not
// matched becomes DUnknown "<text>" / WfUnknown "<text>", which the obligation
// C06_tables_recognised rejects.  Assumes: the handler methods are straight-line
// sequences of `if` statements ending in a return (log calls and := of xid /
// branchId / actionName are ignored).

import (
	"fmt"
	"go/ast"
	"go/parser"
	"go/token"
	"os"
	"path/filepath"
	"regexp"
	"strings"
)

func init() { translators["fence"] = xlateFence }

var (
	fenceStatusRe  = regexp.MustCompile(`^fenceDo\.Status == enum\.Status(\w+)$`)
	fenceUpdateRe  = regexp.MustCompile(`^return handler\.updateFenceStatus\(tx, xid, branchId, enum\.Status(\w+)\)$`)
	fenceInsertRe  = regexp.MustCompile(`^err :?= handler\.insertTCCFenceLog\(tx, xid, branchId, actionName, enum\.Status(\w+)\)$`)
	fenceErrorfRe  = regexp.MustCompile(`^return fmt\.Errorf\(`)
	fenceQueryRe   = regexp.MustCompile(`^fenceDo, err := handler\.tccFenceDao\.QueryTCCFenceDO\(tx, xid, branchId\)$`)
	fenceIgnoreRe  = regexp.MustCompile(`^(xid|branchId|actionName) := tm\.GetBusinessActionContext\(ctx\)\.\w+$|^log\.\w+\(`)
	fenceCasRe     = regexp.MustCompile(`^return handler\.tccFenceDao\.UpdateTCCFenceDO\(tx, xid, branchId, enum\.Status(\w+), status\)$`)
	fenceCaseRe    = regexp.MustCompile(`^enum\.FencePhase(\w+)$`)
	fenceHandlerRe = regexp.MustCompile(`^return hd\.(\w+)Fence\(ctx, tx\)$`)
)

var fenceStatusNames = map[string]bool{"Tried": true, "Committed": true, "Rollbacked": true, "Suspended": true}

func fenceStatus(s string) (string, bool) { return s, fenceStatusNames[s] }

// all returns below n (any depth) are `return fmt.Errorf(...)`
func fenceOnlyErrorReturns(fset *token.FileSet, n ast.Node) bool {
	ok, any := true, false
	ast.Inspect(n, func(x ast.Node) bool {
		if r, isRet := x.(*ast.ReturnStmt); isRet {
			any = true
			if !fenceErrorfRe.MatchString(printNode(fset, r)) {
				ok = false
			}
		}
		return true
	})
	return ok && any
}

func fenceIsErrGuard(fset *token.FileSet, st ast.Stmt) bool {
	ifs, ok := st.(*ast.IfStmt)
	if !ok || ifs.Init != nil || ifs.Else != nil {
		return false
	}
	return printNode(fset, ifs.Cond) == "err != nil" && fenceOnlyErrorReturns(fset, ifs.Body)
}

// decision of a statement list that ends the method (body of an `if`, or the tail of the method)
func fenceDecision(fset *token.FileSet, stmts []ast.Stmt) string {
	var rest []ast.Stmt
	for _, st := range stmts {
		if fenceIgnoreRe.MatchString(printNode(fset, st)) {
			continue
		}
		rest = append(rest, st)
	}
	text := func() string {
		var parts []string
		for _, st := range rest {
			parts = append(parts, printNode(fset, st))
		}
		return "DUnknown " + coqStr(strings.Join(parts, " ; "))
	}
	if len(rest) == 1 {
		t := printNode(fset, rest[0])
		switch {
		case fenceErrorfRe.MatchString(t):
			return "DRefuse"
		case t == "return ErrSkipBusiness":
			return "DSkip"
		case t == "return nil":
			return "DProceed"
		}
		if m := fenceUpdateRe.FindStringSubmatch(t); m != nil {
			if s, ok := fenceStatus(m[1]); ok {
				return "DUpdate " + s
			}
		}
		return text()
	}
	if len(rest) == 3 {
		if m := fenceInsertRe.FindStringSubmatch(printNode(fset, rest[0])); m != nil && fenceIsErrGuard(fset, rest[1]) {
			if s, ok := fenceStatus(m[1]); ok {
				switch printNode(fset, rest[2]) {
				case "return ErrSkipBusiness":
					return "DInsert " + s + " true"
				case "return nil":
					return "DInsert " + s + " false"
				}
			}
		}
	}
	return text()
}

func fenceCond(fset *token.FileSet, e ast.Expr) (string, bool) {
	t := printNode(fset, e)
	if t == "fenceDo == nil" {
		return "CNil", true
	}
	var names []string
	for _, part := range strings.Split(t, " || ") {
		m := fenceStatusRe.FindStringSubmatch(strings.TrimSpace(part))
		if m == nil {
			return "", false
		}
		s, ok := fenceStatus(m[1])
		if !ok {
			return "", false
		}
		names = append(names, s)
	}
	return "CStatus [" + strings.Join(names, "; ") + "]", true
}

// rules of one handler method
func fenceRules(fset *token.FileSet, fn *ast.FuncDecl, reads bool) []string {
	var rules []string
	unknown := func(st ast.Stmt) []string {
		return append(rules, "(CAny, DUnknown "+coqStr(printNode(fset, st))+")")
	}
	var body []ast.Stmt
	for _, st := range fn.Body.List {
		if fenceIgnoreRe.MatchString(printNode(fset, st)) {
			continue
		}
		body = append(body, st)
	}
	i := 0
	if reads {
		if len(body) < 2 || !fenceQueryRe.MatchString(printNode(fset, body[0])) || !fenceIsErrGuard(fset, body[1]) {
			return []string{"(CAny, DUnknown " + coqStr("the method does not start by reading the record and returning its error") + ")"}
		}
		i = 2
	}
	for ; i < len(body); i++ {
		st := body[i]
		if ifs, ok := st.(*ast.IfStmt); ok && reads {
			if ifs.Init != nil || ifs.Else != nil {
				return unknown(st)
			}
			c, ok := fenceCond(fset, ifs.Cond)
			if !ok {
				return unknown(st)
			}
			rules = append(rules, "("+c+", "+fenceDecision(fset, ifs.Body.List)+")")
			continue
		}
		// the tail: everything from here to the end is the default decision
		rules = append(rules, "(CAny, "+fenceDecision(fset, body[i:])+")")
		return rules
	}
	return append(rules, "(CAny, DUnknown "+coqStr("the method falls off its end")+")")
}

func xlateFence(repo, out string) {
	fset := token.NewFileSet()
	hfile := filepath.Join(repo, "pkg/rm/tcc/fence/handler/tcc_fence_wrapper_handler.go")
	afile := filepath.Join(repo, "pkg/rm/tcc/fence/fence_api.go")
	hf, err := parser.ParseFile(fset, hfile, nil, 0)
	if err != nil {
		fatal(err)
	}
	af, err := parser.ParseFile(fset, afile, nil, 0)
	if err != nil {
		fatal(err)
	}
	funcs := map[string]*ast.FuncDecl{}
	for _, f := range []*ast.File{hf, af} {
		for _, d := range f.Decls {
			if fn, ok := d.(*ast.FuncDecl); ok && fn.Body != nil {
				funcs[fn.Name.Name] = fn
			}
		}
	}
	var b strings.Builder
	b.WriteString("(* GENERATED by tools/xlate fence from pkg/rm/tcc/fence/handler/tcc_fence_wrapper_handler.go and\n   pkg/rm/tcc/fence/fence_api.go - do not edit *)\n")
	b.WriteString("From Coq Require Import List NArith String.\nFrom SeataV Require Import Fence.FenceRulesDef.\nImport ListNotations.\nOpen Scope string_scope.\n\n")
	for _, h := range []struct {
		def, fn string
		reads   bool
	}{{"gen_prepare", "PrepareFence", false}, {"gen_commit", "CommitFence", true}, {"gen_rollback", "RollbackFence", true}} {
		fn := funcs[h.fn]
		var rules []string
		if fn == nil {
			rules = []string{"(CAny, DUnknown " + coqStr("method "+h.fn+" not found") + ")"}
		} else if !h.reads {
			// PrepareFence: insert, on error refuse (every return of the error branch is an error), then nil
			var body []ast.Stmt
			for _, st := range fn.Body.List {
				if !fenceIgnoreRe.MatchString(printNode(fset, st)) {
					body = append(body, st)
				}
			}
			rules = []string{"(CAny, " + fenceDecision(fset, body) + ")"}
		} else {
			rules = fenceRules(fset, fn, true)
		}
		fmt.Fprintf(&b, "Definition %s : list rule :=\n  [%s].\n\n", h.def, strings.Join(rules, ";\n   "))
	}
	// compare-and-set
	cas := "None"
	if fn := funcs["updateFenceStatus"]; fn != nil && len(fn.Body.List) == 1 {
		if m := fenceCasRe.FindStringSubmatch(printNode(fset, fn.Body.List[0])); m != nil {
			if s, ok := fenceStatus(m[1]); ok {
				cas = "Some " + s
			}
		}
	}
	fmt.Fprintf(&b, "Definition gen_cas_old : option status := %s.\n\n", cas)
	// dispatch
	var disp []string
	codes := map[string]int{"Prepare": 1, "Commit": 2, "Rollback": 3}
	if fn := funcs["doFence"]; fn != nil {
		ast.Inspect(fn.Body, func(n ast.Node) bool {
			cc, ok := n.(*ast.CaseClause)
			if !ok || len(cc.List) != 1 || len(cc.Body) != 1 {
				return true
			}
			m := fenceCaseRe.FindStringSubmatch(printNode(fset, cc.List[0]))
			hm := fenceHandlerRe.FindStringSubmatch(printNode(fset, cc.Body[0]))
			if m != nil && hm != nil && codes[m[1]] != 0 && codes[hm[1]] != 0 {
				disp = append(disp, fmt.Sprintf("(%d, H%s)", codes[m[1]], hm[1]))
			}
			return true
		})
	}
	fmt.Fprintf(&b, "Definition gen_dispatch : list (N * hname) := [%s]%%N.\n\n", strings.Join(disp, "; "))
	// WithFence
	shape := "WfUnknown " + coqStr("WithFence not found")
	if fn := funcs["WithFence"]; fn != nil {
		var parts []string
		for _, st := range fn.Body.List {
			parts = append(parts, printNode(fset, st))
		}
		got := strings.Join(parts, " ; ")
		want := regexp.MustCompile(`^if err = doFence\(ctx, tx\); err != nil \{ if errors\.Is\(err, handler\.ErrSkipBusiness\) \{ return nil \} return err \} ; ` +
			`if err := callback\(\); err != nil \{ return fmt\.Errorf\(.*\[%w\]", callback, err\) \} ; return$`)
		if want.MatchString(got) {
			shape = "WfStandard"
		} else {
			shape = "WfUnknown " + coqStr(got)
		}
	}
	fmt.Fprintf(&b, "Definition gen_withfence : wfshape := %s.\n", shape)
	if err := os.WriteFile(out, []byte(b.String()), 0o644); err != nil {
		fatal(err)
	}
}
