package main

// lockset: translator of the C20 lock-discipline table (coq/Gen/LockSet.v).
//
// For every shared registry of the client (package-level variables declared in
// the anchor files of property C20 and the fields of the registry structs
// listed in lsStructs) it lists every access site in the declaring package
// with: read/write, plain/synchronised (method call on a sync.Map / sync.Once /
// mutex value, sync/atomic operation), the mutexes lexically held at the site
// (X.Lock()/X.RLock() ... X.Unlock()/X.RUnlock(), `defer X.Unlock()` keeps the
// lock to the end of the function; a sync.Once is a pseudo-lock: exclusive
// inside the closure passed to Do, shared after the Do call), and whether the
// enclosing function is init-only.
//
// TRUSTED CONFIGURATION (explicit, below): lsAnchors (files whose package-level
// variables are registries), lsStructs (registry struct types), lsInitRoots
// (entry points that run before any concurrent use: every `func init`,
// package-level initialisers, client.Init / client.InitPath).  A function is
// init-only iff it is a root, or it is referenced at least once and every
// reference is a direct call (not `go`, not a function value) from inside an
// init-only function; methods whose name is declared by some interface of the
// repository are never inferred init-only (they may be reached dynamically).
// Files with a `//go:build verif` constraint (verification hooks) and _test.go
// files are not part of the client and are skipped.
//
// Name resolution uses go/types with an importer that returns empty packages
// (offline; type errors about imported names are ignored): identifiers and
// field selections on package-local types resolve exactly, which is all the
// table needs.  Anything the walker does not recognise (lock call on an
// expression it cannot name, address of a plain registry, write through a
// pointer dereference, exported registry variable) becomes an `Unknown` row,
// which makes the well-formedness obligation fail.

import (
	"fmt"
	"go/ast"
	"go/parser"
	"go/token"
	"go/types"
	"os"
	"path/filepath"
	"sort"
	"strings"
)

func init() { translators["lockset"] = xlateLockset }

var lsAnchors = []string{
	"pkg/datasource/sql/datasource/base/meta_cache.go",
	"pkg/datasource/sql/datasource/datasource_manager.go",
	"pkg/datasource/sql/tx.go",
	"pkg/datasource/sql/undo/undo.go",
	"pkg/datasource/sql/undo/base/undo.go",
	"pkg/datasource/sql/exec/hook.go",
	"pkg/remoting/loadbalance/consistent_hash_loadbalance.go",
	"pkg/remoting/getty/session_manager.go",
	"pkg/rm/rm_cache.go",
}

// registry struct types: dir -> type names
var lsStructs = map[string][]string{
	"pkg/datasource/sql/datasource/base": {"BaseTableMetaCache", "entry"},
	"pkg/datasource/sql/datasource":      {"BasicSourceManager"},
	"pkg/datasource/sql/undo":            {"undoLogMgrHolder"},
	"pkg/remoting/loadbalance":           {"Consistent"},
	"pkg/remoting/getty":                 {"SessionManager"},
	"pkg/rm":                             {"ResourceManagerCache"},
}

// init-only roots besides `func init` and package-level initialisers
var lsInitRoots = map[string]bool{
	"pkg/client.Init":     true,
	"pkg/client.InitPath": true,
}

type lsGuard struct {
	name string
	excl bool
	base string // text of the receiver base for field locks ("" for package-level)
}

type lsRow struct {
	v, file, fn string
	line        int
	write       bool
	synced      bool
	guards      []lsGuard
	async       bool // inside a function literal that may run later / concurrently
	fnID        string
	unknown     string
}

type lsPkg struct {
	busy  bool
	dir   string
	files []*ast.File
	names []string
	info  *types.Info
	tpkg  *types.Package
}

type lsFakeImporter struct {
	m map[string]*types.Package
	s *lsState
}

const lsModPrefix = "seata.apache.org/seata-go/"

func (f *lsFakeImporter) Import(path string) (*types.Package, error) {
	if p, ok := f.m[path]; ok {
		return p, nil
	}
	// packages of the repository itself are type-checked from source (imports form a DAG), so
	// that calls, fields and variables resolve across the client's packages
	if f.s != nil && strings.HasPrefix(path, lsModPrefix) {
		if pk := f.s.pkgs[strings.TrimPrefix(path, lsModPrefix)]; pk != nil {
			if tp := f.s.checkPkg(f, pk); tp != nil {
				f.m[path] = tp
				return tp, nil
			}
		}
	}
	name := path
	if i := strings.LastIndex(path, "/"); i >= 0 {
		name = path[i+1:]
	}
	name = strings.ReplaceAll(name, "-", "_")
	if strings.HasPrefix(name, "v") && len(name) <= 3 { // .../v2
		parts := strings.Split(path, "/")
		if len(parts) >= 2 {
			name = parts[len(parts)-2]
		}
	}
	p := types.NewPackage(path, name)
	p.MarkComplete()
	f.m[path] = p
	return p, nil
}

func lsHasVerifTag(f *ast.File) bool {
	for _, cg := range f.Comments {
		if cg.Pos() > f.Package {
			break
		}
		for _, c := range cg.List {
			if strings.HasPrefix(c.Text, "//go:build") && strings.Contains(c.Text, "verif") {
				return true
			}
		}
	}
	return false
}

type lsState struct {
	repo    string
	fset    *token.FileSet
	pkgs    map[string]*lsPkg
	ifaceM  map[string]bool            // method names declared by interfaces
	funcs   map[string]*ast.FuncDecl   // id -> decl
	refs    map[string][]lsRef         // callee id -> references
	initFn  map[string]bool            // init-only functions
	regObj  map[types.Object]string    // registry object -> variable id
	regType map[types.Object]string    // declared type text
	fieldOf map[types.Object]string    // any struct field of the anchor packages -> "dir.Type.field"
	rows    []lsRow
	fns     map[string]*lsFn
	hcs     []lsHC
	byT     map[*types.Package]*lsPkg
	acqDirect map[string]map[string]bool // function -> resources (locks, pool) it acquires itself
	callsAll  map[string]map[string]bool // function -> every resolvable callee on the same goroutine
	oEdges    []lsEdge                   // held resource -> resource acquired directly under it
	oCalls    []lsOCall                  // calls made while resources are held
	anchorVar map[string]bool
	onceFn    map[string]string
	onceFnN   map[string]int
	nQuiet    int
	fieldIDs  map[string]bool
}

func (s *lsState) isField(id string) bool {
	if s.fieldIDs == nil {
		s.fieldIDs = map[string]bool{}
		for o, n := range s.regObj {
			if _, ok := s.fieldOf[o]; ok {
				s.fieldIDs[n] = true
			}
		}
	}
	return s.fieldIDs[id]
}

// lsFn: what one function does to locks ON THE GOROUTINE THAT CALLS IT: the locks it acquires
// itself (on its own receiver, or package-level ones) and the functions it calls (methods on
// its own receiver, package-level functions of its package)
type lsFn struct {
	name   string
	direct map[string]bool
	calls  map[string]bool
}

// lsHC: a call made while a lock is held, on the object the lock belongs to
type lsHC struct {
	fn     string
	line   int
	lock   string
	excl   bool
	callee string
}

func (s *lsState) fnRow(name string) *lsFn {
	if s.fns == nil {
		s.fns = map[string]*lsFn{}
	}
	f := s.fns[name]
	if f == nil {
		f = &lsFn{name: name, direct: map[string]bool{}, calls: map[string]bool{}}
		s.fns[name] = f
	}
	return f
}

type lsRef struct {
	from string
	call bool // direct call position, not go
}

func lsShort(dir string) string { return strings.TrimPrefix(dir, "pkg/") }

func (s *lsState) load() {
	s.pkgs = map[string]*lsPkg{}
	root := filepath.Join(s.repo, "pkg")
	filepath.Walk(root, func(p string, fi os.FileInfo, err error) error {
		if err != nil || fi.IsDir() {
			return nil
		}
		if !strings.HasSuffix(p, ".go") || strings.HasSuffix(p, "_test.go") {
			return nil
		}
		f, err := parser.ParseFile(s.fset, p, nil, parser.ParseComments)
		if err != nil {
			fatal(err)
		}
		if lsHasVerifTag(f) {
			return nil
		}
		rel, _ := filepath.Rel(s.repo, filepath.Dir(p))
		pk := s.pkgs[rel]
		if pk == nil {
			pk = &lsPkg{dir: rel}
			s.pkgs[rel] = pk
		}
		pk.files = append(pk.files, f)
		relf, _ := filepath.Rel(s.repo, p)
		pk.names = append(pk.names, relf)
		return nil
	})
	imp := &lsFakeImporter{m: map[string]*types.Package{}, s: s}
	s.byT = map[*types.Package]*lsPkg{}
	var dirs []string
	for d := range s.pkgs {
		dirs = append(dirs, d)
	}
	sort.Strings(dirs)
	for _, d := range dirs {
		s.checkPkg(imp, s.pkgs[d])
	}
}

func (s *lsState) checkPkg(imp *lsFakeImporter, pk *lsPkg) *types.Package {
	if pk.tpkg != nil || pk.busy {
		return pk.tpkg
	}
	pk.busy = true
	// a directory may hold several package clauses (e.g. external test helpers): keep the majority name
	cnt := map[string]int{}
	for _, f := range pk.files {
		cnt[f.Name.Name]++
	}
	best := ""
	for n, c := range cnt {
		if best == "" || c > cnt[best] || (c == cnt[best] && n < best) {
			best = n
		}
	}
	var fs []*ast.File
	var ns []string
	for i, f := range pk.files {
		if f.Name.Name == best {
			fs = append(fs, f)
			ns = append(ns, pk.names[i])
		}
	}
	pk.files, pk.names = fs, ns
	pk.info = &types.Info{
		Uses: map[*ast.Ident]types.Object{}, Defs: map[*ast.Ident]types.Object{},
		Selections: map[*ast.SelectorExpr]*types.Selection{}, Types: map[ast.Expr]types.TypeAndValue{},
	}
	cfg := types.Config{Importer: imp, Error: func(error) {}, FakeImportC: true, DisableUnusedImportCheck: true}
	pk.tpkg, _ = cfg.Check(lsModPrefix+pk.dir, s.fset, pk.files, pk.info)
	if pk.tpkg != nil {
		s.byT[pk.tpkg] = pk
	}
	return pk.tpkg
}

func (s *lsState) funcID(dir string, fd *ast.FuncDecl) string {
	r := recvName(fd)
	if r != "" {
		return dir + "." + r + "." + fd.Name.Name
	}
	return dir + "." + fd.Name.Name
}

func lsFuncName(fd *ast.FuncDecl) string {
	if r := recvName(fd); r != "" {
		return r + "." + fd.Name.Name
	}
	return fd.Name.Name
}

// objFuncID: id of a package-local function/method object
func (s *lsState) objFuncID(dir string, o types.Object) string {
	fn, ok := o.(*types.Func)
	if !ok {
		return ""
	}
	if opk := s.byT[o.Pkg()]; opk != nil {
		dir = opk.dir
	} else {
		return ""
	}
	sig, _ := fn.Type().(*types.Signature)
	if sig != nil && sig.Recv() != nil {
		t := sig.Recv().Type()
		if p, ok := t.(*types.Pointer); ok {
			t = p.Elem()
		}
		if n, ok := t.(*types.Named); ok {
			return dir + "." + n.Obj().Name() + "." + fn.Name()
		}
		return ""
	}
	return dir + "." + fn.Name()
}

func (s *lsState) collectFuncsAndRefs() {
	s.funcs = map[string]*ast.FuncDecl{}
	s.refs = map[string][]lsRef{}
	s.ifaceM = map[string]bool{}
	modPrefix := "seata.apache.org/seata-go/"
	for _, pk := range s.pkgs {
		for _, f := range pk.files {
			ast.Inspect(f, func(n ast.Node) bool {
				if it, ok := n.(*ast.InterfaceType); ok && it.Methods != nil {
					for _, m := range it.Methods.List {
						for _, nm := range m.Names {
							s.ifaceM[nm.Name] = true
						}
					}
				}
				return true
			})
			for _, d := range f.Decls {
				if fd, ok := d.(*ast.FuncDecl); ok {
					s.funcs[s.funcID(pk.dir, fd)] = fd
				}
			}
		}
	}
	for _, pk := range s.pkgs {
		for _, f := range pk.files {
			for _, d := range f.Decls {
				from := pk.dir + ".<pkginit>"
				var body ast.Node = d
				if fd, ok := d.(*ast.FuncDecl); ok {
					if fd.Body == nil {
						continue
					}
					from = s.funcID(pk.dir, fd)
					body = fd.Body
				}
				s.refsIn(pk, from, body)
			}
		}
	}
	_ = modPrefix
}

// refsIn records references to repository functions inside n
func (s *lsState) refsIn(pk *lsPkg, from string, n ast.Node) {
	modPrefix := "seata.apache.org/seata-go/"
	callFun := map[ast.Expr]bool{} // expressions in direct (non-go) call position
	goCall := map[*ast.CallExpr]bool{}
	async := map[ast.Node]bool{}
	ast.Inspect(n, func(x ast.Node) bool {
		switch v := x.(type) {
		case *ast.GoStmt:
			goCall[v.Call] = true
		case *ast.CallExpr:
			if !goCall[v] {
				fun := v.Fun
				for {
					if p, ok := fun.(*ast.ParenExpr); ok {
						fun = p.X
						continue
					}
					break
				}
				callFun[fun] = true
			}
		}
		return true
	})
	_ = async
	var walk func(x ast.Node, inAsync bool)
	walk = func(x ast.Node, inAsync bool) {
		ast.Inspect(x, func(y ast.Node) bool {
			switch v := y.(type) {
			case *ast.SelectorExpr:
				if id, ok := v.X.(*ast.Ident); ok {
					if pn, ok := pk.info.Uses[id].(*types.PkgName); ok {
						path := pn.Imported().Path()
						if strings.HasPrefix(path, modPrefix) {
							callee := strings.TrimPrefix(path, modPrefix) + "." + v.Sel.Name
							s.refs[callee] = append(s.refs[callee], lsRef{from, callFun[v] && !inAsync})
						}
						return false
					}
				}
				if o := pk.info.Uses[v.Sel]; o != nil {
					if id := s.objFuncID(pk.dir, o); id != "" {
						s.refs[id] = append(s.refs[id], lsRef{from, callFun[v] && !inAsync})
					}
				}
				// keep walking v.X
				walk(v.X, inAsync)
				return false
			case *ast.Ident:
				if o := pk.info.Uses[v]; o != nil && o.Pkg() == pk.tpkg {
					if id := s.objFuncID(pk.dir, o); id != "" {
						s.refs[id] = append(s.refs[id], lsRef{from, callFun[v] && !inAsync})
					}
				}
			case *ast.FuncLit:
				// a literal that is neither invoked on the spot nor handed to Once.Do may run later
				walk(v.Body, inAsync || !s.syncLit(n, v))
				return false
			}
			return true
		})
	}
	walk(n, false)
}

// syncLit: the literal is invoked immediately (func(){..}() not under go) or is the argument of X.Do(...)
func (s *lsState) syncLit(root ast.Node, lit *ast.FuncLit) bool {
	res := false
	goCalls := map[*ast.CallExpr]bool{}
	ast.Inspect(root, func(x ast.Node) bool {
		switch v := x.(type) {
		case *ast.GoStmt:
			goCalls[v.Call] = true
		case *ast.CallExpr:
			if v.Fun == ast.Expr(lit) && !goCalls[v] {
				res = true
			}
			if se, ok := v.Fun.(*ast.SelectorExpr); ok && se.Sel.Name == "Do" && len(v.Args) == 1 && v.Args[0] == ast.Expr(lit) && !goCalls[v] {
				res = true
			}
		}
		return true
	})
	return res
}

func (s *lsState) computeInit() {
	s.initFn = map[string]bool{}
	for id, fd := range s.funcs {
		if fd.Recv == nil && fd.Name.Name == "init" {
			s.initFn[id] = true
		}
		if lsInitRoots[id] {
			s.initFn[id] = true
		}
	}
	for _, pk := range s.pkgs {
		s.initFn[pk.dir+".<pkginit>"] = true
	}
	for changed := true; changed; {
		changed = false
		for id, fd := range s.funcs {
			if s.initFn[id] {
				continue
			}
			if fd.Recv != nil && s.ifaceM[fd.Name.Name] {
				continue
			}
			rs := s.refs[id]
			if len(rs) == 0 {
				continue
			}
			ok := true
			for _, r := range rs {
				if !r.call || !s.initFn[r.from] {
					ok = false
					break
				}
			}
			if ok {
				s.initFn[id] = true
				changed = true
			}
		}
	}
}

func lsTypeText(fset *token.FileSet, e ast.Expr) string { return printNode(fset, e) }

func lsSyncValue(t string) bool {
	switch t {
	case "sync.Map", "sync.Once", "sync.Mutex", "sync.RWMutex", "sync.WaitGroup", "sync.Pool",
		"atomic.Int32", "atomic.Int64", "atomic.Uint32", "atomic.Uint64", "atomic.Bool", "atomic.Value":
		return true
	}
	return false
}

func (s *lsState) collectRegistries() {
	s.regObj = map[types.Object]string{}
	s.regType = map[types.Object]string{}
	s.fieldOf = map[types.Object]string{}
	s.anchorVar = map[string]bool{}
	anchor := map[string]bool{}
	for _, a := range lsAnchors {
		anchor[a] = true
	}
	for _, pk := range s.pkgs {
		structs := map[string]bool{}
		for _, n := range lsStructs[pk.dir] {
			structs[n] = true
		}
		for i, f := range pk.files {
			isAnchor := anchor[pk.names[i]]
			for _, d := range f.Decls {
				gd, ok := d.(*ast.GenDecl)
				if !ok {
					continue
				}
				for _, sp := range gd.Specs {
					switch v := sp.(type) {
					case *ast.ValueSpec:
						if gd.Tok != token.VAR {
							continue
						}
						for k, nm := range v.Names {
							o := pk.info.Defs[nm]
							if o == nil || nm.Name == "_" {
								continue
							}
							tt := ""
							if v.Type != nil {
								tt = lsTypeText(s.fset, v.Type)
							} else if k < len(v.Values) {
								switch lv := v.Values[k].(type) {
								case *ast.CompositeLit: // `sync.Map{}` / `sync.Pool{New: ...}` / `map[..]..{}`: the literal's type
									tt = lsTypeText(s.fset, lv.Type)
								case *ast.UnaryExpr:
									if cl, ok := lv.X.(*ast.CompositeLit); ok && lv.Op == token.AND { // `&sync.Once{}`
										tt = "*" + lsTypeText(s.fset, cl.Type)
									} else {
										tt = lsTypeText(s.fset, lv)
									}
								default:
									tt = lsTypeText(s.fset, lv)
								}
							}
							s.regType[o] = tt
							// EVERY package-level variable of the client is a shared object; the ones declared
							// in the anchor files of the property are always listed, the others only when some
							// function that is not init-only writes them (or what they point to)
							id := lsShort(pk.dir) + "." + nm.Name
							s.regObj[o] = id
							if isAnchor {
								s.anchorVar[id] = true
							}
						}
					case *ast.TypeSpec:
						st, ok := v.Type.(*ast.StructType)
						if !ok {
							continue
						}
						for _, fl := range st.Fields.List {
							tt := lsTypeText(s.fset, fl.Type)
							if len(fl.Names) == 0 { // embedded
								if tn := pk.info.Defs[v.Name]; tn != nil {
									if named, ok := tn.Type().(*types.Named); ok {
										if stt, ok := named.Underlying().(*types.Struct); ok {
											for k := 0; k < stt.NumFields(); k++ {
												fo := stt.Field(k)
												if fo.Embedded() && fo.Pos() == fl.Type.Pos() || fo.Embedded() && strings.HasSuffix(tt, fo.Name()) {
													s.regType[fo] = tt
													s.fieldOf[fo] = lsShort(pk.dir) + "." + v.Name.Name + "." + fo.Name()
													if structs[v.Name.Name] {
														s.regObj[fo] = s.fieldOf[fo]
													}
												}
											}
										}
									}
								}
								continue
							}
							for _, nm := range fl.Names {
								o := pk.info.Defs[nm]
								if o == nil {
									continue
								}
								s.regType[o] = tt
								s.fieldOf[o] = lsShort(pk.dir) + "." + v.Name.Name + "." + nm.Name
								if structs[v.Name.Name] {
									s.regObj[o] = s.fieldOf[o]
								}
							}
						}
					}
				}
			}
		}
	}
}

// ---- walker of one function body

type lsWalker struct {
	s     *lsState
	pk    *lsPkg
	file  string
	fn    string
	fnID  string
	rows  []lsRow
	nAcc  int
	async bool
	pend  []lsRow // Unknown rows about locks, kept only if the function touches a registry
	recv  string  // name of the method receiver ("" for a plain function)
	conns map[string]bool // local variables holding a pooled connection
	alias map[types.Object]lsAlias // local variables that share the backing store of a registry slice/map
}

type lsAlias struct{ id, base string }

type lsEdge struct {
	from, to, fn string
	line         int
}

type lsOCall struct {
	held   []string
	callee string
	fn     string
	line   int
}

const lsPool = "pool:sql.DB"

func lsSet(m map[string]map[string]bool, k string) map[string]bool {
	if m[k] == nil {
		m[k] = map[string]bool{}
	}
	return m[k]
}

// orderHeld: the resources in `held` that take part in the wait-for graph (a Once that has
// merely completed is not held)
func orderHeld(held lsHeld) []string {
	var out []string
	for _, g := range held {
		if strings.HasPrefix(g.name, "once:") && !g.excl {
			continue
		}
		out = append(out, g.name)
	}
	return out
}

// takes: resource r is acquired here, directly, with `held` held
func (w *lsWalker) takes(pos token.Pos, r string, held lsHeld) {
	me := lsShort(w.pk.dir) + "." + w.fn
	if !w.async {
		lsSet(w.s.acqDirect, me)[r] = true
	}
	for _, h := range orderHeld(held) {
		w.s.oEdges = append(w.s.oEdges, lsEdge{h, r, me, w.s.fset.Position(pos).Line})
	}
}

// isPoolAcquire: X.Conn(arg) - a pooled connection is taken from a *sql.DB
func lsIsPoolAcquire(c *ast.CallExpr) bool {
	se, ok := c.Fun.(*ast.SelectorExpr)
	return ok && se.Sel.Name == "Conn" && len(c.Args) == 1
}

type lsHeld []lsGuard

func (h lsHeld) copy() lsHeld { return append(lsHeld{}, h...) }

func (h lsHeld) add(g lsGuard) lsHeld {
	for i, x := range h {
		if x.name == g.name && x.base == g.base {
			n := h.copy()
			n[i].excl = x.excl || g.excl
			return n
		}
	}
	return append(h.copy(), g)
}

func (h lsHeld) del(name, base string) lsHeld {
	var n lsHeld
	for _, x := range h {
		if !(x.name == name && x.base == base) {
			n = append(n, x)
		}
	}
	return n
}

func lsMeet(a, b lsHeld) lsHeld {
	var n lsHeld
	for _, x := range a {
		for _, y := range b {
			if x.name == y.name && x.base == y.base {
				n = append(n, lsGuard{x.name, x.excl && y.excl, x.base})
			}
		}
	}
	return n
}

// lockName: canonical name of the mutex / once designated by expression x
func (w *lsWalker) lockName(x ast.Expr) (name, base string, ok bool) {
	switch v := x.(type) {
	case *ast.ParenExpr:
		return w.lockName(v.X)
	case *ast.Ident:
		o := w.pk.info.Uses[v]
		if vr, isv := o.(*types.Var); isv && vr.Pkg() == w.pk.tpkg && vr.Parent() == w.pk.tpkg.Scope() {
			return lsShort(w.pk.dir) + "." + v.Name, "", true
		}
		// a local value of a struct type embedding a mutex
		return w.embeddedLock(x)
	case *ast.SelectorExpr:
		if sel := w.pk.info.Selections[v]; sel != nil {
			if f, isf := sel.Obj().(*types.Var); isf && f.IsField() {
				if n, has := w.s.fieldOf[f]; has {
					return n, printNode(w.s.fset, v.X), true
				}
			}
		}
		return w.embeddedLock(x)
	}
	return "", "", false
}

func (w *lsWalker) embeddedLock(x ast.Expr) (string, string, bool) {
	tv, has := w.pk.info.Types[x]
	if !has || tv.Type == nil {
		return "", "", false
	}
	t := tv.Type
	if p, ok := t.(*types.Pointer); ok {
		t = p.Elem()
	}
	n, ok := t.(*types.Named)
	if !ok {
		return "", "", false
	}
	st, ok := n.Underlying().(*types.Struct)
	if !ok {
		return "", "", false
	}
	for i := 0; i < st.NumFields(); i++ {
		f := st.Field(i)
		if f.Embedded() && (f.Name() == "Mutex" || f.Name() == "RWMutex") {
			if nm, has := w.s.fieldOf[f]; has {
				return nm, printNode(w.s.fset, x), true
			}
			return lsShort(w.pk.dir) + "." + n.Obj().Name() + "." + f.Name(), printNode(w.s.fset, x), true
		}
	}
	return "", "", false
}

func (w *lsWalker) unknown(pos token.Pos, text string, pending bool) {
	r := lsRow{v: "?", file: w.file, fn: w.fn, fnID: w.fnID, line: w.s.fset.Position(pos).Line, unknown: text}
	if pending {
		w.pend = append(w.pend, r)
	} else {
		w.rows = append(w.rows, r)
	}
}

// lockOp: is the call X.Lock()/RLock()/Unlock()/RUnlock() ?
func (w *lsWalker) lockOp(c *ast.CallExpr) (op string, x ast.Expr) {
	se, ok := c.Fun.(*ast.SelectorExpr)
	if !ok || len(c.Args) != 0 {
		return "", nil
	}
	switch se.Sel.Name {
	case "Lock", "RLock", "Unlock", "RUnlock":
		return se.Sel.Name, se.X
	}
	return "", nil
}

func (w *lsWalker) block(list []ast.Stmt, held lsHeld) (lsHeld, bool) {
	for _, st := range list {
		var term bool
		held, term = w.stmt(st, held)
		if term {
			return held, true
		}
	}
	return held, false
}

func (w *lsWalker) stmt(st ast.Stmt, held lsHeld) (lsHeld, bool) {
	switch v := st.(type) {
	case nil:
		return held, false
	case *ast.ExprStmt:
		if c, ok := v.X.(*ast.CallExpr); ok {
			if op, x := w.lockOp(c); op != "" {
				w.expr(x, held, true) // the mutex itself is a synchronised object
				name, base, ok := w.lockName(x)
				if !ok {
					w.unknown(c.Pos(), "lock operation on an expression that cannot be named: "+printNode(w.s.fset, c), true)
					return held, false
				}
				if op == "Lock" || op == "RLock" {
					w.acquire(c.Pos(), name, base, held)
				}
				switch op {
				case "Lock":
					return held.add(lsGuard{name, true, base}), false
				case "RLock":
					return held.add(lsGuard{name, false, base}), false
				default:
					return held.del(name, base), false
				}
			}
			if name, ok := w.onceDo(c); ok {
				w.acquire(c.Pos(), name, "", held)
				se := c.Fun.(*ast.SelectorExpr)
				w.expr(se.X, held, true)
				lit, isLit := c.Args[0].(*ast.FuncLit)
				if !isLit {
					// Do(f): f is walked as a declaration, under the Once when this is its only use
					return held.add(lsGuard{name, false, ""}), false
				}
				w.block(lit.Body.List, held.add(lsGuard{name, true, ""}))
				return held.add(lsGuard{name, false, ""}), false
			}
			if id, ok := c.Fun.(*ast.Ident); ok && id.Name == "panic" {
				w.expr(v.X, held, false)
				return held, true
			}
			if se, ok := c.Fun.(*ast.SelectorExpr); ok && se.Sel.Name == "Close" && len(c.Args) == 0 {
				if id, ok := se.X.(*ast.Ident); ok && w.conns[id.Name] {
					return held.del(lsPool, ""), false // the connection goes back to its pool
				}
			}
		}
		w.expr(v.X, held, false)
		return held, false
	case *ast.AssignStmt:
		for _, r := range v.Rhs {
			w.expr(r, held, false)
		}
		for _, l := range v.Lhs {
			w.lhs(l, held)
		}
		if len(v.Rhs) == 1 && len(v.Lhs) == 2 {
			if c, ok := v.Rhs[0].(*ast.CallExpr); ok && lsIsPoolAcquire(c) {
				if id, ok := v.Lhs[0].(*ast.Ident); ok {
					w.takes(c.Pos(), lsPool, held)
					w.conns[id.Name] = true
					return held.add(lsGuard{lsPool, true, ""}), false
				}
			}
		}
		if len(v.Lhs) == len(v.Rhs) {
			for i := range v.Lhs {
				id, ok := v.Lhs[i].(*ast.Ident)
				if !ok {
					continue
				}
				lo := w.pk.info.Defs[id]
				if lo == nil {
					lo = w.pk.info.Uses[id]
				}
				if lo == nil || lo.Parent() == nil || lo.Parent() == lo.Pkg().Scope() {
					continue
				}
				if a, ok := w.aliasOf(v.Rhs[i]); ok {
					w.alias[lo] = a
				} else {
					delete(w.alias, lo)
				}
			}
		}
		return held, false
	case *ast.IncDecStmt:
		w.lhs(v.X, held)
		return held, false
	case *ast.DeclStmt:
		ast.Inspect(v, func(n ast.Node) bool {
			if vs, ok := n.(*ast.ValueSpec); ok {
				for _, e := range vs.Values {
					w.expr(e, held, false)
				}
				return false
			}
			return true
		})
		return held, false
	case *ast.ReturnStmt:
		for _, r := range v.Results {
			w.expr(r, held, false)
		}
		return held, true
	case *ast.GoStmt:
		w.call(v.Call, held, true)
		return held, false
	case *ast.DeferStmt:
		if op, x := w.lockOp(v.Call); op == "Unlock" || op == "RUnlock" {
			w.expr(x, held, true)
			return held, false // stays held to the end of the function
		}
		if lit, ok := v.Call.Fun.(*ast.FuncLit); ok {
			// runs at function exit: locks held there are not known lexically
			sub := *w
			sub.rows, sub.pend = nil, nil
			sub.block(lit.Body.List, nil)
			w.rows = append(w.rows, sub.rows...)
			w.pend = append(w.pend, sub.pend...)
			w.nAcc += sub.nAcc - w.nAcc
			for _, a := range v.Call.Args {
				w.expr(a, held, false)
			}
			return held, false
		}
		w.call(v.Call, nil, false)
		return held, false
	case *ast.SendStmt:
		w.expr(v.Chan, held, false)
		w.expr(v.Value, held, false)
		return held, false
	case *ast.BlockStmt:
		return w.block(v.List, held)
	case *ast.LabeledStmt:
		return w.stmt(v.Stmt, held)
	case *ast.IfStmt:
		held, _ = w.stmt(v.Init, held)
		w.expr(v.Cond, held, false)
		h1, t1 := w.block(v.Body.List, held.copy())
		h2, t2 := held, false
		if v.Else != nil {
			h2, t2 = w.stmt(v.Else, held.copy())
		}
		switch {
		case t1 && t2:
			return held, true
		case t1:
			return h2, false
		case t2:
			return h1, false
		}
		return lsMeet(h1, h2), false
	case *ast.ForStmt:
		held, _ = w.stmt(v.Init, held)
		if v.Cond != nil {
			w.expr(v.Cond, held, false)
		}
		h1, _ := w.block(v.Body.List, held.copy())
		w.stmt(v.Post, h1)
		return lsMeet(held, h1), false
	case *ast.RangeStmt:
		w.expr(v.X, held, false)
		if v.Tok == token.ASSIGN {
			if v.Key != nil {
				w.lhs(v.Key, held)
			}
			if v.Value != nil {
				w.lhs(v.Value, held)
			}
		}
		h1, _ := w.block(v.Body.List, held.copy())
		return lsMeet(held, h1), false
	case *ast.SwitchStmt:
		held, _ = w.stmt(v.Init, held)
		if v.Tag != nil {
			w.expr(v.Tag, held, false)
		}
		return w.clauses(v.Body, held), false
	case *ast.TypeSwitchStmt:
		held, _ = w.stmt(v.Init, held)
		w.stmt(v.Assign, held)
		return w.clauses(v.Body, held), false
	case *ast.SelectStmt:
		return w.clauses(v.Body, held), false
	case *ast.BranchStmt, *ast.EmptyStmt:
		return held, false
	}
	w.unknown(st.Pos(), "statement form not handled: "+fmt.Sprintf("%T", st), true)
	return held, false
}

// acquire: this function takes lock `name` itself, on the goroutine that runs it (not in a
// closure started with go / kept as a value).  Only locks of the function's own receiver and
// package-level locks are attributed to it.  Taking a lock that is already held lexically is
// recorded as a call, under that lock, of a synthetic function that acquires it.
func (w *lsWalker) acquire(pos token.Pos, name, base string, held lsHeld) {
	w.takes(pos, name, held)
	if w.async {
		return
	}
	me := lsShort(w.pk.dir) + "." + w.fn
	if base == "" || base == w.recv {
		w.s.fnRow(me).direct[name] = true
	}
	for _, g := range held {
		if g.name == name && g.base == base && (!strings.HasPrefix(name, "once:") || g.excl) {
			line := w.s.fset.Position(pos).Line
			syn := fmt.Sprintf("%s$relock@%d", me, line)
			w.s.fnRow(syn).direct[name] = true
			w.s.hcs = append(w.s.hcs, lsHC{fn: me, line: line, lock: name, excl: g.excl, callee: syn})
		}
	}
}

// calleeOf: the package-local function a call designates and the text of its receiver
// expression ("" for a plain function); ok=false for anything else
func (w *lsWalker) calleeOf(c *ast.CallExpr) (id, recvText string, ok bool) {
	switch f := c.Fun.(type) {
	case *ast.Ident:
		if o, isf := w.pk.info.Uses[f].(*types.Func); isf {
			if fid := w.s.objFuncID(w.pk.dir, o); fid != "" {
				return lsShort(fid), "", true
			}
		}
	case *ast.SelectorExpr:
		if o, isf := w.pk.info.Uses[f.Sel].(*types.Func); isf {
			if fid := w.s.objFuncID(w.pk.dir, o); fid != "" {
				if sig, _ := o.Type().(*types.Signature); sig != nil && sig.Recv() != nil {
					return lsShort(fid), printNode(w.s.fset, f.X), true
				}
				return lsShort(fid), "", true // function of another package of the repository
			}
		}
	}
	return "", "", false
}

// noteCall: a call on the current goroutine (not `go`): edge of the same-object call graph and,
// when a lock of that object (or a package-level lock) is held, a held-call row
func (w *lsWalker) noteCall(c *ast.CallExpr, held lsHeld) {
	if w.async {
		return
	}
	callee, rt, ok := w.calleeOf(c)
	if !ok {
		return
	}
	me := lsShort(w.pk.dir) + "." + w.fn
	if rt == "" || rt == w.recv {
		w.s.fnRow(me).calls[callee] = true
	}
	lsSet(w.s.callsAll, me)[callee] = true
	if oh := orderHeld(held); len(oh) > 0 {
		w.s.oCalls = append(w.s.oCalls, lsOCall{oh, callee, me, w.s.fset.Position(c.Pos()).Line})
	}
	for _, g := range held {
		if g.name == lsPool || (strings.HasPrefix(g.name, "once:") && !g.excl) {
			continue
		}
		if g.base == "" || (rt != "" && g.base == rt) {
			w.s.hcs = append(w.s.hcs, lsHC{fn: me, line: w.s.fset.Position(c.Pos()).Line, lock: g.name, excl: g.excl, callee: callee})
		}
	}
}

func (w *lsWalker) clauses(b *ast.BlockStmt, held lsHeld) lsHeld {
	out := held
	for _, c := range b.List {
		var body []ast.Stmt
		switch cc := c.(type) {
		case *ast.CaseClause:
			for _, e := range cc.List {
				w.expr(e, held, false)
			}
			body = cc.Body
		case *ast.CommClause:
			w.stmt(cc.Comm, held.copy())
			body = cc.Body
		}
		h, t := w.block(body, held.copy())
		if !t {
			out = lsMeet(out, h)
		}
	}
	return out
}

// onceFuncArg: X.Do(f) with f a function of this package: f's body runs inside the Once
func (w *lsWalker) onceFuncArg(c *ast.CallExpr) (string, bool) {
	if len(c.Args) != 1 {
		return "", false
	}
	id, ok := c.Args[0].(*ast.Ident)
	if !ok {
		return "", false
	}
	if o, isf := w.pk.info.Uses[id].(*types.Func); isf && o.Pkg() == w.pk.tpkg {
		if fid := w.s.objFuncID(w.pk.dir, o); fid != "" {
			return fid, true
		}
	}
	return "", false
}

func (w *lsWalker) onceDo(c *ast.CallExpr) (string, bool) {
	se, ok := c.Fun.(*ast.SelectorExpr)
	if !ok || se.Sel.Name != "Do" || len(c.Args) != 1 {
		return "", false
	}
	if _, ok := c.Args[0].(*ast.FuncLit); !ok {
		if _, ok := w.onceFuncArg(c); !ok {
			return "", false
		}
	}
	var o types.Object
	switch x := se.X.(type) {
	case *ast.Ident:
		o = w.pk.info.Uses[x]
	case *ast.SelectorExpr:
		if sel := w.pk.info.Selections[x]; sel != nil {
			o = sel.Obj()
		}
	}
	if o == nil {
		return "", false
	}
	t := w.s.regType[o]
	if t != "sync.Once" && t != "*sync.Once" {
		return "", false
	}
	if n, has := w.s.fieldOf[o]; has {
		// a per-object once orders only accesses to that object: not used as a pseudo-lock
		_ = n
		return "", false
	}
	return "once:" + lsShort(w.pk.dir) + "." + o.Name(), true
}

// regOf: the registry designated by expression e (identifier or field selection), with the base text
func (w *lsWalker) regOf(e ast.Expr) (id string, o types.Object, base string) {
	switch v := e.(type) {
	case *ast.Ident:
		if ob := w.pk.info.Uses[v]; ob != nil {
			if id, ok := w.s.regObj[ob]; ok {
				return id, ob, ""
			}
		}
	case *ast.SelectorExpr:
		if sel := w.pk.info.Selections[v]; sel != nil {
			if id, ok := w.s.regObj[sel.Obj()]; ok {
				return id, sel.Obj(), printNode(w.s.fset, v.X)
			}
		}
		if x, ok := v.X.(*ast.Ident); ok {
			if _, isPkg := w.pk.info.Uses[x].(*types.PkgName); isPkg {
				if ob := w.pk.info.Uses[v.Sel]; ob != nil {
					if id, ok := w.s.regObj[ob]; ok {
						return id, ob, ""
					}
				}
			}
		}
	}
	return "", nil, ""
}

func lsOwner(name string) string {
	if i := strings.LastIndex(name, "."); i >= 0 {
		return name[:i]
	}
	return name
}

func (w *lsWalker) record(pos token.Pos, id string, base string, write, synced bool, held lsHeld) {
	var gs []lsGuard
	for _, g := range held {
		if g.name == lsPool {
			continue // holding a pooled connection orders nothing
		}
		// a field lock guards the fields of the SAME object only (receiver texts must agree);
		// fields of another struct type (cache entries owned by the locked container) accept it
		if g.base == "" || g.base == base || lsOwner(g.name) != lsOwner(id) {
			gs = append(gs, g)
		}
	}
	sort.Slice(gs, func(i, j int) bool { return gs[i].name < gs[j].name })
	w.nAcc++
	w.rows = append(w.rows, lsRow{v: id, file: w.file, fn: w.fn, fnID: w.fnID, line: w.s.fset.Position(pos).Line,
		write: write, synced: synced, guards: gs, async: w.async})
}

func lsSliceOrMap(o types.Object) bool {
	if o == nil || o.Type() == nil {
		return false
	}
	switch o.Type().Underlying().(type) {
	case *types.Slice, *types.Map:
		return true
	}
	return false
}

// aliasOf: does evaluating e yield a value that shares the backing store of a registry slice or
// map?  The registry itself (or an element of it that is a slice/map), a re-slice of it, a local
// alias, or append(alias, ...) whose result may still live in the shared array.
func (w *lsWalker) aliasOf(e ast.Expr) (lsAlias, bool) {
	switch v := e.(type) {
	case *ast.ParenExpr:
		return w.aliasOf(v.X)
	case *ast.Ident:
		if o := w.pk.info.Uses[v]; o != nil {
			if a, ok := w.alias[o]; ok {
				return a, true
			}
		}
		if id, o, base := w.regOf(v); id != "" && lsSliceOrMap(o) {
			return lsAlias{id, base}, true
		}
	case *ast.SelectorExpr:
		if id, o, base := w.regOf(v); id != "" && lsSliceOrMap(o) {
			return lsAlias{id, base}, true
		}
	case *ast.SliceExpr:
		return w.aliasOf(v.X)
	case *ast.IndexExpr:
		// an element of a registry map/slice that is itself a slice or a map
		if tv, ok := w.pk.info.Types[e]; ok && tv.Type != nil {
			switch tv.Type.Underlying().(type) {
			case *types.Slice, *types.Map:
				return w.aliasOf(v.X)
			}
		}
	case *ast.CallExpr:
		if id, ok := v.Fun.(*ast.Ident); ok && id.Name == "append" && len(v.Args) > 0 {
			if w.pk.info.Uses[id] == nil || w.pk.info.Uses[id].Pkg() == nil {
				return w.aliasOf(v.Args[0])
			}
		}
	}
	return lsAlias{}, false
}

// rootVar: the package-level variable at the root of a selector / index / dereference chain
func (w *lsWalker) rootVar(e ast.Expr) (string, bool) {
	for {
		switch v := e.(type) {
		case *ast.ParenExpr:
			e = v.X
		case *ast.StarExpr:
			e = v.X
		case *ast.IndexExpr:
			e = v.X
		case *ast.SelectorExpr:
			if id, o, base := w.regOf(v); id != "" {
				if _, isField := w.s.fieldOf[o]; !isField && base == "" {
					return id, true
				}
				return "", false
			}
			e = v.X
		case *ast.Ident:
			if id, o, base := w.regOf(v); id != "" {
				if _, isField := w.s.fieldOf[o]; !isField && base == "" {
					return id, true
				}
			}
			return "", false
		default:
			return "", false
		}
	}
}

// lhs: e is assigned to
func (w *lsWalker) lhs(e ast.Expr, held lsHeld) {
	switch v := e.(type) {
	case *ast.ParenExpr:
		w.lhs(v.X, held)
		return
	case *ast.IndexExpr:
		w.expr(v.Index, held, false)
		if id, _, base := w.regOf(v.X); id != "" {
			w.record(v.X.Pos(), id, base, true, false, held)
			if se, ok := v.X.(*ast.SelectorExpr); ok {
				w.expr(se.X, held, false)
			}
			return
		}
		if a, ok := w.aliasOf(v.X); ok {
			// an element is stored through a local alias of the registry's backing store
			w.record(v.X.Pos(), a.id, a.base, true, false, held)
		} else if id, ok := w.rootVar(v.X); ok {
			w.record(v.X.Pos(), id, "", true, false, held) // what the package-level variable points to is mutated
		}
		w.expr(v.X, held, false)
		return
	case *ast.StarExpr:
		if id, _, _ := w.regOf(v.X); id != "" {
			w.unknown(e.Pos(), "write through a dereferenced registry: "+printNode(w.s.fset, e), false)
		}
		w.expr(v.X, held, false)
		return
	case *ast.Ident, *ast.SelectorExpr:
		if id, _, base := w.regOf(e); id != "" {
			w.record(e.Pos(), id, base, true, false, held)
			if se, ok := e.(*ast.SelectorExpr); ok {
				w.expr(se.X, held, false)
			}
			return
		}
		if se, ok := e.(*ast.SelectorExpr); ok {
			if id, ok := w.rootVar(se.X); ok {
				w.record(se.X.Pos(), id, "", true, false, held) // a field of what the package-level variable holds / points to
			}
			w.expr(se.X, held, false)
		}
		return
	}
	w.expr(e, held, false)
}

var lsAtomicWrite = map[string]bool{"AddInt32": true, "AddInt64": true, "AddUint32": true, "AddUint64": true,
	"StoreInt32": true, "StoreInt64": true, "StoreUint32": true, "StoreUint64": true, "StorePointer": true,
	"SwapInt32": true, "SwapInt64": true, "CompareAndSwapInt32": true, "CompareAndSwapInt64": true,
	"CompareAndSwapUint32": true, "CompareAndSwapUint64": true}
var lsAtomicRead = map[string]bool{"LoadInt32": true, "LoadInt64": true, "LoadUint32": true, "LoadUint64": true, "LoadPointer": true}

func (w *lsWalker) call(c *ast.CallExpr, held lsHeld, isGo bool) {
	if !isGo {
		w.noteCall(c, held)
	}
	// append(x, ...) where x shares the backing store of a registry slice writes into that
	// store whenever it has spare capacity: a WRITE to the registry, whatever the result is
	// assigned to (a copy made first - make + append(copy, x...) - is not an alias)
	if id, ok := c.Fun.(*ast.Ident); ok && id.Name == "append" && len(c.Args) > 1 {
		if w.pk.info.Uses[id] == nil || w.pk.info.Uses[id].Pkg() == nil {
			if a, ok := w.aliasOf(c.Args[0]); ok {
				w.record(c.Args[0].Pos(), a.id, a.base, true, false, held)
			}
		}
	}
	// builtins that write their first argument
	if id, ok := c.Fun.(*ast.Ident); ok && (id.Name == "delete" || id.Name == "copy" || id.Name == "clear") && len(c.Args) > 0 {
		if w.pk.info.Uses[id] == nil || w.pk.info.Uses[id].Pkg() == nil {
			w.lhsTouch(c.Args[0], held)
			for _, a := range c.Args[1:] {
				w.expr(a, held, false)
			}
			return
		}
	}
	// sync/atomic on &registry
	if se, ok := c.Fun.(*ast.SelectorExpr); ok {
		if pid, ok := se.X.(*ast.Ident); ok {
			if pn, ok := w.pk.info.Uses[pid].(*types.PkgName); ok && pn.Imported().Path() == "sync/atomic" &&
				(lsAtomicWrite[se.Sel.Name] || lsAtomicRead[se.Sel.Name]) && len(c.Args) > 0 {
				if u, ok := c.Args[0].(*ast.UnaryExpr); ok && u.Op == token.AND {
					if id, _, base := w.regOf(u.X); id != "" {
						w.record(u.X.Pos(), id, base, lsAtomicWrite[se.Sel.Name], true, held)
						if s2, ok := u.X.(*ast.SelectorExpr); ok {
							w.expr(s2.X, held, false)
						}
						for _, a := range c.Args[1:] {
							w.expr(a, held, false)
						}
						return
					}
				}
			}
		}
		// method call on a registry that is a synchronised value (sync.Map, sync.Once, mutex)
		if id, o, base := w.regOf(se.X); id != "" && lsSyncValue(w.s.regType[o]) {
			w.record(se.X.Pos(), id, base, true, true, held)
			if s2, ok := se.X.(*ast.SelectorExpr); ok {
				w.expr(s2.X, held, false)
			}
			for _, a := range c.Args {
				w.expr(a, held, false)
			}
			return
		}
	}
	if !isGo && lsSyncCallee(c) {
		w.expr(c.Fun, held, false)
		for _, a := range c.Args {
			if lit, ok := a.(*ast.FuncLit); ok {
				sub := *w
				sub.rows, sub.pend = nil, nil
				sub.block(lit.Body.List, held.copy())
				w.rows = append(w.rows, sub.rows...)
				w.pend = append(w.pend, sub.pend...)
				w.nAcc = sub.nAcc
			} else {
				w.expr(a, held, false)
			}
		}
		return
	}
	if lit, ok := c.Fun.(*ast.FuncLit); ok {
		sub := *w
		sub.rows, sub.pend = nil, nil
		if isGo {
			sub.async = true
			sub.block(lit.Body.List, nil)
		} else {
			sub.block(lit.Body.List, held.copy())
		}
		w.rows = append(w.rows, sub.rows...)
		w.pend = append(w.pend, sub.pend...)
		w.nAcc = sub.nAcc
	} else {
		w.expr(c.Fun, held, false)
	}
	for _, a := range c.Args {
		w.expr(a, held, false)
	}
}

// lsSyncCallee: callees known to run a closure argument synchronously, before they return
// (trusted list): sort.Slice / sort.SliceStable / sort.Search, and the Range method of sync.Map
func lsSyncCallee(c *ast.CallExpr) bool {
	se, ok := c.Fun.(*ast.SelectorExpr)
	if !ok {
		return false
	}
	if id, ok := se.X.(*ast.Ident); ok && id.Name == "sort" {
		switch se.Sel.Name {
		case "Slice", "SliceStable", "Search":
			return true
		}
	}
	return se.Sel.Name == "Range" && len(c.Args) == 1
}

// lhsTouch: first argument of delete/copy/clear
func (w *lsWalker) lhsTouch(e ast.Expr, held lsHeld) {
	if id, _, base := w.regOf(e); id != "" {
		w.record(e.Pos(), id, base, true, false, held)
		if se, ok := e.(*ast.SelectorExpr); ok {
			w.expr(se.X, held, false)
		}
		return
	}
	w.expr(e, held, false)
}

// expr: e is evaluated (read)
func (w *lsWalker) expr(e ast.Expr, held lsHeld, synced bool) {
	switch v := e.(type) {
	case nil:
		return
	case *ast.Ident:
		if id, o, base := w.regOf(v); id != "" {
			w.record(v.Pos(), id, base, false, synced && lsSyncValue(w.s.regType[o]), held)
		}
	case *ast.SelectorExpr:
		if id, o, base := w.regOf(v); id != "" {
			w.record(v.Pos(), id, base, false, synced && lsSyncValue(w.s.regType[o]), held)
		}
		w.expr(v.X, held, false)
	case *ast.CallExpr:
		w.call(v, held, false)
	case *ast.FuncLit:
		// a function value: runs later, with unknown locks, possibly concurrently
		sub := *w
		sub.rows, sub.pend = nil, nil
		sub.async = true
		sub.block(v.Body.List, nil)
		w.rows = append(w.rows, sub.rows...)
		w.pend = append(w.pend, sub.pend...)
		w.nAcc = sub.nAcc
	case *ast.UnaryExpr:
		if v.Op == token.AND {
			if id, o, base := w.regOf(v.X); id != "" {
				if lsSyncValue(w.s.regType[o]) {
					w.record(v.X.Pos(), id, base, true, true, held)
				} else {
					// the address of a plain registry is taken: a read here; what is done through the
					// pointer afterwards is not followed (stated limit)
					w.record(v.X.Pos(), id, base, false, false, held)
				}
				if s2, ok := v.X.(*ast.SelectorExpr); ok {
					w.expr(s2.X, held, false)
				}
				return
			}
		}
		w.expr(v.X, held, false)
	case *ast.BinaryExpr:
		w.expr(v.X, held, false)
		w.expr(v.Y, held, false)
	case *ast.ParenExpr:
		w.expr(v.X, held, false)
	case *ast.StarExpr:
		w.expr(v.X, held, false)
	case *ast.IndexExpr:
		w.expr(v.X, held, false)
		w.expr(v.Index, held, false)
	case *ast.IndexListExpr:
		w.expr(v.X, held, false)
	case *ast.SliceExpr:
		w.expr(v.X, held, false)
		w.expr(v.Low, held, false)
		w.expr(v.High, held, false)
		w.expr(v.Max, held, false)
	case *ast.TypeAssertExpr:
		w.expr(v.X, held, false)
	case *ast.KeyValueExpr:
		w.expr(v.Value, held, false) // keys of composite literals name fields of a fresh object
	case *ast.CompositeLit:
		for _, el := range v.Elts {
			if kv, ok := el.(*ast.KeyValueExpr); ok {
				if _, isStruct := w.structLit(v); !isStruct {
					w.expr(kv.Key, held, false)
				}
				w.expr(kv.Value, held, false)
			} else {
				w.expr(el, held, false)
			}
		}
	case *ast.BasicLit, *ast.ArrayType, *ast.MapType, *ast.ChanType, *ast.FuncType, *ast.InterfaceType, *ast.StructType, *ast.Ellipsis:
		return
	default:
		w.unknown(e.Pos(), "expression form not handled: "+fmt.Sprintf("%T", e), true)
	}
}

func (w *lsWalker) structLit(c *ast.CompositeLit) (string, bool) {
	tv, ok := w.pk.info.Types[c]
	if !ok || tv.Type == nil {
		// unknown (imported) type: keys are field names or map keys of a foreign type; identifiers as keys
		// cannot be registry reads unless the literal is a map/slice with registry keys - treat as struct
		return "", true
	}
	t := tv.Type
	if p, ok := t.(*types.Pointer); ok {
		t = p.Elem()
	}
	_, isStruct := t.Underlying().(*types.Struct)
	return "", isStruct
}

func lsGuardsCoq(gs []lsGuard) string {
	var p []string
	for _, g := range gs {
		m := "Shared"
		if g.excl {
			m = "Excl"
		}
		p = append(p, "("+coqStr(g.name)+", "+m+")")
	}
	return "[" + strings.Join(p, "; ") + "]"
}

func xlateLockset(repo, out string) {
	s := &lsState{repo: repo, fset: token.NewFileSet()}
	s.load()
	s.collectFuncsAndRefs()
	s.computeInit()
	s.collectRegistries()
	dirs := map[string]bool{}
	for _, a := range lsAnchors {
		dirs[filepath.Dir(a)] = true
		if _, err := os.Stat(filepath.Join(repo, a)); err != nil {
			s.rows = append(s.rows, lsRow{v: "?", file: a, fn: "<file>", unknown: "anchor file missing"})
		}
	}
	// functions handed to Once.Do by name
	s.onceFn, s.onceFnN = map[string]string{}, map[string]int{}
	s.acqDirect, s.callsAll = map[string]map[string]bool{}, map[string]map[string]bool{}
	for _, pk := range s.pkgs {
		for i, f := range pk.files {
			w := &lsWalker{s: s, pk: pk, file: pk.names[i]}
			ast.Inspect(f, func(n ast.Node) bool {
				if c, ok := n.(*ast.CallExpr); ok {
					if fid, ok := w.onceFuncArg(c); ok {
						if name, ok := w.onceDo(c); ok {
							s.onceFn[fid] = name
							s.onceFnN[fid]++
						}
					}
				}
				return true
			})
		}
	}
	var dl []string
	for d := range s.pkgs { // every package of the client is walked
		dl = append(dl, d)
	}
	sort.Strings(dl)
	for _, d := range dl {
		pk := s.pkgs[d]
		if pk == nil {
			continue
		}
		for i, f := range pk.files {
			for _, decl := range f.Decls {
				fd, ok := decl.(*ast.FuncDecl)
				if !ok || fd.Body == nil {
					continue
				}
				w := &lsWalker{s: s, pk: pk, file: pk.names[i], fn: lsFuncName(fd), fnID: s.funcID(pk.dir, fd), alias: map[types.Object]lsAlias{}, conns: map[string]bool{}}
				if fd.Recv != nil && len(fd.Recv.List) > 0 && len(fd.Recv.List[0].Names) > 0 {
					w.recv = fd.Recv.List[0].Names[0].Name
				}
				s.fnRow(lsShort(pk.dir) + "." + w.fn)
				var held0 lsHeld
				if on, ok := s.onceFn[w.fnID]; ok && len(s.refs[w.fnID]) == s.onceFnN[w.fnID] {
					held0 = held0.add(lsGuard{on, true, ""})
				}
				w.block(fd.Body.List, held0)
				s.rows = append(s.rows, w.rows...)
				if w.nAcc > 0 {
					s.rows = append(s.rows, w.pend...)
				}
			}
		}
	}
	// variables outside the anchor files are listed only when some function that is not
	// init-only writes them: without such a write no pair can conflict
	loud := map[string]bool{}
	for _, r := range s.rows {
		if r.unknown != "" || s.anchorVar[r.v] || s.isField(r.v) {
			loud[r.v] = true
		} else if r.write && !(s.initFn[r.fnID] && !r.async) {
			loud[r.v] = true
		}
	}
	quiet := map[string]bool{}
	var kept []lsRow
	for _, r := range s.rows {
		if loud[r.v] || r.v == "?" {
			kept = append(kept, r)
		} else {
			quiet[r.v] = true
		}
	}
	s.rows = kept
	s.nQuiet = len(quiet)
	sort.SliceStable(s.rows, func(i, j int) bool {
		a, b := s.rows[i], s.rows[j]
		if a.v != b.v {
			return a.v < b.v
		}
		if a.file != b.file {
			return a.file < b.file
		}
		if a.line != b.line {
			return a.line < b.line
		}
		return !a.write && b.write
	})
	var b strings.Builder
	b.WriteString("(* GENERATED by tools/xlate lockset from the repository working tree - do not edit.\n")
	b.WriteString("   One row per access site of a shared registry of the client (C20). *)\n")
	b.WriteString("From Coq Require Import String List NArith.\nFrom SeataV Require Import Conc.LockSet Conc.Reent Conc.Order.\nImport ListNotations.\nOpen Scope string_scope.\n\n")
	b.WriteString("Definition ls_table : list access := [\n")
	for i, r := range s.rows {
		sep := ";"
		if i == len(s.rows)-1 {
			sep = ""
		}
		if r.unknown != "" {
			fmt.Fprintf(&b, "  mkAcc %s %s %s %d%%N (Unknown %s) Plain [] false%s\n", coqStr(r.v), coqStr(r.file), coqStr(r.fn), r.line, coqStr(r.unknown), sep)
			continue
		}
		kind, mode := "Read", "Plain"
		if r.write {
			kind = "Write"
		}
		if r.synced {
			mode = "Synced"
		}
		ini := "false"
		if s.initFn[r.fnID] && !r.async {
			ini = "true"
		}
		fmt.Fprintf(&b, "  mkAcc %s %s %s %d%%N %s %s %s %s%s\n", coqStr(r.v), coqStr(r.file), coqStr(r.fn), r.line, kind, mode, lsGuardsCoq(r.guards), ini, sep)
	}
	b.WriteString("].\n\n")
	fmt.Fprintf(&b, "(* package-level variables of the client that no function outside init writes (rows omitted) *)\nDefinition ls_quiet_vars : N := %d%%N.\n\n", s.nQuiet)
	// the init-only functions that matter (those holding at least one row), for the reader
	seen := map[string]bool{}
	var il []string
	for _, r := range s.rows {
		if r.fnID != "" && s.initFn[r.fnID] && !seen[r.fnID] {
			seen[r.fnID] = true
			il = append(il, r.fnID)
		}
	}
	sort.Strings(il)
	b.WriteString("Definition ls_init_only_functions : list string := [\n")
	for i, f := range il {
		sep := ";"
		if i == len(il)-1 {
			sep = ""
		}
		fmt.Fprintf(&b, "  %s%s\n", coqStr(f), sep)
	}
	b.WriteString("].\n")
	b.WriteString("\n(* pooled connections taken with <db>.Conn(ctx): (function, variable, given back?) *)\n")
	b.WriteString("Definition ls_brackets : list (string * string * bool) := [\n")
	br, exits := s.brackets()
	for i, r := range br {
		sep := ";"
		if i == len(br)-1 {
			sep = ""
		}
		fmt.Fprintf(&b, "  (%s, %s, %v)%s\n", coqStr(r[0]), coqStr(r[1]), r[2] == "true", sep)
	}
	b.WriteString("].\n")
	b.WriteString("\n(* exits reached with the connection still open: (function, variable), line *)\n")
	b.WriteString("Definition ls_open_exits : list (string * string * N) := [\n")
	for i, r := range exits {
		sep := ";"
		if i == len(exits)-1 {
			sep = ""
		}
		fmt.Fprintf(&b, "  (%s, %s, %s%%N)%s\n", coqStr(r[0]), coqStr(r[1]), r[2], sep)
	}
	b.WriteString("].\n")
	// ---- re-entrancy: per function the locks it takes on its caller's goroutine, its same-object
	// callees, and the closure of both (a certificate the Coq side re-checks for closedness)
	var names []string
	for n := range s.fns {
		names = append(names, n)
	}
	sort.Strings(names)
	may := map[string]map[string]bool{}
	for _, n := range names {
		may[n] = map[string]bool{}
		for l := range s.fns[n].direct {
			may[n][l] = true
		}
	}
	for changed := true; changed; {
		changed = false
		for _, n := range names {
			for g := range s.fns[n].calls {
				for l := range may[g] {
					if !may[n][l] {
						may[n][l] = true
						changed = true
					}
				}
			}
		}
	}
	strs := func(m map[string]bool) string {
		var l []string
		for k := range m {
			l = append(l, coqStr(k))
		}
		sort.Strings(l)
		return "[" + strings.Join(l, "; ") + "]"
	}
	b.WriteString("\n(* function, locks it acquires itself, same-object callees, closure *)\n")
	b.WriteString("Definition ls_funcs : list fn_row := [\n")
	first := true
	for _, n := range names {
		f := s.fns[n]
		if len(f.direct) == 0 && len(f.calls) == 0 {
			continue
		}
		if !first {
			b.WriteString(";\n")
		}
		first = false
		fmt.Fprintf(&b, "  mkFn %s %s %s %s", coqStr(n), strs(f.direct), strs(f.calls), strs(may[n]))
	}
	b.WriteString("\n].\n")
	b.WriteString("\n(* calls made while a lock of the same object (or a package-level lock) is held *)\n")
	b.WriteString("Definition ls_held_calls : list hc_row := [\n")
	sort.SliceStable(s.hcs, func(i, j int) bool {
		if s.hcs[i].fn != s.hcs[j].fn {
			return s.hcs[i].fn < s.hcs[j].fn
		}
		return s.hcs[i].line < s.hcs[j].line
	})
	for i, h := range s.hcs {
		sep := ";"
		if i == len(s.hcs)-1 {
			sep = ""
		}
		m := "Shared"
		if h.excl {
			m = "Excl"
		}
		fmt.Fprintf(&b, "  mkHc %s %d%%N %s %s %s%s\n", coqStr(h.fn), h.line, coqStr(h.lock), m, coqStr(h.callee), sep)
	}
	b.WriteString("].\n")
	s.emitOrder(&b)
	s.emitPools(&b)
	if err := os.WriteFile(out, []byte(b.String()), 0o644); err != nil {
		fatal(err)
	}
}

// emitOrder: the wait-for graph.  Nodes are locks (by declaring type and field, or package-level
// name; `once:` for a Once being run) and the connection pool of a *sql.DB (one node: pools are
// not told apart).  An edge a -> b means: some goroutine acquires b while it holds a - directly,
// or by calling (any depth, same goroutine, calls that resolve statically: no interface
// dispatch) a function that acquires b.  A type-level self edge on a lock is left to the
// re-entrancy rule (same object) and dropped here; pool -> pool is kept.  The ranking is a
// certificate (topological order); nodes on a cycle keep rank 0, which the checker rejects.
func (s *lsState) emitOrder(b *strings.Builder) {
	acq := map[string]map[string]bool{}
	var fns []string
	seen := map[string]bool{}
	add := func(n string) {
		if !seen[n] {
			seen[n] = true
			fns = append(fns, n)
		}
	}
	for f, m := range s.acqDirect {
		add(f)
		for r := range m {
			lsSet(acq, f)[r] = true
		}
	}
	for f, m := range s.callsAll {
		add(f)
		for g := range m {
			add(g)
		}
	}
	sort.Strings(fns)
	for changed := true; changed; {
		changed = false
		for _, f := range fns {
			for g := range s.callsAll[f] {
				for r := range acq[g] {
					if !lsSet(acq, f)[r] {
						acq[f][r] = true
						changed = true
					}
				}
			}
		}
	}
	edges := append([]lsEdge{}, s.oEdges...)
	for _, c := range s.oCalls {
		var rs []string
		for r := range acq[c.callee] {
			rs = append(rs, r)
		}
		sort.Strings(rs)
		for _, h := range c.held {
			for _, r := range rs {
				edges = append(edges, lsEdge{h, r, c.fn + " -> " + c.callee, c.line})
			}
		}
	}
	sort.SliceStable(edges, func(i, j int) bool {
		if edges[i].from != edges[j].from {
			return edges[i].from < edges[j].from
		}
		if edges[i].to != edges[j].to {
			return edges[i].to < edges[j].to
		}
		if edges[i].fn != edges[j].fn {
			return edges[i].fn < edges[j].fn
		}
		return edges[i].line < edges[j].line
	})
	var uniq []lsEdge
	nodes := map[string]bool{}
	for _, e := range edges {
		if e.from == e.to && e.from != lsPool {
			continue
		}
		if n := len(uniq); n > 0 && uniq[n-1].from == e.from && uniq[n-1].to == e.to {
			continue
		}
		uniq = append(uniq, e)
		nodes[e.from], nodes[e.to] = true, true
	}
	// Kahn
	indeg := map[string]int{}
	for _, e := range uniq {
		indeg[e.to]++
	}
	rank := map[string]int{}
	var names []string
	for n := range nodes {
		names = append(names, n)
	}
	sort.Strings(names)
	done := map[string]bool{}
	for r := 1; ; r++ {
		var layer []string
		for _, n := range names {
			if !done[n] && indeg[n] == 0 {
				layer = append(layer, n)
			}
		}
		if len(layer) == 0 {
			break
		}
		for _, n := range layer {
			done[n] = true
			rank[n] = r
			for _, e := range uniq {
				if e.from == n {
					indeg[e.to]--
				}
			}
		}
	}
	b.WriteString("\n(* wait-for graph: held resource, acquired resource, where (function [-> callee]), line *)\n")
	b.WriteString("Definition ls_order_edges : list (string * string * string * N) := [\n")
	for i, e := range uniq {
		sep := ";"
		if i == len(uniq)-1 {
			sep = ""
		}
		fmt.Fprintf(b, "  (%s, %s, %s, %d%%N)%s\n", coqStr(e.from), coqStr(e.to), coqStr(e.fn), e.line, sep)
	}
	b.WriteString("].\n\n(* ranking certificate: every edge must go to a strictly higher rank; 0 = on a cycle *)\n")
	b.WriteString("Definition ls_order_rank : list (string * N) := [\n")
	for i, n := range names {
		sep := ";"
		if i == len(names)-1 {
			sep = ""
		}
		fmt.Fprintf(b, "  (%s, %d%%N)%s\n", coqStr(n), rank[n], sep)
	}
	b.WriteString("].\n")
}

// emitPools: use of sync.Pool values.  For every function that takes a value from a package-level
// sync.Pool the events in source order: PGet v (v := P.Get()), PDerive w v (w assigned from an
// expression that mentions v or something derived from it; error-typed results excepted),
// PPut v (P.Put(v); a deferred Put counts at the end of the function), PUse w (any other
// occurrence of a tracked variable).  The Coq side rejects a PUse of a variable that is dead:
// the value that was put back, or anything derived from it.
func (s *lsState) emitPools(b *strings.Builder) {
	type trace struct {
		fn, pool string
		ev       []string
	}
	var traces []trace
	var dirs []string
	for d := range s.pkgs {
		dirs = append(dirs, d)
	}
	sort.Strings(dirs)
	for _, d := range dirs {
		pk := s.pkgs[d]
		isPool := func(e ast.Expr) (string, bool) {
			var o types.Object
			switch x := e.(type) {
			case *ast.Ident:
				o = pk.info.Uses[x]
			case *ast.SelectorExpr:
				o = pk.info.Uses[x.Sel]
			}
			if o == nil {
				return "", false
			}
			if t := s.regType[o]; t == "sync.Pool" || t == "*sync.Pool" {
				if id, ok := s.regObj[o]; ok {
					return id, true
				}
				return o.Name(), true
			}
			return "", false
		}
		poolCall := func(n ast.Node, method string) (string, *ast.CallExpr, bool) {
			for {
				switch x := n.(type) {
				case *ast.TypeAssertExpr:
					n = x.X
					continue
				case *ast.ParenExpr:
					n = x.X
					continue
				}
				break
			}
			c, ok := n.(*ast.CallExpr)
			if !ok {
				return "", nil, false
			}
			se, ok := c.Fun.(*ast.SelectorExpr)
			if !ok || se.Sel.Name != method {
				return "", nil, false
			}
			if id, ok := isPool(se.X); ok {
				return id, c, true
			}
			return "", nil, false
		}
		for _, f := range pk.files {
			for _, decl := range f.Decls {
				fd, ok := decl.(*ast.FuncDecl)
				if !ok || fd.Body == nil {
					continue
				}
				tr := trace{fn: lsShort(d) + "." + lsFuncName(fd)}
				tracked := map[string]bool{}
				var deferred []string
				isErr := func(id *ast.Ident) bool {
					if o := pk.info.Defs[id]; o != nil && o.Type() != nil {
						return o.Type().String() == "error"
					}
					if o := pk.info.Uses[id]; o != nil && o.Type() != nil {
						return o.Type().String() == "error"
					}
					return false
				}
				var uses func(n ast.Node)
				uses = func(n ast.Node) {
					if n == nil {
						return
					}
					ast.Inspect(n, func(m ast.Node) bool {
						switch x := m.(type) {
						case *ast.DeferStmt:
							if pool, c, ok := poolCall(x.Call, "Put"); ok && len(c.Args) == 1 {
								if id, ok := c.Args[0].(*ast.Ident); ok {
									tr.pool = pool
									deferred = append(deferred, id.Name)
									return false
								}
							}
						case *ast.AssignStmt:
							for _, r := range x.Rhs {
								uses(r)
							}
							if len(x.Rhs) == 1 {
								if pool, _, ok := poolCall(x.Rhs[0], "Get"); ok {
									if id, ok := x.Lhs[0].(*ast.Ident); ok && id.Name != "_" {
										tr.pool = pool
										tracked[id.Name] = true
										tr.ev = append(tr.ev, "PGet "+coqStr(id.Name))
										return false
									}
								}
							}
							src := ""
							for _, r := range x.Rhs {
								ast.Inspect(r, func(k ast.Node) bool {
									if id, ok := k.(*ast.Ident); ok && tracked[id.Name] && src == "" {
										src = id.Name
									}
									return true
								})
							}
							for _, l := range x.Lhs {
								id, ok := l.(*ast.Ident)
								if !ok {
									uses(l)
									continue
								}
								if id.Name == "_" {
									continue
								}
								if src != "" && !isErr(id) {
									tracked[id.Name] = true
									tr.ev = append(tr.ev, "PDerive "+coqStr(id.Name)+" "+coqStr(src))
								} else if tracked[id.Name] {
									delete(tracked, id.Name) // overwritten with something unrelated
									tr.ev = append(tr.ev, "PGet "+coqStr(id.Name))
								}
							}
							return false
						case *ast.CallExpr:
							if pool, c, ok := poolCall(x, "Put"); ok && len(c.Args) == 1 {
								if id, ok := c.Args[0].(*ast.Ident); ok {
									tr.pool = pool
									tr.ev = append(tr.ev, "PPut "+coqStr(id.Name))
									return false
								}
							}
						case *ast.Ident:
							if tracked[x.Name] {
								tr.ev = append(tr.ev, "PUse "+coqStr(x.Name))
							}
						}
						return true
					})
				}
				uses(fd.Body)
				for _, v := range deferred {
					tr.ev = append(tr.ev, "PPut "+coqStr(v))
				}
				if tr.pool != "" {
					traces = append(traces, tr)
				}
			}
		}
	}
	b.WriteString("\n(* sync.Pool values: function, pool, events in source order *)\n")
	b.WriteString("Definition ls_pool_traces : list (string * string * list pev) := [\n")
	for i, t := range traces {
		sep := ";"
		if i == len(traces)-1 {
			sep = ""
		}
		fmt.Fprintf(b, "  (%s, %s, [%s])%s\n", coqStr(t.fn), coqStr(t.pool), strings.Join(t.ev, "; "), sep)
	}
	b.WriteString("].\n")
}

// directories whose functions take pooled connections (trusted list)
var lsBracketDirs = []string{"pkg/datasource/sql", "pkg/datasource/sql/undo/base",
	"pkg/datasource/sql/datasource/base", "pkg/datasource/sql/datasource/mysql"}

// brackets: every `v, err := X.Conn(arg)` in the listed directories, and whether the function
// (or function literal) that took v gives it back ON EVERY PATH: walking the statements after
// the acquisition, v is given back by `v.Close()` (statement, `if err = v.Close(); ...`,
// deferred, or inside a deferred literal), by handing v to a function of these directories
// that defers Close on that parameter before any return, or by returning / storing v itself
// (ownership moves).  A `return` (or the end of the body) reached while v is still open is an
// unclosed exit - except the error check that immediately follows the acquisition, where v is nil.
func (s *lsState) brackets() ([][3]string, [][3]string) {
	closers := map[string]int{} // function name -> index of the parameter it always closes
	for _, d := range lsBracketDirs {
		pk := s.pkgs[d]
		if pk == nil {
			continue
		}
		for _, f := range pk.files {
			for _, decl := range f.Decls {
				fd, ok := decl.(*ast.FuncDecl)
				if !ok || fd.Body == nil {
					continue
				}
				idx := 0
				for _, fl := range fd.Type.Params.List {
					for _, nm := range fl.Names {
						if printNode(s.fset, fl.Type) == "*sql.Conn" && lsDefersCloseFirst(fd.Body, nm.Name) {
							closers[fd.Name.Name] = idx
						}
						idx++
					}
				}
			}
		}
	}
	var out, exits [][3]string
	for _, d := range lsBracketDirs {
		pk := s.pkgs[d]
		if pk == nil {
			continue
		}
		for _, f := range pk.files {
			for _, decl := range f.Decls {
				fd, ok := decl.(*ast.FuncDecl)
				if !ok || fd.Body == nil {
					continue
				}
				// every function-like body (the declaration and each literal) is walked on its own
				var bodies []*ast.BlockStmt
				bodies = append(bodies, fd.Body)
				ast.Inspect(fd.Body, func(n ast.Node) bool {
					if l, ok := n.(*ast.FuncLit); ok {
						bodies = append(bodies, l.Body)
					}
					return true
				})
				for _, body := range bodies {
					for _, acq := range lsAcquisitions(body) {
						// the proxy driver's own Begin/BeginTx implementations create driver.Tx objects
						// that database/sql (their caller) ends: only database/sql transactions opened
						// by client code outside the driver package are bracketed
						if d == "pkg/datasource/sql" && lsAcqKind(acq.Rhs[0].(*ast.CallExpr)) == "tx" {
							continue
						}
						v := acq.Lhs[0].(*ast.Ident).Name
						bw := &lsBrWalker{s: s, v: v, acq: acq, closers: closers, enders: map[string]bool{"Close": true}}
						if lsAcqKind(acq.Rhs[0].(*ast.CallExpr)) == "tx" {
							bw.enders = map[string]bool{"Commit": true, "Rollback": true}
							bw.closers = map[string]int{}
						}
						st, term := bw.block(body.List, 0)
						if !term && (st == 3 || (st == 1 && bw.condFlag == "" && !bw.condErr)) {
							bw.exits = append(bw.exits, s.fset.Position(body.Rbrace).Line)
						}
						name := lsShort(d) + "." + lsFuncName(fd)
						out = append(out, [3]string{name, v, fmt.Sprint(len(bw.exits) == 0)})
						for _, l := range bw.exits {
							exits = append(exits, [3]string{name, v, fmt.Sprint(l)})
						}
					}
				}
			}
		}
	}
	sort.Slice(out, func(i, j int) bool { return out[i][0]+out[i][1] < out[j][0]+out[j][1] })
	return out, exits
}

// lsAcquisitions: `v, err := X.Conn(arg)` statements directly in this body (not in nested literals)
func lsAcquisitions(body *ast.BlockStmt) []*ast.AssignStmt {
	var res []*ast.AssignStmt
	ast.Inspect(body, func(n ast.Node) bool {
		if _, ok := n.(*ast.FuncLit); ok {
			return false
		}
		as, ok := n.(*ast.AssignStmt)
		if !ok || len(as.Rhs) != 1 || len(as.Lhs) != 2 {
			return true
		}
		c, ok := as.Rhs[0].(*ast.CallExpr)
		if !ok {
			return true
		}
		if lsAcqKind(c) == "" {
			return true
		}
		if _, ok := as.Lhs[0].(*ast.Ident); ok {
			res = append(res, as)
		}
		return true
	})
	return res
}

// lsAcqKind: "conn" for X.Conn(ctx) (given back by Close), "tx" for X.BeginTx(ctx, opts) / X.Begin()
// (ended by Commit or Rollback)
func lsAcqKind(c *ast.CallExpr) string {
	se, ok := c.Fun.(*ast.SelectorExpr)
	if !ok {
		return ""
	}
	switch {
	case se.Sel.Name == "Conn" && len(c.Args) == 1:
		return "conn"
	case se.Sel.Name == "BeginTx" && len(c.Args) == 2, se.Sel.Name == "Begin" && len(c.Args) == 0:
		return "tx"
	}
	return ""
}

// lsBrWalker: state 0 = v not acquired yet, 1 = open, 2 = given back, 3 = open and the flag that
// switches the deferred clean-up off has been set
type lsBrWalker struct {
	enders   map[string]bool // methods that give v back
	condFlag string          // deferred clean-up runs only while this flag is false
	condErr  bool            // deferred clean-up runs only when the error result is not nil
	s       *lsState
	v       string
	acq     *ast.AssignStmt
	closers map[string]int
	exits   []int
	fresh   bool // the previous statement was the acquisition
}

// gives: does evaluating n give v back (Close call, closer call)?
func (b *lsBrWalker) gives(n ast.Node) bool {
	if n == nil {
		return false
	}
	found := false
	ast.Inspect(n, func(m ast.Node) bool {
		if _, ok := m.(*ast.FuncLit); ok {
			return false
		}
		cc, ok := m.(*ast.CallExpr)
		if !ok {
			return true
		}
		if s2, ok := cc.Fun.(*ast.SelectorExpr); ok {
			if id, ok := s2.X.(*ast.Ident); ok && id.Name == b.v && b.enders[s2.Sel.Name] && len(cc.Args) == 0 {
				found = true
			}
			if k, ok := b.closers[s2.Sel.Name]; ok && k < len(cc.Args) {
				if id, ok := cc.Args[k].(*ast.Ident); ok && id.Name == b.v {
					found = true
				}
			}
		}
		if id, ok := cc.Fun.(*ast.Ident); ok {
			if k, ok := b.closers[id.Name]; ok && k < len(cc.Args) {
				if a, ok := cc.Args[k].(*ast.Ident); ok && a.Name == b.v {
					found = true
				}
			}
		}
		return true
	})
	return found
}

func (b *lsBrWalker) mentions(e ast.Expr) bool {
	id, ok := e.(*ast.Ident)
	if ok && id.Name == b.v {
		return true
	}
	// a transaction wrapped on the way out (return newTx(withOriginTx(tx)), a struct literal holding
	// it): whoever receives the wrapper ends it.  Only for transactions: a connection handed to a
	// callee stays the caller's to close unless the callee is a known closer.
	if b.enders["Commit"] {
		found := false
		ast.Inspect(e, func(n ast.Node) bool {
			switch x := n.(type) {
			case *ast.CallExpr:
				for _, a := range x.Args {
					if i, ok := a.(*ast.Ident); ok && i.Name == b.v {
						found = true
					}
				}
			case *ast.KeyValueExpr:
				if i, ok := x.Value.(*ast.Ident); ok && i.Name == b.v {
					found = true
				}
			}
			return true
		})
		return found
	}
	return false
}

func lsWorse(a, c int) int {
	// open with the clean-up switched off (3) is the worst, then open (1), then not-acquired (0),
	// then given back (2)
	if a == 3 || c == 3 {
		return 3
	}
	if a == 1 || c == 1 {
		return 1
	}
	if a == 0 || c == 0 {
		return 0
	}
	return 2
}

func (b *lsBrWalker) block(list []ast.Stmt, st int) (int, bool) {
	for _, x := range list {
		var term bool
		st, term = b.stmt(x, st)
		if term {
			return st, true
		}
	}
	return st, false
}

func (b *lsBrWalker) stmt(x ast.Stmt, st int) (int, bool) {
	fresh := b.fresh
	b.fresh = false
	switch v := x.(type) {
	case nil:
		return st, false
	case *ast.AssignStmt:
		if v == b.acq {
			b.fresh = true
			return 1, false
		}
		if st == 1 && b.condFlag != "" && len(v.Lhs) == 1 && len(v.Rhs) == 1 {
			if l, ok := v.Lhs[0].(*ast.Ident); ok && l.Name == b.condFlag {
				if r, ok := v.Rhs[0].(*ast.Ident); ok && r.Name == "true" {
					return 3, false // the deferred clean-up is switched off while v is still open
				}
			}
		}
		if st == 1 {
			if b.gives(v) {
				return 2, false
			}
			for _, r := range v.Rhs { // stored somewhere: ownership moves
				if b.mentions(r) {
					if _, isSel := v.Lhs[0].(*ast.SelectorExpr); isSel {
						return 2, false
					}
				}
			}
		}
		return st, false
	case *ast.ExprStmt:
		if st == 1 && b.gives(v) {
			return 2, false
		}
		if c, ok := v.X.(*ast.CallExpr); ok {
			if id, ok := c.Fun.(*ast.Ident); ok && id.Name == "panic" {
				return st, true
			}
		}
		return st, false
	case *ast.DeferStmt:
		if st == 1 {
			if b.gives(v.Call) {
				return 2, false
			}
			if lit, ok := v.Call.Fun.(*ast.FuncLit); ok && b.gives(lit.Body) {
				// unconditional in the deferred literal: given back on every exit.  Under
				// `if !flag { .. }` it runs on the exits that did not set the flag; under
				// `if err != nil { .. }` it does not run on the exits that return a nil error.
				for _, ds := range lit.Body.List {
					is, isIf := ds.(*ast.IfStmt)
					if !b.gives(ds) {
						continue
					}
					if !isIf || b.gives(is.Init) || b.gives(is.Cond) {
						return 2, false
					}
					if u, ok := is.Cond.(*ast.UnaryExpr); ok && u.Op == token.NOT {
						if id, ok := u.X.(*ast.Ident); ok {
							b.condFlag = id.Name
							return st, false
						}
					}
					if lsIsErrCheck(is.Cond) {
						b.condErr = true
						return st, false
					}
					return 2, false // another condition: not analysed, benefit of the doubt
				}
				return 2, false
			}
		}
		return st, false
	case *ast.ReturnStmt:
		if st == 1 || st == 3 {
			ok := b.gives(v)
			for _, r := range v.Results {
				if b.mentions(r) {
					ok = true
				}
			}
			if st == 1 && b.condFlag != "" {
				ok = true // the deferred clean-up still runs on this exit
			}
			if st == 1 && b.condErr {
				// the deferred clean-up runs unless this exit reports success (a literal nil error)
				ok = true
				if n := len(v.Results); n > 0 {
					if id, isID := v.Results[n-1].(*ast.Ident); isID && id.Name == "nil" {
						ok = b.gives(v)
					}
				}
			}
			if !ok {
				b.exits = append(b.exits, b.s.fset.Position(v.Pos()).Line)
			}
		}
		return st, true
	case *ast.BlockStmt:
		return b.block(v.List, st)
	case *ast.LabeledStmt:
		return b.stmt(v.Stmt, st)
	case *ast.IfStmt:
		st, _ = b.stmt(v.Init, st)
		if st == 1 && b.gives(v.Cond) {
			st = 2
		}
		inner := st
		if fresh && st == 1 && lsIsErrCheck(v.Cond) {
			inner = 0 // the acquisition failed: there is nothing to give back
		}
		h1, t1 := b.block(v.Body.List, inner)
		h2, t2 := st, false
		if v.Else != nil {
			h2, t2 = b.stmt(v.Else, st)
		}
		if fresh && inner == 0 && !t1 {
			h1 = st
		}
		switch {
		case t1 && t2:
			return st, true
		case t1:
			return h2, false
		case t2:
			return h1, false
		}
		return lsWorse(h1, h2), false
	case *ast.ForStmt:
		st, _ = b.stmt(v.Init, st)
		h, _ := b.block(v.Body.List, st)
		return lsWorse(st, h), false
	case *ast.RangeStmt:
		h, _ := b.block(v.Body.List, st)
		return lsWorse(st, h), false
	case *ast.SwitchStmt, *ast.TypeSwitchStmt, *ast.SelectStmt:
		var body *ast.BlockStmt
		switch y := v.(type) {
		case *ast.SwitchStmt:
			st, _ = b.stmt(y.Init, st)
			body = y.Body
		case *ast.TypeSwitchStmt:
			body = y.Body
		case *ast.SelectStmt:
			body = y.Body
		}
		out := st
		for _, c := range body.List {
			var l []ast.Stmt
			switch cc := c.(type) {
			case *ast.CaseClause:
				l = cc.Body
			case *ast.CommClause:
				l = cc.Body
			}
			h, t := b.block(l, st)
			if !t {
				out = lsWorse(out, h)
			}
		}
		return out, false
	}
	return st, false
}

func lsIsErrCheck(e ast.Expr) bool {
	be, ok := e.(*ast.BinaryExpr)
	if !ok || be.Op != token.NEQ {
		return false
	}
	x, ok1 := be.X.(*ast.Ident)
	y, ok2 := be.Y.(*ast.Ident)
	return ok1 && ok2 && x.Name == "err" && y.Name == "nil"
}

// lsDefersCloseFirst: `defer name.Close()` is a top-level statement of the body and no return precedes it
func lsDefersCloseFirst(body *ast.BlockStmt, name string) bool {
	for _, st := range body.List {
		hasRet := false
		ast.Inspect(st, func(n ast.Node) bool {
			if _, ok := n.(*ast.FuncLit); ok {
				return false
			}
			if _, ok := n.(*ast.ReturnStmt); ok {
				hasRet = true
			}
			return true
		})
		if d, ok := st.(*ast.DeferStmt); ok {
			if se, ok := d.Call.Fun.(*ast.SelectorExpr); ok && se.Sel.Name == "Close" {
				if id, ok := se.X.(*ast.Ident); ok && id.Name == name {
					return true
				}
			}
		}
		if hasRet {
			return false
		}
	}
	return false
}

func lsDefersClose(body *ast.BlockStmt, name string) bool {
	found := false
	ast.Inspect(body, func(n ast.Node) bool {
		d, ok := n.(*ast.DeferStmt)
		if !ok {
			return true
		}
		if se, ok := d.Call.Fun.(*ast.SelectorExpr); ok && se.Sel.Name == "Close" {
			if id, ok := se.X.(*ast.Ident); ok && id.Name == name {
				found = true
			}
		}
		return true
	})
	return found
}
