module xlate

go 1.20
