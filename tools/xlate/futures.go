package main

// xlate futures (C14): reads the five facts of the source that the model of the
// pending-request table (coq/Remoting/FuturesModel.v, record cfg) is
// parameterised by, and writes coq/Gen/FuturesCfg.v:
//
//   c_cap           capacity given to make(chan struct{} ...) for MessageFuture.Done
//                   in message.NewMessageFuture
//   c_nonblock      every send on a `.Done` channel in pkg/remoting (non-test) is a
//                   select case that has a default sibling
//   c_tmo_removes   the non-Done case of the select in syncCallback calls
//                   RemoveMessageFuture(reqMsg.ID)
//   c_store_nocb    sendAsync's futures.Store(...) is NOT guarded by `callback != nil`
//                   (or its futures.Delete on the error path is not)
//   c_pong_removes  the heartbeat processor calls RemoveMessageFuture
//   c_store_first   in every function of pkg/remoting that signals a `.Done` channel the
//                   assignment to `.Response` comes (textually, outside the select) before
//                   the first signal and no assignment to `.Response` follows a signal
//   c_ids_plain     EVERY function of pkg/remoting/getty that builds an outgoing RpcMessage which
//                   can be answered (anything but a Response or a HeartbeatRequest frame), among them
//                   SendSyncRequest and SendAsyncRequest, uses `ID: int32(client.idGenerator.Inc())`
//                   with `client` the remoting client (the id function and the ONE generator of the
//                   model); the sites are listed in go_send_sites
//
// Anything that is not found where it is expected is reported in
// go_futures_unrecognised (a list of strings); the proof obligation requires the
// list to be empty, so unknown syntax is never read as "fine".

import (
	"fmt"
	"go/ast"
	"go/token"
	"os"
	"path/filepath"
	"strings"
)

func init() { translators["futures"] = xlateFutures }

func futuresFindFunc(files []*ast.File, recv, name string) *ast.FuncDecl {
	for _, f := range files {
		for _, d := range f.Decls {
			fd, ok := d.(*ast.FuncDecl)
			if !ok || fd.Name.Name != name || fd.Body == nil {
				continue
			}
			if recv == "" && fd.Recv == nil {
				return fd
			}
			if recv != "" && fd.Recv != nil && recvName(fd) == recv {
				return fd
			}
		}
	}
	return nil
}

// is `n` (a statement position) inside an if whose condition is `callback != nil`?
func futuresGuardedCalls(fset *token.FileSet, body *ast.BlockStmt, callSuffix string) (guarded, unguarded int) {
	var walk func(n ast.Node, underGuard bool)
	walk = func(n ast.Node, underGuard bool) {
		switch x := n.(type) {
		case nil:
			return
		case *ast.IfStmt:
			cond := printNode(fset, x.Cond)
			g := underGuard || cond == "callback != nil" || cond == "nil != callback"
			if x.Init != nil {
				walk(x.Init, underGuard)
			}
			walk(x.Body, g)
			if x.Else != nil {
				walk(x.Else, underGuard)
			}
			return
		case *ast.CallExpr:
			if strings.HasSuffix(printNode(fset, x.Fun), callSuffix) {
				if underGuard {
					guarded++
				} else {
					unguarded++
				}
			}
		}
		// generic descent
		ast.Inspect(n, func(c ast.Node) bool {
			if c == n || c == nil {
				return true
			}
			walk(c, underGuard)
			return false
		})
	}
	walk(body, false)
	return
}

func xlateFutures(repo, out string) {
	fset := token.NewFileSet()
	var unrec []string
	bad := func(f string, a ...interface{}) { unrec = append(unrec, fmt.Sprintf(f, a...)) }

	msgFiles := parseDir(fset, filepath.Join(repo, "pkg/protocol/message"))
	gettyFiles := parseDir(fset, filepath.Join(repo, "pkg/remoting/getty"))
	procFiles := parseDir(fset, filepath.Join(repo, "pkg/remoting/processor/client"))

	// ---- c_cap
	capN := 0
	if fd := futuresFindFunc(msgFiles, "", "NewMessageFuture"); fd == nil {
		bad("message.NewMessageFuture not found")
	} else {
		found := false
		ast.Inspect(fd.Body, func(n ast.Node) bool {
			kv, ok := n.(*ast.KeyValueExpr)
			if !ok || printNode(fset, kv.Key) != "Done" {
				return true
			}
			found = true
			txt := printNode(fset, kv.Value)
			switch {
			case txt == "make(chan struct{})":
				capN = 0
			case strings.HasPrefix(txt, "make(chan struct{}, ") && strings.HasSuffix(txt, ")"):
				n := 0
				if _, err := fmt.Sscanf(strings.TrimSuffix(strings.TrimPrefix(txt, "make(chan struct{}, "), ")"), "%d", &n); err != nil || n < 0 {
					bad("capacity of Done not a literal: %s", txt)
				}
				capN = n
			default:
				bad("Done initialised by: %s", txt)
			}
			return false
		})
		if !found {
			bad("NewMessageFuture does not initialise Done")
		}
	}

	// ---- c_nonblock: all sends on *.Done in pkg/remoting
	sends, guardedSends := 0, 0
	for _, files := range [][]*ast.File{gettyFiles, procFiles} {
		for _, f := range files {
			ast.Inspect(f, func(n ast.Node) bool {
				sel, ok := n.(*ast.SelectStmt)
				if !ok {
					return true
				}
				hasDefault := false
				for _, c := range sel.Body.List {
					if cc := c.(*ast.CommClause); cc.Comm == nil {
						hasDefault = true
					}
				}
				for _, c := range sel.Body.List {
					cc := c.(*ast.CommClause)
					if s, ok := cc.Comm.(*ast.SendStmt); ok && strings.HasSuffix(printNode(fset, s.Chan), ".Done") && hasDefault {
						guardedSends++
					}
				}
				return true
			})
			ast.Inspect(f, func(n ast.Node) bool {
				if s, ok := n.(*ast.SendStmt); ok && strings.HasSuffix(printNode(fset, s.Chan), ".Done") {
					sends++
				}
				return true
			})
		}
	}
	if sends == 0 {
		bad("no send on a .Done channel found in pkg/remoting")
	}
	nonblock := sends > 0 && sends == guardedSends

	// ---- c_tmo_removes
	tmoRemoves := false
	if fd := futuresFindFunc(gettyFiles, "GettyRemotingClient", "syncCallback"); fd == nil {
		bad("GettyRemotingClient.syncCallback not found")
	} else {
		var sel *ast.SelectStmt
		ast.Inspect(fd.Body, func(n ast.Node) bool {
			if s, ok := n.(*ast.SelectStmt); ok && sel == nil {
				sel = s
			}
			return true
		})
		if sel == nil {
			bad("syncCallback has no select")
		} else {
			nTimer, nDone := 0, 0
			for _, c := range sel.Body.List {
				cc := c.(*ast.CommClause)
				comm := ""
				if cc.Comm != nil {
					comm = printNode(fset, cc.Comm)
				}
				if strings.HasSuffix(comm, ".Done") {
					nDone++
					continue
				}
				if !strings.Contains(comm, "After(RpcRequestTimeout)") {
					bad("syncCallback select case: %s", comm)
					continue
				}
				nTimer++
				for _, st := range cc.Body {
					ast.Inspect(st, func(n ast.Node) bool {
						if ce, ok := n.(*ast.CallExpr); ok && strings.HasSuffix(printNode(fset, ce.Fun), ".RemoveMessageFuture") &&
							len(ce.Args) == 1 && printNode(fset, ce.Args[0]) == "reqMsg.ID" {
							tmoRemoves = true
						}
						return true
					})
				}
			}
			if nTimer != 1 || nDone != 1 {
				bad("syncCallback select has %d timer / %d Done cases", nTimer, nDone)
			}
		}
	}

	// ---- c_store_nocb
	storeNocb := true
	if fd := futuresFindFunc(gettyFiles, "GettyRemoting", "sendAsync"); fd == nil {
		bad("GettyRemoting.sendAsync not found")
	} else {
		gs, us := futuresGuardedCalls(fset, fd.Body, "futures.Store")
		gd, ud := futuresGuardedCalls(fset, fd.Body, "futures.Delete")
		if gs+us != 1 {
			bad("sendAsync has %d futures.Store calls", gs+us)
		}
		storeNocb = us > 0 || ud > 0
		_ = gd
	}
	// any other Store into futures outside sendAsync changes who owns entries
	for _, f := range gettyFiles {
		for _, d := range f.Decls {
			fd, ok := d.(*ast.FuncDecl)
			if !ok || fd.Body == nil || fd.Name.Name == "sendAsync" {
				continue
			}
			ast.Inspect(fd.Body, func(n ast.Node) bool {
				if ce, ok := n.(*ast.CallExpr); ok && strings.HasSuffix(printNode(fset, ce.Fun), "futures.Store") {
					bad("futures.Store outside sendAsync: func %s", fd.Name.Name)
				}
				return true
			})
		}
	}

	// ---- c_store_first: order of payload and completion signal at every delivery site
	storeFirst := true
	sites := 0
	for _, files := range [][]*ast.File{gettyFiles, procFiles} {
		for _, f := range files {
			for _, d := range f.Decls {
				fd, ok := d.(*ast.FuncDecl)
				if !ok || fd.Body == nil {
					continue
				}
				var sends, stores []token.Pos
				ast.Inspect(fd.Body, func(n ast.Node) bool {
					switch x := n.(type) {
					case *ast.SendStmt:
						if strings.HasSuffix(printNode(fset, x.Chan), ".Done") {
							sends = append(sends, x.Pos())
						}
					case *ast.AssignStmt:
						for _, l := range x.Lhs {
							if strings.HasSuffix(printNode(fset, l), ".Response") {
								stores = append(stores, x.Pos())
							}
						}
					}
					return true
				})
				if len(sends) == 0 {
					continue
				}
				sites++
				first := sends[0]
				for _, p := range sends {
					if p < first {
						first = p
					}
				}
				before := false
				for _, p := range stores {
					if p < first {
						before = true
					} else {
						storeFirst = false // payload written after (or inside the case of) a signal
					}
				}
				if !before {
					storeFirst = false
				}
			}
		}
	}
	if sites == 0 {
		storeFirst = false
	}

	// ---- c_ids_plain: every send site that writes an ANSWERABLE request draws its id from the one
	// generator of the remoting client (answers are matched to pending requests by id alone)
	idsPlain := true
	type site struct{ fn, id, typ, class string }
	var sites2 []site
	for _, f := range gettyFiles {
		for _, d := range f.Decls {
			fd, ok := d.(*ast.FuncDecl)
			if !ok || fd.Body == nil || recvName(fd) == "RpcPackageHandler" {
				continue // the frame reader builds RpcMessages of INBOUND frames
			}
			clientIsRemoting := recvName(fd) == "GettyRemotingClient" && len(fd.Recv.List[0].Names) == 1 && fd.Recv.List[0].Names[0].Name == "client"
			ast.Inspect(fd.Body, func(n ast.Node) bool {
				if as, ok := n.(*ast.AssignStmt); ok && len(as.Lhs) == 1 && len(as.Rhs) == 1 && printNode(fset, as.Lhs[0]) == "client" {
					clientIsRemoting = as.Tok == token.DEFINE && printNode(fset, as.Rhs[0]) == "GetGettyRemotingClient()"
				}
				return true
			})
			ast.Inspect(fd.Body, func(n ast.Node) bool {
				cl, ok := n.(*ast.CompositeLit)
				if !ok || printNode(fset, cl.Type) != "message.RpcMessage" {
					return true
				}
				st := site{fn: fd.Name.Name, id: "<absent>", typ: "<absent>"}
				for _, el := range cl.Elts {
					if kv, ok := el.(*ast.KeyValueExpr); ok {
						switch printNode(fset, kv.Key) {
						case "ID":
							st.id = printNode(fset, kv.Value)
						case "Type":
							st.typ = printNode(fset, kv.Value)
						}
					}
				}
				switch st.typ {
				case "message.GettyRequestTypeResponse":
					st.class = "response"
				case "message.GettyRequestTypeHeartbeatRequest":
					st.class = "heartbeat"
				default:
					st.class = "answerable"
					if st.id != "int32(client.idGenerator.Inc())" || !clientIsRemoting {
						idsPlain = false
						st.class = "answerable, NOT from the remoting client's generator"
					}
				}
				sites2 = append(sites2, st)
				return true
			})
		}
	}
	seen := map[string]bool{}
	for _, st := range sites2 {
		seen[st.fn] = true
	}
	for _, fn := range []string{"SendSyncRequest", "SendAsyncRequest"} {
		if !seen[fn] {
			bad("GettyRemotingClient.%s builds no RpcMessage", fn)
			idsPlain = false
		}
	}

	// ---- c_pong_removes
	pongRemoves := false
	if fd := futuresFindFunc(procFiles, "clientHeartBeatProcessor", "Process"); fd == nil {
		bad("clientHeartBeatProcessor.Process not found")
	} else {
		ast.Inspect(fd.Body, func(n ast.Node) bool {
			if ce, ok := n.(*ast.CallExpr); ok && strings.HasSuffix(printNode(fset, ce.Fun), "RemoveMessageFuture") {
				pongRemoves = true
			}
			return true
		})
	}

	b := func(x bool) string {
		if x {
			return "true"
		}
		return "false"
	}
	var sb strings.Builder
	sb.WriteString("(* GENERATED by tools/xlate futures from the repository's working tree. Do not edit. *)\n")
	sb.WriteString("From Coq Require Import String List.\nFrom SeataV Require Import Remoting.FuturesModel.\nImport ListNotations.\nOpen Scope string_scope.\n\n")
	fmt.Fprintf(&sb, "Definition go_futures_cfg : cfg :=\n  {| c_cap := %d; c_nonblock := %s; c_tmo_removes := %s; c_store_nocb := %s; c_pong_removes := %s;\n     c_store_first := %s; c_ids_plain := %s |}.\n\n",
		capN, b(nonblock), b(tmoRemoves), b(storeNocb), b(pongRemoves), b(storeFirst), b(idsPlain))
	sb.WriteString("(* every site that builds an outgoing RpcMessage: function, id expression, type expression, class *)\nDefinition go_send_sites : list (string * string * string * string) := [")
	for i, st := range sites2 {
		if i > 0 {
			sb.WriteString(";\n  ")
		}
		sb.WriteString("(" + coqStr(st.fn) + ", " + coqStr(st.id) + ", " + coqStr(st.typ) + ", " + coqStr(st.class) + ")")
	}
	sb.WriteString("].\n\n")
	sb.WriteString("Definition go_futures_unrecognised : list string := [")
	for i, u := range unrec {
		if i > 0 {
			sb.WriteString("; ")
		}
		sb.WriteString(coqStr(u))
	}
	sb.WriteString("].\n")
	if err := os.WriteFile(out, []byte(sb.String()), 0o644); err != nil {
		fatal(err)
	}
}
