"""C07, carrier half: the real gRPC interceptors, gin middleware and dubbo filter driven by
harness tmcarrier; tie with coq/Tm/Carrier.v (vm_compute) + direct oracle."""
import collections
import vlib

HEADER = """From Coq Require Import List NArith Bool String.
From Coq.Strings Require Import Byte.
From SeataV Require Import Base.Bytes Tm.Carrier.
Import ListNotations. Open Scope N_scope.
"""
KIND = {"grpc": "Grpc", "gin": "Gin", "dubbo": "Dubbo"}


def aval(h):
    vs = [vlib.coq_hex(v) for v in h["vals"]]
    if h["shape"] == "s":
        return "AStr %s" % vs[0]
    if h["shape"] == "l":
        return "AList [%s]" % "; ".join(vs)
    return "AOther"


def term(c):
    return "{| cc_kind := %s; cc_roundtrip := %s; cc_hdrs := [%s]; cc_xid := %s; cc_got := %s |}" % (
        KIND[c["kind"]], "true" if c["roundtrip"] else "false",
        "; ".join("(%s, %s)" % (vlib.coq_hex(h["key"]), aval(h)) for h in c["hdrs"]),
        vlib.coq_hex(c["xid"]), vlib.coq_hex(c["got"]))


def lower(b):
    return bytes(x + 32 if 65 <= x <= 90 else x for x in b)


def strings_of(h):
    """the strings a header / attachment value holds: itself, or the elements of a list of strings
    (multi-valued metadata / HTTP headers; a []string-wrapped dubbo attachment); none for other types"""
    if h["shape"] == "o":
        return []
    return [bytes.fromhex(v) for v in h["vals"]]


DUBBO_KEYS = (b"SEATA_XID", b"seata_xid", b"TX_XID", b"tx_xid")


def expected(c):
    """independent statement of what the callee must find (docs/C07.md): the sender half carries
    exactly the caller's xid whatever else is in the outgoing context; a receiver finds the first
    value under the xid key (gRPC metadata keys and HTTP header names are case-insensitive; dubbo:
    the four attachment keys in their order of preference, a []string value standing for its first
    element)"""
    if c["roundtrip"]:
        return bytes.fromhex(c["xid"])
    if c["kind"] in ("grpc", "gin"):
        merged = [v for h in c["hdrs"] if lower(bytes.fromhex(h["key"])) == b"tx_xid" for v in strings_of(h)]
        return merged[0] if merged else b""
    for K in DUBBO_KEYS:
        for h in c["hdrs"]:
            if bytes.fromhex(h["key"]) == K:
                vs = strings_of(h)
                if vs and vs[0]:
                    return vs[0]
    return b""


def show_hdrs(c):
    return [(bytes.fromhex(h["key"]), h["shape"], [bytes.fromhex(v) for v in h["vals"]]) for h in c["hdrs"]]


def in_finding(c):
    """carrier.dubbo.no-tx-stale-attachment (KNOWN_FINDINGS.txt): see tm_util.pred_dubbo_forwarded_stale"""
    import tm_util
    return c["roundtrip"] and tm_util.pred_dubbo_forwarded_stale(c["kind"], c["xid"], c["hdrs"])


def oracle(c, strict=False):
    fails = []
    xid, got = bytes.fromhex(c["xid"]), bytes.fromhex(c["got"])
    if c["panicked"]:
        return ["the integration or the callee panicked"]
    want = expected(c)
    if in_finding(c) and not strict:
        want = got          # listed finding: what travels is not judged here; the rest still is
    if got != want:
        if c["roundtrip"]:
            fails.append("callee found xid %r, the caller's transaction is %r (outgoing context already held %s)" % (got, xid, show_hdrs(c)))
        else:
            fails.append("callee found xid %r, the request carried %r in %s" % (got, want, show_hdrs(c)))
    if c["kind"] == "gin" and not want and not c["ran"]:
        return fails            # the middleware refuses a request without xid (400): nothing to carry
    if not c["ran"]:
        fails.append("the callee did not run")
        return fails
    if got:
        if not c["seata"]:
            fails.append("callee context is not a seata context")
        if c["inner"] != c["got"]:
            fails.append("inside the callee's scope the xid is %r" % bytes.fromhex(c["inner"]))
        if c["role"] != "Participant":
            fails.append("callee's role is %s, not Participant" % c["role"])
        if c["reqs"]:
            fails.append("the callee sent %s to the coordinator" % c["reqs"])
    ended = [r for r in c["reqs"] if r.split(":", 1)[0] in ("commit", "rollback") and want and r.split(":", 1)[1] == want.hex()]
    if ended:
        fails.append("the callee ended the carried transaction: %s" % ended)
    return fails


def slim(c):
    return {k: c[k] for k in ("id", "kind", "roundtrip", "hdrs", "xid", "got", "ran", "seata", "inner", "role", "reqs", "status", "ret")}


def run(chk, cases_in=None):
    ok, out = vlib.coq_make(["Tm/Carrier.vo"])
    if not ok:
        raise vlib.Broken("Tm/Carrier.v does not compile:\n" + out[-1500:])
    kw = {}
    if cases_in is not None:
        import json
        p = chk.tmp("carrier_in.json")
        json.dump(cases_in, open(p, "w"))
        kw["in"] = p
    data, secs = vlib.run_harness("tmcarrier", chk.tmp("carrier.json"), timeout=900, tier=chk.tier, seed=chk.seed, **kw)
    cases = data["cases"]
    if cases_in is not None:
        for c in cases:
            print("callee found %r; failed clauses: %s" % (bytes.fromhex(c["got"]), oracle(c)))
    mism = vlib.eval_mismatches("C07c", HEADER, [term(c) for c in cases], fn="cmismatches", case_type="ccase", shard=150)
    failing = [(i, oracle(c)) for i, c in enumerate(cases)]
    failing = [(i, f) for i, f in failing if f]
    seen = set()
    for i, f in sorted(failing, key=lambda x: len(cases[x[0]]["xid"]) + len(cases[x[0]]["got"]) + 50 * len(cases[x[0]]["hdrs"])):
        k = cases[i]["kind"] + f[0][:25]
        if k in seen or len(seen) >= 4:
            continue
        seen.add(k)
        chk.violation("C07 (carrier %s) fails on the real code: %s" % (cases[i]["kind"], f[0]),
                      {"case": slim(cases[i]), "carrier": True, "failed_clauses": f,
                       "model_disagreements": ["xid found by the callee differs from Tm/Carrier.v"] if i in mism else []}, True)
    unexplained = [i for i in mism if i not in {j for j, _ in failing}]
    if unexplained and not failing:
        i = unexplained[0]
        chk.violation("correspondence between Tm/Carrier.v and the integrations broke; the property's own clauses hold on every executed case",
                      {"case": slim(cases[i]), "carrier": True, "correspondence": "Tm/Carrier.v check_ccase"}, False)
    if cases_in is None:
        for kf in vlib.known_findings("C07"):
            import json, os
            rp = json.load(open(os.path.join(vlib.VERIF, kf["replay"])))
            p = chk.tmp("carrier_known.json")
            json.dump(rp["cases"], open(p, "w"))
            kd, _ = vlib.run_harness("tmcarrier", chk.tmp("carrier_known_out.json"), timeout=300, tier=chk.tier, seed=chk.seed, **{"in": p})
            if all(in_finding(c) and oracle(c, strict=True) for c in kd["cases"]):
                chk.known("id=%s pred=%s :: %s" % (kf["id"], kf["pred"], kf["what"]))
            else:
                print("STALE-FINDING: property=C07 id=%s no longer reproduces on %s" % (kf["id"], kf["replay"]))
                chk.notes.append("stale finding " + kf["id"])
    return {"evaluations": len(cases), "traces_validated_against_impl": len(cases) - len(mism),
            "in_finding_region": sum(1 for c in cases if in_finding(c)),
            "sender_without_transaction": sum(1 for c in cases if c["roundtrip"] and not c["xid"] and c["hdrs"]),
            "oracle_failures": len(failing), "harness_secs": round(secs, 1),
            "by_kind": dict(collections.Counter(c["kind"] + (".roundtrip" if c["roundtrip"] else ".server") for c in cases)),
            "xid_carried": sum(1 for c in cases if c["got"]),
            "with_preexisting_headers": sum(1 for c in cases if c["roundtrip"] and c["hdrs"]),
            "value_shapes": dict(collections.Counter(h["shape"] + str(min(len(h["vals"]), 2)) for c in cases for h in c["hdrs"])),
            "sample": slim(cases[len(cases) // 2])}
