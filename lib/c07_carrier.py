"""C07, carrier half: the real gRPC interceptors, gin middleware and dubbo filter driven by
harness tmcarrier; tie with coq/Tm/Carrier.v (vm_compute) + direct oracle."""
import collections
import vlib

HEADER = """From Coq Require Import List NArith Bool String.
From Coq.Strings Require Import Byte.
From SeataV Require Import Base.Bytes Tm.Carrier.
Import ListNotations. Open Scope N_scope.
"""
KIND = {"grpc": "Grpc", "gin": "Gin", "dubbo": "Dubbo"}


def term(c):
    return "{| cc_kind := %s; cc_roundtrip := %s; cc_key := %s; cc_xid := %s; cc_got := %s |}" % (
        KIND[c["kind"]], "true" if c["roundtrip"] else "false", vlib.coq_hex(c["key"]), vlib.coq_hex(c["xid"]),
        vlib.coq_hex(c["got"]))


def lower(b):
    return bytes(x + 32 if 65 <= x <= 90 else x for x in b)


def accepted(kind, key):
    """independent statement of 'accepted key spellings' (docs/C07.md)"""
    if kind == "grpc":          # HTTP/2 metadata keys are case-insensitive (lower-cased on the wire)
        return lower(key) == b"tx_xid"
    if kind == "gin":           # HTTP header names are case-insensitive
        return lower(key) == b"tx_xid"
    return key in (b"SEATA_XID", b"seata_xid", b"TX_XID", b"tx_xid")


def oracle(c):
    fails = []
    key, xid, got = bytes.fromhex(c["key"]), bytes.fromhex(c["xid"]), bytes.fromhex(c["got"])
    if c["panicked"]:
        return ["the integration or the callee panicked"]
    want = xid if (c["roundtrip"] or accepted(c["kind"], key)) else b""
    if got != want:
        fails.append("callee found xid %r, the caller carried %r under key %r" % (got, xid, key if not c["roundtrip"] else "<sender half>"))
    if c["kind"] == "gin" and not want and not c["ran"]:
        return fails            # the middleware refuses a request without xid (400): nothing to carry
    if not c["ran"]:
        fails.append("the callee did not run")
        return fails
    if got:
        if not c["seata"]:
            fails.append("callee context is not a seata context")
        if c["inner"] != c["got"]:
            fails.append("inside the callee's scope the xid is %r" % bytes.fromhex(c["inner"]))
        if c["role"] != "Participant":
            fails.append("callee's role is %s, not Participant" % c["role"])
        if c["reqs"]:
            fails.append("the callee sent %s to the coordinator" % c["reqs"])
    ended = [r for r in c["reqs"] if r.split(":", 1)[0] in ("commit", "rollback") and xid and r.split(":", 1)[1] == c["xid"]]
    if ended:
        fails.append("the callee ended the carried transaction: %s" % ended)
    return fails


def slim(c):
    return {k: c[k] for k in ("kind", "roundtrip", "key", "xid", "got", "ran", "seata", "inner", "role", "reqs", "status", "ret")}


def run(chk):
    ok, out = vlib.coq_make(["Tm/Carrier.vo"])
    if not ok:
        raise vlib.Broken("Tm/Carrier.v does not compile:\n" + out[-1500:])
    data, secs = vlib.run_harness("tmcarrier", chk.tmp("carrier.json"), timeout=900, tier=chk.tier, seed=chk.seed)
    cases = data["cases"]
    mism = vlib.eval_mismatches("C07c", HEADER, [term(c) for c in cases], fn="cmismatches", case_type="ccase", shard=150)
    failing = [(i, oracle(c)) for i, c in enumerate(cases)]
    failing = [(i, f) for i, f in failing if f]
    seen = set()
    for i, f in sorted(failing, key=lambda x: len(cases[x[0]]["xid"])):
        k = cases[i]["kind"] + f[0][:25]
        if k in seen or len(seen) >= 4:
            continue
        seen.add(k)
        chk.violation("C07 (carrier %s) fails on the real code: %s" % (cases[i]["kind"], f[0]),
                      {"case": slim(cases[i]), "carrier": True, "failed_clauses": f,
                       "model_disagreements": ["xid found by the callee differs from Tm/Carrier.v"] if i in mism else []}, True)
    unexplained = [i for i in mism if i not in {j for j, _ in failing}]
    if unexplained and not failing:
        i = unexplained[0]
        chk.violation("correspondence between Tm/Carrier.v and the integrations broke; the property's own clauses hold on every executed case",
                      {"case": slim(cases[i]), "carrier": True, "correspondence": "Tm/Carrier.v check_ccase"}, False)
    return {"evaluations": len(cases), "traces_validated_against_impl": len(cases) - len(mism),
            "oracle_failures": len(failing), "harness_secs": round(secs, 1),
            "by_kind": dict(collections.Counter(c["kind"] + (".roundtrip" if c["roundtrip"] else ".server") for c in cases)),
            "xid_carried": sum(1 for c in cases if c["got"]),
            "sample": slim(cases[len(cases) // 2])}
