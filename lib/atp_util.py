"""Helpers shared by the C18 / C03 / C02 drivers: walking atrun traces, canonical values,
Coq term printers of the AT kernel (At/Db.v values, keys, tables; At/SelectArgs.v trees)."""
import json, os
import vlib
from vlib import coq_hex, coq_list, coq_bool, coq_str


def step_at(trace, path):
    cur, s = trace["steps"], None
    for p in path.split("."):
        s = cur[int(p)]
        cur = s.get("sub") or []
    return s


def steps_flat(steps):
    for s in steps:
        yield s
        yield from steps_flat(s.get("sub") or [])


# ---- canonical values: ("i", int) | ("s", bytes-hex) | ("n",) | ("o", kind, text)
def canon(k, v):
    if k == "null":
        return ("n",)
    if k in ("int", "uint"):
        return ("i", int(v))
    if k in ("str", "raw"):
        return ("s", (v or "").encode("utf-8").hex())
    if k in ("strhex", "rawhex", "bytes"):
        return ("s", v or "")
    if k == "bool":
        return ("i", 1 if v in ("true", "1") else 0)
    if k in ("float", "float32", "dec"):
        try:
            return ("f", float(v))
        except ValueError:
            pass
    return ("o", k, v)


def go_g(x):
    """Go's fmt %v of a float64: shortest digits, %e form when the decimal exponent is < -4 or >= 6 (shortest => eprec 6)"""
    import decimal
    if x == 0:
        return "0"
    sign, digits, exp = decimal.Decimal(repr(float(x))).as_tuple()
    digits = list(digits)
    while len(digits) > 1 and digits[-1] == 0:
        digits.pop()
        exp += 1
    dp = len(digits) + exp            # position of the decimal point
    e = dp - 1
    ds = "".join(map(str, digits))
    if e < -4 or e >= 6:
        out = ds[0] + ("." + ds[1:] if len(ds) > 1 else "") + "e%s%02d" % ("+" if e >= 0 else "-", abs(e))
    elif dp <= 0:
        out = "0." + "0" * (-dp) + ds
    elif dp >= len(ds):
        out = ds + "0" * (dp - len(ds))
    else:
        out = ds[:dp] + "." + ds[dp:]
    return ("-" if sign else "") + out


def canon_tv(tv):          # fakedb TaggedValue / atrun Val / journal arg: {"k":..,"v":..}
    return canon(tv.get("k", "null"), tv.get("v", ""))


def canon_arg(a):          # atrun Arg {"t":..,"v":..}
    return canon(a.get("t", "null"), a.get("v", ""))


def coq_value(c):
    if c[0] == "n":
        return "VNull"
    if c[0] == "i":
        return "VInt %d%%Z" % c[1] if c[1] >= 0 else "VInt (%d)%%Z" % c[1]
    if c[0] == "s":
        return "VStr " + coq_hex(c[1])
    if c[0] == "f":
        # a float key is carried as the text Go's %v prints for it (VDec renders as its text)
        return "VDec " + coq_hex(go_g(c[1]).encode().hex())
    return "VBytes " + coq_hex((json.dumps(c[1:])).encode().hex())


def coq_vals(cs):
    return coq_list([coq_value(c) for c in cs])


def coq_tbl(pairs):        # [(key canon list, row canon list)]
    return coq_list(["(%s, %s)" % (coq_vals(k), coq_vals(r)) for k, r in pairs])


def dump_table(step, table):
    """rows of a dump step for a table: list of canonical rows (table column order), or None"""
    for d in step.get("dump") or []:
        if d["name"].lower() == table.lower():
            return [[canon_tv(c) for c in row] for row in d["rows"]]
    return None


def keyed(rows, pk):
    return [(tuple(r[i] for i in pk), r) for r in rows]


def coq_expr(e):
    if e.get("p") is not None:
        return "EParam %d%%N" % e["p"]
    return "ENode %s %s" % (coq_str(e.get("k", "")), coq_list(["(%s, %s)" % (coq_str(c["f"]), coq_expr(c["e"])) for c in e.get("c") or []]))


def coq_roots(roots):
    return coq_list(["(%s, %s)" % (coq_str(r["name"]), coq_expr(r["e"])) for r in roots or []])


def image_rows(img, colnames):
    """decoded undo image -> list of dict(column index -> canonical value) (+ set of unknown names)"""
    out = []
    idx = {n.lower(): i for i, n in enumerate(colnames)}
    for row in (img or {}).get("rows") or []:
        d, unknown, dup_conflict = {}, [], False
        for c in row:
            i = idx.get(c["name"].lower())
            v = canon_tv(c["value"])
            if i is None:
                unknown.append(c["name"])
            elif i in d and d[i] != v:
                dup_conflict = True
            else:
                d[i] = v
        out.append((d, unknown, dup_conflict, len(row)))
    return out


def db_events(trace, lo, hi, keep_reset=False):
    """journal entries with lo < seq <= hi, metadata queries and connection noise erased"""
    out = []
    for e in trace["journal"]:
        if not (lo < e["seq"] <= hi):
            continue
        if e["src"] == "db":
            j = e["db"]
            if "INFORMATION_SCHEMA" in (j.get("sql") or "").upper():
                continue
            if j["kind"] in ("CONNECT", "PREPARE", "CLOSE") or (j["kind"] == "RESET" and not keep_reset):
                continue
            if (j.get("sql") or "").strip().upper().startswith("SELECT VERSION"):
                continue
        out.append(e)
    return out


def run_atp(chk, **kw):
    data, secs = vlib.run_harness("atp", chk.tmp("atp_%s.json" % kw.get("prop", "x")), timeout=3000, **kw)
    return data["cases"], secs


def replay_atp(chk, cases, tag="r"):
    p = chk.tmp("replay_%s_in.json" % tag)
    json.dump({"cases": [{"scenario": c["scenario"], "meta": c["meta"]} for c in cases]}, open(p, "w"))
    data, secs = vlib.run_harness("atp", chk.tmp("replay_%s_out.json" % tag), timeout=3000, replay=p)
    return data["cases"]


def slim_case(c):
    t = c.get("trace") or {}
    return {"scenario": c["scenario"], "meta": c["meta"]}
