"""C20 — concurrent use of one client: lock discipline over the regenerated table of
access sites (proof), resource accounting (proof + differential tie), race-detector
stress of the real client (exploration)."""
import json, os, re
import vlib
from vlib import coq_str

MANIFEST = {
    "text": "PARTIAL. Proved in Coq: the Eraser lock discipline (C20_lockset: any two access sites of one shared registry, one "
            "writing, neither init-only, hold a common mutex - exclusive on the writing side - or are both synchronised "
            "objects) over the table of access sites REGENERATED from the Go source on every run by a go/ast+go/types "
            "translator, via a boolean checker proved sound and complete for every table; what a common lock buys in every "
            "reachable state of a mutex machine (C20_common_lock_excludes); acquire/release balance of pooled connections "
            "and goroutines per unit of client work in any interleaving (C20_balance, C20_interleaving_balanced); no re-entrant "
            "lock, an acyclic wait-for graph over locks / Once / connection pool (ranking certificate), no use of a sync.Pool "
            "value after Put - each a checker proved sound for every table and instantiated at the regenerated one; the table "
            "covers EVERY package-level variable of the client; accounting is tied to the "
            "source by the regenerated table of Conn(ctx)/Close brackets. Explored, not proved: N goroutines driving one "
            "initialised client (TM, TCC, AT over a fake driver, load-balance selection over opening/closing sessions, "
            "table-meta cache, sql.Open, phase-two requests through the real handler) in a child process built with -race; "
            "race reports are matched against the table, connection/goroutine deltas against the accounting model, "
            "completion against a wall-clock bound.",
    "note": "Partial level: scheduler interleavings, the Go memory model and database/sql pool internals are not modelled; the "
            "runtime half is exploration under the race detector. Trusted: Coq kernel + vm_compute (no axioms); tools/xlate "
            "lockset (lexical lock scopes, init-only inference from an explicit root list, sync.Once as pseudo-lock, "
            "closure-synchronous callees list); harness/stress (fake driver, coordinator stub via gomonkey); race-log parser. "
            "XA transactions are not driven (a pooled XA connection cannot run a second global transaction on this tree).",
    "technique": "Coq proof over translator-regenerated lock-set / bracket tables + differential accounting correspondence "
                 "(vm_compute) + race-detector stress of the real client",
    "category": "proof",
}
TABLES = [("lockset", "LockSet.v")]
PROP_FILE = "Props/P_C20.v"
TRUSTED = vlib.TRUSTED_COMMON + [
    "tools/xlate lockset: go/ast + go/types (offline importer); lexical lock scopes; explicit init-only roots "
    "(func init, package initialisers, client.Init/InitPath); sync.Once pseudo-lock; sort.Slice/Search and "
    "sync.Map.Range run their closure synchronously; anything unrecognised -> Unknown row rejected by wf_table",
    "coq/Conc/LockSetListing.v: registries that must have rows; listed finding pairs / leaking functions",
    "Go memory model facts used but not modelled: a mutex orders critical sections; Once.Do completes before any Do returns; "
    "init-only code happens before concurrent use of the client",
    "harness/stress: fake database/sql driver, coordinator stub (gomonkey on SendSyncRequest/SendAsyncRequest/"
    "SendAsyncResponse), fake getty sessions; Go race detector; this driver's race-log parser",
]
DIAG_HEADER = """From Coq Require Import String List NArith Bool.
From SeataV Require Import Conc.LockSet Conc.LockSetListing Conc.Reent Conc.Order.
From SeataV Require Gen.LockSet.
Import ListNotations. Open Scope string_scope.
Definition T := SeataV.Gen.LockSet.ls_table.
Definition B := SeataV.Gen.LockSet.ls_brackets.
Definition Live := filter (fun x => violatesb T (fst (fst x)) (snd (fst x)) (snd x)) ls_listed.
Definition LeakLive := filter (fun f => existsb (fun r => (fst (fst r) =? f) && negb (snd r)) B) ls_leak_listed.
"""
ACC_HEADER = """From Coq Require Import String List NArith Bool.
From SeataV Require Import Conc.Accounting Conc.LockSetTable.
Import ListNotations.
"""
ROW = re.compile(r'mkAcc "([^"]*)" "([^"]*)" "([^"]*)" (\d+)%N (Read|Write|\(Unknown "(?:[^"]|"")*"\)) (Plain|Synced) \[(.*?)\] (true|false)')


def parse_table():
    src = open(os.path.join(vlib.COQ, "Gen", "LockSet.v")).read()
    rows = []
    for m in ROW.finditer(src):
        guards = re.findall(r'\("([^"]*)", (Shared|Excl)\)', m.group(7))
        rows.append({"var": m.group(1), "file": m.group(2), "func": m.group(3), "line": int(m.group(4)),
                     "kind": m.group(5), "mode": m.group(6), "guards": guards, "init": m.group(8) == "true"})
    br = re.findall(r'\("([^"]*)", "([^"]*)", (true|false)\)', src.split("ls_brackets")[1]) if "ls_brackets" in src else []
    return rows, [{"func": f, "var": v, "closed": c == "true"} for f, v, c in br]


def parse_listing():
    src = open(os.path.join(vlib.COQ, "Conc", "LockSetListing.v")).read()
    listed = re.findall(r'\("([^"]*)", "([^"]*)", "([^"]*)"\)', src.split("ls_listed")[1].split("].")[0])
    leaks = re.findall(r'"([^"]*)"', src.split("ls_leak_listed")[1].split("].")[0])
    return listed, leaks


def diagnose():
    """which rows / pairs make the obligations fail (evaluated in Coq on the regenerated table)"""
    ok, out = vlib.coq_make(["Gen/LockSet.vo", "Conc/LockSetListing.vo"])
    if not ok:
        return {"table_does_not_typecheck": out[-1200:]}
    exprs = [
        "map (fun p => (a_var (fst p), a_file (fst p), a_func (fst p), a_line (fst p), a_func (snd p), a_line (snd p))) (failing_pairs Live T)",
        "map (fun a => (a_file a, a_func a, a_line a, a_kind a)) (unknown_rows T)",
        "missing_registries ls_required T",
        "filter (fun x => negb (violatesb T (fst (fst x)) (snd (fst x)) (snd x))) ls_listed",
        "filter (fun r => negb (snd r || existsb (String.eqb (fst (fst r))) LeakLive)) B",
        "filter (fun r => negb (existsb (String.eqb (fst (fst r))) LeakLive)) SeataV.Gen.LockSet.ls_open_exits",
        "map (fun h => (hc_func h, hc_line h, hc_lock h, hc_mode h, hc_callee h)) (reentrant_calls SeataV.Gen.LockSet.ls_funcs SeataV.Gen.LockSet.ls_held_calls)",
        "closed_table SeataV.Gen.LockSet.ls_funcs",
        "order_bad_edges SeataV.Gen.LockSet.ls_order_edges SeataV.Gen.LockSet.ls_order_rank",
        "filter (fun t => negb (Nat.eqb (length (snd t)) 0)) (map (fun t => (fst t, pool_bad_from pst0 (snd t))) SeataV.Gen.LockSet.ls_pool_traces)",
    ]
    vals = vlib.coq_compute("C20", DIAG_HEADER, exprs)
    keys = ["failing_pairs", "unknown_rows", "missing_registries", "stale_listed_pairs", "unclosed_unlisted_brackets",
            "exits_with_connection_still_open", "reentrant_lock_calls", "reent_closure_certificate_closed",
            "wait_for_edges_on_a_cycle", "pool_values_used_after_put"]
    return {k: (v or "")[:3000] for k, v in zip(keys, vals)}


# ---------------------------------------------------------------- race logs
def race_id(var):
    last = var.split(".")[-1]
    return "race.log" if var.startswith("util/log.") else "race." + last


def race_reports(logs, repo):
    """-> list of dict(sites=[(file, line, func) or None, ...], text) for every report"""
    out = []
    for txt in logs or []:
        for rep in txt.split("=================="):
            if "DATA RACE" not in rep:
                continue
            sites = []
            for blk in re.split(r"\n\s*\n", rep):
                b = blk.strip()
                b = re.sub(r"^WARNING: DATA RACE\s*", "", b)
                if not re.match(r"(Previous )?(read|write|atomic read|atomic write)\b", b, flags=re.I):
                    continue
                frames = re.findall(r"\n\s+(\S+?)\(\)\n\s+(\S+?):(\d+)", "\n" + b)
                # the site is the innermost frame of the CLIENT (pkg/) on this stack: a race inside a
                # library object that client code reaches from both goroutines (a pooled parser, a
                # shared slice handed to append) is the client's to synchronise.  A stack whose first
                # non-runtime frame is the harness, or that has no client frame, is not a finding.
                site = None
                for fn, path, line in frames:
                    if "/src/runtime/" in path or "/src/sync/atomic/" in path or "/src/internal/" in path:
                        continue
                    if "/harness/" in path or fn.startswith("verifh/"):
                        break
                    if path.startswith(repo.rstrip("/") + "/pkg/") and not path.endswith("verif_hooks.go"):
                        site = (os.path.relpath(path, repo), int(line), fn.split("/")[-1])
                        break
                sites.append(site)
            out.append({"sites": sites[:2], "text": rep.strip()[:6000]})
    return out


def classify_races(reports, rows, listed):
    by_site = {}
    for r in rows:
        by_site.setdefault((r["file"], r["line"]), []).append(r)
    res = {"ignored": 0, "listed": [], "protected_by_model": [], "unmodelled": []}
    for rep in reports:
        s = rep["sites"]
        if len(s) < 2 or s[0] is None or s[1] is None:
            res["ignored"] += 1
            continue
        r1 = by_site.get((s[0][0], s[0][1]), [])
        r2 = by_site.get((s[1][0], s[1][1]), [])
        common = [(a, b) for a in r1 for b in r2 if a["var"] == b["var"]]
        if not common:
            res["unmodelled"].append(rep)
            continue
        if all(((a["var"], a["func"], b["func"]) in listed or (a["var"], b["func"], a["func"]) in listed) for a, b in common):
            res["listed"].append(rep)
        else:
            res["protected_by_model"].append(rep)
    return res


# ---------------------------------------------------------------- accounting tie
def obs_term(u, undo_closed):
    k, o = u["kind"], u["outcome"]
    if k == "tm":
        kind = "UTm"
    elif k == "tcc":
        kind = "UTcc"
    elif k == "at":
        kind = "(UAt %d %d None)" % (u["stmts"], u["meta_miss"])
    elif k in ("at_phase2", "at_phase2_dup"):
        kind = "(UAtPhase2 true)" if o == "commit" else "undo_unit"
    elif k == "select":
        kind = "USelect"
    elif k == "meta":
        kind = "(UMeta %s)" % ("true" if u["meta_miss"] else "false")
    elif k == "meta_fail":
        kind = "(UMetaFail false)"
    elif k == "meta_fail_cancelled":
        kind = "(UMetaFail true)"
    elif k == "at_fail":
        kind = "(UAt 1 1 None)"
    else:
        kind = "UTm"   # sql.Open of a proxy handle: no pooled resource is held afterwards
    return "(mkObs %s %s %d %d %d %d)" % (kind, "Commit" if o == "commit" else "Rollback", u["runs"],
                                          max(u["inuse0"], 0), max(u["inuse1"], 0), max(u["gor"], 0))


ACC_ERR = {1: "connections left in use on the application's (proxy) pool", 2: "connections left in use on the target pool",
           3: "goroutines left running"}


def run(chk, replay_obj=None):
    secs, workers = (5, 12) if chk.tier == "quick" else (120, 16)
    if replay_obj:
        secs, workers = int(replay_obj.get("secs", secs)), int(replay_obj.get("workers", workers))
    vlib.run_xlate("lockset", "LockSet.v")
    rows, brackets = parse_table()
    listed, leak_listed = parse_listing()
    findings = {f.get("id"): f for f in vlib.known_findings("C20")}
    want = set()
    for v, _, _ in listed:
        want.add(race_id(v))
    for f in leak_listed:
        want.add("leak.refresh-conn" if f.endswith(".refresh") else "leak.undo-conn" if f.endswith(".Undo") else "leak." + f)
    if set(findings) != want:
        raise vlib.Broken("KNOWN_FINDINGS.txt (C20: %s) and coq/Conc/LockSetListing.v (%s) disagree" % (sorted(findings), sorted(want)))

    # ---- (A) proof over the regenerated tables
    pr = vlib.proof_step(chk, PROP_FILE, "From SeataV Require Import Props.P_C20.")
    chk.coverage["trusted_base"] = TRUSTED
    diag = None
    if not pr["ok"]:
        diag = diagnose()

    # ---- (B2) + direct oracle: the real client under the race detector
    data, hsecs = vlib.run_harness("stress", chk.tmp("stress.json"), timeout=secs * 3 + 400, race=True,
                                   seed=chk.seed, secs=secs, workers=workers, repo=vlib.REPO,
                                   maxtarget=(4 if chk.tier == "quick" else 8))
    child = data.get("child")
    reports = race_reports(data.get("race_logs"), vlib.REPO)
    rc = classify_races(reports, rows, set(listed))
    undo_closed = all(b["closed"] for b in brackets if b["func"].endswith("BaseUndoLogManager.Undo"))
    refresh_closed = all(b["closed"] for b in brackets if b["func"].endswith("BaseTableMetaCache.refresh"))
    replay_base = {"seed": chk.seed, "secs": secs, "workers": workers, "tier": chk.tier}

    found_dynamic = False
    for rep in rc["protected_by_model"][:3]:
        found_dynamic = True
        chk.violation(("data race reported on a pair of access sites the lock-set table claims protected: %s" if pr["ok"] else "data race reported on a pair of modelled access sites (the lock-set obligation fails on this tree too): %s") % (rep["sites"],),
                      dict(replay_base, race_report=rep["text"], sites=rep["sites"]), True)
    for rep in rc["unmodelled"][:3]:
        found_dynamic = True
        chk.violation("data race reported between two sites of the client (pkg/) outside the modelled registries: %s" % (rep["sites"],),
                      dict(replay_base, race_report=rep["text"], sites=rep["sites"]), True)

    acc_mismatch = {}
    units = []
    if child is None or data.get("diverged"):
        found_dynamic = True
        chk.violation("the stress run did not terminate within its bound (client lock-up or crash); stderr tail attached",
                      dict(replay_base, diverged=data.get("diverged"), child_exit=data.get("child_exit"),
                           stderr_tail=(data.get("stderr_tail") or "")[-2500:]), True)
    else:
        units = child.get("units") or []
        if child.get("stuck"):
            found_dynamic = True
            chk.violation("lock-up: the client did not come back within the watchdog's bound: %s (goroutine dump in the replay)" % child["stuck"][:4],
                          dict(replay_base, stuck=child["stuck"], goroutine_dump=child.get("stuck_dump", "")), True)
        unfinished = {k: (v, child["finished"].get(k, 0)) for k, v in child["started"].items() if child["finished"].get(k, 0) != v}
        if unfinished and not child.get("stuck"):
            found_dynamic = True
            chk.violation("units started but not finished: %s" % unfinished, dict(replay_base, unfinished=unfinished), True)
        # accounting correspondence, evaluated in Coq
        if pr["ok"]:
            terms = [obs_term(u, undo_closed) for u in units]
            acc_mismatch = vlib.eval_mismatches("C20", ACC_HEADER, terms, fn="mismatches", case_type="obs")
            for i, codes in sorted(acc_mismatch.items()):
                u = units[i]
                found_dynamic = True
                chk.violation("unit %s/%s x%d: %s (observed after settling: proxy pool %+d, target pool %+d, goroutines %+d; "
                              "the accounting model expects what C20_balance proves)" % (
                                  u["kind"], u["outcome"], u["runs"], "; ".join(ACC_ERR[c] for c in codes),
                                  u["inuse0"], u["inuse1"], u["gor"]),
                              dict(replay_base, unit=u, phase="sequential accounting"), True)
        for u in units:
            if u["panic"]:
                chk.notes.append("unit %s/%s panicked: %s" % (u["kind"], u["outcome"], u.get("sample")))
        # stress-phase totals (direct oracle of 'no goroutine or connection is lost')
        if child["inuse0_delta"] != 0:
            found_dynamic = True
            chk.violation("%+d connections of the application's pool still in use after the concurrent batch settled" % child["inuse0_delta"],
                          dict(replay_base, child={k: child[k] for k in ("inuse0_delta", "inuse1_delta", "finished")}), True)
        if child["gor_after"] > child["gor_before"]:
            found_dynamic = True
            chk.violation("%d client goroutines more than before the concurrent batch after settling" % (child["gor_after"] - child["gor_before"]),
                          dict(replay_base, goroutines=child.get("gor_left")), True)
        busy = child.get("busy_conns") or []
        undo_leaks = [b for b in busy if "undo_log" in b.lower()]
        # meta-data queries name their table; the refresh only re-reads tables that ARE cached, and a
        # table whose load fails never is: such a connection was lost by a lookup, not by the refresh
        refresh_leaks = [b for b in busy if b.startswith("META ") and not re.search(r"/\*table T_(QERR|NOCOL|NOIDX|CANCEL)", b)]
        other = [b for b in busy if b not in undo_leaks and b not in refresh_leaks]
        bad = []
        if other:
            bad.append("%d target connections never given back, last statement e.g. %r" % (len(other), other[0]))
        if undo_leaks and (undo_closed or "leak.undo-conn" not in findings):
            bad.append("%d target connections never given back after phase-two undo (last statement on undo_log; no listed finding covers it)" % len(undo_leaks))
        if refresh_leaks and (refresh_closed or "leak.refresh-conn" not in findings):
            bad.append("%d target connections never given back after meta-data queries (no listed finding covers it)" % len(refresh_leaks))
        if child["inuse1_delta"] > len(busy):
            bad.append("target pools report %d connections in use, only %d attributed" % (child["inuse1_delta"], len(busy)))
        if bad:
            found_dynamic = True
            chk.violation("; ".join(bad), dict(replay_base, busy_sample=busy[:5], inuse1_delta=child["inuse1_delta"]), True)

    # ---- static obligations
    if not pr["ok"]:
        chk.violation("a proof obligation of C20 no longer checks on the tables regenerated from the source "
                      "(lock discipline over every package-level variable / well-formedness / listed findings / connection given back on "
                      "every path / no re-entrant lock / acyclic wait-for graph / sync.Pool values): %s" % json.dumps({k: v for k, v in (diag or {}).items() if v not in ("[]", "true")})[:700],
                      {"theorem": "Props/P_C20.v (C20_lockset, C20_table_wf, C20_listed_findings_refuted, C20_brackets, C20_no_reentrant_lock, C20_wait_for_acyclic, C20_pool_no_use_after_put)",
                       "diagnosis": diag, "coq_output": pr["out"][-1500:]}, found_dynamic)

    # ---- stale listing entries: listed findings that no longer reproduce on the regenerated tables.
    # They exempt nothing (ls_live / ls_leak_live in Coq) and are reported, never passed over silently.
    stale = []
    if pr["ok"]:
        sv = vlib.coq_compute("C20", ACC_HEADER, ["ls_stale", "ls_leak_stale"])
        for v, f1, f2 in re.findall(r'\("([^"]*)", "([^"]*)", "([^"]*)"\)', sv[0] or ""):
            stale.append("id=%s listed pair (%s, %s) no longer violates the lock discipline / is no longer in the table" % (race_id(v), f1, f2))
        for f in re.findall(r'"([^"]*)"', sv[1] or ""):
            fid = "leak.refresh-conn" if f.endswith(".refresh") else "leak.undo-conn" if f.endswith(".Undo") else "leak." + f
            stale.append("id=%s listed function %s gives its connection back on every path now (or takes none)" % (fid, f))
    for st in stale:
        line = "STALE-FINDING: property=C20 %s: remove it from KNOWN_FINDINGS.txt and coq/Conc/LockSetListing.v" % st
        print(line)
        chk.notes.append(line)
    chk.coverage["stale_findings"] = stale

    # ---- known findings (each reproduces statically on every run; dynamic sightings are counted)
    live_pairs = [t for t in listed if not any(("(%s, %s)" % (t[1], t[2])) in st and t[0].split(".")[-1] in st for st in stale)]
    if pr["ok"]:
        if "race.commonHook" in findings and any(t[0].endswith(".commonHook") for t in live_pairs):
            chk.known("id=race.commonHook exec.commonHook is written by RegisterCommonHook/CleanCommonHook without a lock while "
                      "BuildExecutor reads it (C20_listed_findings_refuted holds; race reports on it this run: %d)" % len(rc["listed"]))
        if "race.log" in findings and any(t[0].startswith("util/log.") for t in live_pairs):
            chk.known("id=race.log the package-level logger is replaced by SetLogger/InitWithOption without synchronisation while every "
                      "log call reads it (%d listed pairs refuted in Coq)" % sum(1 for t in live_pairs if t[0].startswith("util/log.")))
        if "leak.undo-conn" in findings and not undo_closed:
            seen = sum(u["inuse1"] for u in units if u["kind"] == "at_phase2" and u["outcome"] == "rollback")
            chk.known("id=leak.undo-conn BaseUndoLogManager.Undo never closes the connection it takes "
                      "(bracket table: unclosed; connections left by the sequential phase-two rollbacks this run: %d)" % seen)
        if "leak.refresh-conn" in findings and not refresh_closed:
            chk.known("id=leak.refresh-conn BaseTableMetaCache.refresh never closes the connection it takes "
                      "(bracket table: unclosed; C20_refresh_pinned_leaks; connections so held at the end of this run: %d)"
                      % (len([b for b in (child or {}).get("busy_conns") or [] if b.startswith("META ")])))

    # ---- evidence
    n_units = sum((child or {}).get("finished", {}).values()) + sum(u["runs"] for u in units)
    kinds = {(u["kind"], u["outcome"]) for u in units if u["ok"]} | {(k, "concurrent") for k, v in (child or {}).get("finished", {}).items() if v}
    stats = {}
    if pr["ok"]:
        v = vlib.coq_compute("C20", ACC_HEADER, ["conflicting_pairs_count", "length ls_table", "length ls_brackets",
                                                 "length ls_funcs", "length ls_held_calls"])
        stats = {"conflicting_pairs_checked": v[0], "table_rows": v[1], "bracket_rows": v[2],
                 "lock_function_rows": v[3], "calls_under_a_held_lock_checked": v[4]}
    chk.coverage.update({
        "evaluations": n_units,
        "distinct_nontrivial": len(kinds),
        "rule": "quick: 5 s / thorough: 120 s of %d worker goroutines + session churn + sql.Open loop through ONE initialised client in a "
                "-race child process, preceded by a sequential accounting pass (3-5 runs of each unit kind); every random choice from "
                "VERIF_SEED; an evaluation = one completed unit (global transaction of kind tm/tcc/at with its phase two, selection burst, "
                "meta lookup, sql.Open, hook reset); distinct_nontrivial = distinct (unit kind, outcome|concurrent) that completed" % workers,
        "samples": [u for u in units[:3]] + [rows[i] for i in range(0, len(rows), max(1, len(rows) // 3))][:3],
        "traces_validated_against_impl": len(units) - len(acc_mismatch),
        "lockset_table": dict(stats, registries=len({r["var"] for r in rows}), listed_pairs=len(listed),
                              init_only_rows=sum(1 for r in rows if r["init"]), unknown_rows=sum(1 for r in rows if r["kind"].startswith("(Unknown"))),
        "race_reports": {"total": len(reports), "ignored_not_pkg": rc["ignored"], "on_listed_pairs": len(rc["listed"]),
                         "on_protected_pairs": len(rc["protected_by_model"]), "unmodelled_pkg": len(rc["unmodelled"])},
        "stress": None if child is None else {k: child[k] for k in ("started", "finished", "errors", "phase2_sent", "phase2_resp", "opens",
                                                                   "session_ops", "gor_before", "gor_after", "inuse0_delta", "inuse1_delta",
                                                                   "drv_opened", "drv_closed", "rpc")},
        "stress_secs": secs, "harness_wall_s": round(hsecs, 1),
    })
    chk.assumptions += ["lexical lock scopes (defer Unlock holds to function end); locks are identified by declaring type and field, "
                        "with the receiver text required to match for fields of the same object",
                        "init-only code (reachable only from func init / client.Init / client.InitPath by direct calls) happens before concurrent use",
                        "scheduler interleavings, Go memory model and database/sql pool internals are not modelled (partial level); "
                        "XA transactions are not driven"]
    return chk.finish()


def replay(chk, path):
    r = json.load(open(path))
    return run(chk, replay_obj=r)
