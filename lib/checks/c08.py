"""C08 — undo-log encoding is lossless under every serializer / compressor setting."""
import json, os
import vlib
from vlib import coq_hex, coq_list, coq_bool

MANIFEST = {
    "text": "Coq theorems over an executable model of the undo-log codec (ColumnImage.MarshalJSON/UnmarshalJSON by JDBC type, "
            "json/protobuf serializers, context codec, compressor selection, FlushUndoLog/Undo composition): C08_lossless "
            "(every log over the emitted (JDBC type, Go kind) pairs, every compress configuration, json serializer: what "
            "flush writes reads back equal up to the executors' equality), C08_lossless_protobuf_partial (protobuf serializer, exactly the "
            "value shapes it preserves; refuted outside), C08_total (read_back never panics), C08_ctx / C08_ctx_map (context codec on "
            "arbitrary maps), C08_base64_exact; the JDBC-type switch, the writer's type switch, SQLType text tables and the compressor "
            "selection are REGENERATED from the Go source on every run (Gen/UndoSwitch.v) and must satisfy wf_table; the real "
            "FlushUndoLog and the real decode helpers are run on generated logs x configurations, malformed stored columns and "
            "garbage, and END TO END through the shared AT engine (real proxy, scanner, FlushUndoLog and Undo on fakedb over every supported "
            "column type), and context bytes, the rollback_info document and the decoded log are compared with the model inside Coq "
            "(inside the protobuf finding region against the expected lossy outcome); rollback must restore the table dump exactly.",
    "note": "Trusted: Coq kernel, tools/xlate undo (case bodies matched against templates, anything else = GrUnknown), harness "
            "undorun, Go's time/encoding/json/protobuf text layers and the compressors as hypotheses exercised on every run. "
            "Known findings: protobuf serializer loses integer/bytes/time typing; Lz4 compressor refuses incompressible logs; end to end: "
            "scan error in phase one on TIME columns.",
    "technique": "Coq proof over translator-regenerated tables + differential correspondence (vm_compute) + direct oracle",
}
TABLES = [("undo", "UndoSwitch.v")]
PROP_FILE = "Props/P_C08.v"
REQ = "From SeataV Require Import Props.P_C08."
TRUSTED = vlib.TRUSTED_COMMON + [
    "tools/xlate undo: go/ast + whitespace-normalised case-body templates; unmatched syntax -> GrUnknown / false flags, rejected by wf_table",
    "Go harness undorun (generators, capturing driver.Conn, canonicaliser of values/JSON documents) and this driver's case printer",
    "hypotheses of C08_lossless about external libraries (time.Format/Parse RFC3339Nano, encoding/json text layer on valid UTF-8, "
    "compressors' decompress(compress x) = x): exercised on the real libraries on every run",
    "executor_eq identifies a string and a []byte of the same content and compares times by instant+offset (docs/C08.md)",
]
ERR = {1: "FlushUndoLog outcome differs from the model", 2: "stored context differs from the model",
       3: "rollback_info document differs from the model's marshal_log", 4: "decode outcome (ok/error/panic) differs from the model",
       5: "decoded log differs from the model's read_back"}
HEADER = """From Coq Require Import String List NArith ZArith Bool.
From Coq.Strings Require Import Byte.
From SeataV Require Import Base.Bytes At.Values At.UndoCodec At.UndoCases.
Import ListNotations. Open Scope Z_scope.
"""
KIND = {"None": "CNone", "Gzip": "CGzip", "Zip": "CZip", "Bzip2": "CBzip2", "Lz4": "CLz4", "Zstd": "CZstd", "Deflate": "CDeflate"}
NIL_SLICE_KEYS = {b"rows".hex(), b"fields".hex(), b"sqlUndoLogs".hex()}
FINDING_PREDS = ("undo.serializer.protobuf", "undo.compress.lz4", "undo.e2e.scan-unsupported")


def z(n):
    n = int(n)
    return "(%d)" % n if n < 0 else "%d" % n


def hexs(h):
    return coq_hex(h)


def val(v):
    k = v["k"]
    if k == "nil":
        return "GNil"
    if k == "i":
        return "(GInt W%d %s)" % (v["w"], z(v["v"]))
    if k == "f":
        return "(GF64 %s%%N)" % v["v"]
    if k == "s":
        return "(GStr %s)" % hexs(v.get("v", ""))
    if k == "b":
        return "(GBytes %s)" % hexs(v.get("v", ""))
    if k == "t":
        return "(GTime (mkTm %s))" % " ".join(z(x) for x in v["t"])
    if k == "B":
        return "(GBool %s)" % coq_bool(v["v"] == "1")
    return "GOpaque"


def image(i):
    if i is None:
        return "None"
    rows = coq_list([coq_list(["(mkCol %s %s %s %s)" % (coq_bool(c["pk"]), hexs(c["name"]), z(c["type"]), val(c["val"]))
                               for c in r]) for r in i["rows"]])
    return "(Some (mkImage %s %s %s))" % (hexs(i["table"]), z(i["sqltype"]), rows)


def log(l):
    if l is None:
        return "(mkLog [] 0 [])"
    items = coq_list(["(mkItem %s %s %s %s)" % (z(it["sqltype"]), hexs(it["table"]), image(it["before"]), image(it["after"]))
                      for it in l["items"]])
    return "(mkLog %s %s %s)" % (hexs(l["xid"]), z(l["branch"]), items)


def tree(t):
    if t == "n":
        return "JNull"
    if "B" in t:
        return "(JBool %s)" % coq_bool(t["B"])
    if "N" in t:
        n = t["N"]
        return "(JNum (mkNum %s %s))" % ("(Some %s)" % z(n["i"]) if "i" in n else "None",
                                        "(Some %s%%N)" % n["f"] if "f" in n else "None")
    if "s" in t:
        return "(JStr %s)" % hexs(t["s"])
    if "a" in t:
        return "(JArr %s)" % coq_list([tree(x) for x in t["a"]])
    # a nil Go slice is written as null, an empty one as []: the model does not distinguish them
    return "(JObj %s)" % coq_list(["(%s, %s)" % (hexs(k), "(JArr [])" if (v == "n" and k in NIL_SLICE_KEYS) else tree(v))
                                   for k, v in t["o"]])


def case_term(c):
    cfg = c.get("cfg") or {"ser": "", "enable": False, "ctype": "", "threshold": ""}
    h = lambda s: hexs(s.encode("utf-8", "surrogateescape").hex())
    cfgt = "(mkCfg %s %s %s %s)" % (h(cfg["ser"]), coq_bool(cfg["enable"]), h(cfg["ctype"]), h(cfg["threshold"]))
    trees = coq_list(["(%s, %s)" % (KIND[t["kind"]], tree(t["tree"])) for t in (c.get("trees") or [])])
    dec = {"ok": 0, "err": 1}.get(c["dec"], 2)
    return "(mkCase %s %s %s %s %s %s %d%%N %s)" % (
        coq_bool(c["stream"] == "valid"), cfgt, log(c.get("log")), coq_bool(c["flush"] == "ok"),
        hexs(c["ctx"]), trees, dec, log(c.get("declog")))


def slim(c):
    d = {k: c.get(k) for k in ("stream", "cfg", "log", "flush", "flush_err", "ctx", "dec", "dec_err", "declog", "oracle", "features", "what", "expect", "region_violation", "reader_dep")}
    d["info"] = c.get("info", "")[:4000]
    if len(json.dumps(d.get("log"))) > 20000:   # a payload of 100 kB: the case replays from (seed, tier)
        d["log"] = "omitted (large payload; regenerate with the recorded seed): " + json.dumps(d["log"])[:2000]
    return d


def in_finding(c, preds):
    return any(f in preds for f in (c.get("features") or []))


def run(chk, only_seed=None):
    quick = chk.tier == "quick"
    n, nm, ng, ne, ni = (150, 150, 80, 64, 24) if quick else (1500, 1500, 600, 192, 300)
    seeds = [chk.seed] if quick else [chk.seed + 7919 * k for k in range(5)]
    vlib.run_xlate("undo", "UndoSwitch.v")
    ok_cases, out_cases = vlib.coq_make(["At/UndoCases.vo"])
    # ---- run the real code
    cases, secs = [], 0.0
    data = None
    for sd in seeds:
        d, t = vlib.run_harness("undo", chk.tmp("undo_%d.json" % sd), seed=sd, n=n, malformed=nm, garbage=ng, e2e=ne, interleaved=ni, timeout=1500)
        secs += t
        for c in d["cases"]:
            c["seed"] = sd
        cases += d["cases"]
        if data is None:
            data = d
        else:
            data["hyp_fail"] += d["hyp_fail"]
            data["hyp_runs"] += d["hyp_runs"]
    findings = {f["pred"]: f for f in vlib.known_findings("C08")}
    # feature computed here as well: the compress configuration of the case
    for c in cases:
        cfg = c.get("cfg") or {}
        if c["stream"] in ("valid", "e2e", "e2e-rollback") and cfg.get("enable") and cfg.get("ctype") == "Lz4":
            c["features"] = (c.get("features") or []) + ["undo.compress.lz4"]
    clean = [c for c in cases if not in_finding(c, findings)]
    # ---- (A) proof, with the regenerated table
    pr = vlib.proof_step(chk, PROP_FILE, REQ)
    # ---- direct oracle on the clean stream
    reported = set()
    for c in sorted((c for c in clean if c["oracle"]), key=lambda c: len(c.get("info", ""))):
        key = c["oracle"].split(":")[0][:60] + "|" + str((c.get("cfg") or {}).get("ser")) + "|" + str((c.get("cfg") or {}).get("ctype"))
        if key in reported or len(reported) >= 8:
            continue
        reported.add(key)
        chk.violation("undo log not restored: " + c["oracle"], {"case": slim(c), "seed": c.get("seed", chk.seed), "tier": chk.tier}, True)
    # the stored (context, rollback_info) alone decides the decoding: never the reader's configuration
    seen_dep = set()
    for c in sorted((c for c in cases if c.get("reader_dep")), key=lambda c: len(c.get("info", ""))):
        k = c["reader_dep"].split(" (")[0][-60:] + c["reader_dep"].split(" under reader configuration")[-1][:80]
        if k in seen_dep or len(seen_dep) >= 4:
            continue
        seen_dep.add(k)
        chk.violation(c["reader_dep"], {"case": slim(c), "seed": c.get("seed", chk.seed), "tier": chk.tier}, True)
    # inside a finding's region the recorded outcome is matched exactly: anything else is a violation
    for c in sorted((c for c in cases if c.get("region_violation")), key=lambda c: len(c.get("info", "")))[:3]:
        chk.violation("inside the region of a known finding the code does something else than the recorded outcome: "
                      + c["region_violation"], {"case": slim(c), "seed": c.get("seed", chk.seed), "tier": chk.tier}, True)
    hyp = [h for h in data["hyp_fail"] if not ("undo.compress.lz4" in findings and h.startswith("Lz4:"))]
    for h in hyp[:3]:
        chk.violation("compressor does not round-trip: " + h[:300], {"hypothesis": h, "seed": chk.seed}, True)
    # ---- (B2) correspondence
    mism = {}
    # the protobuf region is compared with the model too: the EXPECTED lossy outcome is part of the finding,
    # any other loss inside the region is a violation
    others = [p for p in findings if p != "undo.serializer.protobuf"]
    cmp_cases = [c for c in cases if c["inmodel"] and not in_finding(c, others)]
    if ok_cases:
        terms = [case_term(c) for c in cmp_cases]
        mism = vlib.eval_mismatches("C08", HEADER, terms, case_type="ucase", shard=60)
        obs = coq_list(["(%s, %s)" % (z(p[0]), {"i": "KInt", "f": "KFloat", "s": "KStr", "b": "KBytes", "t": "KTime"}[p[1]])
                        for p in data["emit_pairs"]])
        cov = vlib.coq_compute("C08", HEADER, ["emit_covered %s %s" % (obs, coq_list([z(v) for v in data["sqltypes"].values()]))])[0]
        if cov != "true" and not chk.violations:
            chk.violation("the image builder emits a (JDBC type, Go kind) pair or SQL type outside the theorem's domain",
                          {"emit_pairs": data["emit_pairs"], "sqltypes": data["sqltypes"]}, False)
    region = [i for i in mism if in_finding(cmp_cases[i], findings)]
    for i in sorted(region, key=lambda i: len(cmp_cases[i].get("info", "")))[:3]:
        chk.violation("inside the region of a known finding the code loses something else than the recorded outcome (%s)"
                      % ", ".join(ERR.get(e, str(e)) for e in mism[i]),
                      {"case": slim(cmp_cases[i]), "model_disagreements": [ERR.get(e, str(e)) for e in mism[i]],
                       "seed": cmp_cases[i].get("seed", chk.seed), "tier": chk.tier}, True)
    if mism and not chk.violations:
        i = sorted(mism, key=lambda i: len(cmp_cases[i].get("info", "")))[0]
        chk.violation("correspondence between the model and the code broke (%s); property not shown on this tree"
                      % ", ".join(ERR.get(e, str(e)) for e in mism[i]),
                      {"case": slim(cmp_cases[i]), "model_disagreements": [ERR.get(e, str(e)) for e in mism[i]], "seed": chk.seed}, False)
    if (not pr["ok"] or not ok_cases) and not chk.violations:
        diag = ""
        try:
            diag = open(os.path.join(vlib.COQ, "Gen", "UndoSwitch.v")).read()[:3000]
        except OSError:
            pass
        chk.violation("proof obligation of C08 no longer checks on the regenerated table (wf_table go_undo_table / C08_lossless)",
                      {"theorem": "go_table_wf (coq/At/UndoTableProofs.v)", "coq_output": (pr["out"] if not pr["ok"] else out_cases)[-1500:],
                       "regenerated_table": diag}, False)
    # ---- finding stream
    for pred, f in findings.items():
        hit = [c for c in cases if in_finding(c, (pred,))]
        failing = [c for c in hit if c["oracle"]]
        if pred == "undo.compress.lz4":
            failing = failing or [h for h in data["hyp_fail"] if h.startswith("Lz4:")]
        fixed = [c for c in hit if c.get("what") == f.get("id")]
        reproduced = any(c["oracle"] for c in fixed) if fixed else bool(failing)
        if reproduced:
            chk.known("id=%s pred=%s :: %s (%d of %d cases in the region fail)" % (f.get("id"), pred, f["what"], len(failing), len(hit)))
        else:
            print("STALE-FINDING: property=C08 id=%s no longer reproduces" % f.get("id"))
            chk.notes.append("stale finding " + str(f.get("id")))
    # ---- evidence
    valid = [c for c in cases if c["stream"] == "valid" and c.get("log")]
    e2e_rows = [c for c in valid if (c.get("what") or "").startswith("e2e")]
    e2e_rb = [c for c in cases if c["stream"] == "e2e-rollback"]
    nontrivial = [c for c in valid if c["flush"] == "ok" and c["dec"] == "ok"]
    dist = {}
    for c in cases:
        k = c["stream"] + "/" + str((c.get("cfg") or {}).get("ser", "-"))
        dist[k] = dist.get(k, 0) + 1
    ncols = sum(len(r) for c in valid for it in c["log"]["items"] for im in (it["before"], it["after"]) if im for r in im["rows"])
    chk.coverage.update({
        "trusted_base": TRUSTED,
        "evaluations": len(cases), "column_values": ncols,
        "distinct_nontrivial": vlib.distinct([(c["cfg"], c["log"]) for c in nontrivial]),
        "rule": "deterministic sweep of every emitted (MySQL DATA_TYPE -> JDBC type, Go kind) x boundary values, then n=%d random logs "
                "(1-2 statements, 0-2 rows, 1-5 columns) x serializer x compress type x enable x threshold through the real "
                "FlushUndoLog and decode helpers; %d malformed stored columns (every JDBC code x ill-shaped values/keys/contexts) and "
                "%d garbage inputs; %d end-to-end scenarios through the shared AT engine (real proxy/scanner/FlushUndoLog/Undo on fakedb; every "
                "supported column type in turn x serializer x compress type; UPDATE/DELETE/INSERT in a global transaction, phase-two rollback, "
                "dump equality); per seed, seeds %s; non-trivial = flushed and decoded by the code; distinct by (config, log)" % (n, nm, ng, ne, seeds),
        "traces_validated_against_impl": len(cmp_cases) - len(mism),
        "compared_with_model": len(cmp_cases), "clean_stream": len(clean), "finding_stream": len(cases) - len(clean),
        "within_theorem_domain": sum(1 for c in valid if (c.get("cfg") or {}).get("ser") == "json" and c["inmodel"]),
        "compressor_hypothesis_runs": data["hyp_runs"], "compressor_hypothesis_failures": len(data["hyp_fail"]),
        "input_distribution": dist, "emit_pairs_observed": data["emit_pairs"],
        "harness_seconds": round(secs, 1), "seeds": seeds,
        "decoded_under_reader_configs": sum(1 for c in cases if c.get("dec") not in (None, "-")), "reader_configs_per_case": 4,
        "interleaved_flush_pairs": sum(1 for c in cases if (c.get("what") or "").startswith("interleaved")) // 2,
        "lz4_region_cases_matched_to_expected_outcome": sum(1 for c in cases if c.get("expect")),
        "e2e_undo_rows_through_real_scanner": len(e2e_rows), "e2e_rollbacks": len(e2e_rb),
        "e2e_rollbacks_restored_exactly": sum(1 for c in e2e_rb if not c["oracle"]),
        "samples": [slim(c) for c in nontrivial[len(nontrivial) // 2:len(nontrivial) // 2 + 2]],
    })
    chk.assumptions += ["time.Format/Parse, encoding/json's text layer, protobuf wire format and the compressors are modelled as "
                        "functions with a round-trip hypothesis, exercised on the real libraries on every run",
                        "threshold is not honoured by the code (documented); offsets with seconds and years outside 0..9999 are outside the domain"]
    return chk.finish()


def replay(chk, path):
    r = json.load(open(path))
    if "seed" in r:
        chk.seed = int(r["seed"])
        if r.get("tier"):
            chk.tier = r["tier"]
    return run(chk)
