"""C14 — concurrent requests are answered by their own responses; stragglers do no harm."""
import concurrent.futures, glob, json, os, re, subprocess
import vlib

MANIFEST = {
    "text": "Coq theorems over ALL event lists of an LTS model of the pending-request table (sends, the two atomic steps of "
            "every reply delivery in any order/multiplicity, wake-ups, timeouts, responses/heartbeats/pongs with arbitrary ids, "
            "connection loss; int32(uint32) id wrap explicit): C14_own_reply, C14_receives, C14_timeout, C14_outcome_stable, "
            "C14_no_block, C14_no_leak, C14_fresh_ok, C14_request_ids_distinct, stated at the configuration REGENERATED from the source by `xlate futures` "
            "(channel capacity, non-blocking signal, what the timeout removes, who stores a future, what a pong removes, payload-before-signal order at every delivery site, the id source of every send site that writes an answerable frame) with the "
            "obligation C14_source_cfg_good; the model is tied to the real client by running SendSyncRequest/SendAsyncRequest/"
            "SendAsyncResponse/OnCron/OnMessage/OnOpen/OnClose over a fake getty session on generated histories (sequenced with "
            "checkpoints after every event, truly concurrent with 1..256 callers, and a batch with real 20 s timeouts, late and "
            "duplicate replies, connection loss) and evaluating the model inside Coq on the same histories.",
    "note": "Trusted: Coq kernel + vm_compute, no axioms; tools/xlate futures (5 syntactic facts; unrecognised syntax fails the "
            "obligation); harness remrun (fake session, goroutine-dump count of parked deliveries). Sending with no session "
            "registered at all (60 s wait) is not exercised; concurrent histories are compared through a witness linearisation.",
    "technique": "Coq proof (invariants over an LTS) at a translator-regenerated configuration + differential correspondence (vm_compute) + direct oracle",
}
TABLES = [("futures", "FuturesCfg.v")]
PROP_FILE = "Props/P_C14.v"
TRUSTED = vlib.TRUSTED_COMMON + [
    "tools/xlate futures (go/ast: order of the `.Response` assignment and the `.Done` signal, `int32(idGenerator.Inc())` ids, capacity of Done, select/default around every send on .Done, RemoveMessageFuture in the timeout "
    "case of syncCallback, `callback != nil` guard of futures.Store/Delete in sendAsync, RemoveMessageFuture in the heartbeat processor)",
    "Go harness remrun14/remruntcp (fake getty.Session, real listener/client/processors; parked deliveries counted from runtime.Stack) and this driver's case printer",
]
HEADER = """From Coq Require Import List NArith ZArith Bool.
From SeataV Require Import Remoting.FuturesModel Remoting.FuturesCases.
Import ListNotations.
"""
ERR = {1: "size of the pending-future table differs from the model at a checkpoint",
       2: "number of parked reply deliveries differs from the model at a checkpoint",
       3: "a caller's outcome differs from the model", 4: "a request id differs from the model (id generator / wrap)",
       5: "a waiter of the run is unknown to the model"}


def z(n):
    return "(%d)%%Z" % n


def b(x):
    return "true" if x else "false"


def ev_term(e):
    t = e[0]
    if t == "S":
        return "TE (ESend %d%%N %s)" % (e[1], b(e[2]))
    if t == "W":
        return "TE (EWrite %s %s)" % (z(e[1]), b(e[2]))
    if t == "H":
        return "TE (EHeartbeat %s)" % b(e[1])
    if t == "D":
        return "TE (EDeliver %s %d%%N)" % (z(e[1]), e[2])
    if t == "R":
        return "TE (ERemove %s)" % z(e[1])
    if t == "K":
        return "TE (EWake %d%%N)" % e[1]
    if t == "T":
        return "TE (ETimeout %d%%N)" % e[1]
    if t == "P":
        return "TE (EPong %s)" % z(e[1])
    if t == "N":
        return "TN %d%%N" % e[1]
    if t == "C":
        return "TE EClose"
    if t == "O":
        return "TE EOpen"
    if t == "obs":
        return "TObs %d%%N %d%%N" % (e[1], e[2])
    return None


def case_term(c):
    evs = [x for x in (ev_term(e) for e in c["events"]) if x]
    outs = ["mkOut %d%%N %s %s %s %d%%N %s" % (o["k"], b(o["has_id"]), z(o["id"]), b(o["sync"]), o["class"], z(o["val"]))
            for o in c["out"]]
    return "mkCase %d%%N %d%%N [%s] [%s]" % (c["c0"], c["h0"], "; ".join(evs), "; ".join(outs))


def write_conf(chk):
    src = open(os.path.join(vlib.REPO, "testdata", "conf", "seatago.yml")).read()
    # nothing listens on port 1: the real getty client only fails to connect in the background
    src = src.replace("default: 127.0.0.1:8091", "default: 127.0.0.1:1")
    p = chk.tmp("seatago.yml")
    open(p, "w").write(src)
    return p


def race_search(chk, conf):
    """prompt-reply burst of the harness built with -race; returns the burst's own oracle failures and the race
    reports in which the delivery's payload write meets the waiter's read"""
    out = {"ran": False}
    try:
        h = vlib.build_harness(race=True)
        res = chk.tmp("prompt.json")
        env = dict(vlib.GOENV, CGO_ENABLED="1", GORACE="log_path=%s halt_on_error=0" % chk.tmp("race"))
        subprocess.run([h, "remrun14", "out=" + res, "mode=prompt", "conf=" + conf, "g=8", "per=300", "seed=%d" % chk.seed],
                       cwd=vlib.BUILD, env=env, timeout=900, stdout=subprocess.DEVNULL, stderr=subprocess.DEVNULL)
        pr = json.load(open(res))["prompt"]
    except Exception as e:  # the search is best effort: without it the violation stays `no-failing-input-found`
        out["error"] = str(e)[:300]
        return out
    out.update(ran=True, requests=pr["requests"], nil_returns=pr["nil_returns"], oracle=pr["oracle"] or [])
    reports = []
    for f in glob.glob(chk.tmp("race") + ".*"):
        for blk in open(f, errors="replace").read().split("=================="):
            if "DATA RACE" in blk and "NotifyRpcMessageResponse" in blk and "syncCallback" in blk:
                reports.append(re.sub(r"\n\s*\n", "\n", blk.strip())[:2500])
    out["races"] = len(reports)
    out["race_reports"] = reports[:2]
    return out


def nontrivial(c):
    """a history is non-trivial when at least two requests were pending at once or it has a
    duplicate/late/unknown-id delivery, a timeout, a colliding response/heartbeat/pong or a connection loss"""
    kinds = {e[0] for e in c["events"]}
    maxtab = max([e[1] for e in c["events"] if e[0] == "obs"] or [0])
    dup = len([e for e in c["events"] if e[0] == "D"]) > len([e for e in c["events"] if e[0] == "K"])
    return maxtab >= 2 or dup or bool(kinds & {"T", "W", "H", "P", "C"})


def slim(c):
    d = dict(c)
    if len(d["events"]) > 400:
        d["events"] = d["events"][:400] + [["..."]]
    return d


def run(chk, only=None):
    quick = chk.tier == "quick"
    vlib.run_xlate("futures", "FuturesCfg.v")
    okc, outc = vlib.coq_make(["Remoting/FuturesCases.vo"])
    if not okc:
        raise vlib.TieBroken("the regenerated futures configuration does not type-check in Coq:\n" + outc[-1500:])
    pr = vlib.proof_step(chk, PROP_FILE, "From SeataV Require Import Props.P_C14.")
    conf = write_conf(chk)
    vlib.build_harness()
    jobs = [("seq", dict(mode="seq", seed=chk.seed, nseq=70 if quick else 10000, nconc=8 if quick else 400, maxperm=3 if quick else 5,
                         nbound=300 if quick else 3000))]
    nb = 1 if quick else 12
    for i in range(nb):
        jobs.append(("batch%d" % i, dict(mode="batch", seed=chk.seed * 1000 + i, nbatch=24 if quick else 80)))

    jobs.append(("tcp", dict(seed=chk.seed, n=16 if quick else 64, m=24 if quick else 120)))
    tcp = {}

    def one(j):
        name, kw = j
        if name == "tcp":
            # full-stack smoke over loopback TCP (own process: the client connects to a stand-in coordinator)
            data, secs = vlib.run_harness("remruntcp", chk.tmp("tcp.json"), timeout=600, conf=conf, **kw)
            tcp.update(data["tcp"])
            return [], secs
        data, secs = vlib.run_harness("remrun14", chk.tmp(name + ".json"), timeout=1500, conf=conf, **kw)
        return data["cases"], secs

    cases = []
    with concurrent.futures.ThreadPoolExecutor(max_workers=4) as ex:
        for cs, secs in ex.map(one, jobs):
            cases += cs
    terms = [case_term(c) for c in cases]
    mism = vlib.eval_mismatches("C14", HEADER, terms, case_type="fcase", shard=60 if quick else 150)
    oracle_fail = [i for i, c in enumerate(cases) if c["oracle"]]

    def size(i):
        return len(cases[i]["events"])

    for i in sorted(oracle_fail, key=size)[:3]:
        c = cases[i]
        chk.violation("%s history: %s" % (c["mode"], c["oracle"][0]),
                      {"case": slim(c), "seed": chk.seed, "tier": chk.tier,
                       "model_disagreements": [ERR[e] for e in mism.get(i, [])]}, True)
    if tcp.get("oracle"):
        chk.violation("full stack over loopback TCP: %s" % tcp["oracle"][0], {"tcp": tcp, "seed": chk.seed, "tier": chk.tier}, True)
    if tcp.get("skipped"):
        chk.notes.append("tcp smoke scenario skipped (infrastructure): " + tcp["skipped"])
    corr_only = [i for i in mism if i not in oracle_fail]
    if (corr_only or not pr["ok"]) and not chk.violations:
        # failing-input search: a proof obligation or the correspondence broke but no history of this
        # run violates the property's own statement. Prompt replies under the race detector: an
        # unsynchronised write of the reply payload against the waiter's read is the failing schedule
        search = race_search(chk, conf)
        chk.coverage["failing_input_search"] = {k: search.get(k) for k in ("ran", "requests", "nil_returns", "races", "error")}
        if search.get("oracle"):
            chk.violation("prompt replies: " + search["oracle"][0], {"prompt_burst": search, "seed": chk.seed, "tier": chk.tier}, True)
        elif search.get("race_reports"):
            chk.violation("prompt replies under the race detector: the reply payload is written by NotifyRpcMessageResponse without "
                          "synchronisation against the waiter's read in syncCallback (the waiter can wake up before the payload is there "
                          "and return (nil, nil))", {"prompt_burst": search, "seed": chk.seed, "tier": chk.tier,
                                                     "rerun": "build the harness with -race and run `verifh-race remrun14 mode=prompt g=8 per=300` with GORACE=log_path=<file>"}, True)
    if corr_only and not chk.violations:
        i = sorted(corr_only, key=size)[0]
        chk.violation("the real client and the model (at the regenerated configuration) disagree: %s; "
                      "the property's own statement did not fail on this history" % ", ".join(ERR[e] for e in sorted(set(mism[i]))),
                      {"case": slim(cases[i]), "seed": chk.seed, "tier": chk.tier,
                       "correspondence": "Remoting/FuturesCases.v check_case",
                       "model_disagreements": [ERR[e] for e in mism[i]]}, False)
    if not pr["ok"] and not chk.violations:
        cfg = open(os.path.join(vlib.COQ, "Gen", "FuturesCfg.v")).read()
        chk.violation("proof obligation of C14 no longer checks: the configuration read from the source is not one the theorems cover",
                      {"theorem": "C14_source_cfg_good (coq/Props/P_C14.v)", "regenerated_cfg": cfg[-600:],
                       "coq_output": pr["out"][-1500:]}, False)
    modes = {}
    for c in cases:
        modes[c["mode"]] = modes.get(c["mode"], 0) + 1
    nt = [c for c in cases if nontrivial(c)]
    chk.coverage.update({
        "trusted_base": TRUSTED,
        "evaluations": len(cases),
        "distinct_nontrivial": vlib.distinct([(c["c0"], c["h0"], c["events"]) for c in nt]),
        "rule": "histories generated from the seed: every order of the replies for 1..3 (thorough 1..5) callers in flight (exhaustive, every second one with all replies duplicated afterwards); sequenced (every event completes before the next; checkpoint of table size and "
                "parked deliveries after each), reopen (resources registered, 3-6 sync callers pending, connection lost, new session whose RegisterRM re-announcements are answered before the pending callers), boundary (8-15 spinning callers released together while the id counter stands 1-4 steps before MaxInt32; all in flight before any reply; two requests in flight must never carry the same id), concurrent (1/2/8/64/256 callers released at once, replies from separate goroutines "
                "with delays, permuted and duplicated; compared through a witness linearisation) and batches with real 20 s timeouts "
                "(dropped, late, late-duplicate replies, colliding responses/heartbeats/pongs, connection loss with requests pending); "
                "1 in 5 sequenced histories is the malformed stream (unknown ids, junk bodies, colliding traffic only). "
                "Non-trivial = two or more requests pending at once, or a duplicate/late/unknown delivery, a timeout, a colliding "
                "response/heartbeat/pong, or a connection loss; distinct by (start counters, event list)",
        "histories_by_mode": modes,
        "events_total": sum(len(c["events"]) for c in cases),
        "callers_total": sum(c["callers"] for c in cases),
        "timeout_wait_s_max": max([c.get("timeout_wait_s", 0) for c in cases] or [0]),
        "timeouts_observed": sum(1 for c in cases for e in c["events"] if e[0] == "T"),
        "max_concurrent_callers": max([c["callers"] for c in cases if c["mode"] == "conc"] or [0]),
        "traces_validated_against_impl": len(cases) - len(mism),
        "direct_oracle_failures": len(oracle_fail),
        "tcp_smoke": {k: tcp.get(k) for k in ("skipped", "callers", "replies_sent", "p2_requests", "p2_responses", "heartbeats_seen", "secs")},
        "fresh_request_completed": sum(1 for c in cases if c["fresh_ok"]),
        "samples": [slim(c) for c in sorted(nt, key=lambda c: len(c["events"]))[len(nt) // 2:len(nt) // 2 + 1]],
    })
    chk.assumptions += ["ids do not lap: fewer than 2^32 events per history (hypothesis of C14_receives only)",
                        "sending while no session at all is registered (60 s wait) is covered by the model and the nil-session fix, not exercised"]
    for l in vlib.fixed_entries("C14"):
        chk.notes.append(l)
    return chk.finish()


def replay(chk, path):
    r = json.load(open(path))
    if "seed" in r:
        chk.seed = int(r["seed"])
        chk.tier = r.get("tier", chk.tier)
    else:
        print("replay names a proof obligation, not an input: " + json.dumps(r)[:400])
    return run(chk)
