"""C06 — TCC fence: idempotence, anti-suspension, empty rollback, atomicity."""
import json, os
import vlib
from vlib import coq_list

MANIFEST = {
    "text": "Coq theorems over an executable model of WithFence/DoFence/the fence handler/the DAO as a thread machine of driver "
            "operations (C06_at_most_once, C06_exclusive, C06_suspension by induction over UNBOUNDED histories of deliveries and "
            "two-delivery races on any number of branches; C06_atomic for every delivery and every fault position; C06_race for "
            "every schedule of two racing deliveries with a failure at any operation of either). The model is tied to the source on every run by running the real "
            "fence.WithFence on a stateful database/sql/driver stand-in (unique key -> MySQL error 1062, select for update, "
            "compare-and-set update, transactions, row locks, fault at the k-th driver operation) over all histories of one "
            "branch up to length 6, a fault at every operation of every delivery of short histories, sampled multi-branch "
            "histories and all schedule prefixes of every racing pair, comparing operation journals, error class, callback "
            "executions, fence row and effect counters with the model evaluated in Coq; the property's own statement is "
            "evaluated on every real run (direct oracle).",
    "note": "Trusted: Coq kernel + vm_compute, no axioms; harness/fencerun (the 400-line MySQL stand-in: READ-COMMITTED-like "
            "visibility, key lock held to transaction end, a failed COMMIT applies nothing) and this driver's case printer. "
            "The seata-fence-mysql proxy-driver mode (FenceConn/FenceTx) is modelled too; the property fails there by design "
            "(two known findings, C06_drivermode_refuted / _partial).",
    "technique": "Coq proof (induction over histories + reflection over the finite thread machine, over decision tables REGENERATED from the fence handler on every run) + differential correspondence (vm_compute) + direct oracle on the real code",
}
TABLES = [("fence", "FenceRules.v")]
PROP_FILE = "Props/P_C06.v"
REQUIRES = "From SeataV Require Import Props.P_C06."
TRUSTED = vlib.TRUSTED_COMMON + [
    "tools/xlate fence (go/ast + statement patterns over the fence handler, updateFenceStatus, doFence, WithFence; "
    "unmatched syntax -> DUnknown / WfUnknown, rejected by C06_tables_recognised)",
    "harness/fencerun: stateful database/sql/driver stand-in for MySQL (statement shapes of tcc_fence_store_sql.go, unique key, "
    "transaction overlay, per-key lock, fault injection, sequential scheduler for the race) and the direct oracle",
    "lib/checks/c06.py case printer",
]
HEADER = """From Coq Require Import List NArith Bool.
From SeataV Require Import Fence.FenceModel Fence.FenceCases.
Import ListNotations. Open Scope N_scope.
"""
PH = {1: "Prepare", 2: "Commit", 3: "Rollback"}
CODES = {1: "driver operation journal", 2: "error class", 3: "executions of the business callback", 4: "committed fence status",
         5: "committed effect counters", 6: "number of deliveries observed",
         11: "race: driver operation journal", 12: "race: error class", 13: "race: callback executions",
         14: "race: committed fence status", 15: "race: committed effect counters", 16: "race: observations missing",
         17: "race: model did not finish within its fuel"}


def ph(p):
    return PH.get(p, "Invalid")


def obs_term(o):
    b2 = o.get("biz2") or o["biz"]
    return "(mkO %s %d %d %d (%d, %d, %d) (%d, %d, %d))" % (coq_list([str(x) for x in (o["ops"] or [])]), min(o["err"], 9), o["ran"],
                                                             o["status"], o["biz"][0], o["biz"][1], o["biz"][2], b2[0], b2[1], b2[2])


def case_term(c):
    hist = coq_list(["(%d, %s, %s, %s)" % (d["key"], ph(d["phase"]), "None" if d["fault"] < 0 else "Some %d%%nat" % d["fault"],
                                            "true" if d.get("drv") else "false") for d in (c["hist"] or [])])
    obs = coq_list([obs_term(o) for o in (c["obs"] or [])])
    if c.get("race"):
        r = c["race"]
        fx = lambda f: "None" if f is None or f < 0 else "(Some F%d)" % f
        race = "(Some (%s, %s, %s, %s, %s))" % (ph(r["p1"]), ph(r["p2"]), fx(r.get("f1", -1)), fx(r.get("f2", -1)),
                                                coq_list(["true" if b else "false" for b in r["sched"]]))
    else:
        race = "None"
    robs = coq_list([obs_term(o) for o in (c.get("robs") or [])])
    return "(mkFC %s %s %s %s)" % (hist, obs, race, robs)


def slim(c):
    return {k: c.get(k) for k in ("kind", "hist", "race", "obs", "robs", "oracle", "pred") if c.get(k) is not None}


def size(c):
    return len(c["hist"] or []) * 10 + (100 if c.get("race") else 0) + sum(1 for d in (c["hist"] or []) if d["fault"] >= 0)


def params(chk):
    if chk.tier == "quick":
        return dict(seqlen=6, faultlen=3, nsample=300, schedbits=6, drvlen=4, faultschedbits=3)
    return dict(seqlen=9, faultlen=5, nsample=100000, schedbits=8, drvlen=6, faultschedbits=6)


def run(chk, replay_case=None):
    # (B1) the handler's decision tables, the CAS old status, the phase dispatch and WithFence's shape are
    # regenerated from the working tree; the theorems are re-checked on them
    vlib.run_xlate("fence", "FenceRules.v")
    pr = vlib.proof_step(chk, PROP_FILE, REQUIRES)
    ok_cases, out_cases = vlib.coq_make(["Fence/FenceCases.vo"])
    if not ok_cases:
        raise vlib.TieBroken("the model does not type-check on the regenerated fence tables:\n" + out_cases[-1500:])
    if replay_case is not None:
        rp = chk.tmp("replay_in.json")
        json.dump(replay_case, open(rp, "w"))
        data, secs = vlib.run_harness("fence", chk.tmp("fence.json"), seed=chk.seed, replay=rp)
    else:
        data, secs = vlib.run_harness("fence", chk.tmp("fence.json"), timeout=3000, seed=chk.seed, **params(chk))
    allcases = data["cases"]
    # ---- finding stream: cases satisfying a listed input predicate are not compared with the model and
    # their oracle failures are expected; a predicate that is not listed suppresses nothing
    findings = vlib.known_findings("C06")
    listed = {f["pred"] for f in findings}
    # the stream a case belongs to is decided by the MODEL's evaluation of the input predicates on the history
    # (the harness evaluates the same predicates on the real run; a disagreement keeps the case in the clean stream)
    drv_cases = [c for c in allcases if any(d.get("drv") for d in (c["hist"] or []))]
    PRED = {0: None, 1: "fence.drivermode.decided-business-committed", 2: "fence.drivermode.fault-at-fence-commit"}
    for i in range(0, len(drv_cases), 400):
        part = drv_cases[i:i + 400]
        out = vlib.coq_compute("C06", HEADER, ["case_preds %s" % coq_list([case_term(dict(c, obs=[], robs=[])) for c in part])])[0]
        vals = [int(x.replace("%N", "")) for x in out.strip("[] ").split(";") if x.strip()]
        if len(vals) != len(part):
            raise vlib.Broken("cannot parse predicate evaluation: " + out[:200])
        for c, v in zip(part, vals):
            c["model_pred"] = PRED[v]
    def in_stream(c):
        return c.get("model_pred") in listed and c.get("model_pred") == c.get("pred")
    cases = [c for c in allcases if not in_stream(c)]
    stream = [c for c in allcases if in_stream(c)]
    # the stream a case belongs to is decided by the MODEL's evaluation of the input predicates on the history
    # (the harness evaluates the same predicates on the real run; a disagreement keeps the case in the clean stream)
    drv_cases = [c for c in allcases if any(d.get("drv") for d in (c["hist"] or []))]
    PRED = {0: None, 1: "fence.drivermode.decided-business-committed", 2: "fence.drivermode.fault-at-fence-commit"}
    for i in range(0, len(drv_cases), 400):
        part = drv_cases[i:i + 400]
        out = vlib.coq_compute("C06", HEADER, ["case_preds %s" % coq_list([case_term(dict(c, obs=[], robs=[])) for c in part])])[0]
        vals = [int(x.replace("%N", "")) for x in out.strip("[] ").split(";") if x.strip()]
        if len(vals) != len(part):
            raise vlib.Broken("cannot parse predicate evaluation: " + out[:200])
        for c, v in zip(part, vals):
            c["model_pred"] = PRED[v]
    def in_stream(c):
        return c.get("model_pred") in listed and c.get("model_pred") == c.get("pred")
    cases = [c for c in allcases if not in_stream(c)]
    stream = [c for c in allcases if in_stream(c)]
    # ---- finding stream.  A listed finding is a REGION OF INPUTS together with the EXPECTED FAILING OUTCOME, which is
    # the model's (C06_drivermode_refuted is about exactly that behaviour).  Inside a region: real run == model ->
    # the known finding; real run != model and the property's own statement fails -> a DIFFERENT violation ->
    # VIOLATION; real run != model and the statement holds -> the finding no longer reproduces there (stale).
    smism = vlib.eval_mismatches("C06", HEADER, [case_term(c) for c in stream], case_type="fcase", shard=400) if stream else {}
    # "different" is judged on what the property talks about (error class, committed record, committed effects),
    # not on the operation journal
    OUTCOME = (2, 4, 5)
    different = [i for i in sorted(smism, key=lambda i: size(stream[i]))
                 if stream[i]["oracle"] and any(e in OUTCOME for e in smism[i])]
    journal_only = [i for i in sorted(smism, key=lambda i: size(stream[i]))
                    if stream[i]["oracle"] and not any(e in OUTCOME for e in smism[i])]
    stale_variants = [i for i in smism if not stream[i]["oracle"]]
    deferred = []
    for f in findings:
        rc = json.load(open(os.path.join(vlib.VERIF, f["replay"])))["case"]
        rp = chk.tmp("finding_%s.json" % f["id"])
        json.dump(rc, open(rp, "w"))
        rd, _ = vlib.run_harness("fence", chk.tmp("finding_out_%s.json" % f["id"]), seed=chk.seed, replay=rp)
        got = rd["cases"][0] if rd["cases"] else {}
        rmism = vlib.eval_mismatches("C06", HEADER, [case_term(got)], case_type="fcase") if got else {0: [6]}
        variants = [c for j, c in enumerate(stream) if c["pred"] == f["pred"] and c["oracle"] and j not in smism]
        if got.get("oracle") and got.get("pred") == f["pred"] and not rmism:
            chk.known("id=%s %s (replay %s fails as listed: %s; %d generated variants fail the same way)" % (
                f["id"], f["what"], f["replay"], got["oracle"][:120], len(variants)))
        elif got.get("oracle"):
            deferred.append(("fence: the replay of known finding %s now fails in a different way than listed: %s" % (f["id"], got["oracle"]),
                             {"case": slim(got), "model_disagreements": [CODES.get(e, str(e)) for e in rmism.get(0, [])]}, True))
        else:
            print("STALE-FINDING: property=C06 id=%s its replay no longer fails" % f["id"])
            chk.notes.append("stale finding " + f["id"])
    if stale_variants:
        chk.notes.append("%d generated variants inside a listed region no longer fail" % len(stale_variants))
    infra = [c for c in cases if c.get("infra")]
    mism = vlib.eval_mismatches("C06", HEADER, [case_term(c) for c in cases], case_type="fcase", shard=400)
    # cases the harness itself places inside a listed finding (but the model, on the regenerated tables, does not)
    # are reported last: the plain ones explain a broken property better
    oracle_fail = sorted([i for i, c in enumerate(cases) if c["oracle"]], key=lambda i: (bool(cases[i].get("pred")), size(cases[i])))
    corr_fail = sorted([i for i in mism if not cases[i]["oracle"]], key=lambda i: size(cases[i]))
    seen = set()
    for i in oracle_fail:
        c = cases[i]
        what = c["oracle"].split(": ", 1)[-1]
        cls = what.split(" (")[0][:60]
        if cls in seen:
            continue
        seen.add(cls)
        chk.violation("fence: " + c["oracle"], {"case": slim(c),
                                                 "model_disagreements": [CODES.get(e, str(e)) for e in mism.get(i, [])]}, True)
    for i in different[:3]:
        c = stream[i]
        chk.violation("fence (inside the region of known finding %s, but NOT the listed failure): %s" % (c["pred"], c["oracle"]),
                      {"case": slim(c), "expected_failing_outcome": "the model's (Fence/FenceCases.v check_case)",
                       "model_disagreements": [CODES.get(e, str(e)) for e in smism[i]]}, True)
    for d in deferred:
        chk.violation(*d)
    if journal_only and not chk.violations:
        c = stream[journal_only[0]]
        chk.violation("inside the region of known finding %s the code fails as listed but no longer issues the operations of the "
                      "model the theorems are about" % c["pred"],
                      {"case": slim(c), "model_disagreements": [CODES.get(e, str(e)) for e in smism[journal_only[0]]]}, False)
    for c in infra[:1]:
        if not oracle_fail:
            chk.violation("fence race could not be scheduled on the real code: " + c["infra"], {"case": slim(c)}, True)
    if not oracle_fail and not infra and corr_fail:
        i = corr_fail[0]
        chk.violation("the fence code no longer behaves like the model the theorems are about (%s differ); the direct oracle "
                      "found no input on which the property itself fails" % ", ".join(CODES.get(e, str(e)) for e in mism[i]),
                      {"case": slim(cases[i]), "correspondence": "Fence/FenceCases.v check_case",
                       "model_disagreements": [CODES.get(e, str(e)) for e in mism[i]],
                       "mismatching_cases": len(corr_fail)}, False)
    if not pr["ok"] and not chk.violations:
        tables = open(os.path.join(vlib.COQ, "Gen", "FenceRules.v")).read()
        chk.violation("proof obligation of C06 no longer checks on the tables regenerated from the fence handler",
                      {"theorem": "Props/P_C06.v (C06_tables_recognised / single_ok_all / race_table_checked / drv_ok_all)",
                       "regenerated_tables": tables[-2500:], "coq_output": pr["out"][-1500:]}, False)

    def nontrivial(c):
        # reaches the mechanism: some delivery is decided by an existing fence record (duplicate, late, refused),
        # or a fault fires, or two deliveries race
        if c.get("race"):
            return True
        hs = c["hist"] or []
        return len(hs) >= 2 or any(d["fault"] >= 0 for d in hs)

    n_deliv = sum(len(c["hist"] or []) + (2 if c.get("race") else 0) for c in cases)
    errs = {}
    for c in cases:
        for o in (c["obs"] or []) + (c.get("robs") or []):
            k = {0: "ok", 1: "injected-fault", 2: "duplicate-key", 3: "refused", 4: "lock-wait-timeout"}.get(o["err"], "other")
            errs[k] = errs.get(k, 0) + 1
    chk.coverage.update({
        "trusted_base": TRUSTED,
        "evaluations": len(allcases),
        "finding_stream_cases": len(stream),
        "finding_stream_cases_matching_expected_outcome": len(stream) - len(smism),
        "deliveries_executed_on_real_code": n_deliv,
        "distinct_nontrivial": vlib.distinct([(c["hist"], c.get("race")) for c in cases if nontrivial(c)]),
        "rule": "histories over {prepare, commit, rollback} of one branch, all of length <= %(seqlen)d, fault-free; all histories of "
                "length <= %(faultlen)d with a fault at every (delivery, operation index 0..9) - the business step is two statements, "
                "and a failure at one of them is injected as a generic error, MySQL 1205, MySQL 1213 or driver.ErrBadConn; %(nsample)d sampled histories of "
                "length <= 12 over 1-4 branches sharing the table (two xids, fault probability 1/4 per delivery, 10%% with invalid "
                "phases = malformed stream); for every initial status (5) and phase pair (9) all 2^%(schedbits)d schedule prefixes "
                "of the two racing deliveries. Non-trivial = at least two deliveries, or a fault, or a race; distinct by "
                "(history, race)" % params(chk),
        "traces_validated_against_impl": len(cases) - len(mism),
        "input_distribution": data.get("dist"),
        "delivery_outcomes": errs,
        "harness_seconds": round(secs, 1),
        "samples": [slim(c) for c in (cases[40:41] + [c for c in cases if c.get("race")][1000:1001] +
                                       [c for c in cases if any(d["fault"] >= 0 for d in (c["hist"] or []))][200:201])] or [slim(c) for c in (cases + stream)[:1]],
    })
    chk.assumptions += ["the stand-in's transaction/lock semantics (snapshot overlay, key lock to end of transaction, failed COMMIT "
                        "applies nothing) stand for MySQL/InnoDB; gap-lock deadlocks are not modelled",
                        "the participant method commits its local transaction iff WithFence returned nil (the documented usage)"]
    return chk.finish()


def replay(chk, path):
    r = json.load(open(path))
    if "case" not in r:
        print("replay names a proof obligation, not an input: " + json.dumps(r)[:400])
        return run(chk)
    return run(chk, replay_case=r["case"])
