"""C04 — each global transaction gets exactly one truthful decision from its initiator."""
import collections, json, os
import vlib
import tm_util as T

MANIFEST = {
    "text": "Coq theorems over an executable model of WithGlobalTx / begin / commitOrRollback / the Commit and Rollback "
            "retry loops over the backoff (C04_decision, C04_decision_complete, C04_retry, C04_result_truthful, "
            "C04_nil_sound_partial/_refuted, C04_surfaces, C04_cancel_surfaces, C04_not_initiator, C04_begin_failed, "
            "C04_terminates, C04_retry0_diverges_refuted for one call; C04_tree_decision, C04_tree_decision_complete, "
            "C04_tree_nil_truthful for arbitrary scope trees, by structural induction with the coordinator threaded as state: every xid "
            "is decided by the call that began it and by nobody else; for all callback outcomes, coordinator scripts, retry settings incl. 0, "
            "cancellation points and entry contexts), with the propagation switch, the role switch and the save/restore "
            "REGENERATED from pkg/tm/transaction_executor.go on every run; the model is tied to the code by driving the real "
            "tm.WithGlobalTx against a scripted coordinator (exhaustive over outcome x begin reply x second-phase script x retry "
            "group x cancellation point, plus a seeded stream) and comparing the request log, what the callback sees and the "
            "returned class with the model evaluated in Coq; the property's own clauses are evaluated on every real run.",
    "note": "Trusted: Coq kernel + vm_compute, no axioms; tools/xlate tmshape; harness tmrun (gomonkey patch of SendSyncRequest). "
            "Findings listed: ResultCode of second-phase replies ignored; retry count 0 retries for ever under permanent transport failure.",
    "technique": "Coq proof over an executable model + translator-regenerated switch tables + differential correspondence (vm_compute) + direct oracle",
}
TABLES = [("tmshape", "TmShape.v")]
PROP_FILE = "Props/P_C04.v"
REQUIRES = "From SeataV Require Import Props.P_C04."
TRUSTED = vlib.TRUSTED_COMMON + [
    "tools/xlate tmshape (go/ast; statements of begin's and commitOrRollback's switch matched on their printed form; "
    "unmatched syntax -> BUnknown/SAUnknown, rejected by shape_ok)",
    "Go harness tmrun: scripted coordinator patched in at (*GettyRemotingClient).SendSyncRequest with gomonkey, "
    "generators, trace recorder; this driver's case printer and the Python direct oracle (lib/tm_util.py)",
]
FINDINGS = {"tm.second-phase.failed-result": T.pred_failed_result, "tm.retry0.transport-forever": T.pred_retry0_forever}


def evaluate(chk, cases, label):
    """tie + direct oracle on a list of executed cases; records violations; returns stats"""
    mism = T.tie("C04", cases)
    failing = []
    for i, c in enumerate(cases):
        f = T.oracle_c04(c)
        if f:
            failing.append((i, f))
    seen = set()
    for i, f in sorted(failing, key=lambda x: T.size(cases[x[0]])):
        if f[0] in seen or len(seen) >= 6:
            continue
        seen.add(f[0])
        chk.violation("C04 fails on the real code: " + f[0],
                      {"case": T.slim(cases[i]), "failed_clauses": f,
                       "model_disagreements": [T.TIE_CODES[e] for e in mism.get(i, [])]}, True)
    unexplained = [i for i in mism if i not in {j for j, _ in failing}]
    if unexplained and not failing:
        i = sorted(unexplained, key=lambda j: T.size(cases[j]))[0]
        chk.violation("correspondence between the TM model and the code broke (%s); the property's own clauses hold on "
                      "every executed case" % ", ".join(T.TIE_CODES[e] for e in mism[i]),
                      {"case": T.slim(cases[i]), "correspondence": "Tm/TmCases.v check_case",
                       "model_disagreements": [T.TIE_CODES[e] for e in mism[i]]}, False)
    return mism, failing


def run_known(chk):
    """finding stream: every listed finding must still reproduce on its committed replay"""
    for kf in vlib.known_findings("C04"):
        rp = T.load_known(kf["replay"])
        cases = T.run_in(chk, rp["cases"], "known_" + kf["id"])
        pred = FINDINGS.get(kf["pred"])
        reproduced = True
        for c in cases:
            if pred and not pred(c):
                raise vlib.Broken("replay %s does not satisfy its predicate %s" % (kf["replay"], kf["pred"]))
            strict = T.oracle_c04(c, strict_failed=True)
            diverged = any(e["k"] == "diverge" for e in c["trace"])
            if kf["pred"] == "tm.retry0.transport-forever":
                reproduced = reproduced and diverged
            else:
                reproduced = reproduced and bool(strict)
        if reproduced:
            chk.known("id=%s pred=%s :: %s" % (kf["id"], kf["pred"], kf["what"]))
        else:
            print("STALE-FINDING: property=C04 id=%s no longer reproduces on %s" % (kf["id"], kf["replay"]))
            chk.notes.append("stale finding " + kf["id"])


def run(chk, cases_override=None):
    T.model_ready()
    import concurrent.futures
    with concurrent.futures.ThreadPoolExecutor(max_workers=1) as ex:
        # the real-code run (sleeps in the backoff) overlaps with the proof step
        fut = None
        if cases_override is None:
            vlib.build_harness()
            fut = ex.submit(vlib.run_harness, "tmrun", chk.tmp("c04.json"), timeout=1500, suite="c04", tier=chk.tier, seed=chk.seed)
        pr = vlib.proof_step(chk, PROP_FILE, REQUIRES)
        if fut is not None:
            data, secs = fut.result()
            cases = [c for c in data["cases"] if not c.get("skipped")]
            skipped = len(data["cases"]) - len(cases)
        else:
            cases, secs, skipped = cases_override, 0.0, 0
    mism, failing = evaluate(chk, cases, "main")
    if cases_override is None:
        run_known(chk)
    if not pr["ok"] and not chk.violations:
        chk.violation("a proof obligation of C04 no longer checks on the tables regenerated from pkg/tm",
                      {"theorem": "Props/P_C04.v (go_shape_ok or a theorem depending on it)", "shape": T.shape_diag(),
                       "coq_output": pr["out"][-1500:]}, False)
    launcher = [c for c in cases if any(e["k"] == "req" and e["q"] != "begin" for e in c["trace"])]
    nested = [c for c in cases if not T.is_leaf(c)]
    streams = collections.Counter()
    for c in cases:
        ps = [k for k, p in FINDINGS.items() if p(c)]
        streams["clean" if not ps else "+".join(ps)] += 1
    chk.coverage.update({
        "trusted_base": TRUSTED,
        "evaluations": len(cases),
        "distinct_nontrivial": vlib.distinct([T.inputs(c) for c in launcher]),
        "rule": "single WithGlobalTx scopes on the real code: exhaustive over callback outcome (nil/err/panic; panic values of six dynamic types) x begin reply "
                "(ok/failed/transport error/no reply/empty) x second-phase script (transport-failure prefix up to the tier's bound, "
                "then ok/failed/empty or failures for ever) x retry group (commit,rollback counts incl. 0) x cancellation point "
                "(never, before the call, during business, during the k-th second-phase send); every mode with and without a "
                "current transaction; arbitrary entry contexts; nested scopes on the same context (every outer x inner mode "
                "pair x outcomes, three-level chains; a fault of every kind at every request position and cancellation at every request index of nested "
                "runs; random trees under random scripts; per-xid decision clauses); plus a seeded stream of random scripts (1 in 4 hostile). "
                "non-trivial = at least one commit/rollback reached the coordinator; distinct by case inputs",
        "traces_validated_against_impl": len(cases) - len(mism),
        "oracle_failures": len(failing),
        "nested_cases": len(nested),
        "skipped_after_hangs": skipped,
        "streams": dict(streams),
        "generators": dict(collections.Counter(c["gen"] for c in cases)),
        "harness_secs": round(secs, 1),
        "samples": [T.slim(c) for c in launcher[len(launcher) // 2:len(launcher) // 2 + 2]],
    })
    chk.assumptions += [
        "reading (docs/C04.md): cancellation that arrives while the acknowledged commit request is in flight does not turn the acknowledged commit into an error",
        "TxStatus and XidCopy of the context variable are not modelled",
    ]
    return chk.finish()


def replay(chk, path):
    r = json.load(open(path))
    if "case" not in r:
        print("replay names a proof obligation, not an input: " + json.dumps(r)[:400])
        return run(chk)
    T.model_ready()
    cases = T.run_in(chk, [{k: v for k, v in r["case"].items() if k != "trace"}], "replay")
    for c in cases:
        print("trace: " + "; ".join(T.compact(e) for e in c["trace"]))
        print("failed clauses: %s" % T.oracle_c04(c))
    return run(chk, cases_override=cases)
