"""C07 — propagation modes and the transaction context across nesting and RPC."""
import collections, json, os
import vlib
import tm_util as T

MANIFEST = {
    "text": "Coq theorems by structural induction over scope trees of any depth (C07_trace / C07_requests / C07_sees_xid: "
            "the requests sent, the xid every callback sees and the returned classes of the model of WithGlobalTx equal an "
            "independent reference semantics of the six propagation modes; C07_outer_intact: after any inner scope, under any "
            "coordinator behaviour, the enclosing scope's xid/role/name are those before it; C07_never_ends_joined; "
            "C07_carrier_single / _wrapped / _roundtrip / _no_transaction / _case_spellings for the grpc/gin/dubbo xid transport, over every value shape "
            "(string, list of strings, other) and every set of headers the outgoing context already holds), proved for every code shape "
            "satisfying shape_ok and instantiated at the propagation switch, role switch and save/restore REGENERATED from "
            "pkg/tm/transaction_executor.go on every run; tied to the code by running the real tm.WithGlobalTx over "
            "enumerated and random scope trees (shared and fresh contexts) and the real interceptors/middleware/filter, "
            "comparing traces with the model evaluated in Coq and with the reference semantics.",
    "note": "Trusted: Coq kernel + vm_compute, no axioms; tools/xlate tmshape; harness tmrun/carrier (gomonkey patch of "
            "SendSyncRequest, metadata.MD, httptest+gin, a dubbo invocation).",
    "technique": "Coq proof by structural induction over an executable model + translator-regenerated switch tables + differential correspondence (vm_compute) + direct oracle",
}
TABLES = [("tmshape", "TmShape.v")]
PROP_FILE = "Props/P_C07.v"
REQUIRES = "From SeataV Require Import Props.P_C07."
TRUSTED = vlib.TRUSTED_COMMON + [
    "tools/xlate tmshape (go/ast; statements of begin's and commitOrRollback's switch and the save/restore in WithGlobalTx "
    "matched on their printed form; unmatched syntax -> BUnknown/SAUnknown/false, rejected by shape_ok)",
    "Go harness tmrun + carrier: scripted coordinator patched in at (*GettyRemotingClient).SendSyncRequest with gomonkey, "
    "tree generators, trace recorder; this driver's case printer and the Python reference semantics (lib/tm_util.py spec)",
]


def depth(s):
    return 1 + max([depth(k) for k in (s.get("kids") or [])] or [0])


def evaluate(chk, cases):
    mism = T.tie("C07", cases)
    failing = []
    for i, c in enumerate(cases):
        f = T.oracle_c07(c)
        if f:
            failing.append((i, f))
    seen = set()
    for i, f in sorted(failing, key=lambda x: T.size(cases[x[0]])):
        key = f[0].split(":")[0][:40] + cases[i]["tree"]["m"]
        if key in seen or len(seen) >= 6:
            continue
        seen.add(key)
        chk.violation("C07 fails on the real code: " + f[0],
                      {"case": T.slim(cases[i]), "failed_clauses": f,
                       "model_disagreements": [T.TIE_CODES[e] for e in mism.get(i, [])]}, True)
    unexplained = [i for i in mism if i not in {j for j, _ in failing}]
    if unexplained and not failing:
        i = sorted(unexplained, key=lambda j: T.size(cases[j]))[0]
        chk.violation("correspondence between the TM model and the code broke (%s); the property's own clauses hold on "
                      "every executed case" % ", ".join(T.TIE_CODES[e] for e in mism[i]),
                      {"case": T.slim(cases[i]), "correspondence": "Tm/TmCases.v check_case",
                       "model_disagreements": [T.TIE_CODES[e] for e in mism[i]]}, False)
    return mism, failing


def run(chk, cases_override=None):
    T.model_ready()
    pr = vlib.proof_step(chk, PROP_FILE, REQUIRES)
    if cases_override is None:
        data, secs = vlib.run_harness("tmrun", chk.tmp("c07.json"), timeout=1500, suite="c07", tier=chk.tier, seed=chk.seed)
        cases = [c for c in data["cases"] if not c.get("skipped")]
    else:
        cases, secs = cases_override, 0.0
    mism, failing = evaluate(chk, cases)
    carrier = None
    if cases_override is None:
        try:
            import c07_carrier
            carrier = c07_carrier.run(chk)
        except ImportError:
            carrier = None
    if not pr["ok"] and not chk.violations:
        chk.violation("a proof obligation of C07 no longer checks on the tables regenerated from pkg/tm",
                      {"theorem": "Props/P_C07.v (go_shape_ok or a theorem depending on it)", "shape": T.shape_diag(),
                       "coq_output": pr["out"][-1500:]}, False)
    nested = [c for c in cases if depth(c["tree"]) >= 2 and any(e["k"] == "req" for e in c["trace"])]
    chk.coverage.update({
        "trusted_base": TRUSTED,
        "evaluations": len(cases) + (carrier or {}).get("evaluations", 0),
        "distinct_nontrivial": vlib.distinct([T.inputs(c) for c in nested]),
        "rule": "scope trees through the real tm.WithGlobalTx against a coordinator that always answers ok: all trees of depth <= 2 "
                "with one child over 6 modes x {nil,err} x shared/fresh context x {no transaction, incoming xid}; quick: seeded "
                "samples of the depth-2/width-2 and depth-3 chains, thorough: all of them; random trees up to depth 4, width 2, with "
                "panicking callbacks (panic values of six dynamic types) and unknown propagation values; scopes whose callbacks call out "
                "through the gRPC interceptor / dubbo filter on their own context with stale xid keys already in the outgoing headers; a smaller stream of trees under coordinator faults and "
                "cancellation (tie + intactness only). non-trivial = nested (depth >= 2) and at least one request reached the "
                "coordinator; distinct by case inputs",
        "traces_validated_against_impl": len(cases) - len(mism) + (carrier or {}).get("traces_validated_against_impl", 0),
        "oracle_failures": len(failing),
        "within_theorem_domain": sum(1 for c in cases if T.ok_world(c)),
        "depth_distribution": dict(collections.Counter(depth(c["tree"]) for c in cases)),
        "generators": dict(collections.Counter(c["gen"] for c in cases)),
        "harness_secs": round(secs, 1),
        "samples": [T.slim(c) for c in nested[len(nested) // 2:len(nested) // 2 + 2]],
    })
    if carrier:
        chk.coverage["carrier"] = carrier
    chk.assumptions += ["TxStatus and XidCopy of the context variable are not modelled",
                        "a fresh (remote-call) context carries only the xid and shares cancellation with the caller"]
    return chk.finish()


def replay(chk, path):
    r = json.load(open(path))
    if r.get("carrier") and "case" in r:
        import c07_carrier
        T.model_ready()
        c = {k: r["case"][k] for k in ("id", "kind", "roundtrip", "hdrs", "xid") if k in r["case"]}
        chk.coverage.update({"evaluations": 1, "distinct_nontrivial": 2, "trusted_base": TRUSTED})
        chk.coverage.update(c07_carrier.run(chk, cases_in=[c]))
        vlib.proof_step(chk, PROP_FILE, REQUIRES)
        return chk.finish()
    if "case" not in r or "tree" not in r.get("case", {}):
        print("replay names a proof obligation or a carrier case: " + json.dumps(r)[:400])
        return run(chk)
    T.model_ready()
    cases = T.run_in(chk, [{k: v for k, v in r["case"].items() if k != "trace"}], "replay")
    for c in cases:
        print("trace: " + "; ".join(T.compact(e) for e in c["trace"]))
        print("failed clauses: %s" % T.oracle_c07(c))
    return run(chk, cases_override=cases)
