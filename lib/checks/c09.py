"""C09 — branch rollback never overwrites a foreign write."""
import atroll_util as au

TABLES = au.TABLES
MANIFEST = {
    "text": "Coq theorems over the AT rollback model (At/Rollback.v, shared with C01/C10), data validation on: "
            "C09_every_executor_validates (table regenerated from the three ExecuteOn bodies), C09_dirty_refused (ANY "
            "position in ANY branch's log, insert / update / delete image, one or many rows: current rows equal neither image "
            "=> nothing changed, undo row kept, not 'rollbacked', transaction ended), C09_dirty_refused_1 / C09_already_before "
            "(success, no table written, log deleted) / C09_after (compensated) for one-statement branches, "
            "C09_compensate_rows (row-by-row meaning of the compensation). Tie: scenarios through the REAL proxy with a "
            "foreign committed write between the local commit and the rollback (change a written column, an unwritten column, "
            "delete the row, re-insert a deleted key with the same / other values, put all / some rows of a multi-row statement "
            "back); responses, dumps and undo rows compared with the model in Coq (vm_compute); direct oracle = the harness's "
            "own three-way comparison of before / after / current rows evaluated on the real dumps.",
    "note": "Trusted: Coq kernel + vm_compute, no axioms; fakedb/tcstub/atrun engine. Row equality is exact in the model; "
            "the code compares numbers through float64 (integers beyond 2^53 that differ only there are outside the generated "
            "universe). Evaluated per statement image, as DESIGN 5a fixes.",
    "technique": "Coq proof (case analysis of the three-way comparison over the replay fold) + regenerated executor table + "
                 "differential correspondence with foreign writes (vm_compute) + direct oracle",
}
PROP_FILE = "Props/P_C09.v"
REQ = "From SeataV Require Import Props.P_C09."
RULE = ("seeded plans through the real AT proxy, validation on: one branch (autocommit or explicit local transaction, 1-3 "
        "statements), then a foreign modification chosen from the branch's last effect (insert: change / delete one / delete all "
        "inserted rows; update: change a written column, an unwritten column, delete the row, all rows back, one row back; "
        "delete: re-insert same / all same / different), then the rollback")
ASSUME = [
    "data validation is on (the property's hypothesis); only-care-update-columns both ways",
    "the direct oracle classifies one-statement branches; multi-statement branches are checked through the model only",
    "value universe BIGINT, INT, VARCHAR, NULL; integers far below 2^53",
]


def run(chk, only=None):
    return au.run_property(chk, "C09", PROP_FILE, REQ, RULE, ASSUME, only)


def replay(chk, path):
    return au.replay_property(chk, path, run)
