"""C19 — only live sessions are chosen; reconnection restores both directions."""
import binascii, json, os, re
import vlib
from vlib import coq_hex, coq_list, coq_str

MANIFEST = {
    "text": "Coq theorems over an executable model of loadbalance.Select and its five policies (candidate SETS: random choices and map "
            "order are nondeterminism) for ALL states / histories of sessions opening and closing: C19_live (a chosen session is "
            "registered and open), C19_nil (nil only when none is open), C19_xid (ip:port:id goes to the open session at ip:port), with md5 "
            "universally quantified; re-announcement over ALL register-resource/conn-lost/reconnect histories (sessions closed by the peer "
            "or released open, any address, failing first writes): C19_reannounce (FULL: every established session carries RegisterTM and a "
            "RegisterRM naming every held resource of every branch type) and C19_registered_announced (invariant: a registered open session "
            "is an announced one). Tie on every run: the real Select over fake getty sessions along generated histories and through the "
            "integrated SendAsyncRequest/selectSession path (the pick must be a candidate of a tracked model state, vm_compute, md5 values "
            "supplied per case); the real OnOpen/OnClose/OnError and the real TCC/AT/XA resource managers' RegisterResource over recording "
            "sessions, requests written and session-manager counts per event compared with the model; direct oracle = the property text.",
    "note": "Trusted: Coq kernel + vm_compute, no axioms; harness/lb (fake getty.Session, registry bookkeeping, md5 table). Reconnect half is "
            "driven at handler level (no TCP stub); the model has one coordinator connection, several simultaneous connections are judged by "
            "the direct oracle only. Repo fixes the model follows: consistent hash never returns a closed session; getXid reads the message "
            "body; a newly opened session is told the registered resources again (former finding C19-rm-reannounce).",
    "technique": "Coq proof over an executable nondeterministic model + differential correspondence (membership in the model's candidate set, vm_compute)",
}
TABLES = [("getxid", "GetXidTable.v")]
PROP_FILE = "Props/P_C19.v"
REQUIRES = "From SeataV Require Import Props.P_C19."
TRUSTED = vlib.TRUSTED_COMMON + [
    "harness/lb: fake getty.Session values (IsClosed/RemoteAddr/WritePkg overridden), the harness' own registry bookkeeping for the direct oracle, "
    "md5 prefixes computed by Go's crypto/md5 and handed to the model as the `hash` table of each case",
    "lib/checks/c19.py case printer",
]
HEADER = """From Coq Require Import String List NArith Bool.
From Coq.Strings Require Import Byte.
From SeataV Require Import Base.Bytes Remoting.LbModel Remoting.LbCases.
Import ListNotations. Open Scope string_scope. Open Scope N_scope.
"""
FINDING_PRED = "reconnect.rm-reannounce"


def hexs(s):
    return binascii.hexlify(s.encode()).decode()


def ev_term(e):
    k = e["k"]
    if k == "open":
        return "(EOpen %d %s, None)" % (e["id"], coq_hex(e["addr"]))
    if k in ("close", "release"):
        return "(EClose %d, None)" % e["id"]
    if k == "begin":
        return "(EBegin %s, None)" % coq_hex(e["addr"])
    if k == "end":
        return "(EEnd %s, None)" % coq_hex(e["addr"])
    pick = "None" if e.get("nil") else "(Some %d)" % e.get("pick", 0)
    return "(ESelect (policy_of %s) %s, Some %s)" % (coq_str(e.get("policy", "")), coq_hex(e.get("xid", "")), pick)


def lcase_term(h, upto=None):
    evs = h["events"] if upto is None else h["events"][:upto]
    tbl = coq_list(["(%s, %d)" % (coq_hex(k), v) for k, v in sorted(h["hash"].items())])
    return "(LCase {| lc_hash := %s; lc_events := %s |})" % (tbl, coq_list([ev_term(e) for e in evs]))


def req_term(s):
    if s == "TM":
        return "RegisterTM"
    if s.startswith("RM:"):   # ResourceIds: ids joined by ","
        return "(RegisterRM %s)" % coq_list([coq_hex(hexs(i)) for i in s[3:].split(",")])
    return "(RegisterRM [%s])" % coq_hex(hexs("<<" + s + ">>"))


def ccase_term(c):
    evs = []
    for e in c["events"]:
        k = e["k"]
        addr = coq_hex(hexs(e.get("addr", "")))
        ce = {"resource": "(CRegisterResource %d %s %s)" % (e.get("bt", 0), coq_hex(hexs(e.get("res", ""))),
                                                               "false" if e.get("send_fail") else "true"),
              "lost": "(CConnLost %s)" % ("true" if e.get("by_peer") else "false"),
              "reconnect": "(CReconnect %s %s)" % (addr, "false" if e.get("write_fail") else "true")}[k]
        evs.append("(%s, {| co_sent := %s; co_addr := %s; co_per := %d; co_all := %d; co_open := %s |})" % (
            ce, coq_list([req_term(s) for s in (e.get("sent") or [])]), addr, e.get("per", 0), e.get("all", 0),
            "true" if e.get("open") else "false"))
    return "(CCase %s)" % coq_list(evs)


def eval_terms(terms, shard):
    import concurrent.futures
    groups = [list(range(i, min(i + shard, len(terms)))) for i in range(0, len(terms), shard)]
    res = {}

    def one(arg):
        k, idx = arg
        name = "cases_C19_%d_%d" % (os.getpid(), k)
        text = HEADER + "\nDefinition cases : list anycase := [\n" + ";\n".join(terms[i] for i in idx) + \
            "].\nDefinition M := Eval vm_compute in mismatches cases.\nPrint M.\n"
        ok, out = vlib.coq_eval(name, text)
        if not ok:
            raise vlib.Broken("case evaluation failed in Coq (%s):\n%s" % (name, out[-2000:]))
        vlib.cleanup_run(name)
        printed = vlib.parse_coq_printed(out, "M")
        if printed is None:
            raise vlib.Broken("cannot parse Coq output:\n" + out[-2000:])
        r = {}
        for m in re.finditer(r"\((\d+)(?:%nat)?,\s*(\d+)(?:%N)?\)", printed):
            r.setdefault(idx[int(m.group(1))], []).append(int(m.group(2)))
        if printed != "[]" and not r:
            raise vlib.Broken("unparsed mismatch list: " + printed[:300])
        return r

    with concurrent.futures.ThreadPoolExecutor(max_workers=6) as ex:
        for r in ex.map(one, list(enumerate(groups))):
            res.update(r)
    return res


def readable(h, upto):
    out = []
    for e in h["events"][:upto]:
        e = dict(e)
        for f in ("addr", "xid"):
            if f in e:
                e[f] = binascii.unhexlify(e[f]).decode("latin-1")
        out.append(e)
    return out


def run(chk, only=None, seed=None):
    quick = chk.tier == "quick"
    seed = chk.seed if seed is None else seed
    table = vlib.run_xlate("getxid", "GetXidTable.v")
    proof = vlib.proof_step(chk, PROP_FILE, REQUIRES)
    ok_cases, out_cases = vlib.coq_make(["Remoting/LbCases.vo"])
    if not ok_cases:
        raise vlib.Broken("Remoting/LbCases.v does not compile:\n" + out_cases[-1500:])
    n, nc = (260, 6) if quick else (10000, 60)
    kw = dict(seed=seed, n=n, nc=nc)
    if only is not None:
        kw["only"] = only
        kw["nc"] = 0
    data, secs = vlib.run_harness("lb", chk.tmp("lb.json"), timeout=1500, **kw)
    hist = (data.get("histories") or []) + (data.get("integrated") or [])
    n_integrated = sum(1 for h in (data.get("integrated") or []) for e in h["events"] if e["k"] == "select")
    client = data.get("client") or []
    findings = {f["pred"]: f for f in vlib.known_findings("C19")}

    # ---- model evaluation: histories whose selections all returned (panics are for the oracle)
    terms, owners = [], []
    for i, h in enumerate(hist):
        upto = len(h["events"])
        for j, e in enumerate(h["events"]):
            if e["k"] == "select" and e.get("class") != "ok":
                upto = j
                break
        terms.append(lcase_term(h, upto))
        owners.append(("h", i))
    for i, c in enumerate(client):
        terms.append(ccase_term(c))
        owners.append(("c", i))
    mism = eval_terms(terms, 40 if quick else 120)

    # ---- selection half: direct oracle, then correspondence
    reported = set()
    n_oracle = 0
    for i, h in enumerate(hist):
        if not h["oracle"]:
            continue
        n_oracle += 1
        key = re.sub(r"\d+", "#", h["oracle"])[:60]
        if key in reported or len(reported) >= 6:
            continue
        reported.add(key)
        chk.violation(h["oracle"], {"seed": seed, "history_index": h.get("index", i), "n": n,
                                    "events_until_failure": readable(h, h["bad_at"] + 1), "direct_oracle": h["oracle"]}, True)
    corr = []
    for pos, codes in mism.items():
        kind, i = owners[pos]
        if kind == "h" and not hist[i]["oracle"]:
            corr.append((i, codes))
    if corr and not chk.violations:
        i, codes = corr[0]
        at = codes[0] // 10
        chk.violation("correspondence broke: loadbalance.Select returned a session outside the model's candidate set "
                      "(event %d of a history); the direct oracle found no input on which the property itself fails" % at,
                      {"seed": seed, "history_index": hist[i].get("index", i), "n": n, "events": readable(hist[i], at + 1),
                       "correspondence": "Remoting/LbCases.v track", "mismatching_histories": len(corr)}, False)

    # ---- reconnect half
    known_seen, clean_fail, recon, recon_clean = 0, [], 0, 0
    for c in client:
        for j, e in enumerate(c["events"]):
            if e["k"] != "reconnect":
                continue
            recon += 1
            in_finding = FINDING_PRED in (e.get("pred") or []) and FINDING_PRED in findings
            if not (e.get("pred") or []):
                recon_clean += 1
            if e.get("oracle"):
                if in_finding:
                    known_seen += 1
                else:
                    clean_fail.append((c, j, e))
        if c["oracle"] and not any(e.get("oracle") for e in c["events"]):
            clean_fail.append((c, c["bad_at"], {"oracle": c["oracle"]}))
    for c, j, e in clean_fail[:3]:
        chk.violation(e["oracle"], {"client_history": c["events"][:j + 1], "direct_oracle": e["oracle"], "seed": seed}, True)
    if FINDING_PRED in findings:
        f = findings[FINDING_PRED]
        if known_seen:
            chk.known("id=%s %s (reproduced on %d reconnects after a resource registration)" % (f.get("id"), f["what"], known_seen))
        elif client:
            print("STALE-FINDING: property=C19 id=%s no longer reproduces" % f.get("id"))
            chk.notes.append("stale finding " + str(f.get("id")))
    ccorr = [(owners[pos][1], codes) for pos, codes in mism.items() if owners[pos][0] == "c"]
    if ccorr and not chk.violations:
        i, codes = ccorr[0]
        at = codes[0] // 10
        what = {3: "the requests written", 4: "the session manager's per-address / registry counts",
                5: "whether the session is still open"}.get(codes[0] % 10, "the observations")
        chk.violation("correspondence broke: %s at event %d of the client history differ from the model's cstep" % (what, at),
                      {"client_history": client[i]["events"][:at + 1], "correspondence": "Remoting/LbCases.v ctrack", "seed": seed}, False)
    # the translator's list of xid-carrying client messages against the one found at run time
    m = re.search(r"go_xid_messages : list string := \[(.*?)\]\.", open(table).read())
    static_types = sorted(re.findall(r'"([^"]+)"', m.group(1))) if m else []
    dynamic_types = sorted(f[9:] for h in (data.get("integrated") or []) for f in (h.get("feat") or []) if f.startswith("xid-type:"))
    if data.get("integrated") and static_types != dynamic_types and not chk.violations:
        chk.violation("the message types with an Xid field read from the source (%s) differ from those found through the codec registry (%s)"
                      % (static_types, dynamic_types), {"translator": "tools/xlate getxid", "static": static_types, "dynamic": dynamic_types}, False)
    if not proof["ok"] and not chk.violations:
        chk.violation("a proof obligation of C19 no longer checks", {"theorem": PROP_FILE, "coq_output": proof["out"][-1500:]}, False)

    # ---- evidence
    nsel = sum(1 for h in hist for e in h["events"] if e["k"] == "select")
    nontriv, per_policy, outcomes = set(), {}, {"nil": 0, "session": 0, "other": 0}
    stale_ring = 0
    for h in hist:
        regs = {}
        ch_used = False
        closed_since = False
        for e in h["events"]:
            if e["k"] == "open":
                regs[e["id"]] = [e["addr"], False]
            elif e["k"] in ("close", "release"):
                regs[e["id"]][1] = True
                if ch_used:
                    closed_since = True
            elif e["k"] == "select":
                pol = e.get("policy", "")
                per_policy[pol] = per_policy.get(pol, 0) + 1
                outcomes["nil" if e.get("nil") else "session" if e.get("class") == "ok" else "other"] += 1
                if regs:
                    nontriv.add((pol, e.get("xid", ""), tuple(sorted((k, v[0], v[1]) for k, v in regs.items()))))
                if pol == "ConsistentHashLoadBalance":
                    if closed_since:
                        stale_ring += 1
                    ch_used = True
    cev = sum(len(c["events"]) for c in client)
    chk.coverage.update({
        "trusted_base": TRUSTED,
        "evaluations": nsel + cev,
        "distinct_nontrivial": len(nontriv) + recon,
        "rule": "evaluations = Select calls on the real code compared with the model's candidate set (%d) + client events "
                "(register resource / connection lost / reconnect) compared with the model (%d); non-trivial = a selection over a "
                "non-empty registry, distinct by (policy, xid, registry snapshot), plus reconnects observed (%d)" % (nsel, cev, recon),
        "traces_validated_against_impl": len(hist) - len(corr) - n_oracle + (len(client) - len(ccorr)),
        "histories": len(hist), "selections_through_the_integrated_path": n_integrated,
        "xid_carrying_message_types_sent": sorted(f[9:] for h in (data.get("integrated") or []) for f in (h.get("feat") or []) if f.startswith("xid-type:")),
        "registrations_whose_first_announcement_failed": sum(1 for c in client for e in c["events"] if e.get("send_fail")), "selections_per_policy": per_policy, "selection_outcomes": outcomes,
        "consistent_hash_selections_after_a_ring_member_closed": stale_ring,
        "reconnects_observed": recon, "reconnects_in_clean_stream": recon_clean, "reconnects_in_finding_stream": recon - recon_clean,
        "direct_oracle_failures_selection": n_oracle, "model_mismatching_cases": len(mism),
        "harness_seconds": round(secs, 2),
        "samples": [{"history": readable(hist[0], 8)}] if hist else [],
    })
    chk.assumptions += ["md5 enters the model as the universally quantified `hash`; the values of each case come from Go's crypto/md5",
                        "reconnect half: one coordinator connection, driven at handler level (OnOpen/OnClose/OnError), no TCP stub"]
    for f in vlib.fixed_entries("C19"):
        chk.notes.append(f)
    return chk.finish()


def replay(chk, path):
    r = json.load(open(path))
    if r.get("history_index", -1) >= 0 and "seed" in r:
        chk.tier = "quick" if r.get("n", 260) <= 260 else "thorough"
        return run(chk, only=r["history_index"], seed=r["seed"])
    print("replay names a client history / proof obligation: re-running the check (the client scripts are fixed per seed)")
    if "seed" in r:
        return run(chk, seed=r["seed"])
    return run(chk)
