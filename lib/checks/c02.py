"""C02 — AT phase one is atomic and ordered against the coordinator."""
import json, os
import vlib
import atp_util as U
from vlib import coq_list, coq_bool

MANIFEST = {
    "text": "Coq theorems over a step machine of commitOnAT / the autocommit wrapper / explicit BeginTx..Commit|Rollback with a fault script "
            "(outcome of every database call incl. BEGIN/COMMIT/ROLLBACK, of BranchRegister, of each BranchReport attempt), for ALL uses and "
            "scripts: C02_bracket, C02_order (a successful COMMIT of a transaction with recorded rows is immediately preceded by "
            "Register-granted then UNDO-INSERT, inside its BEGIN), C02_atomic / C02_together (crash after any journal prefix: durable = d0 or "
            "d0 + all business writes + the undo row), C02_failure_auto / C02_failure_explicit / C02_general (any failure => Err, durable = d0, "
            "last database call is a ROLLBACK, a granted branch is reported PhaseOne_Failed 1..5 times and never Done, connection closed "
            "unless the ROLLBACK itself failed), C02_user_rollback. Tie: the REAL proxy over fakedb + tcstub with faults ENUMERATED at every "
            "position (BEGIN, image queries, statement, undo PREPARE/EXEC, COMMIT, +ROLLBACK, 4 registration refusals, report failing 1..5 "
            "times; connection lost with driver.ErrBadConn / ErrInvalidConn at every call, database/sql's re-execution split into attempts; "
            "caller's context cancelled at a statement) in autocommit, explicit and pinned-connection use (2-3 consecutive statements on one sql.Conn); the merged journal (image queries kept as OQuery, metadata erased) replayed through the "
            "model in Coq (vm_compute) + the property's clauses and a pooled-connection probe evaluated on the real run.",
    "note": "Trusted: Coq kernel + vm_compute, no axioms; fakedb/tcstub/atrun; fault model 'a failed call is not applied' (lost-reply COMMIT "
            "is outside); the script of a case is the sequence of environment outcomes observed in its own journal.",
    "technique": "Coq proof (step machine, invariants over journals) + differential correspondence of journals (vm_compute) + direct oracle with exhaustive fault positions",
}
PROP_FILE = "Props/P_C02.v"
REQ = "From SeataV Require Import Props.P_C02."
TRUSTED = vlib.TRUSTED_COMMON + [
    "harness/fakedb (transactions, fault injection by call kind/pattern), harness/tcstub (scripted BranchRegister/BranchReport), harness/atrun",
    "harness/atp c02.go (enumeration of fault positions), lib/checks/c02.py journal projection",
    "fault model: an injected database failure is not applied (action error); connection loss and lost replies are not modelled",
]
HEADER = """From Coq Require Import List NArith Bool.
From SeataV Require Import At.Commit At.CommitCases.
Import ListNotations. Open Scope nat_scope.
"""
ERR = {1: "journal (BEGIN/queries/statements/UNDO-INSERT/COMMIT/ROLLBACK/Register/Report) differs from the model's",
       2: "results returned to the caller differ from the model's", 3: "durable state differs from the model's",
       4: "open-transaction flag of the returned connection differs from the model's"}
KIND = {"update": "KUpdate", "delete": "KDelete", "insert": "KInsert"}


def expand(case):
    """the uses of a scenario: one, or (pinned connection) one per consecutive autocommit statement"""
    meta = case["meta"]
    meta["stmts"] = meta.get("stmts") or []
    ex = meta["extra"]
    if ex["mode"] != "pinned":
        return [dict(case, orig=meta, meta=dict(meta, extra=dict(ex, last="1")))]
    out, n = [], int(ex["uses"])
    for j in range(n):
        vex = dict(ex, mode="auto", pinned="1", use_no=str(j), use_path=ex["use_path.%d" % j], dump_pre=ex["dump_pre.%d" % j],
                   dump_post=ex["dump_post.%d" % j], last="1" if j == n - 1 else "")
        out.append(dict(case, orig=meta, meta=dict(meta, stmts=[meta["stmts"][j]], extra=vex)))
    return out


def project(case):
    """journal of the use as model events + script + observables; a list: one projection per attempt
    (database/sql re-executes a pool statement on a fresh connection after driver.ErrBadConn)"""
    meta, tr = case["meta"], case["trace"]
    ex = meta["extra"]
    use = U.step_at(tr, ex["use_path"])
    ranges = []
    for j, sm in enumerate(meta["stmts"]):
        st = U.step_at(tr, sm["path"])
        ranges.append((st["seq_from"], st["seq_to"], j))
    evs, conns, dead = [], set(), set()
    for e in U.db_events(tr, use["seq_from"], use["seq_to"], keep_reset=False):
        if e["src"] == "db":
            j = e["db"]
            ok = not j.get("err")
            sql = (j.get("sql") or "")
            conns.add(j["conn"])
            lost = bool(j.get("injected")) and j.get("err") in ("badconn", "invalidconn")
            if lost:
                dead.add(j["conn"])
            if j["kind"] == "BEGIN":
                evs.append(("db", "OBegin", ok))
                if lost:
                    continue
            elif j["kind"] in ("QUERY", "STMT_QUERY") and sql.lstrip().upper().startswith(("UPDATE", "DELETE", "INSERT")):
                # a DML text sent through the query path is the business statement all the same
                sid = next((n for lo, hi, n in ranges if lo < e["seq"] <= hi), 99)
                evs.append(("db", "OStmt %d" % sid, ok))
            elif j["kind"] in ("QUERY", "STMT_QUERY"):
                evs.append(("db", "OQuery", ok))
            elif j["kind"] == "EXEC" and sql.strip().upper() == "ROLLBACK":
                # the proxy's retry of a failed driver-level rollback as SQL text: one rollback attempt for the model
                if evs and evs[-1][:2] == ("db", "ORollback") and not evs[-1][2]:
                    evs[-1] = ("db", "ORollback", ok)
                else:
                    evs.append(("db", "ORollback", ok))
            elif j["kind"] == "EXEC":
                sid = next((n for lo, hi, n in ranges if lo < e["seq"] <= hi), 99)
                evs.append(("db", "OStmt %d" % sid, ok))
            elif j["kind"] == "STMT_EXEC" and "undo_log" in sql:
                evs.append(("db", "OUndo", ok))
            elif j["kind"] == "COMMIT":
                evs.append(("db", "OCommit", ok))
            elif j["kind"] == "ROLLBACK":
                evs.append(("db", "ORollback", ok))
            else:
                evs.append(("db", "OQuery", ok))
            if lost:
                # the connection is gone: the server discards its open transaction (the proxy's own rollback
                # attempts on the dead connection never reach the database)
                evs.append(("db", "ORollback", True))
        else:
            t = e["tc"]
            if t["kind"] == "BranchRegister":
                evs.append(("reg", t["branch_id"] if t["outcome"] == "ok" else None))
            elif t["kind"] == "BranchReport":
                evs.append(("rep", t.get("status") == 2, t["outcome"] == "ok"))
    # a failed PREPARE of the undo insert is the failed undo insert
    for e in tr["journal"]:
        if use["seq_from"] < e["seq"] <= use["seq_to"] and e["src"] == "db" and e["db"]["kind"] == "PREPARE" \
                and "undo_log" in (e["db"].get("sql") or "") and e["db"].get("err"):
            # insert at its place: after the last register event
            idx = max((i for i, x in enumerate(evs) if x[0] == "reg"), default=len(evs) - 1)
            evs.insert(idx + 1, ("db", "OUndo", False))
    if ex["mode"] == "auto":
        results = [U.step_at(tr, meta["stmts"][0]["path"])["class"] == "ok"]
    else:
        results = [U.step_at(tr, ex["begin_path"])["class"] == "ok"]
        if results[0]:
            results += [U.step_at(tr, sm["path"])["class"] == "ok" for sm in meta["stmts"]]
            results.append(U.step_at(tr, ex["end_path"])["class"] == "ok")
    pre = U.step_at(tr, ex["dump_pre"])
    post = U.step_at(tr, ex["dump_post"])
    rows = {r[0][1]: r[1][1] for r in U.dump_table(post, "t_kv")}
    committed = any(x[0] == "db" and x[1] == "OCommit" and x[2] for x in evs)
    biz = []
    for j, sm in enumerate(meta["stmts"]):
        a = [int(x["v"]) for x in sm["args"]]
        s_ok = any(x[0] == "db" and x[1] == "OStmt %d" % j and x[2] for x in evs)
        if sm["kind"] == "update":
            dur = (rows.get(a[1]) == a[0]) if sm["nrows"] else (committed and s_ok)
        elif sm["kind"] == "delete":
            dur = a[0] not in rows
        else:
            dur = a[0] in rows
        if dur:
            biz.append(j)
    before = {u["branch_id"] for u in pre.get("undo") or []}
    undo = [u["branch_id"] for u in post.get("undo") or [] if u["branch_id"] not in before]
    if ex.get("last"):
        is_open = bool(tr.get("pool_returns_in_tx")) or bool(tr.get("open_tx_at_end"))
    else:
        # pinned connection, not its last use: is a transaction still open when the next call arrives on it?
        nxt = next((e["db"] for e in tr["journal"] if e["src"] == "db" and e["seq"] > use["seq_to"] and e["db"]["conn"] in conns
                    and e["db"]["kind"] not in ("RESET", "CONNECT", "CLOSE")), None)
        is_open = bool(nxt and (nxt.get("in_tx") or nxt.get("implicit")))
    if conns and conns <= dead:
        is_open = False
    full = dict(evs=evs, results=results, biz=biz, undo=undo, open=is_open, rows=rows, committed=committed, final=True)
    # attempts: every BEGIN after the first starts a re-execution by database/sql
    cuts = [i for i, x in enumerate(evs) if x[0] == "db" and x[1] == "OBegin"]
    if ex["mode"] != "auto" or len(cuts) <= 1:
        return [full]
    out = []
    for n, lo in enumerate(cuts):
        hi = cuts[n + 1] if n + 1 < len(cuts) else len(evs)
        part = evs[lo:hi]
        if n + 1 < len(cuts):
            granted = [x[1] for x in part if x[0] == "reg" and x[1] is not None]
            out.append(dict(evs=part, results=[False], biz=[], undo=[b for b in undo if b in granted], open=False, rows=rows,
                            committed=any(x[0] == "db" and x[1] == "OCommit" and x[2] for x in part), final=False))
        else:
            granted_before = [x[1] for x in evs[:lo] if x[0] == "reg" and x[1] is not None]
            out.append(dict(full, evs=part, undo=[b for b in undo if b not in granted_before],
                            committed=any(x[0] == "db" and x[1] == "OCommit" and x[2] for x in part)))
    return out


def ev_term(x):
    if x[0] == "db":
        return "EDb (%s) %s" % (x[1], coq_bool(x[2]))
    if x[0] == "reg":
        return "EReg %s" % ("None" if x[1] is None else "(Some %d%%N)" % x[1])
    return "ERep %s %s" % (coq_bool(x[1]), coq_bool(x[2]))


def case_term(case, p):
    meta = case["meta"]
    ss = coq_list(["{| st_id := %d; st_kind := %s; st_rows := %s |}" % (j, KIND[sm["kind"]], coq_bool(bool(sm["nrows"])))
                   for j, sm in enumerate(meta["stmts"])])
    if meta["extra"]["mode"] == "auto":
        use = "Auto {| st_id := 0; st_kind := %s; st_rows := %s |}" % (KIND[meta["stmts"][0]["kind"]], coq_bool(bool(meta["stmts"][0]["nrows"])))
    else:
        use = "Explicit %s %s" % (ss, meta["extra"]["commit"])
    sdb = coq_list([coq_bool(x[2]) for x in p["evs"] if x[0] == "db"])
    sreg = coq_list(["None" if x[1] is None else "Some %d%%N" % x[1] for x in p["evs"] if x[0] == "reg"])
    srep = coq_list([coq_bool(x[2]) for x in p["evs"] if x[0] == "rep"])
    return ("{| c_use := %s; c_script := {| s_db := %s; s_reg := %s; s_rep := %s |};\n c_journal := %s;\n c_results := %s; "
            "c_durable_biz := %s; c_durable_undo := %s; c_open := %s |}") % (
        use, sdb, sreg, srep, coq_list([ev_term(x) for x in p["evs"]]), coq_list([coq_bool(b) for b in p["results"]]),
        coq_list(["%d" % b for b in p["biz"]]), coq_list(["%d%%N" % b for b in p["undo"]]), coq_bool(p["open"]))


def oracle(case, p):
    """the property's own clauses on the real run"""
    meta, tr = case["meta"], case["trace"]
    ex, out = meta["extra"], []
    evs = p["evs"]
    malformed = meta["stream"] == "malformed"
    stmt_ok = [U.step_at(tr, sm["path"])["class"] == "ok" for sm in meta["stmts"]]
    if ex["mode"] == "auto":
        stmt_ok = [p["results"][0]]
    rows_recorded = any(ok and sm["nrows"] for ok, sm in zip(stmt_ok, meta["stmts"]))
    # order
    for i, x in enumerate(evs):
        if x[0] == "db" and x[1] == "OCommit" and x[2] and rows_recorded:
            b = max((k for k in range(i) if evs[k][0] == "db" and evs[k][1] == "OBegin"), default=-1)
            inner = evs[b + 1:i]
            regs = [k for k, y in enumerate(inner) if y[0] == "reg" and y[1] is not None]
            undos = [k for k, y in enumerate(inner) if y[0] == "db" and y[1] == "OUndo" and y[2]]
            if b < 0 or not regs or not undos or not regs[0] < undos[0]:
                out.append("local COMMIT without BranchRegister(granted) then undo-log insert in the same local transaction")
    inside = False
    for x in evs:
        if x[0] == "db" and x[1] == "OBegin" and x[2]:
            inside = True
        elif x[0] == "db" and x[1] in ("OCommit", "ORollback") and x[2]:
            inside = False
        elif (x[0] == "reg" or (x[0] == "db" and x[1] == "OUndo")) and not inside:
            out.append("BranchRegister / undo-log insert outside a local transaction")
    # atomic: durable business writes and undo row together or not at all
    want = [j for j, ok in enumerate(stmt_ok) if ok or malformed and any(y[0] == "db" and y[1] == "OStmt %d" % j and y[2] for y in evs)]
    if p["biz"] and sorted(p["biz"]) != sorted(j for j in want if j in p["biz"] or True) and not malformed:
        out.append("only part of the local transaction's writes is durable: %s of %s" % (p["biz"], want))
    durable_rows = [j for j in p["biz"] if meta["stmts"][j]["nrows"]]
    if durable_rows and not p["undo"] and not malformed:
        out.append("business writes durable without the undo-log record")
    if p["undo"] and not durable_rows:
        out.append("undo-log record durable without the business writes")
    # failure
    failed = [x for x in evs if (x[0] == "db" and not x[2] and x[1] != "ORollback") or (x[0] == "reg" and x[1] is None)]
    granted = [x[1] for x in evs if x[0] == "reg" and x[1] is not None]
    rb_failed = any(x[0] == "db" and x[1] == "ORollback" and not x[2] for x in evs)
    commit_path_failed = [x for x in failed if x[0] == "reg" or x[1] in ("OUndo", "OCommit", "OBegin")]
    bracket_failed = failed if ex["mode"] == "auto" else commit_path_failed
    if bracket_failed:
        if p["results"][-1]:
            out.append("a phase-one step failed but the caller got no error")
        if p["biz"] or p["undo"]:
            out.append("a phase-one step failed but something was committed (%s, undo %s)" % (p["biz"], p["undo"]))
        if granted:
            nf = sum(1 for x in evs if x[0] == "rep" and not x[1])
            if not 1 <= nf <= 5 or any(x[0] == "rep" and x[1] for x in evs):
                out.append("registered branch not reported PhaseOne_Failed within 1..5 attempts (%d failed-status reports)" % nf)
            elif nf < 5 and not any(x[0] == "rep" and not x[1] and x[2] for x in evs):
                out.append("the PhaseOne_Failed report was given up after %d unanswered/refused attempt(s) although 5 are allowed" % nf)
    elif p["committed"] and granted:
        nd = sum(1 for x in evs if x[0] == "rep" and x[1])
        if not 1 <= nd <= 5 or any(x[0] == "rep" and not x[1] for x in evs):
            out.append("committed branch not reported PhaseOne_Done within 1..5 attempts")
    if p["open"] and not rb_failed:
        out.append("the connection went back to the pool inside an open transaction")
    # probe: the next user of the pooled connection sees the committed state only, and commits only its own write
    if not rb_failed and ex.get("last") and p.get("final") and not ex.get("pinned_dirty"):
        q = U.step_at(tr, ex["probe_q"])
        seen = {int(r[0]["v"]): int(r[1]["v"]) for r in q.get("rows") or []} if q["class"] == "ok" else None
        if seen != p["rows"]:
            out.append("the next user of the pooled connection sees uncommitted writes of the failed transaction")
        end = {r[0][1]: r[1][1] for r in U.dump_table(U.step_at(tr, ex["dump_end"]), "t_kv")}
        exp = dict(p["rows"])
        if 5 in exp:
            exp[5] = 7777
        if end != exp or U.step_at(tr, ex["probe_x"])["class"] != "ok":
            out.append("the next user's autocommit statement committed someone else's writes (or failed)")
    return out


def run(chk, only=None):
    pr = vlib.proof_step(chk, PROP_FILE, REQ)
    ok_cases, out_cases = vlib.coq_make(["At/CommitCases.vo"])
    if not ok_cases:
        raise vlib.Broken("At/CommitCases.v does not compile:\n" + out_cases[-1500:])
    secs = 0.0
    if only is None:
        cases, secs = U.run_atp(chk, prop="c02", seed=chk.seed, n=(40 if chk.tier == "quick" else 1500))
    else:
        cases = U.replay_atp(chk, only)
    findings = vlib.known_findings("C02")
    views, projs = [], []
    for c in cases:
        if c["trace"].get("setup_err"):
            raise vlib.Broken("scenario setup failed: " + c["trace"]["setup_err"])
        dirty = False
        for v in expand(c):
            if dirty:
                v["meta"]["extra"]["pinned_dirty"] = "1"
            for p in project(v):
                views.append(v)
                projs.append(p)
                # a failed rollback leaves the pinned connection inside a transaction: later uses are outside the claim
                dirty = dirty or any(x[0] == "db" and x[1] == "ORollback" and not x[2] for x in p["evs"])
    n_scenarios = len(cases)
    cases = views
    seen = set()
    nfail = 0
    for c, p in zip(cases, projs):
        if c["meta"]["extra"].get("pinned_dirty"):
            continue
        o = oracle(c, p)
        if o:
            nfail += 1
            if o[0][:50] in seen:
                continue
            seen.add(o[0][:50])
            chk.violation("C02 fails on the real code (%s%s, fault %s): %s" % (c["meta"]["extra"]["mode"], " pinned use " + c["meta"]["extra"]["use_no"] if c["meta"]["extra"].get("pinned") else "",
                                                                             c["meta"]["extra"]["fault"], "; ".join(o[:3])),
                          dict(scenario=c["scenario"], meta=c["orig"], oracle=o[:6], journal=[ev_term(x) for x in p["evs"]]), True)
    keep = [i for i, c in enumerate(cases) if not c["meta"]["extra"].get("pinned_dirty")]
    cases, projs = [cases[i] for i in keep], [projs[i] for i in keep]
    mism = vlib.eval_mismatches("C02", HEADER, [case_term(c, p) for c, p in zip(cases, projs)], case_type="ccase", shard=60)
    if not chk.violations:
        for i in sorted(mism, key=lambda i: len(projs[i]["evs"])):
            chk.violation("correspondence between the phase-one machine and the code broke (%s)" % "; ".join(ERR[e] for e in mism[i]),
                          dict(scenario=cases[i]["scenario"], meta=cases[i]["orig"], model_disagreements=[ERR[e] for e in mism[i]], journal=[ev_term(x) for x in projs[i]["evs"]],
                               results=projs[i]["results"], durable=[projs[i]["biz"], projs[i]["undo"]], correspondence="At/CommitCases.v check_case"), False)
            break
    if not pr["ok"] and not chk.violations:
        chk.violation("a proof obligation of C02 no longer checks", {"theorem": PROP_FILE, "coq_output": pr["out"][-1500:]}, False)
    dist = {}
    for c, p in zip(cases, projs):
        for k in ("mode", "fault"):
            key = k + "." + c["meta"]["extra"][k]
            dist[key] = dist.get(key, 0) + 1
    nontriv = [p for p in projs if any(x[0] == "db" and not x[2] for x in p["evs"]) or any(x[0] == "reg" and x[1] is None for x in p["evs"])
               or any(x[0] == "rep" and not x[2] for x in p["evs"])]
    chk.coverage.update({
        "trusted_base": TRUSTED,
        "evaluations": len(cases), "scenarios": n_scenarios,
        "distinct_nontrivial": vlib.distinct([[ev_term(x) for x in p["evs"]] for p in nontriv]),
        "rule": "every fault position enumerated: 4 autocommit shapes (update with/without rows, delete, insert) x 23 fault sets (each database call "
                "of the bracket incl. undo PREPARE/EXEC, COMMIT, +ROLLBACK pairs, 4 registration refusals, report failing 1/2/5 times with and "
                "without a failed COMMIT), 5 explicit-commit shapes x 9 commit-path fault sets, 3 explicit-rollback shapes x 4, %d seeded longer "
                "explicit transactions, 3 malformed (user commits after a failed statement); non-trivial = some call failed; distinct by journal"
                % (40 if chk.tier == "quick" else 1500),
        "traces_validated_against_impl": len(cases) - len(mism),
        "oracle_failures": nfail,
        "journal_events": sum(len(p["evs"]) for p in projs),
        "input_distribution": dist,
        "harness_seconds": round(secs, 2),
        "samples": [[ev_term(x) for x in p["evs"]] for p in nontriv[5:7]],
    })
    chk.assumptions += [
        "a failed database call is not applied (no lost-reply COMMIT, no connection loss inside phase one)",
        "'connection returned clean' is claimed when the proxy's ROLLBACK is not itself made to fail (hypothesis rollback_failed = false of the theorems)",
        "the fault script of a model case is the sequence of environment outcomes observed in the case's own journal",
        "report retry timing (100-200 ms backoff) is not compared, only the number of attempts (<= 5)",
    ]
    return chk.finish()


def replay(chk, path):
    r = json.load(open(path))
    if "scenario" in r and "meta" in r:
        return run(chk, only=[r])
    print("replay names a proof obligation, not a scenario: " + json.dumps(r)[:300])
    return run(chk)
