"""C10 — branch rollback is idempotent and blocks a late phase one."""
import atroll_util as au

TABLES = au.TABLES
MANIFEST = {
    "text": "Coq theorems over the AT rollback model (At/Rollback.v, shared with C01/C09): C10_idem (for all states, branches "
            "and n >= 1 clean deliveries: every answer 'rollbacked', tables and the other branches' undo rows as after the first "
            "delivery, no normal undo row; induction on n), C10_no_partial (a database failure at ANY reached call of the "
            "rollback transaction: durable state unchanged, not 'rollbacked', local transaction ended, connection released, the "
            "clean retry is the single clean rollback), C10_unreached_fault, C10_marker (no undo log => GlobalFinished marker; "
            "any later local commit of that branch changes neither the undo log nor the tables), C10_fault_reachable. Tie: "
            "Gen/UndoFlow.v regenerated from Undo's deferred clean-up (no assignment to the named result, rollback unless "
            "committed, conn.Close, Commit error returned); scenarios through the REAL proxy: 1-3 deliveries per branch, a "
            "fault at every (quick: sampled) call index of the rollback transaction followed by a clean retry, rollback "
            "delivered by the coordinator stub between BranchRegister and the undo-log flush; responses, dumps, undo rows, "
            "whether the fault was reached and call counts compared with the model in Coq; direct oracle on every run.",
    "note": "Trusted: Coq kernel + vm_compute, no axioms; fakedb/tcstub/atrun engine. A failing COMMIT is injected as a lost "
            "connection (fakedb's 'error' action would leave the server-side transaction open, which MySQL does not). "
            "Idempotence is modulo the GlobalFinished marker row a repeated delivery leaves.",
    "technique": "Coq proof (induction on deliveries, case analysis of the rollback plan) + regenerated control-flow table + "
                 "differential correspondence under fault injection (vm_compute) + direct oracle",
}
PROP_FILE = "Props/P_C10.v"
REQ = "From SeataV Require Import Props.P_C10."
RULE = ("seeded plans through the real AT proxy: stream c10repeat (1-3 branches, 1-3 deliveries each), stream c10fault (one "
        "branch; a clean reference run gives the number n of database calls of its rollback, then one run per fault index "
        "(quick: first, last = COMMIT, sampled others; thorough: all n) each followed by a clean retry), stream c10marker "
        "(rollback delivered inside the BranchRegister hook, before the flush)")
ASSUME = [
    "local transactions of the database are atomic; a failing call is not applied; a failing COMMIT is a lost connection",
    "the coordinator stub assigns distinct branch ids; one resource",
    "after the marker the late phase one fails without rolling its local transaction back (C02's subject): the open "
    "transaction is not counted against C10 in the marker stream",
]


def run(chk, only=None):
    return au.run_property(chk, "C10", PROP_FILE, REQ, RULE, ASSUME, only)


def replay(chk, path):
    return au.replay_property(chk, path, run)
