"""C13 — the frame reader under fragmentation (pkg/remoting/getty/readwriter.go)."""
import json, os, re
import vlib
from vlib import coq_hex, coq_list

MANIFEST = {
    "text": "Coq theorems over an executable model of RpcPackageHandler.Read/Write, the head-map codec and getty's receive loop "
            "(C13_frame_exact, C13_frame_prefix, C13_stream_any_partition for ALL frame sequences and ALL partitions into reads, "
            "C13_read_garbage / C13_no_spin for ALL byte strings, C13_headmap_roundtrip incl. empty keys/values, C13_complete_frame_delivered / "
            "C13_need_only_incomplete: need-more only for incomplete input, C13_interleaving: connections sharing the handler do not influence "
            "each other); the model is tied "
            "to the current source on every run by driving the real Read exactly as getty's handleTCPPackage does over every prefix, "
            "every 2-cut partition of short streams, random partitions of long ones (each also through getty's reusable receive buffer, delivered "
            "objects re-inspected at the end), two interleaved connections on one handler, structured and random garbage, and comparing "
            "(message, consumed, error class) and whole delivery sequences with the model evaluated by vm_compute; the property's own "
            "statement is evaluated on the real run as a direct oracle.",
    "note": "Trusted: Coq kernel + vm_compute, no axioms; harness/frame (loop transcription of getty v1.5.0 session.handleTCPPackage, "
            "generators, canonicalisation); bodies are opaque bytes in the model (their layout is C12), the slice Read hands to the codec "
            "is checked by decoding the same bytes independently. getty's maxMsgLen cut-off and frames >= 4 GiB are outside the model.",
    "technique": "Coq proof over an executable frame/receive-loop model + differential correspondence with the real reader (vm_compute)",
}
PROP_FILE = "Props/P_C13.v"
REQUIRES = "From SeataV Require Import Props.P_C13."
TRUSTED = vlib.TRUSTED_COMMON + [
    "harness/frame: transcription of getty v1.5.0 session.handleTCPPackage (append; Read; err=>close; nil=>wait; pkg=>deliver, drop pkgLen), "
    "generators, head-map canonicalisation (sorted association list), body observable (bytes of the frame that decode to the delivered body)",
    "lib/checks/c13.py case printer (byte strings as lists of Byte constructors)",
]
HEADER = """From Coq Require Import List NArith Bool.
From Coq.Strings Require Import Byte.
From SeataV Require Import Base.Bytes Frame.FrameModel Frame.FrameCases.
Import ListNotations. Open Scope N_scope.
"""
ERR = {1: "Read(data) differs from the model's frame_read", 2: "Read on a prefix differs from frame_read on that prefix",
       3: "deliveries of the receive loop differ from the model's drive", 4: "Write differs from the model's frame_write",
       5: "malformed case", 6: "per-connection deliveries of two interleaved connections differ from the model (drive2)"}


def msg_term(m):
    head = coq_list(["(%s, %s)" % (coq_hex(k), coq_hex(v)) for k, v in m["head"]])
    return "{| r_id := %d; r_type := %d; r_codec := %d; r_compressor := %d; r_head := %s; r_body := %s |}" % (
        m["id"], m["type"], m["codec"], m["comp"], head, coq_hex(m["body"]))


def res_term(r):
    c = r["c"]
    if c == "err":
        return "OErr"
    if c == "need":
        return "(ONeed %d)" % r["n"]
    if c == "msg":
        return "(OMsg %s %d)" % (msg_term(r["m"]), max(r["n"], 0))
    return "OPanic" if c == "panic" else "ODiverged"


def ev_term(e):
    k = e["e"]
    if k == "deliver":
        return "(EDeliver %s)" % msg_term(e["m"])
    return {"close": "EClose", "spin": "ESpin", "panic": "EPanic", "diverged": "EDiverged", "stall": "EDiverged"}[k]


def nat_list(l):
    return "[" + ";".join("%d%%nat" % x for x in l) + "]"


def terms_of(data):
    """(kind, index in its list, Coq term, cost estimate)"""
    out = []
    for i, c in enumerate(data["reads"]):
        out.append(("reads", i, "(CRead %s %s)" % (coq_hex(c["data"]), res_term(c["res"])), len(c["data"]) // 2))
    for i, c in enumerate(data["reads"]):
        if c.get("after"):   # the same bytes on a handler with a history: the model knows no history
            out.append(("reads", i, "(CRead %s %s)" % (coq_hex(c["data"]), res_term(c["after"])), len(c["data"]) // 2))
    for i, c in enumerate(data.get("interleaves") or []):
        sched = coq_list(["(%s, %d%%nat)" % ("true" if sd else "false", n) for sd, n in c["sched"]])
        out.append(("interleaves", i, "(CInterleave %s %s %s %s %s)" % (
            coq_hex(c["a"]), coq_hex(c["b"]), sched, coq_list([ev_term(e) for e in c["ev_a"] or []]),
            coq_list([ev_term(e) for e in c["ev_b"] or []])), (len(c["a"]) + len(c["b"])) // 2 * (2 + len(c["sched"]) // 4)))
    for i, c in enumerate(data["prefixes"]):
        n = len(c["data"]) // 2
        out.append(("prefixes", i, "(CPrefixes %s %s %s)" % (
            coq_hex(c["data"]), coq_list([res_term(r) for r in c["tbl"]]), nat_list(c["obs"])), n * n // 2))
    for i, c in enumerate(data["drives"]):
        n = len(c["data"]) // 2
        out.append(("drives", i, "(CDrive %s %s %s)" % (
            coq_hex(c["data"]), coq_list([coq_list([ev_term(e) for e in evs]) for evs in c["tbl"]]),
            coq_list(["(%s, %d%%nat)" % (nat_list(p["lens"]), p["ev"]) for p in c["parts"]])),
            n * sum(2 + len(p["lens"]) for p in c["parts"])))
    for i, c in enumerate(data["writes"]):
        if c["oracle"]:
            continue
        out.append(("writes", i, "(CWrite %s %s)" % (msg_term(c["m"]), coq_hex(c["out"])), len(c["out"]) // 2))
    return out


def eval_model(cases):
    """shards of roughly equal estimated cost; returns {position in cases: [codes]}"""
    order = sorted(range(len(cases)), key=lambda i: -cases[i][3])
    total = sum(c[3] for c in cases) + 1
    budget = max(total // 24, 1)
    shards, cur, cost = [], [], 0
    for i in order:
        cur.append(i)
        cost += cases[i][3]
        if cost >= budget or len(cur) >= 150:
            shards.append(cur)
            cur, cost = [], 0
    if cur:
        shards.append(cur)
    res = {}
    import concurrent.futures

    def one(arg):
        k, sh = arg
        name = "cases_C13_%d_%d" % (os.getpid(), k)
        text = HEADER + "\nDefinition cases : list fcase := [\n" + ";\n".join(cases[i][2] for i in sh) + \
            "].\nDefinition M := Eval vm_compute in mismatches cases.\nPrint M.\n"
        ok, out = vlib.coq_eval(name, text)
        if not ok:
            raise vlib.Broken("case evaluation failed in Coq (%s):\n%s" % (name, out[-2000:]))
        vlib.cleanup_run(name)
        printed = vlib.parse_coq_printed(out, "M")
        if printed is None:
            raise vlib.Broken("cannot parse Coq output:\n" + out[-2000:])
        r = {}
        for m in re.finditer(r"\((\d+)(?:%nat)?,\s*(\d+)(?:%N)?\)", printed):
            r.setdefault(sh[int(m.group(1))], []).append(int(m.group(2)))
        if printed != "[]" and not r:
            raise vlib.Broken("unparsed mismatch list: " + printed[:300])
        return r

    with concurrent.futures.ThreadPoolExecutor(max_workers=6) as ex:
        for r in ex.map(one, list(enumerate(shards))):
            res.update(r)
    return res


def slim(kind, c):
    """a replayable single case (Result-shaped: the harness's replay= input)"""
    d = {"reads": [], "prefixes": [], "drives": [], "writes": [], "interleaves": []}
    c = dict(c)
    if kind == "drives" and c.get("bad_at", -1) >= 0:
        bad = c["parts"][c["bad_at"]]
        c["parts"] = [{"lens": bad["lens"], "ev": 0}]
        c["tbl"] = [c["tbl"][bad["ev"]]]
        c["bad_at"] = 0
    d[kind] = [c]
    return d


def model_says(kind, c):
    try:
        if kind == "reads":
            return vlib.coq_compute("C13", HEADER, ["model_read %s" % coq_hex(c["data"])])[0][:600]
        if kind == "drives" and c["parts"]:
            p = c["parts"][max(c.get("bad_at", 0), 0)]
            return vlib.coq_compute("C13", HEADER, ["model_drive %s %s" % (coq_hex(c["data"]), nat_list(p["lens"]))])[0][:600]
    except Exception:
        pass
    return None


def run(chk, replay_input=None):
    quick = chk.tier == "quick"
    proof = vlib.proof_step(chk, PROP_FILE, REQUIRES)
    ok_cases, out_cases = vlib.coq_make(["Frame/FrameCases.vo"])
    if not ok_cases:
        raise vlib.Broken("Frame/FrameCases.v does not compile:\n" + out_cases[-1500:])
    if replay_input is not None:
        rp = chk.tmp("replay_in.json")
        json.dump(replay_input, open(rp, "w"))
        data, secs = vlib.run_harness("frame", chk.tmp("frame.json"), replay=rp)
    elif quick:
        data, secs = vlib.run_harness("frame", chk.tmp("frame.json"), seed=chk.seed, n=30, garbage=220, maxcut2=60, nrand=8)
    else:
        data, secs = vlib.run_harness("frame", chk.tmp("frame.json"), timeout=1500, seed=chk.seed, n=700, garbage=5000, maxcut2=90, nrand=40)
    for k in ("reads", "prefixes", "drives", "writes", "interleaves"):
        data[k] = data.get(k) or []
        for c in data[k]:
            for f in ("tbl", "obs", "parts"):
                if f in c and c[f] is None:
                    c[f] = []
    cases = terms_of(data)
    mism = eval_model(cases)
    # ---- classification
    reported = set()
    n_oracle = 0
    for kind in ("interleaves", "drives", "prefixes", "reads", "writes"):
        for i, c in enumerate(data[kind]):
            if not c["oracle"]:
                continue
            n_oracle += 1
            key = re.sub(r"\d+", "#", c["oracle"])[:70]
            if key in reported or len(reported) >= 8:
                continue
            reported.add(key)
            chk.violation("%s (%s case)" % (c["oracle"], c.get("kind", kind)),
                          {"case": slim(kind, c), "direct_oracle": c["oracle"], "model": model_says(kind, c)}, True)
    corr = {}
    for pos, codes in mism.items():
        kind, i = cases[pos][0], cases[pos][1]
        if not data[kind][i]["oracle"]:
            corr[(kind, i)] = codes
    if data.get("aborted") and not chk.violations:
        chk.violation(data["aborted"], {"aborted": data["aborted"]}, True)
    if corr and not chk.violations:
        (kind, i), codes = sorted(corr.items(), key=lambda kv: len(data[kv[0][0]][kv[0][1]].get("data", "")))[0]
        c = data[kind][i]
        chk.violation("correspondence between the frame model and the code broke (%s); the direct oracle found no input on which "
                      "the property itself fails" % ", ".join(ERR.get(e, str(e)) for e in codes),
                      {"case": slim(kind, c), "correspondence": "Frame/FrameCases.v check_case",
                       "model_disagreements": [ERR.get(e, str(e)) for e in codes], "model": model_says(kind, c),
                       "mismatching_cases": len(corr)}, False)
    if not proof["ok"] and not chk.violations:
        chk.violation("a proof obligation of C13 no longer checks", {"theorem": PROP_FILE, "coq_output": proof["out"][-1500:]}, False)
    # ---- evidence
    n_pref = sum(len(c["obs"]) for c in data["prefixes"])
    n_parts = sum(len(c["parts"]) for c in data["drives"])
    n_after = sum(1 for c in data["reads"] if c.get("after"))
    evaluations = len(data["reads"]) + n_after + n_pref + 2 * n_parts + len(data["writes"]) + len(data["interleaves"])
    nontriv = set()
    for c in data["reads"]:
        if c["res"]["c"] in ("msg", "err"):
            nontriv.add(("r", c["data"]))
    for c in data["prefixes"]:
        for k, o in enumerate(c["obs"]):
            if c["tbl"][o]["c"] in ("msg", "err"):
                nontriv.add(("r", c["data"][:2 * k]))
    for c in data["drives"]:
        for p in c["parts"]:
            if c["tbl"][p["ev"]]:
                nontriv.add(("d", c["data"], tuple(p["lens"])))
    kinds = {}
    for k in ("reads", "prefixes", "drives"):
        for c in data[k]:
            kinds[k + ":" + c["kind"]] = kinds.get(k + ":" + c["kind"], 0) + 1
    outcomes = {}
    for c in data["reads"]:
        outcomes[c["res"]["c"]] = outcomes.get(c["res"]["c"], 0) + 1
    for c in data["prefixes"]:
        for o in c["obs"]:
            outcomes[c["tbl"][o]["c"]] = outcomes.get(c["tbl"][o]["c"], 0) + 1
    valid_streams = [c for c in data["drives"] if c["nmsgs"] >= 0]
    sample = None
    if valid_streams:
        s = min(valid_streams, key=lambda c: len(c["data"]))
        sample = {"kind": s["kind"], "data": s["data"], "partitions": len(s["parts"]), "messages": s["nmsgs"],
                  "one_partition": s["parts"][len(s["parts"]) // 2]["lens"]}
    chk.coverage.update({
        "trusted_base": TRUSTED,
        "evaluations": evaluations,
        "distinct_nontrivial": len(nontriv),
        "rule": "evaluations = single Read calls compared (%d) + prefixes compared (%d) + partitions driven through the receive loop (%d) "
                "+ Write outputs compared (%d); non-trivial = the observation contains a delivered message or an error/close "
                "(the header was parsed), distinct by (bytes[, cut positions]); also counted: the same bytes read again on a handler with a history (%d), "
                "every partition driven a second time through getty's reusable receive buffer with the delivered objects re-inspected at the end, "
                "two-connection interleavings on one handler (%d)" % (len(data["reads"]), n_pref, n_parts, len(data["writes"]), n_after, len(data["interleaves"])),
        "traces_validated_against_impl": evaluations - sum(1 for _ in corr) - n_oracle,
        "real_read_calls": data.get("read_calls"),
        "model_case_terms": len(cases), "model_mismatching_cases": len(mism),
        "direct_oracle_failures": n_oracle,
        "input_distribution": kinds, "read_outcomes": outcomes,
        "valid_streams": len(valid_streams),
        "two_cut_exhaustive_streams": sum(1 for c in valid_streams if len(c["parts"]) > (len(c["data"]) // 2) ** 2 // 2),
        "harness_seconds": round(secs, 2),
        "samples": [sample] if sample else [],
    })
    chk.assumptions += ["bodies are opaque byte strings in the frame model (their layout is property C12)",
                        "getty's maxMsgLen cut-off and frames of 4 GiB or more are not modelled"]
    for f in vlib.fixed_entries("C13"):
        chk.notes.append(f)
    return chk.finish()


def replay(chk, path):
    r = json.load(open(path))
    if "case" not in r:
        print("replay names a proof obligation / correspondence, not an input: " + json.dumps(r)[:300])
        return run(chk)
    return run(chk, replay_input=r["case"])
