"""C17 — XA branches follow the XA protocol; phase two addresses the prepared branch."""
import json, os
import vlib
from vlib import coq_hex, coq_list, coq_bool

MANIFEST = {
    "text": "Coq theorems over an executable model of the XA client (conn_xa.go autocommit path incl. the branch timeout, pooled "
            "connection state xaActive/isConnKept/xaBranchXid, keeper entries; xa_resource_manager.go/db.go phase two on the held or "
            "a new connection) composed with the MySQL XA state diagram: C17_accepted_legal (for ALL programs, fault scripts, "
            "refusals, reuse through the pool, timeouts: the commands accepted per identifier stay in START stmt* END PREPARE "
            "(COMMIT|ROLLBACK) / failure prefix ending in ROLLBACK; never COMMIT without PREPARE), C17_legal / C17_legal_phase2 "
            "(every fault combination of one branch / phase-two call: nothing issued is illegal), C17_ident_injective / "
            "C17_ident_roundtrip, C17_reg_first, C17_failure, C17_timeout (+ _refuted for the listed finding). "
            "Tie: the REAL proxy driver is run over a stand-in MySQL server with the full (global) XA state machine under "
            "enumerated fault/reuse/timeout histories + seeded programs; journals, outcomes and identifier functions are compared with "
            "the model inside Coq (vm_compute); the property's own statement is evaluated on every real run (direct oracle).",
    "note": "Trusted: Coq kernel + vm_compute, no axioms; harness/xarun stand-in server and coordinator stub; "
            "free-running checker ticker switched off in the harness (single passes through a hook); explicit transactions and pinned-connection reuse are listed findings.",
    "technique": "Coq proof (induction over op lists, invariants) + differential correspondence of journals (vm_compute) + direct oracle",
}
PROP_FILE = "Props/P_C17.v"
REQ = "From SeataV Require Import Props.P_C17."
TRUSTED = vlib.TRUSTED_COMMON + [
    "harness/xarun: stand-in MySQL server (XA state diagram per identifier, one branch per session, detach at PREPARE "
    "for >= 8.0.29, PREPARED branches survive a disconnect), coordinator stub behind SendSyncRequest, scenario generator, oracle",
    "fault model: an injected failure makes one command fail without changing the server's state",
    "lib/checks/c17.py case printer",
]
HEADER = """From Coq Require Import String List NArith Bool.
From Coq.Strings Require Import Byte.
From SeataV Require Import Base.Bytes Xa.XaModel Xa.XaCases.
Import ListNotations. Open Scope N_scope.
"""
ERR = {1: "journal (coordinator requests + statements reaching the database) differs from the model's",
       2: "outcomes returned to the callers differ from the model's",
       3: "an XA START is not preceded by its accepted registration / does not carry xa_id(xid, branch)",
       4: "the commands accepted for some identifier are not a legal XA sequence",
       11: "XABranchXid.String() differs from xa_id", 12: "gtrid/bqual differ from the model's encode",
       13: "XaIdBuildWithByte(gtrid, bqual) differs from the model's decode"}
CMD = {"START": "START", "STMT": "STMT", "END": "END_", "PREPARE": "PREPARE", "COMMIT": "COMMIT", "ROLLBACK": "ROLLBACK"}
RES = {"ok": "ROk", "fault": "RFault", "rmfail": "RRmfail", "nota": "RNota", "dupid": "RDupid", "rbidle": "RRb"}


def u64(b):
    return b % (1 << 64)


def ev_term(e):
    if e["k"] == "reg":
        ok = e["res"] == "ok"
        return "EReg %s %s %d" % (coq_hex(e.get("xidh", "")), coq_bool(ok), u64(e.get("branch", 0)) if ok else 0)
    if e["k"] == "sql":
        return "ESql %d %s %s %s" % (e.get("conn", 0), CMD[e["cmd"]], coq_hex(e.get("idh", "")), RES.get(e["res"], "RNota"))
    return "EKill %d" % e.get("conn", 0)


def op_term(o):
    if o["k"] == "auto":
        return "OAuto %d %s %s" % (o["g"], "(Some %d%%nat)" % o["target"] if o.get("reuse") else "None", coq_bool(bool(o.get("slow"))))
    if o["k"] == "local":
        return "OLocal"
    if o["k"] == "retry":
        return "ORetry %d %s" % (o.get("g", 0), coq_bool(bool(o.get("slow"))))
    if o["k"] == "away":
        return "ORelease %d" % o["target"]
    if o["k"] == "check":
        return "OCheck %s" % coq_bool(bool(o.get("expired")))
    if o["k"] == "retire":
        return "ORetire %d" % o["target"]
    if o["k"] == "p2":
        return "OPhase2 %d %s %s" % (o["target"], coq_bool(o["commit"]), coq_bool(o["stranger"]))
    return "ONop"


def out_term(op, r):
    if r["class"] == "skipped":
        return "OSkipped"
    if op["k"] == "check":
        return "OChk %s" % coq_list(["%d%%nat" % c for c in r.get("closed") or []])
    if op["k"] == "p2":
        return "OP2 %s" % coq_bool(bool(r.get("good")))
    return "OOk" if r["class"] == "ok" else ("OErrBad" if r.get("bad") else "OErr")


def case_term(res):
    sc = res["scenario"]
    det = tuple(int(x) for x in sc["version"].split(".")[:3]) >= (8, 0, 29)
    return ("{| c_detach := %s; c_xids := %s; c_bids := %s; c_refuse := %s; c_faults := %s; c_fbad := %s; c_frb := %s;\n   c_prog := %s;\n"
            "   c_jour := %s;\n   c_out := %s |}") % (
        coq_bool(det), coq_list([coq_hex(h) for h in sc["xids_hex"]]),
        coq_list(["%d" % u64(b) for b in sc["branches"] or []]),
        coq_list([coq_bool(m != 0) for m in sc["refuse"] or []]),
        coq_list(["(%s, %d%%nat)" % (CMD[f["kind"]], f["nth"]) for f in sc["faults"] or []]),
        coq_list(["(%s, %d%%nat)" % (CMD[f["kind"]], f["nth"]) for f in sc["faults"] or [] if f.get("err") == "badconn"]),
        coq_list(["%d%%nat" % f["nth"] for f in sc["faults"] or [] if f.get("err") == "rbonly" and f["kind"] == "END"]),
        coq_list([op_term(o) for o in sc["ops"]]),
        coq_list([ev_term(e) for e in res["events"] or []]),
        coq_list([out_term(o, r) for o, r in zip(sc["ops"], res["ops"])]))


def icase_term(c):
    return "{| i_xid := %s; i_b := %s; i_str := %s; i_gtrid := %s; i_bqual := %s; i_dec_xid := %s; i_dec_b := %d |}" % (
        coq_hex(c["xid"]), c["branch_s"], coq_hex(c["str"]), coq_hex(c["gtrid"]), coq_hex(c["bqual"]),
        coq_hex(c["dec_xid"]), c["dec_b"])


def slim(res):
    return {"scenario": res["scenario"], "events": [{k: v for k, v in e.items() if k not in ("id", "xid")} for e in res["events"] or []],
            "ops": res["ops"], "oracle": res["oracle"]}


def norm_msg(m):
    """an oracle message with the concrete identifiers / op numbers erased (the KIND of failure)"""
    import re
    return re.sub(r"\bop \d+", "op N", re.sub(r"'[^']*'", "'_'", m))


def fingerprint(r):
    """what a committed finding replay is expected to do, exactly: oracle messages, journal, outcomes"""
    return {"oracle": sorted(norm_msg(m) for m in r["oracle"] or []),
            "journal": [[e["k"], e.get("conn", 0), e.get("cmd", ""), e.get("idh", ""), e.get("xidh", ""), e.get("res", ""),
                         e.get("branch", 0)] for e in r["events"] or []],
            "ops": [[o["class"], bool(o.get("bad")), bool(o.get("good"))] for o in r["ops"]]}


def shape(fp):
    """a fingerprint without the concrete identifiers: what a generated variant of a finding's replay must reproduce"""
    return {"oracle": fp["oracle"], "journal": [[e[0], e[1], e[2], e[5]] for e in fp["journal"]], "ops": fp["ops"]}


def replay_scenarios(chk, scs):
    p = chk.tmp("replay_in.json")
    json.dump(scs, open(p, "w"))
    data, _ = vlib.run_harness("xarun", chk.tmp("replay_out.json"), seed=chk.seed, replay=p, repo=vlib.REPO)
    return data["results"]


def sizes(tier):
    return (600, 200, 600) if tier == "quick" else (20000, 6000, 30000)


def run(chk, only=None):
    n, m, ni = sizes(chk.tier)
    pr = vlib.proof_step(chk, PROP_FILE, REQ)
    ok_cases, out_cases = vlib.coq_make(["Xa/XaCases.vo"])
    if not ok_cases:
        raise vlib.Broken("Xa/XaCases.v does not compile:\n" + out_cases[-1500:])
    if only is None:
        data, secs = vlib.run_harness("xarun", chk.tmp("xarun.json"), timeout=1500, seed=chk.seed, n=n, m=m, ident=ni, repo=vlib.REPO)
        results, ident = data["results"], data["ident"] or []
    else:
        results, ident, secs = replay_scenarios(chk, only), [], 0.0
    findings = vlib.known_findings("C17")
    preds = {f["pred"] for f in findings}
    # a scenario carrying the input feature of a listed finding (tags are computed by the harness from
    # the deterministic run: reuse after a SUCCESSFUL branch, ...) belongs to the finding stream
    def listed(r):
        return r["scenario"]["stream"].startswith("finding:") or any(t in preds for t in (r.get("tags") or []))
    clean = [r for r in results if not listed(r)]          # the direct oracle must hold
    fstream = [r for r in results if listed(r)]
    clean_all = [r for r in results if not r["scenario"]["stream"].startswith("finding:")]   # compared with the model
    # ---- direct oracle on the clean streams
    seen = set()
    for r in clean:
        if r["oracle"]:
            key = r["oracle"][0].split("'")[0][:60]
            if key in seen:
                continue
            seen.add(key)
            chk.violation("C17 fails on the real code: " + "; ".join(r["oracle"][:3]), slim(r), True)
    # ---- correspondence with the model (journals, outcomes) inside Coq
    # (the model follows the code inside the regions of the listed findings too: tagged scenarios are compared as well;
    #  code 4 = accepted_legal on the observed journal is part of the oracle and excused there)
    mism = vlib.eval_mismatches("C17", HEADER, [case_term(r) for r in clean_all], case_type="xcase", shard=120) if clean_all else {}
    for i in list(mism):
        if listed(clean_all[i]):
            mism[i] = [e for e in mism[i] if e != 4]
            if not mism[i]:
                del mism[i]
    imism = vlib.eval_mismatches("C17i", HEADER, [icase_term(c) for c in ident], fn="ident_mismatches", case_type="icase",
                                 shard=400) if ident else {}
    for i, c in enumerate(ident):
        if c["oracle"]:
            chk.violation("identifier: " + c["oracle"], {"ident_case": c}, True)
            break
    if not chk.violations:
        for i in sorted(mism, key=lambda i: len(clean_all[i]["events"] or [])):
            chk.violation("correspondence between the XA model and the code broke (%s); the property is not shown on this tree"
                          % "; ".join(ERR[e] for e in mism[i]),
                          dict(slim(clean_all[i]), model_disagreements=[ERR[e] for e in mism[i]], correspondence="Xa/XaCases.v check_case"),
                          False)
            break
        for i in sorted(imism):
            chk.violation("identifier functions differ from the model (%s)" % "; ".join(ERR[e] for e in imism[i]),
                          {"ident_case": ident[i], "model_disagreements": [ERR[e] for e in imism[i]]}, False)
            break
    if not pr["ok"] and not chk.violations:
        chk.violation("a proof obligation of C17 no longer checks", {"theorem": PROP_FILE, "coq_output": pr["out"][-1500:]}, False)
    # ---- finding stream: committed replays must still fail; generated variants outside listed predicates are violations
    if only is None:
        allowed, shapes = {}, {}
        for f in findings:
            p = os.path.join(vlib.VERIF, f["replay"])
            rj = json.load(open(p))
            rr = replay_scenarios(chk, rj["scenarios"])
            exp = rj.get("expected") or []
            allowed[f["pred"]] = {m for e in exp for m in e["oracle"]}
            shapes[f["pred"]] = [shape(e) for e in exp]
            got = [fingerprint(r) for r in rr]
            if not any(r["oracle"] for r in rr):
                print("STALE-FINDING: property=C17 %s no longer reproduces" % f["id"])
                chk.notes.append("stale finding " + f["id"])
            elif got != exp:
                # the region of a finding excuses its RECORDED failure only
                k = next((i for i in range(len(rr)) if i >= len(exp) or got[i] != exp[i]), 0)
                chk.violation("the replay of finding %s no longer does what was recorded (a different failure inside its region): %s"
                              % (f["id"], "; ".join(rr[k]["oracle"] or ["journal/outcomes differ"])[:300]),
                              dict(slim(rr[k]), expected=exp[k] if k < len(exp) else None, finding=f["id"]), True)
            else:
                chk.known("%s :: %s" % (f["id"], f["what"]))
        # scenarios inside a listed region (tags): only the recorded KINDS of failure are excused
        for r in clean_all:
            tg = [t for t in (r.get("tags") or []) if t in preds]
            if not tg or not r["oracle"]:
                continue
            ok_kinds = set().union(*[allowed.get(t, set()) for t in tg])
            extra = [m for m in r["oracle"] if norm_msg(m) not in ok_kinds]
            if extra:
                chk.violation("C17 fails on the real code in a way no listed finding records (region %s): %s"
                              % (",".join(tg), "; ".join(extra[:3])), slim(r), True)
                break
        for r in fstream:
            if not r["scenario"]["stream"].startswith("finding:"):
                continue
            pred = r["scenario"]["stream"].split(":", 1)[1]
            if pred in preds and shape(fingerprint(r)) not in shapes.get(pred, []):
                # a generated variant of a finding's history must do exactly what its replay is recorded to do
                chk.violation("a variant of finding %s does not reproduce the recorded outcome: %s"
                              % (pred, "; ".join(r["oracle"] or ["no oracle failure; journal/outcomes differ"])[:300]), slim(r), True)
            if r["oracle"] and pred not in preds:
                chk.violation("C17 fails on the real code (%s): %s" % (pred, "; ".join(r["oracle"][:2])), slim(r), True)
    nontriv = [r for r in clean if any(e["k"] == "sql" and e["cmd"] == "START" for e in r["events"] or [])]
    dist = {}
    for r in clean:
        for f in r["scenario"]["faults"] or []:
            dist["fault." + f["kind"]] = dist.get("fault." + f["kind"], 0) + 1
        for o in r["scenario"]["ops"]:
            k = o["k"] + (".stranger" if o["k"] == "p2" and o["stranger"] else "")
            dist["op." + k] = dist.get("op." + k, 0) + 1
        dist["version." + r["scenario"]["version"]] = dist.get("version." + r["scenario"]["version"], 0) + 1
        dist["refused"] = dist.get("refused", 0) + sum(1 for x in r["scenario"]["refuse"] or [] if x)
    chk.coverage.update({
        "trusted_base": TRUSTED,
        "evaluations": len(clean) + len(ident),
        "distinct_nontrivial": vlib.distinct([(r["scenario"]["ops"], r["scenario"]["faults"], r["scenario"]["refuse"],
                                              r["scenario"]["version"], [(e.get("cmd"), e.get("res")) for e in r["events"] or []])
                                             for r in nontriv]),
        "rule": "72 enumerated single-branch scenarios (every single fault position START/STMT/END/PREPARE/COMMIT/ROLLBACK, both refusal "
                "kinds, commit/rollback, holder/stranger, server 5.7.30 and 8.0.30) + 54 enumerated pool-retirement / ErrBadConn / db.ExecContext-retry "
                "histories + 150 enumerated reuse/timeout histories + 4 long-xid (IPv6) multi-branch histories + 56 two-phase-timeout-checker histories + 33 non-holder-phase-two / rollback-only-END histories (failed first "
                "branch of every kind x second branch on the same pooled connection x phase-two order; timeouts) + %d seeded programs "
                "(1-4 branches on fresh or pool-reused connections or through db.ExecContext with its retry, pool retirements, slow statements, fault error "
                "kinds generic/ErrBadConn/context, interleaved phase two incl. rollback for failed-START "
                "branches, 0-3 faults, refusals, three server versions) + %d malformed-stream programs "
                "(hostile xids, xids up to 200 bytes (IPv6-style coordinator addresses), zero/negative branch ids, up to 6 faults, dangling/duplicate phase two) through the real XA proxy; "
                "%d identifier cases through XaIdBuild/XaIdBuildWithByte; non-trivial = at least one XA START reached the server; "
                "distinct by (program, faults, refusals, version, command/result sequence)" % (n, m, len(ident)),
        "traces_validated_against_impl": len(clean_all) - len(mism),
        "ident_cases_validated": len(ident) - len(imism),
        "oracle_failures_clean_stream": sum(1 for r in clean if r["oracle"]),
        "finding_stream_cases": len(fstream),
        "input_distribution": dist,
        "harness_seconds": round(secs, 2),
        "samples": [slim(r) for r in nontriv[50:52]],
    })
    chk.assumptions += [
        "an injected failure leaves the server state unchanged (driver.ErrBadConn = 'not executed, safe to retry': the session itself stays up)",
        "the coordinator assigns distinct branch ids (hypothesis uniq_bid of the theorems; the generator respects it)",
        "XA END(success) and the XA END(fail) that follows are not both made to fail (hypothesis of C17_legal and C17_failure; "
        "C17_accepted_legal has no such hypothesis)",
        "XA ROLLBACK of a never-started / already rolled-back branch answered XAER_NOTA is read as a no-op",
        "the branch-status cache is not exercised; branch timeout and two-phase timeout checker are driven through verif hooks (1 ns / 1 h; single checker passes between ops, never concurrent with a statement)",
    ]
    return chk.finish()


def replay(chk, path):
    r = json.load(open(path))
    if "scenario" in r:
        return run(chk, only=[r["scenario"]])
    if "scenarios" in r:
        return run(chk, only=r["scenarios"])
    print("replay names a proof obligation or an identifier case, not a scenario: " + json.dumps(r)[:300])
    return run(chk)
