"""C16 — the proxy driver is transparent apart from its transactional duties."""
import json, os
import vlib
from vlib import coq_list, coq_bool

MANIFEST = {
    "text": "Coq theorems over an executable model of the proxy's routing (conn.go / conn_at.go / conn_xa.go / stmt.go / "
            "exec/at/at_executor.go; the routing table, the pass-through calls and the IsGlobalTx guards are regenerated from the "
            "source by a go/ast translator on every run): C16_table (the source has the modelled shape), C16_outside (for ALL "
            "programs without a global transaction, through either proxy, the journal language is exactly the bare driver's), "
            "C16_outside_quiet (no coordinator / image / undo traffic there), C16_extra + C16_extra_kinds (for ALL programs the AT "
            "model accepts, erasing image queries, savepoints, the undo-log insert, coordinator messages and the local bracket "
            "leaves a bare-driver journal, and nothing else is erased), C16_inside (over ANY backend that cannot tell the extras, "
            "business replies and final data are equal). Tie: every generated program runs through the REAL AT proxy, the XA proxy "
            "and the bare driver over identical in-memory MySQL stand-ins; tokenised journals are checked against the model inside "
            "Coq (vm_compute) and the property's own statement (strict journal equality outside, results, generated ids, error "
            "classes, final data) is evaluated on the real runs (direct oracle).",
    "note": "Trusted: Coq kernel + vm_compute, no axioms; harness/fakedb (MySQL stand-in), tcstub, atrun, proxyrun tokeniser; "
            "inside a global transaction the clean stream is the statement class of docs/C16.md; XA inside a global transaction is C17's.",
    "technique": "Coq proof (induction over programs, pattern inversion) over a translator-regenerated table + differential "
                 "correspondence of journals (vm_compute) + direct oracle",
}
PROP_FILE = "Props/P_C16.v"
REQ = "From SeataV Require Import Props.P_C16."
TABLES = [("atdispatch", "AtDispatch.v")]
TRUSTED = vlib.TRUSTED_COMMON + [
    "harness/fakedb: in-memory MySQL stand-in (docs/ATRUN.md); harness/tcstub: call-level coordinator; harness/atrun: scenario runner",
    "harness/proxyrun: program generators, journal tokeniser (business statement = verbatim text, image = other SELECT on the "
    "business connection, connections that only ran INFORMATION_SCHEMA queries are left out), direct oracle",
    "tools/xlate/atdispatch.go: reading of at_executor.go / plain_executor.go / conn*.go / stmt.go",
    "lib/checks/c16.py case printer",
]
HEADER = """From Coq Require Import String List NArith Bool.
From SeataV Require Import Gen.AtDispatch Proxy.ProxyModel Proxy.ProxyCases.
Import ListNotations. Open Scope N_scope. Open Scope string_scope.
Set Printing Depth 1000000.
"""
ERR = {1: "the AT proxy's journal is not one the routing model allows",
       2: "the bare driver's journal is outside the model's language of database/sql over the driver",
       3: "the XA proxy's journal outside a global transaction is not the bare language",
       4: "the AT journal minus the allowed extras differs from the bare journal",
       5: "caller-visible results differ between the proxy and the bare driver",
       6: "the routing table regenerated from the source does not have the modelled shape (cfg_ok)"}
TAG = {"BEGIN": 1, "COMMIT": 2, "ROLLBACK": 3, "ISO": 4, "BIZ:EXEC": 10, "BIZ:QUERY": 11, "BIZ:PREPARE": 12, "BIZ:STMT_EXEC": 13,
       "BIZ:STMT_QUERY": 14, "IMG": 20, "SP": 21, "UNDOP": 22, "UNDO": 23, "AUX": 24, "TC:BranchRegister": 30, "TC:BranchReport": 31,
       "TC:GlobalLockQuery": 32}
CONN = {"": 0, "c1": 1, "c2": 2}


def ev_term(t):
    tag = TAG.get(t["t"], 39 if t["t"].startswith("TC:") else 99)
    return "(%d, %s, %s)" % (tag, coq_bool(t["ok"]), coq_bool(t["nz"]))


def evs(step):
    return coq_list([ev_term(t) for t in (step or {}).get("toks") or []])


def interpolates(params):
    return (not params) or ("interpolateParams=true" in params)


def op_term(o, ok, params=""):
    if o["k"] == "stmt":
        k = 'OStmt "%s" %s' % (o.get("sql_type", "unparsed"), coq_bool(bool(o.get("query"))))
    else:
        k = {"begin": "OBegin", "commit": "OCommit", "rollback": "ORollback"}[o["k"]]
    vp = o["k"] == "stmt" and bool(o.get("args")) and not interpolates(params) and not o.get("prepared")
    return "{| o_k := %s; o_conn := %d; o_gtx := %s; o_ok := %s; o_prep := %s; o_vp := %s |}" % (
        k, CONN.get(o.get("conn", ""), 9), coq_bool(o["gtx"]), coq_bool(ok), coq_bool(o["k"] == "stmt" and bool(o.get("prepared"))), coq_bool(vp))


RES = ("class", "err_class", "affected", "last_id", "columns", "col_types", "rows")


def same(a, b):
    return all(a.get(k) == b.get(k) for k in RES)


def is_clean(c):
    # every stream is compared in full: operations inside a listed finding's predicate carry the outcome the
    # finding describes (proxyrun checks it and keeps comparing everything else)
    return True


def case_term(c):
    steps = []
    xa = c.get("xa")
    n = len(c["ops"])
    full = all(m is None or len(m["steps"]) == n for m in (c["bare"], c["at"], xa))
    params = c["program"].get("params", "")
    for i, o in enumerate(c["ops"] if full else []):
        if o.get("expect"):
            continue   # inside a listed finding's predicate: the oracle checks the described outcome; the model is silent
        b, a = c["bare"]["steps"][i], c["at"]["steps"][i]
        x = xa["steps"][i] if xa else None
        sm = same(a, b) and (x is None or same(x, b))
        steps.append("{| ps_op := %s; ps_at := %s; ps_bare := %s; ps_xa := %s; ps_same := %s |}" % (
            op_term(o, b["class"] == "ok", params), evs(a), evs(b), evs(x), coq_bool(sm)))
    if not full:   # a run stopped early: an impossible step makes every comparison fail
        steps = ['{| ps_op := {| o_k := OBegin; o_conn := 0; o_gtx := false; o_ok := true; o_prep := false; o_vp := false |}; ps_at := []; ps_bare := []; '
                 'ps_xa := []; ps_same := false |}']
    return "{| pc_xa := %s; pc_clean := %s; pc_steps := %s |}" % (coq_bool(xa is not None), coq_bool(is_clean(c)), coq_list(steps))


def slim(c):
    def m(x):
        if x is None:
            return None
        return {"steps": [{k: s.get(k) for k in ("class", "err_class", "affected", "last_id", "rows", "err_text")} |
                          {"toks": " ".join(t["t"] + ("" if t["ok"] else "!") for t in s.get("toks") or [])} for s in x["steps"]],
                "setup_err": x.get("setup_err", "")}
    return {"programs": [c["program"]], "oracle": c["oracle"][:6], "bare": m(c["bare"]), "at": m(c["at"]), "xa": m(c.get("xa"))}


def run_programs(chk, programs):
    p = chk.tmp("replay_in.json")
    json.dump(programs, open(p, "w"))
    data, secs = vlib.run_harness("proxyrun", chk.tmp("replay_out.json"), seed=chk.seed, replay=p)
    return data["cases"], secs


def sizes(tier):
    return (100, 180, 30, 30, 4) if tier == "quick" else (6000, 9000, 2000, 2000, 100)


def run(chk, only=None):
    nout, nin, nmal, nxa, nfind = sizes(chk.tier)
    vlib.run_xlate("atdispatch", "AtDispatch.v")
    pr = vlib.proof_step(chk, PROP_FILE, REQ)
    ok_cases, out_cases = vlib.coq_make(["Proxy/ProxyCases.vo"])
    if only is None:
        data, secs = vlib.run_harness("proxyrun", chk.tmp("proxyrun.json"), timeout=1500, seed=chk.seed,
                                      nout=nout, nin=nin, nmal=nmal, nxa=nxa, nfind=nfind)
        cases = data["cases"]
    else:
        cases, secs = run_programs(chk, only)
    findings = vlib.known_findings("C16")
    preds = {f["pred"] for f in findings}
    clean = [c for c in cases if is_clean(c)]
    # ---- direct oracle on the clean streams (the property's own statement on the real runs)
    seen = set()
    for c in clean:
        if c["oracle"]:
            key = c["oracle"][0].split("[")[0][:40] + c["oracle"][0].rsplit("]", 1)[-1][:60]
            if key in seen or len(seen) >= 3:
                continue
            seen.add(key)
            chk.violation("C16 fails on the real code: " + c["oracle"][0][:400], slim(c), True)
    # ---- correspondence with the routing model inside Coq
    mism = {}
    if ok_cases and cases:
        mism = vlib.eval_mismatches("C16", HEADER, [case_term(c) for c in cases], case_type="pcase", shard=100)
    if not chk.violations:
        for i in sorted(mism, key=lambda i: (6 not in mism[i], len(cases[i]["ops"]))):
            chk.violation("correspondence between the routing model and the code broke (%s); the property is not shown on this tree"
                          % "; ".join(ERR[e] for e in mism[i]),
                          dict(slim(cases[i]), model_disagreements=[ERR[e] for e in mism[i]], correspondence="Proxy/ProxyCases.v check_case"),
                          False)
            break
    if (not pr["ok"] or not ok_cases) and not chk.violations:
        diag = open(os.path.join(vlib.COQ, "Gen", "AtDispatch.v")).read()[-2500:]
        chk.violation("a proof obligation of C16 no longer checks on the regenerated routing table (cfg_ok gen_cfg / C16_outside / C16_extra)",
                      {"theorem": PROP_FILE, "coq_output": (pr["out"] if not pr["ok"] else out_cases)[-1500:], "regenerated_table": diag}, False)
    # ---- findings: an operation inside a listed predicate must show the DESCRIBED outcome (checked by the oracle
    # above: anything else in the region is a violation); the committed replays must still show it
    observed = {}
    for c in cases:
        for pred in c.get("known") or []:
            observed[pred] = observed.get(pred, 0) + 1
    if only is None:
        for f in findings:
            rr, _ = run_programs(chk, json.load(open(os.path.join(vlib.VERIF, f["replay"])))["programs"])
            bad = [r for r in rr if r["oracle"]]
            if bad and not chk.violations:
                chk.violation("the committed replay of finding %s no longer shows the described outcome: %s" % (f.get("id"), bad[0]["oracle"][0][:300]),
                              slim(bad[0]), True)
            elif any(f["pred"] in (r.get("known") or []) for r in rr):
                observed[f["pred"]] = observed.get(f["pred"], 0) + 1
            else:
                print("STALE-FINDING: property=C16 id=%s no longer reproduces" % f.get("id"))
                chk.notes.append("stale finding " + str(f.get("id")))
    for pred, n in sorted(observed.items()):
        f = [x for x in findings if x["pred"] == pred]
        if f:
            chk.known("id=%s pred=%s (%d programs, described outcome observed) :: %s" % (f[0].get("id"), pred, n, f[0]["what"]))
        elif not chk.violations:
            c = [c for c in cases if pred in (c.get("known") or [])][0]
            chk.violation("operations fail inside the predicate %s, which is not a listed finding" % pred, slim(c), True)
    # ---- fakedb <-> Coq statement semantics (coq/At/Stmt.v): the stand-in database all AT checks run on is
    # cross-checked against an independent Gallina semantics of the same SQL subset on every run (docs/STMT.md)
    xc = None
    if only is None:
        import fakedb_xcheck
        xp = fakedb_xcheck.proof_stage(chk)
        xc = fakedb_xcheck.run_stage(chk, 300 if chk.tier == "quick" else 6000)
        if not xp.get("ok") and not chk.violations:
            chk.violation("the theorems of the Coq statement semantics (coq/At/StmtProofs.v) no longer check",
                          {"theorem": "coq/At/StmtProofs.v", "coq_output": str(xp.get("out"))[-1500:]}, False)
        if xc["mismatches"] and not chk.violations:
            m = xc["mismatches"][0]
            chk.violation("fakedb and the Coq statement semantics disagree (%s): the database stand-in behind the AT checks is not validated on this run"
                          % ", ".join(map(str, m.get("kinds", []))),
                          {"correspondence": "coq/At/StmtCases.v", "disagreement": {k: m.get(k) for k in ("seed", "case", "step", "kinds", "ddl", "sql", "args", "fakedb_answer")}}, False)
        xt = fakedb_xcheck.tx_stage(chk, 300 if chk.tier == "quick" else 6000)
        if xt["mismatches"] and not chk.violations:
            m = xt["mismatches"][0]
            chk.violation("fakedb's transaction/lock layer and the Coq model coq/At/Tx.v disagree (%s): the database stand-in behind the AT checks is not validated on this run"
                          % ", ".join(map(str, m.get("kinds", []))),
                          {"correspondence": "coq/At/TxCases.v", "disagreement": {k: m.get(k) for k in ("seed", "case", "step", "kinds", "sql", "fakedb_answer", "fakedb_locks")}}, False)
        chk.coverage["fakedb_tx_layer_vs_coq"] = {k: xt.get(k) for k in ("cases", "statements", "programs", "skipped")}
        chk.coverage["fakedb_tx_layer_vs_coq"]["mismatches"] = len(xt["mismatches"])
        chk.coverage["fakedb_vs_coq_semantics"] = {k: xc.get(k) for k in ("cases", "statements", "programs", "skipped", "skipped_model")}
        chk.coverage["fakedb_vs_coq_semantics"]["mismatches"] = len(xc["mismatches"])
        chk.coverage["fakedb_vs_coq_semantics"]["theorems"] = len(xp.get("thms") or [])
    nontriv = [c for c in clean if any(o["gtx"] for o in c["ops"]) or len(c["ops"]) >= 3]
    dist = {}
    for c in cases:
        for f in c["feat"]:
            dist[f] = dist.get(f, 0) + 1
        dist["stream." + c["program"]["stream"]] = dist.get("stream." + c["program"]["stream"], 0) + 1
    nops = sum(len(c["ops"]) for c in clean)
    chk.coverage.update({
        "trusted_base": TRUSTED,
        "evaluations": len(cases),
        "distinct_nontrivial": vlib.distinct([([(o["k"], o.get("sql"), o.get("conn"), o["gtx"], o.get("prepared"), o.get("args")) for o in c["ops"]],
                                               c["program"].get("params")) for c in nontriv]),
        "rule": "%d programs without a global transaction (4-14 operations: autocommit on the pool and on two pinned connections, "
                "explicit transactions with commit/rollback and savepoints, prepared and direct statements, literal and bound arguments "
                "of every driver type, DML/DDL/multi-statement/upsert/REPLACE/XA RECOVER/SHOW, statements the SQL parser rejects, "
                "failing statements, five DSN parameter sets) through the AT proxy, the XA proxy and the bare driver; %d programs mixing "
                "such segments with 1-3 committed global transactions (autocommit statements on the pool, explicit transactions on a pinned "
                "connection; SELECT, SELECT FOR UPDATE, single-row INSERT, UPDATE/DELETE with numeric or bound predicates, DDL) through the "
                "AT proxy and the bare driver; %d malformed-stream programs (syntax errors, argument-count mismatches, hostile strings, "
                "uint64 beyond int64, unmatched commits); %d programs per listed finding predicate; non-trivial = has a global "
                "transaction or at least 3 operations; distinct by (operations with text and arguments, DSN parameters)"
                % (nout, nin, nmal, nfind),
        "traces_validated_against_impl": len(cases) - len(mism),
        "operations_compared": nops,
        "oracle_failures_clean_stream": sum(1 for c in clean if c["oracle"]),
        "finding_region_programs": sum(observed.values()),
        "input_distribution": dist,
        "harness_seconds": round(secs, 2),
        "samples": [slim(c) for c in nontriv[7:9]],
    })
    chk.assumptions += [
        "fakedb stands in for MySQL (contract in docs/ATRUN.md); its single-table DML/SELECT semantics is cross-checked on every run "
        "against the Gallina semantics coq/At/Stmt.v (docs/STMT.md lists what stays trusted: secondary unique indexes, float/decimal/"
        "temporal/binary columns, functions, transactions/locks/XA); its clock is read once more per undo-log insert, so programs with a "
        "global transaction do not use now()",
        "inside a global transaction the coordinator grants every request and no database fault is injected (refusals and faults are C02/C03)",
        "the backend hypotheses of C16_inside (an image SELECT / savepoint / undo-log insert / local bracket leaves the business data "
        "unchanged; business statements do not read undo_log) are properties of the database, instantiated by a toy store in Coq and "
        "checked on fakedb only through the differential runs",
        "connections that only ever ran the table-metadata queries (private pool, also refreshed by a background goroutine) are left out of the comparison",
    ]
    return chk.finish()


def replay(chk, path):
    r = json.load(open(path))
    if "programs" in r:
        return run(chk, only=r["programs"])
    print("replay names a proof obligation, not a program: " + json.dumps(r)[:300])
    return run(chk)
