"""C15 — every coordinator phase-two request gets one correctly addressed, truthful reply."""
import json, os, re
import vlib
from vlib import coq_str

MANIFEST = {
    "text": "Coq theorems (C15_route, C15_echo, C15_no_false_success, C15_respond_only_truthful, C15_independent, C15_reply_ignores_pending_table over all requests, "
            "manager outcomes, manager sets, stream permutations and interleavings) about a model that INTERPRETS the dispatch table "
            "regenerated from the source by `xlate dispatch` (type code -> processor; for the phase-two processors the asserted "
            "request, the manager-selecting expression, method and arguments, what a manager error does (silence always / only without a status) and the result codes, the echoed response fields and "
            "the id the response is sent under; manager -> branch type), with the obligation C15_source_dispatch_good; tied to the real "
            "listener/processors/rm cache by delivering generated mixed streams concurrently through OnMessage with scripted managers "
            "registered in the real cache, capturing response frames at a fake session and comparing per request with the model "
            "evaluated inside Coq, plus the property's own statement evaluated on the run.",
    "note": "Trusted: Coq kernel + vm_compute, no axioms; tools/xlate dispatch (statement patterns; anything unrecognised fails the "
            "obligation); harness remrun15. A request for a branch type without manager panics inside getty's task goroutine "
            "(modelled as Panic, no reply); a manager error yields one response with the manager's status and result code Failed, silence for status Unknown; listed finding: a manager returning an error together with a success status gets it reported.",
    "technique": "Coq proof over a translator-regenerated dispatch table + differential correspondence (vm_compute) + direct oracle",
}
TABLES = [("dispatch", "DispatchTable.v")]
PROP_FILE = "Props/P_C15.v"
TRUSTED = vlib.TRUSTED_COMMON + [
    "tools/xlate dispatch (go/ast + printed-statement patterns over processor/client, listener.go, rm_cache.go, the managers' GetBranchType)",
    "Go harness remrun15 (scripted rm.ResourceManager implementations in the real cache, fake getty.Session) and this driver's case printer",
]
HEADER = """From Coq Require Import String List NArith ZArith Bool.
From SeataV Require Import Remoting.ProcessorModel Remoting.ProcessorCases.
Import ListNotations.
Open Scope string_scope.
"""


def z(n):
    return "(%d)%%Z" % n


def request_cases(cs, limit=None):
    """one model case per request of the stream (the first `limit` ones): Coq terms"""
    names = {}

    def nm(s):
        return "%d%%N" % names.setdefault(s, len(names))

    mg = "[" + "; ".join("%d%%N" % m for m in cs["mgrs"]) + "]"
    cons, resps = {}, {}
    for c in cs["consults"] or []:
        cons.setdefault((c["xid"], c["branch"]), []).append(c)
    for p in cs["resps"] or []:
        resps.setdefault((p["xid"], p["branch"]), []).append(p)
    out = []
    for q in cs["reqs"][:limit]:
        obs = []
        for c in cons.get((q["xid"], q["branch"]), []):
            obs.append("Consult %d%%N %s (VN %s) (VZ %s) (VN %s) (VN %s)" % (
                c["mgr"], coq_str(c["method"]), nm("x:" + c["xid"]), z(c["branch"]), nm("r:" + c["resource"]), nm("d:" + c["data"])))
        for p in resps.get((q["xid"], q["branch"]), []):
            obs.append("Respond %s (VZ %s) (VN %s) (VZ %s) (VN %d%%N) %d%%N" % (
                coq_str(p["type"]), z(p["msg_id"]), nm("x:" + p["xid"]), z(p["branch"]), p["status"] & 0xff, p["rc"]))
        if q.get("panicked"):
            obs.append("Panic")
        oc = "OPanic" if q["panic_in_manager"] else "(ORet %d%%N %s)" % (q["expect"], "true" if q["fail"] else "false")
        term = "mkP %s (mkReq %d%%N %s %s %s %d%%N %s %s) %s [%s]" % (
            mg, q["code"], z(q["msg_id"]), nm("x:" + q["xid"]), z(q["branch"]), q["btype"], nm("r:" + q["resource"]),
            nm("d:" + q["data"]), oc, "; ".join(obs))
        out.append(term)
    return out


def write_conf(chk):
    src = open(os.path.join(vlib.REPO, "testdata", "conf", "seatago.yml")).read()
    src = src.replace("default: 127.0.0.1:8091", "default: 127.0.0.1:1")
    p = chk.tmp("seatago.yml")
    open(p, "w").write(src)
    return p


def run(chk):
    quick = chk.tier == "quick"
    vlib.run_xlate("dispatch", "DispatchTable.v")
    vlib.run_xlate("futures", "FuturesCfg.v")  # C15_reply_ignores_pending_table is stated at the regenerated futures configuration
    okc, outc = vlib.coq_make(["Remoting/ProcessorCases.vo"])
    if not okc:
        raise vlib.TieBroken("the regenerated dispatch table does not type-check in Coq:\n" + outc[-1500:])
    pr = vlib.proof_step(chk, PROP_FILE, "From SeataV Require Import Props.P_C15.")
    conf = write_conf(chk)
    import subprocess
    try:
        data, secs = vlib.run_harness("remrun15", chk.tmp("p2.json"), timeout=900 if quick else 2400, conf=conf, seed=chk.seed,
                                      n=60 if quick else 5000, max=40 if quick else 120,
                                      hammers=2 if quick else 10, wires=8 if quick else 300, inwires=4 if quick else 200, hammer=6000 if quick else 20000,
                                      nfail=48 if quick else 200, lookups=200000 if quick else 3000000)
    except subprocess.TimeoutExpired:
        chk.coverage.update({"evaluations": 1, "distinct_nontrivial": 2, "trusted_base": TRUSTED})
        chk.violation("the harness did not finish within its wall-clock bound although every wait in it is bounded: "
                      "request processing blocks", {"seed": chk.seed, "tier": chk.tier}, False)
        return chk.finish()
    streams = data["cases"]
    terms, owner = [], []
    for si, cs in enumerate(streams):
        lim = 500 if (quick and cs["kind"] == "hammer") else None
        for qi, t in enumerate(request_cases(cs, lim)):
            terms.append(t)
            owner.append((si, qi))
    mism = vlib.eval_mismatches("C15", HEADER, terms, case_type="pcase", shard=300 if quick else 1500)

    def slim(cs):
        if len(cs["reqs"]) <= 300:
            return cs
        keys = {(m.group(1), int(m.group(2))) for o in (cs["oracle"] or [])[:40]
                for m in re.finditer(r", (\S+)/(-?\d+), branch type", o)}
        keep = lambda x: (x["xid"], x["branch"]) in keys
        return dict(cs, oracle=(cs["oracle"] or [])[:40], reqs=[q for q in cs["reqs"] if keep(q)][:80],
                    consults=[c for c in (cs["consults"] or []) if keep(c)][:80], resps=[p for p in (cs["resps"] or []) if keep(p)][:80],
                    note="stream of %d requests (kind %s) cut down to the requests the oracle names; regenerate with the seed" % (len(cs["reqs"]), cs["kind"]))

    bad_streams = sorted([i for i, cs in enumerate(streams) if cs["oracle"]], key=lambda i: len(streams[i]["reqs"]))
    for i in bad_streams[:3]:
        cs = streams[i]
        pend = (" while the client's own requests with ids %s await their answers" % cs["pending_ids"]) if cs.get("pending_ids") else ""
        chk.violation("%s stream of %d requests%s: %s" % (cs["kind"], len(cs["reqs"]), pend, cs["oracle"][0]),
                      {"stream": slim(cs), "seed": chk.seed, "tier": chk.tier}, True)
    if data.get("lookup_wrong"):
        chk.violation("routing step under concurrent requests of different branch types: " + data["lookup_wrong"][0],
                      {"lookups": data["lookups"], "wrong": data["lookup_wrong"], "workers": 8, "seed": chk.seed, "tier": chk.tier,
                       "how": "8 goroutines call rm.GetRmCacheInstance().GetResourceManager(bt) for alternating AT/TCC/XA, as concurrent "
                              "phase-two requests of different branch types do"}, True)
    # listed finding: a manager returning an error together with a success status
    known = {k["id"]: k for k in vlib.known_findings("C15")}
    for cs in streams:
        if cs["kind"] == "known" and cs["known"]:
            if "error-with-success-status" in known:
                chk.known("id=error-with-success-status pred=mgr.error-with-success-status :: " + known["error-with-success-status"]["what"])
            else:
                chk.violation("known stream: " + cs["known"][0], {"stream": cs, "seed": chk.seed, "tier": chk.tier}, True)
    corr = [k for k in mism if not streams[owner[k][0]]["oracle"]]
    if corr and not chk.violations:
        si, qi = owner[sorted(corr)[0]]
        cs = streams[si]
        q = cs["reqs"][qi]
        chk.violation("the real processors and the model (at the regenerated dispatch table) disagree on request %s; "
                      "the property's own statement did not fail on this stream" % json.dumps(q),
                      {"request": q, "stream": slim(cs), "seed": chk.seed, "tier": chk.tier,
                       "correspondence": "Remoting/ProcessorCases.v check_case"}, False)
    if not pr["ok"] and not chk.violations:
        tbl = open(os.path.join(vlib.COQ, "Gen", "DispatchTable.v")).read()
        chk.violation("proof obligation of C15 no longer checks on the regenerated dispatch table",
                      {"theorem": "C15_source_dispatch_good (coq/Props/P_C15.v)", "regenerated_table": tbl[-2500:],
                       "coq_output": pr["out"][-1500:]}, False)
    reqs = [q for cs in streams for q in cs["reqs"]]

    def kind(q):
        return (q["code"], q["btype"], q["fail"], q["panic_in_manager"], q["expect"])

    p2 = [q for q in reqs if q["code"] in (3, 5)]
    chk.coverage.update({
        "trusted_base": TRUSTED,
        "evaluations": len(reqs),
        "distinct_nontrivial": vlib.distinct([(q["code"], q["msg_id"], q["xid"], q["branch"], q["btype"], q["resource"], q["data"],
                                               q["expect"], q["fail"], q["panic_in_manager"]) for q in p2]),
        "rule": "streams of 1..max requests generated from the seed and delivered concurrently on one session: 92% branch commit/rollback "
                "(branch types AT/TCC/XA, 10% unregistered types 2/4/9/100/255; manager scripted per (xid, branch id): any status 0..11, "
                "25% error, 4% panic, delays), 8% other traffic (no processor / heartbeat); every fifth stream is the malformed one (a third "
                "of its requests get a random type code and a third an unregistered branch type). Non-trivial = a phase-two request; "
                "distinct by all request fields and the scripted outcome",
        "streams": len(streams),
        "streams_by_kind": {k: sum(1 for cs in streams if cs["kind"] == k) for k in sorted({cs["kind"] for cs in streams})},
        "concurrent_lookups_checked": data.get("lookups"),
        "streams_with_pending_client_requests": sum(1 for cs in streams if cs.get("pending_ids")),
        "requests_whose_frame_id_is_a_pending_client_id": sum(1 for cs in streams if cs.get("pending_ids")
                                                              for q in cs["reqs"] if q["msg_id"] in cs["pending_ids"]),
        "model_cases_evaluated_in_coq": len(terms),
        "max_stream": max(len(cs["reqs"]) for cs in streams),
        "request_kinds_covered": vlib.distinct([kind(q) for q in reqs]),
        "responses_captured": sum(len(cs["resps"] or []) for cs in streams),
        "manager_consultations": sum(len(cs["consults"] or []) for cs in streams),
        "panics_observed": sum(1 for q in reqs if q.get("panicked")),
        "traces_validated_against_impl": len(terms) - len(mism),
        "direct_oracle_failures": len(bad_streams),
        "registered_branch_types": streams[0]["mgrs"] if streams else [],
        "samples": [dict(cs, reqs=cs["reqs"][:4], consults=(cs["consults"] or [])[:4], resps=(cs["resps"] or [])[:4])
                    for cs in [c for c in streams if c["kind"] == "mixed" and len(c["reqs"]) > 3][:1] + streams[:1]],
    })
    chk.assumptions += ["silence after a manager error is accepted (C15's text); a reply with a retryable status is C05's concern",
                        "managers are scripted stand-ins registered in the real cache; the shipped managers enter only through the "
                        "translator's manager table (distinct branch types, AT/TCC/XA present)"]
    for l in vlib.fixed_entries("C15"):
        chk.notes.append(l)
    return chk.finish()


def replay(chk, path):
    r = json.load(open(path))
    if "seed" in r:
        chk.seed = int(r["seed"])
        chk.tier = r.get("tier", chk.tier)
    else:
        print("replay names a proof obligation, not an input: " + json.dumps(r)[:400])
    return run(chk)
