"""C05 — TCC branches are registered before try and dispatched faithfully in phase two."""
import json, os, re
import vlib
from vlib import coq_list, coq_hex

MANIFEST = {
    "text": "Coq theorems over an executable model of TCCServiceProxy.Prepare (parameter reflection, action context, branch "
            "registration, try) and of phase two (processor -> TCCResourceManager -> context reconstruction -> user method -> "
            "response): C05_register_first (exactly one TCC registration with resource = action name and data = the tagged "
            "parameters, before try; no try if it fails), C05_dispatch / C05_dispatch_seq (one invocation per request of a "
            "registered resource with the same xid/branch, status committed/rollbacked iff the user returned no error, "
            "retryable failure otherwise, no user code for unknown resources), C05_roundtrip (json decode . encode = float64 "
            "normal form for ALL Go values of the model) and C05_context (the context at commit is the normal form of what was "
            "captured). Tied to the source on every run by driving the real proxy and the real processors (remoting calls "
            "recorded with gomonkey) over a family of hand-declared and reflect.StructOf-generated parameter types and "
            "phase-two request sequences, comparing every event with the model evaluated in Coq, plus a direct oracle.",
    "note": "Trusted: Coq kernel + vm_compute, no axioms; harness/tccrun and this driver's case printer; gomonkey patches of "
            "SendSyncRequest / SendAsyncResponse. JSON is modelled at tree level (text syntax is exercised only through the "
            "real encoding/json in the tie).",
    "technique": "Coq proof (structural induction over a JSON/Go value model, event model over a dispatch/status table REGENERATED from the source) + differential correspondence (vm_compute) + direct oracle on the real code",
}
TABLES = [("tcc", "TccTable.v")]
PROP_FILE = "Props/P_C05.v"
REQUIRES = "From SeataV Require Import Props.P_C05."
TRUSTED = vlib.TRUSTED_COMMON + [
    "tools/xlate tcc (go/ast + exact statement patterns over BranchCommit/BranchRollback and the two processors; "
    "anything else -> None, rejected by C05_table_recognised)",
    "harness/tccrun (user services, reflection-based description of parameter values, gomonkey recorders for "
    "GettyRemotingClient.SendSyncRequest / SendAsyncResponse) and lib/checks/c05.py case printer",
    "tree-level JSON model: the textual layer of encoding/json is not modelled (exercised by the tie only)",
]
HEADER = """From Coq Require Import String.
From Coq Require Import List ZArith NArith Bool.
From Coq.Strings Require Import Byte.
From SeataV Require Import Base.Bytes Tcc.Json Tcc.TccModel Tcc.TccCases.
Import ListNotations. Open Scope Z_scope.
"""
VOLATILE = ("action-start-time".encode().hex(), "host-name".encode().hex())
METHODS = {"actAlpha": ("Prepare", "Commit", "Rollback"), "actBeta": ("Prepare", "Commit", "Rollback"),
           "actTagged": ("Try", "Confirm", "Cancel")}
CODES = {1: "prepare events (registration / try)", 2: "prepare result", 3: "phase-two events (invocation / response)",
         4: "events of a sequence of prepares on one context", 5: "results of a sequence of prepares on one context"}


def hx(s):
    return coq_hex(s.encode().hex())


def z(n):
    n = int(n)
    return "(%d)" % n if n < 0 else str(n)


def val(v):
    t = v["t"]
    if t == "nil":
        return "GNil"
    if t == "bool":
        return "(GBool %s)" % ("true" if v.get("b") else "false")
    if t == "int":
        return "(GInt %s)" % z(v.get("z", "0"))
    if t == "flt":
        m, e = int(v.get("z", "0")), int(v.get("e", 0))
        if m == 0:
            e = 0
        while m != 0 and m % 2 == 0:      # exact: the dyadic rational m * 2^e with m odd
            m, e = m // 2, e + 1
        return "(GFlt %s %s)" % (z(m), z(e))
    if t == "str":
        return "(GStr %s)" % coq_hex(v.get("h", ""))
    if t == "bytes":
        return "(GBytes %s)" % coq_hex(v.get("h", ""))
    if t == "list":
        return "(GList %s)" % coq_list([val(x) for x in v.get("l") or []])
    if t in ("map", "struct"):
        kv = ["(%s, %s)" % (coq_hex(k), val(x)) for k, x in zip(v.get("k") or [], v.get("l") or [])]
        return "(%s %s)" % ("GMap" if t == "map" else "GStruct", coq_list(kv))
    raise vlib.Broken("value kind the model does not know: " + t)


def strip_ctx(v):
    """remove the clock/host dependent entries of an action context map; report whether they were there"""
    if not v or v["t"] != "map":
        return v, False
    ks, ls = v.get("k") or [], v.get("l") or []
    keep = [(k, x) for k, x in zip(ks, ls) if k not in VOLATILE]
    present = len(ks) - len(keep) == 2
    return {"t": "map", "k": [k for k, _ in keep], "l": [x for _, x in keep]}, present


def strip_data(v):
    """application data {actionContext: {...}}: strip inside"""
    if not v or v["t"] != "map":
        return v, False
    out, present = {"t": "map", "k": [], "l": []}, False
    for k, x in zip(v.get("k") or [], v.get("l") or []):
        if k == "actionContext".encode().hex():
            x, present = strip_ctx(x)
        out["k"].append(k)
        out["l"].append(x)
    return out, present


def action_term(name):
    p, c, r = METHODS[name]
    return "(mkA %s %s %s %s)" % (hx(name), hx(p), hx(c), hx(r))


def fields_term(fs):
    out = []
    for f in fs or []:
        tag = "(Some %s)" % coq_hex(f["tag"]) if f["has_tag"] else "None"
        out.append("(mkF %s %s %s)" % ("true" if f["exported"] else "false", tag, val(f["value"])))
    return coq_list(out)


def pevents(evs):
    out, vol_ok = [], True
    for e in evs or []:
        if e["kind"] == "register":
            d = e.get("data")
            if d is None:
                data = "None"
            else:
                d, present = strip_data(d)
                vol_ok = vol_ok and present
                data = "(Some %s)" % val(d)
            out.append("(ORegister %d %s %s %s)" % (e.get("btype", 0), hx(e.get("resource", "")), hx(e.get("xid", "")), data))
        elif e["kind"] == "try":
            out.append("(OTry %s %s)" % (hx(e.get("action", "")), z(e["branch"])))
        else:
            out.append("OPanic")
    return coq_list(out), vol_ok


def qevents(c):
    out = []
    for e in c["events"] or []:
        if e["kind"] == "invoke":
            ctx, _ = strip_ctx(e.get("data") or {"t": "nil"})
            out.append("(OInvoke %s %s %s %s %s %s)" % (hx(e.get("action", "")), "true" if e["method"] == "commit" else "false",
                                                         hx(e.get("xid", "")), z(e["branch"]), hx(e.get("resource", "")), val(ctx)))
        elif e["kind"] == "respond":
            out.append("(ORespond %s %s %s %s %d %d)" % (z(e.get("msg_id", 0)), "true" if e.get("resp_kind") == "commit" else "false",
                                                          hx(e.get("xid", "")), z(e["branch"]), e.get("status", 0), e.get("code", 0)))
    if c["outcome"] == "panic":
        out.append("OPanic")
    return coq_list(out)


def jv(x):
    if x is None:
        return "JNull"
    if isinstance(x, bool):
        return "(JBool %s)" % ("true" if x else "false")
    if isinstance(x, int):
        return "(JNumZ %s)" % z(x)
    if isinstance(x, float):
        m, e = x.hex(), 0
        import math
        fr, ex = math.frexp(x)
        return "(JNumD %s %s)" % (z(int(fr * (1 << 53))), z(ex - 53))
    if isinstance(x, str):
        return "(JStr %s)" % coq_hex(x.encode().hex())
    if isinstance(x, list):
        return "(JArr %s)" % coq_list([jv(i) for i in x])
    return "(JObj %s)" % coq_list(["(%s, %s)" % (coq_hex(k.encode().hex()), jv(v)) for k, v in x.items()])


def app_term(c):
    if c["app_kind"] == "empty" or not c["app_data"]:
        return "AEmpty"
    if c["app_kind"] == "captured":
        return "(AJson (app_data %s %s))" % (action_term(c["cap_action"]), fields_term(c.get("captured")))
    try:
        return "(AJson %s)" % jv(json.loads(bytes.fromhex(c["app_data"]).decode()))
    except ValueError:
        return "AGarbage"


def p_term(c):
    evs, _ = pevents(c["events"])
    reply = reply_term(c)
    return "(TP (mkPC %s %s %s %s %s %s %s))" % (
        action_term(c["_name"]), "true" if c["in_gtx"] else "false", hx(c["xid"]), fields_term(c.get("fields")), reply, evs,
        "true" if c["outcome"] == "ok" else "false")


def reply_term(c):
    return {"ok": "(ROk %d)" % c["bid"], "failcode": "RFailCode", "failcode-errcode": "RFailCode", "error": "RError"}.get(
        c["reg_mode"], "RMalformed")     # nil-reply / wrong-type / wrong-type-failed / pointer-reply


def s_term(group):
    """several prepares on ONE context (one global transaction): all events in order against prepare_seq"""
    evs = []
    for c in group:
        evs += c["events"] or []
    items = coq_list(["(%s, %s, %s)" % (action_term(c["_name"]), fields_term(c.get("fields")), reply_term(c)) for c in group])
    oks = coq_list(["true" if c["outcome"] == "ok" else "false" for c in group])
    return "(TS (mkSC %s %s %s %s %s))" % ("true" if group[0]["in_gtx"] else "false", hx(group[0]["xid"]), items, pevents(evs)[0], oks)


def q_term(c, names):
    req = "(mkQ %s %s %s %s %s %s %s %s)" % ("true" if c["method"] == "commit" else "false", hx(c["resource"]), hx(c["xid"]),
                                             z(c["branch"]), z(c["msg_id"]), app_term(c), "true" if c["user_fails"] else "false",
                                             "true" if c.get("user_bool", True) else "false")
    return "(TQ (mkQC %s %s %s))" % (coq_list([hx(n) for n in names]), req, qevents(c))


def malformed(c):
    """input predicate tcc.appdata.malformed: non-empty application data that is not a JSON object (or null) whose
    actionContext, if present, is an object"""
    if not c["app_data"]:
        return False
    try:
        x = json.loads(bytes.fromhex(c["app_data"]).decode())
    except ValueError:
        return True
    if x is None:
        return False
    if not isinstance(x, dict):
        return True
    return "actionContext" in x and not isinstance(x["actionContext"], dict)


def slim(c):
    if "prepares" in c:
        return {"prepares": [slim(x) for x in c["prepares"]]}
    c = {k: v for k, v in c.items() if not k.startswith("_")}
    if c.get("detail"):
        c["detail"] = c["detail"][:300]
    return c


def run(chk, replay_case=None):
    # (B1) which user method each direction calls, the status of every outcome, the processors' silence rule and
    # result codes are regenerated from the working tree; the theorems are re-checked on that table
    vlib.run_xlate("tcc", "TccTable.v")
    pr = vlib.proof_step(chk, PROP_FILE, REQUIRES)
    ok_cases, out_cases = vlib.coq_make(["Tcc/TccCases.vo"])
    if not ok_cases:
        raise vlib.TieBroken("the model does not type-check on the regenerated tcc table:\n" + out_cases[-1500:])
    n = 250 if chk.tier == "quick" else 40000
    if replay_case is not None:
        rp = chk.tmp("replay_in.json")
        json.dump(replay_case, open(rp, "w"))
        data, secs = vlib.run_harness("tcc", chk.tmp("tcc.json"), timeout=600, seed=chk.seed, replay=rp, repo=vlib.REPO)
        if not data.get("prepares") and not data.get("phase2"):
            print("the recorded case cannot be rebuilt on its own (parameter of a hand-declared type): running the whole check")
            replay_case = None
    if replay_case is None:
        data, secs = vlib.run_harness("tcc", chk.tmp("tcc.json"), timeout=3000, seed=chk.seed, n=n, repo=vlib.REPO)
    if data.get("setup"):
        raise vlib.TieBroken("tcc services could not be registered: " + data["setup"])
    names = data["names"]
    prepares, phase2 = data.get("prepares") or [], data.get("phase2") or []
    for c in prepares:
        c["_name"] = names[c["action"]]
    findings = vlib.known_findings("C05")
    listed = {f["pred"] for f in findings}
    clean_q = [c for c in phase2 if not (malformed(c) and "tcc.appdata.malformed" in listed)]
    known_q = [c for c in phase2 if malformed(c) and "tcc.appdata.malformed" in listed]
    groups = {}
    for c in prepares:
        groups.setdefault(c.get("seq", id(c)), []).append(c)
    for g in groups.values():
        for i, c in enumerate(g):
            c["_prefix"] = g[:i]
    seqs = [{"oracle": "", "prepares": g, "outcome": "ok"} for g in groups.values() if len(g) >= 2]
    cases = [("p", c) for c in prepares] + [("q", c) for c in clean_q] + [("s", c) for c in seqs]
    terms = [p_term(c) if k == "p" else q_term(c, names) if k == "q" else s_term(c["prepares"]) for k, c in cases]
    mism = vlib.eval_mismatches("C05", HEADER, terms, case_type="tcase", shard=150)
    # ---- finding stream: committed replay + this run's variants
    for f in findings:
        rp = os.path.join(vlib.VERIF, f["replay"])
        rc = json.load(open(rp))["case"]
        variants = [c for c in known_q if c["oracle"]]
        if f["pred"] == "tcc.appdata.malformed":
            if variants or not known_q:
                chk.known("id=%s %s (%d generated variants reproduce; replay %s)" % (f["id"], f["what"], len(variants), f["replay"]))
            else:
                print("STALE-FINDING: property=C05 id=%s no longer reproduces" % f["id"])
                chk.notes.append("stale finding " + f["id"])
    # ---- clean stream
    oracle_fail = [i for i, (k, c) in enumerate(cases) if c["oracle"]]
    vol_missing = [i for i, (k, c) in enumerate(cases) if k == "p" and c["in_gtx"] and not pevents(c["events"])[1]]
    corr_fail = [i for i in sorted(mism) if not cases[i][1]["oracle"]]
    seen = set()
    for i in oracle_fail:
        k, c = cases[i]
        cls = re.sub(r"[\d.:]+", "#", c["oracle"])[:60]
        if cls in seen:
            continue
        seen.add(cls)
        chk.violation("tcc %s: %s" % ("prepare" if k == "p" else "phase two", c["oracle"][:300]),
                      {"case": slim(c), "kind": k, "prefix": [slim(x) for x in c.get("_prefix", [])],
                       "model_disagreements": [CODES[e] for e in mism.get(i, [])]}, True)
    if not oracle_fail and (corr_fail or vol_missing):
        i = (corr_fail or vol_missing)[0]
        k, c = cases[i]
        what = ", ".join(CODES[e] for e in mism.get(i, [])) or "action-start-time / host-name missing from the registered context"
        real = k in ("p", "s") and any(e in (1, 4) for e in mism.get(i, []))
        chk.violation("the tcc code no longer behaves like the model the theorems are about (%s)%s" % (
            what, ": the registered application data / event order differs from the tagged parameters" if real else ""),
            {"case": slim(c), "kind": k, "prefix": [slim(x) for x in c.get("_prefix", [])], "correspondence": "Tcc/TccCases.v check_case",
             "model_disagreements": [CODES[e] for e in mism.get(i, [])], "mismatching_cases": len(corr_fail)}, real)
    if not pr["ok"] and not chk.violations:
        chk.violation("proof obligation of C05 no longer checks on the table regenerated from tcc_resource.go / the processors",
                      {"theorem": "Props/P_C05.v (C05_table_recognised)",
                       "regenerated_table": open(os.path.join(vlib.COQ, "Gen", "TccTable.v")).read()[-2000:],
                       "coq_output": pr["out"][-1500:]}, False)

    def nontrivial(k, c):
        if k == "s":
            return c["prepares"][0]["in_gtx"]
        if k == "p":
            return c["in_gtx"] and any(f["exported"] and f["has_tag"] for f in c.get("fields") or [])
        return c["known"]

    chk.coverage.update({
        "trusted_base": TRUSTED,
        "evaluations": len(cases) + len(known_q),
        "distinct_nontrivial": vlib.distinct([(k, [(x.get("action"), x.get("fields"), x.get("reg_mode")) for x in c["prepares"]]) if k == "s" else (k, slim(c).get("fields"), slim(c).get("app_data"), c.get("method"), c.get("user_fails"),
                                               c.get("reg_mode"), c.get("resource")) for k, c in cases if nontrivial(k, c)]),
        "rule": "%d generated prepare calls through the real TCCServiceProxy, grouped into global transactions of 1-4 prepares on ONE "
                "context (the same action again or different actions; also compared as sequences) (3 registered services, one declared by struct tags; "
                "parameter = nil / tagged / pointer / mixed (untagged, '-', '', unexported, []byte, uint64) / nested structs, "
                "slices, maps / embedded and pointer BusinessActionContext / duplicate and system-colliding tags / non-struct / "
                "two pairs of DISTINCT same-named types (function-local; same package and type name under two paths), always "
                "both prepared in one process / reflect.StructOf-generated types; 10%% outside a global transaction, 25%% registrations not accepted: failure result with/without error code, transport error, malformed replies (nil, "
                "another message type, a pointer to the response)), each followed by "
                "1-3 phase-two requests through the real processors (commit or rollback, user methods returning every (bool, error) combination, repeated requests, "
                "unknown resources, another action's data, empty / context-free / malformed application data). Non-trivial = a "
                "prepare in a global transaction with at least one tagged exported field, or a request for a registered resource; "
                "distinct by inputs" % n,
        "traces_validated_against_impl": len(cases) - len(mism),
        "finding_stream_cases": len(known_q),
        "input_distribution": data.get("dist"),
        "harness_seconds": round(secs, 1),
        "samples": [slim(c) for k, c in (cases[3:4] + cases[len(prepares) + 5:len(prepares) + 6]) or cases[:1]],
    })
    chk.assumptions += ["json text syntax is not modelled; float64 values are exchanged as exact dyadic rationals",
                        "NaN/Inf parameters (json.Marshal fails, error ignored) and invalid UTF-8 strings are not generated",
                        "nil pointer / pointer-to-non-struct parameters are not generated (panic in getActionContextParameters)"]
    return chk.finish()


def replay(chk, path):
    r = json.load(open(path))
    if "case" not in r or "kind" not in r:
        print("replay names a proof obligation, not an input: " + json.dumps(r)[:400])
        return run(chk)
    if r["kind"] == "s":
        ps = r["case"]["prepares"]
        return run(chk, replay_case={"kind": "p", "case": ps[-1], "prefix": ps[:-1]})
    return run(chk, replay_case={"kind": r["kind"], "case": r["case"], "prefix": r.get("prefix", [])})
