"""C12 — wire codec: Seata v1 layout, round trip, registration."""
import concurrent.futures, json, os, re
import vlib
from vlib import coq_hex, coq_str, coq_list

MANIFEST = {
    "text": "Coq theorems (C12_roundtrip, C12_roundtrip_exact, C12_truncation_keeps_fields for every layout/message; "
            "C12_wire_codec for all 24 client types) over codec layouts REGENERATED from pkg/protocol/codec on every run; "
            "conformance to the independent Seata v1 table and registration are finite obligations re-checked by vm_compute; "
            "the translator's reading of the byte helpers is validated by running the real CodecManager on generated "
            "messages and comparing bytes/decoded values with the model inside Coq.",
    "note": "Trusted: Coq kernel + vm_compute, no axioms; tools/xlate codec; SeataV1Spec.v transcription; harness run_codec. "
            "32-bit length limits covered by theorem only.",
    "technique": "Coq proof over translator-regenerated layout tables + differential correspondence (vm_compute)",
}
TABLES = [("codec", "GoLayouts.v")]
PROP_FILE = "Props/P_C12.v"
TRUSTED = vlib.TRUSTED_COMMON + [
    "tools/xlate codec (go/ast + statement patterns; unmatched syntax -> FUnknown, rejected by wf_layout)",
    "coq/Codec/SeataV1Spec.v: transcription of the Java reference codecs (the 'Seata v1 layout' oracle)",
    "Go harness run_codec (reflection over the 24 message structs) and this driver's case printer",
]
ERR = {1: "no v1 row for the type code", 2: "wire field missing from the case",
       3: "encoded bytes differ from the Seata v1 body for this message",
       4: "encoded bytes differ from the model at the regenerated Go layout",
       5: "decoded value differs from the model's decode", 6: "registration differs from the model's registry"}


def fval(f):
    k, v = f["k"], f["v"]
    if k == "S":
        return "VS " + coq_hex(v)
    if k == "I" or k == "D":
        return "VI %s" % v
    if k == "B":
        return "VB " + v
    return "VS []"


def named(fs):
    return coq_list(["(%s, %s)" % (coq_str(f["n"]), fval(f)) for f in (fs or [])])


def case_term(c):
    enc = "(Some %s)" % coq_hex(c["enc"]) if c["has_enc"] else "None"
    if c["dec"] == c["fields"]:
        return "(let f := %s in {| cc_code := %d; cc_fields := f; cc_enc := %s; cc_dec := f |})" % (
            named(c["fields"]), c["code"], enc)
    return "{| cc_code := %d; cc_fields := %s; cc_enc := %s; cc_dec := %s |}" % (
        c["code"], named(c["fields"]), enc, named(c["dec"]))


HEADER = """From Coq Require Import String List NArith Bool.
From Coq.Strings Require Import Byte.
From SeataV Require Import Base.Bytes Codec.Layout Codec.Table Codec.CodecCases.
Import ListNotations. Open Scope string_scope. Open Scope N_scope.
"""


def eval_cases(chk, cases, shard=150):
    """evaluate the model on the observed cases inside Coq; returns {index: [codes]}"""
    # big cases (strings around the 16-bit limits) cost seconds each in Coq: one per shard
    order = sorted(range(len(cases)), key=lambda i: -len(cases[i]["enc"] or ""))
    nbig = sum(1 for i in order if len(cases[i]["enc"] or "") > 16000)
    groups = [[i] for i in order[:nbig]]
    rest = order[nbig:]
    groups += [rest[i:i + shard] for i in range(0, len(rest), shard)]
    res = {}

    def one(idx):
        cs = [cases[i] for i in idx]
        name = "cases_C12_%d_%d" % (os.getpid(), idx[0])
        text = HEADER + "Definition cases : list ccase := [\n" + ";\n".join(case_term(c) for c in cs) + \
            "].\nDefinition M := Eval vm_compute in mismatches cases.\nPrint M.\n"
        ok, out = vlib.coq_eval(name, text)
        vlib.cleanup_run(name)
        if not ok:
            raise vlib.Broken("case evaluation failed in Coq:\n" + out[-2000:])
        printed = vlib.parse_coq_printed(out, "M")
        if printed is None:
            raise vlib.Broken("cannot parse Coq output:\n" + out[-2000:])
        r = {}
        for m in re.finditer(r"\((\d+)%nat,\s*\[([^\]]*)\]\)", printed):
            r[idx[int(m.group(1))]] = [int(x.strip().replace("%N", "")) for x in m.group(2).split(";") if x.strip()]
        if printed != "[]" and not r:
            raise vlib.Broken("unparsed mismatch list: " + printed[:300])
        return r

    with concurrent.futures.ThreadPoolExecutor(max_workers=12) as ex:
        for r in ex.map(one, groups):
            res.update(r)
    return res


def diag_tables():
    text = HEADER + "Eval vm_compute in failing_spec_rows.\nEval vm_compute in failing_codec_rows.\n"
    ok, out = vlib.coq_eval("diag_C12_%d" % os.getpid(), text)
    return re.sub(r"\s+", " ", out)[-1500:]


def run(chk, cases_override=None):
    n, big = (40, 4) if chk.tier == "quick" else (600, 24)
    vlib.run_xlate("codec", "GoLayouts.v")
    ok_cases, out_cases = vlib.coq_make(["Codec/CodecCases.vo"])
    if not ok_cases:
        raise vlib.TieBroken("the regenerated codec table does not type-check in Coq:\n" + out_cases[-1500:])
    ok_proof, out_proof = vlib.coq_make([PROP_FILE + "o"])
    n_closed, closed = vlib.assumptions_closed(out_proof) if ok_proof else (0, True)
    forbidden = vlib.grep_forbidden()
    if forbidden:
        raise vlib.Broken("forbidden constructs in the development: " + "; ".join(forbidden[:5]))
    thms = vlib.theorem_names(PROP_FILE) + [t for t in vlib.theorem_names("Codec/CodecProofs.v") if t.startswith("go_")]
    # ---- correspondence + direct oracle on the real code
    if cases_override is None:
        data, secs = vlib.run_harness("codec", chk.tmp("codec.json"), seed=chk.seed, n=n, big=big)
        cases = data["cases"]
    else:
        cases, data = cases_override, {"registry": []}
    oracle_fail = [i for i, c in enumerate(cases) if c["oracle"]]
    # a case on which the real code already fails the property's own statement and whose decoded
    # garbage is huge (a mis-read length prefix yields megabytes) is reported from the direct oracle;
    # printing it as a Coq term would only stall coqc
    def term_size(c):
        return sum(len(str(f["v"])) for f in (c["fields"] or [])) + sum(len(str(f["v"])) for f in (c["dec"] or []))
    skip = {i for i in oracle_fail if term_size(cases[i]) > 600000}
    keep = [i for i in range(len(cases)) if i not in skip]
    mism_k = eval_cases(chk, [cases[i] for i in keep])
    mism = {keep[j]: e for j, e in mism_k.items()}
    v1_fail = [i for i, e in mism.items() if 3 in e or 1 in e]
    corr_fail = [i for i, e in mism.items() if any(x in (2, 4, 5, 6) for x in e)]

    def small(i):
        return len(cases[i]["enc"] or "")

    def slim(c):
        return {k: c[k] for k in ("type", "code", "fields", "enc", "has_enc", "dec", "oracle", "within")}

    reported = set()
    for lst, what in ((oracle_fail, None), (v1_fail, ERR[3])):
        for i in sorted(lst, key=small):
            c = cases[i]
            if c["type"] in reported:
                continue
            reported.add(c["type"])
            chk.violation("%s: %s" % (c["type"], what or c["oracle"]),
                          {"case": slim(c), "model_disagreements": [ERR[e] for e in mism.get(i, [])]}, True)
    if not reported and corr_fail:
        i = sorted(corr_fail, key=small)[0]
        chk.violation("correspondence between the model at the regenerated layout and the code broke (%s), "
                      "property not shown on this tree" % ", ".join(ERR[e] for e in mism[i]),
                      {"case": slim(cases[i]), "correspondence": "Codec/CodecCases.v check_case",
                       "model_disagreements": [ERR[e] for e in mism[i]]}, False)
    if (not ok_proof or corr_fail) and not reported and cases_override is None:
        # failing-input search (DESIGN 4.7): a proof obligation or the correspondence broke but no
        # generated case failed the property's own statement: look harder on the real code
        sdata, _ = vlib.run_harness("codec", chk.tmp("search.json"), seed=chk.seed, n=800, big=0, search=1)
        found = sorted(sdata["cases"], key=lambda c: len(c["enc"] or ""))
        chk.coverage["failing_input_search"] = {"cases_failing": len(found),
                                                "rule": "800 messages per type (limits in every 8th) + every ms count 0..130000 for durations, direct oracle"}
        seen = set()
        for c in found:
            if c["type"] in seen:
                continue
            seen.add(c["type"])
            chk.violations = [v for v in chk.violations if v[1] == ""]
            chk.violation("%s: %s" % (c["type"], c["oracle"]), {"case": slim(c), "found_by": "failing-input search"}, True)
    if not ok_proof and not chk.violations:
        chk.violation("proof obligation of C12 no longer checks on the regenerated table",
                      {"theorem": "go_conforms / go_wf / C12_wire_codec (coq/Codec/CodecProofs.v)",
                       "failing_rows": diag_tables(), "coq_output": out_proof[-1500:]}, False)
    if ok_proof and not closed:
        raise vlib.Broken("Print Assumptions reports axioms:\n" + out_proof[-1500:])
    sizes = {}
    for c in cases:
        b = len(c["enc"] or "") // 2
        k = "<64" if b < 64 else "<1k" if b < 1024 else "<32k" if b < 32768 else ">=32k"
        sizes[k] = sizes.get(k, 0) + 1
    nontrivial = [c for c in cases if c["has_enc"] and len(c["enc"]) > 4]
    chk.coverage.update({
        "obligations": len(thms), "discharged": len(thms) if ok_proof else 0,
        "checker_cmd": "make -C coq Props/P_C12.vo (coqc 8.16.1, full .vo of the dependency cone) + coqc Run/cases_C12_*.v",
        "trusted_base": TRUSTED,
        "theorems": thms, "print_assumptions_closed": n_closed,
        "evaluations": len(cases), "distinct_nontrivial": vlib.distinct([(c["type"], c["enc"]) for c in nontrivial]),
        "rule": "n=%d generated messages per each of the 24 message types through the real CodecManager "
                "(lengths around 0/127/128/255/256/32767/32768/65535 and beyond, all enum bytes, int64 extremes, "
                "durations over the ms range); non-trivial = encoded by the code with a non-empty body; distinct by (type, bytes)" % n,
        "traces_validated_against_impl": len(cases) - len(corr_fail),
        "within_theorem_domain": sum(1 for c in cases if c["within"]),
        "encoded_size_distribution": sizes,
        "registry_observed": data.get("registry"),
        "samples": [slim(c) for c in sorted(cases, key=lambda c: len(c["enc"] or ""))[len(cases) // 2:len(cases) // 2 + 2]],
    })
    chk.assumptions += ["Seata v1 reference table is a faithful transcription of the Java codecs",
                        "32-bit length limits are covered by the theorem only (not reachable in a run)"]
    return chk.finish()


def replay(chk, path):
    r = json.load(open(path))
    if "case" not in r:
        print("replay names a proof obligation, not an input: " + json.dumps(r)[:400])
        return run(chk)
    return run(chk, cases_override=None)
