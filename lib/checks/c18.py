"""C18 — captured images equal the rows the statement actually changed."""
import json, os
import vlib
import atp_util as U
from vlib import coq_list, coq_bool

MANIFEST = {
    "text": "Coq theorems over a row-level model of the AT executors (update/delete/insert): C18_exact, C18_exact_delete, "
            "C18_exact_insert, C18_exact_upsert / C18_upsert_pk_reject (INSERT .. ON DUPLICATE KEY UPDATE) (for ALL tables, matched key lists, SET functions, tracked column sets: before image = matched rows "
            "as of before, after image = the same keys as of after, unmatched rows unchanged and absent), C18_pk_reject (a key-changing "
            "UPDATE is refused, by a row-by-row unique-check argument), C18_insert_pk / C18_insert_arg_index (recovered keys = inserted "
            "keys incl. generated keys of batches and of listed NULL/0 values; a mix is refused: C18_insert_mixed_refused; the argument index arithmetic of multi-row VALUES), C18_args (structural induction over syntax trees: selected "
            "arguments = markers of WHERE/ORDER BY/LIMIT in order) over the node-kind table REGENERATED from traversalArgs by a go/ast "
            "translator. Tie: the REAL proxy runs generated DML inside global transactions over fakedb; decoded undo-log images, the "
            "arguments of the before-image query and the table dumps around each statement are compared with the model inside Coq "
            "(vm_compute) and with the row diff directly (oracle); explicit transactions with a statement refused after its image query "
            "(per-statement diffs read inside the transaction), auto_increment_increment varied per scenario and between statements, the "
            "table-meta cache's real refresh after a dropped table.",
    "note": "Trusted: Coq kernel + vm_compute, no axioms; fakedb (evaluates the WHERE text: matched keys come from a bare SELECT with "
            "the statement's own WHERE), tcstub, atrun, tools/xlate traverse, this driver's canonicaliser. Types: integer, string, NULL.",
    "technique": "Coq proof (induction over key lists / syntax trees) over a translator-regenerated table + differential correspondence (vm_compute) + direct oracle",
}
TABLES = [("traverse", "Traverse.v")]
PROP_FILE = "Props/P_C18.v"
REQ = "From SeataV Require Import Props.P_C18."
TRUSTED = vlib.TRUSTED_COMMON + [
    "harness/fakedb (in-memory MySQL: evaluates WHERE/ORDER/LIMIT, row-by-row unique check), harness/tcstub, harness/atrun",
    "harness/atp generators + reflection dump of the parser's syntax tree; lib/atp_util.py canonicaliser and term printers",
    "tools/xlate traverse (go/ast + statement patterns of traversalArgs/buildSelectArgs; unmatched syntax -> traverse_unknown, rejected by C18_table_wf)",
    "matched keys = result of `SELECT <pk> FROM t <same WHERE/ORDER/LIMIT text>` on a bare connection just before the statement",
]
HEADER = """From Coq Require Import String List NArith ZArith Bool.
From Coq.Strings Require Import Byte.
From SeataV Require Import Base.Bytes At.Db At.Image At.SelectArgs At.ImageCases.
Import ListNotations. Open Scope string_scope. Open Scope list_scope. Open Scope nat_scope.
"""
ERR = {1: "accepted/rejected differs from the model", 2: "before image differs from the model's", 3: "after image differs from the model's",
       4: "table after the statement differs from the model's", 5: "a rejected statement left a durable change",
       21: "arguments of the before-image query differ from the model's selection"}


# what a listed finding is allowed to look like: any OTHER failure of a statement inside the region is a violation
FINDING_SIG = {
    "upsert.pk-listed.unique-changed": ("after image rows [] differ",),
}


def unexplained(r, preds):
    """oracle messages of a statement that no listed finding accounts for"""
    if not r["oracle"]:
        return []
    if r["pred"] and r["pred"] in preds:
        sig = FINDING_SIG.get(r["pred"], ())
        return [m for m in r["oracle"] if not any(m.startswith(x) for x in sig)]
    return r["oracle"]


def tracked(meta, sm):
    n = len(meta["cols"])
    if sm["kind"] in ("delete", "upsert"):
        return list(range(n))
    if meta["only_care"] and sm["cols"]:
        return [i for i in range(n) if i in sm["cols"] or i in meta["pk"]]
    return list(range(n))


def proj(row, cols):
    return [row[i] for i in cols]


def typed(c, kind):
    """a text-protocol value (everything arrives as bytes) read at the column's kind"""
    if kind == "int" and c[0] == "s":
        try:
            return ("i", int(bytes.fromhex(c[1]).decode()))
        except ValueError:
            return c
    return c


def snapshot_rows(step, meta):
    """rows of an in-transaction `SELECT * ... ORDER BY <pk>` (text protocol: everything arrives as bytes), typed by column kind"""
    kinds = [c["kind"] for c in meta["cols"]]
    return [[typed(U.canon_tv(v), kd) for v, kd in zip(row, kinds)] for row in step.get("rows") or []]


def analyze_stmt(case, sm, ov=None):
    """direct oracle + model case for one statement; returns dict(oracle=[...], icase=term|None, acase=term|None, info).
    ov (explicit transactions): in-transaction snapshots around the statement and its item of the transaction's undo record"""
    meta, tr = case["meta"], case["trace"]
    pk, table = meta["pk"], sm.get("table") or meta["table"]
    names = [c["name"] for c in meta["cols"]]
    st = U.step_at(tr, sm["path"])
    if ov is not None:
        d0, d1 = ov["d0"], ov["d1"]
    else:
        d0 = U.dump_table(U.step_at(tr, sm["dump_pre"]), table)
        d1 = U.dump_table(U.step_at(tr, sm["dump_post"]), table)
    res = {"oracle": [], "icase": None, "acase": None, "class": st["class"], "kind": sm["kind"], "pred": sm.get("pred") or "",
           "matched": 0, "changed": 0}
    if d0 is None or d1 is None:
        res["oracle"].append("dump missing")
        return res
    k0, k1 = dict(U.keyed(d0, pk)), dict(U.keyed(d1, pk))
    changed = [k for k in k0 if k1.get(k) != k0[k]] + [k for k in k1 if k not in k0]
    res["changed"] = len(changed)
    ok = st["class"] == "ok"
    matched = None
    if sm.get("match_path"):
        ms = U.step_at(tr, sm["match_path"])
        if ms["class"] == "ok":
            kinds = [meta["cols"][i]["kind"] for i in pk]
            matched = [tuple(typed(U.canon_tv(v), kd) for v, kd in zip(row, kinds)) for row in ms.get("rows") or []]
    if sm["kind"] == "insert":
        matched = [k for k in k1 if k not in k0]
    res["matched"] = len(matched or [])
    trk = tracked(meta, sm)
    # the undo row written by this statement: the branch that was not there before
    undo_items = None
    prev = set()
    for s in U.steps_flat(tr["steps"]):
        if s["path"] == sm["path"]:
            break
        if s["op"] == "gtx":
            continue
        for u in s.get("undo") or []:
            prev.add(u["branch_id"])
    new = [u for u in st.get("undo") or [] if u["branch_id"] not in prev]
    if ov is not None:
        new = [{"branch_id": -1, "items": ov["items"]}] if ov["items"] is not None else []
    if st["class"] == "panic":
        res["oracle"].append("the statement panicked instead of being recorded or rejected")
    if not ok:
        if d1 != d0:
            res["oracle"].append("a rejected statement changed the table")
        if new:
            res["oracle"].append("a rejected statement left an undo record")
    obs_b, obs_a = [], []
    if ok:
        if matched is None:
            res["oracle"].append("statement accepted although its WHERE cannot be evaluated")
            return res
        items = [it for u in new for it in u.get("items") or []]
        if len(new) > 1 or len(items) > 1:
            res["oracle"].append("more than one undo record for one statement")
        it = items[0] if items else None
        if it is None and matched:
            res["oracle"].append("rows were matched/inserted but no image was recorded")
        bimg = U.image_rows(it["before"] if it else None, names)
        aimg = U.image_rows(it["after"] if it else None, names)

        def check(img, want_keys, src, label):
            got = {}
            for d, unknown, conflict, ncells in img:
                if unknown or conflict:
                    res["oracle"].append("%s image has unknown/conflicting columns %s" % (label, unknown))
                if sorted(d) != trk:
                    res["oracle"].append("%s image tracks columns %s, expected %s" % (label, [names[i] for i in sorted(d)], [names[i] for i in trk]))
                if ncells != len(d):
                    res["oracle"].append("%s image row repeats a column (%d cells for %d columns)" % (label, ncells, len(d)))
                key = tuple(d.get(i, ("o", "missing", "")) for i in pk)
                if key in got:
                    res["oracle"].append("%s image has a row twice" % label)
                got[key] = d
            if set(got) != set(want_keys):
                res["oracle"].append("%s image rows %s differ from the rows the statement touched %s" % (label, sorted(map(str, got)), sorted(map(str, want_keys))))
            for key, d in got.items():
                if key in src and any(d.get(i) != src[key][i] for i in d):
                    res["oracle"].append("%s image of row %s differs from the table" % (label, str(key)))
            return [(list(key), [d.get(i, ("o", "missing", "")) for i in trk]) for key, d in got.items()]

        if sm["kind"] == "update":
            obs_b = check(bimg, matched, k0, "before")
            obs_a = check(aimg, matched, k1, "after")
            if set(k0) != set(k1):
                res["oracle"].append("an accepted UPDATE changed the set of primary keys")
        elif sm["kind"] == "upsert":
            newk = [k for k in k1 if k not in k0]
            obs_b = check(bimg, matched, k0, "before")
            obs_a = check(aimg, list(matched) + newk, k1, "after")
            if any(k not in k1 for k in k0):
                res["oracle"].append("an accepted INSERT .. ON DUPLICATE KEY UPDATE changed or removed a primary key")
            matched_all = list(matched) + newk
        elif sm["kind"] == "delete":
            obs_b = check(bimg, matched, k0, "before")
            if aimg:
                res["oracle"].append("after image of a DELETE is not empty")
        else:
            if bimg:
                res["oracle"].append("before image of an INSERT is not empty")
            obs_a = check(aimg, matched, k1, "after")
        for k in changed:
            if k not in (matched_all if sm["kind"] == "upsert" else matched):
                res["oracle"].append("row %s changed but was not matched by the statement" % str(k))
    # ---- model case
    kindn = {"update": 0, "delete": 1, "insert": 2, "upsert": 3}[sm["kind"]]
    sets = []
    for s in sm.get("sets") or []:
        v = U.canon_arg(s["v"])
        sets.append("(%d, %s)" % (s["col"], ("AAdd (%d)%%Z" % v[1]) if s["op"] == "add" else "AConst (%s)" % U.coq_value(v)))
    listed = "None"
    if sm["kind"] == "insert" and sm.get("listed") is not None:
        listed = "(Some %s)" % coq_list([U.coq_vals([U.canon_arg(a) for a in key]) for key in sm["listed"]])
    krs = [(list(k), k1[k]) for k in k1 if k not in k0] if sm["kind"] in ("insert", "upsert") else []
    if sm["kind"] == "insert" and not ok:
        krs = None   # what the database would have stored is not observable for a rejected insert
    if matched is not None and krs is not None and sm.get("expect") != "reject-db":
        res["icase"] = ("{| i_kind := %d; i_only_care := %s; i_ncols := %d; i_pk := %s; i_cols := %s; i_sets := %s;\n i_tb := %s;\n i_m := %s; i_krs := %s; "
                        "i_listed := %s; i_last_id := (%d)%%Z; i_step := (%d)%%Z; i_auto := %s; i_ok := %s;\n i_before := %s;\n i_after := %s;\n i_ta := %s |}") % (
            kindn, coq_bool(meta["only_care"]), len(names), coq_list(map(str, pk)), coq_list(map(str, sm["cols"] or [])), coq_list(sets),
            U.coq_tbl([(list(k), r) for k, r in U.keyed(d0, pk)]),
            coq_list([U.coq_vals(list(k)) for k in (matched if sm["kind"] != "insert" else [])]), U.coq_tbl(krs),
            listed, st.get("last_id", 0), sm.get("step") or 1, coq_bool(bool(meta.get("auto_inc"))), coq_bool(ok), U.coq_tbl(obs_b), U.coq_tbl(obs_a),
            U.coq_tbl([(list(k), r) for k, r in U.keyed(d1, pk)]))
    # ---- argument selection: the first locking SELECT the proxy issued for this statement
    if sm["kind"] in ("update", "delete") and sm.get("roots"):
        obs = None
        for e in U.db_events(tr, st["seq_from"], st["seq_to"]):
            if e["src"] == "db" and e["db"]["kind"] in ("QUERY", "STMT_QUERY") and "FOR UPDATE" in e["db"].get("sql", "").upper():
                obs = [U.canon_tv(a) for a in e["db"].get("args") or []]
                break
        if obs is not None:
            res["acase"] = "{| a_roots := %s; a_args := %s; a_obs := Some %s |}" % (
                U.coq_roots(sm["roots"]), U.coq_vals([U.canon_arg(a) for a in sm["args"] or []]), U.coq_vals(obs))
    return res


def analyze_etx(case):
    """one explicit local transaction (some statement refused by the database, the application goes on and commits):
    the items of the transaction's undo record are, in order, the images of the statements that succeeded"""
    meta, tr = case["meta"], case["trace"]
    ex = meta["extra"]
    cm = U.step_at(tr, ex["commit_path"])
    before = {u["branch_id"] for u in (U.step_at(tr, ex["dump_pre"]).get("undo") or [])}
    rows = [u for u in cm.get("undo") or [] if u["branch_id"] not in before]
    items = [it for u in rows for it in u.get("items") or []]
    # statements whose images have rows, against the items that have rows (an all-empty transaction writes no undo record,
    # and items without rows carry nothing to compare), in order
    def has_rows(it):
        return bool(((it.get("before") or {}).get("rows") or []) or ((it.get("after") or {}).get("rows") or []))
    items = [it for it in items if has_rows(it)]
    pre, touched = [], []
    for sm in meta["stmts"]:
        st = U.step_at(tr, sm["path"])
        d0 = snapshot_rows(U.step_at(tr, sm["snap_pre"]), meta)
        d1 = snapshot_rows(U.step_at(tr, sm["snap_post"]), meta)
        pre.append((st, d0, d1))
        n_matched = len(U.step_at(tr, sm["match_path"]).get("rows") or []) if sm.get("match_path") else len(d1) - len(d0)
        touched.append(st["class"] == "ok" and n_matched > 0)
    out, head, n = [], [], 0
    if cm["class"] == "ok" and len(items) != sum(touched):
        head.append("the undo record of the transaction has %d statement images with rows for %d accepted statements that touched rows" % (len(items), sum(touched)))
    for sm, (st, d0, d1), t in zip(meta["stmts"], pre, touched):
        ov = {"d0": d0, "d1": d1, "items": None}
        if st["class"] == "ok" and cm["class"] == "ok":
            ov["items"] = []
            if t:
                ov["items"] = [items[n]] if n < len(items) else []
                n += 1
        r = analyze_stmt(case, sm, ov)
        if head:
            r["oracle"] = head + r["oracle"]
            head = []
        out.append(r)
    return out


def sizes(tier):
    return dict(n=320, m=100, f=6) if tier == "quick" else dict(n=5200, m=1500, f=60)


def run(chk, only=None):
    vlib.run_xlate("traverse", "Traverse.v")
    pr = vlib.proof_step(chk, PROP_FILE, REQ)
    ok_cases, out_cases = vlib.coq_make(["At/ImageCases.vo"])
    if not ok_cases and pr["ok"]:
        raise vlib.TieBroken("the regenerated traverse table does not type-check with the case evaluator:\n" + out_cases[-1500:])
    secs = 0.0
    if only is None:
        cases, secs = U.run_atp(chk, prop="c18", seed=chk.seed, **sizes(chk.tier))
    else:
        cases = U.replay_atp(chk, only)
    findings = vlib.known_findings("C18")
    preds = {f["pred"] for f in findings}
    recs = []          # (case index, stmt index, result)
    for ci, c in enumerate(cases):
        if c["trace"].get("setup_err"):
            raise vlib.Broken("scenario setup failed: " + c["trace"]["setup_err"])
        if (c["meta"].get("extra") or {}).get("shape") == "etx":
            for si, r in enumerate(analyze_etx(c)):
                recs.append((ci, si, r))
            continue
        for si, sm in enumerate(c["meta"]["stmts"]):
            recs.append((ci, si, analyze_stmt(c, sm)))
    # ---- direct oracle
    seen = set()
    for ci, si, r in recs:
        bad = unexplained(r, preds)
        if bad:
            key = bad[0][:50]
            if key in seen:
                continue
            seen.add(key)
            chk.violation("C18 fails on the real code: " + "; ".join(bad[:3]),
                          dict(U.slim_case(cases[ci]), failing_statement=si, oracle=bad[:6]), True)
    # ---- correspondence inside Coq (every statement outside the finding regions)
    irecs = [(ci, si, r) for ci, si, r in recs if r["icase"] and not r["pred"]]
    arecs = [(ci, si, r) for ci, si, r in recs if r["acase"] and not r["pred"]]
    mism = amism = {}
    dom = adom = 0
    if ok_cases:
        mism = vlib.eval_mismatches("C18", HEADER, [r["icase"] for _, _, r in irecs], case_type="icase", shard=60) if irecs else {}
        amism = vlib.eval_mismatches("C18a", HEADER, [r["acase"] for _, _, r in arecs], fn="amismatches", case_type="acase", shard=150) if arecs else {}
    if not chk.violations:
        for i in sorted(mism):
            ci, si, r = irecs[i]
            chk.violation("correspondence between the image model and the code broke (%s)" % "; ".join(ERR[e] for e in mism[i]),
                          dict(U.slim_case(cases[ci]), failing_statement=si, model_disagreements=[ERR[e] for e in mism[i]],
                               correspondence="At/ImageCases.v check_icase"), False)
            break
        for i in sorted(amism):
            ci, si, r = arecs[i]
            chk.violation("argument selection differs from the model over the regenerated table (%s)" % ERR[21],
                          dict(U.slim_case(cases[ci]), failing_statement=si, correspondence="At/ImageCases.v check_acase"), False)
            break
    if not pr["ok"] and not chk.violations:
        chk.violation("a proof obligation of C18 no longer checks (the regenerated traverse table or the model changed)",
                      {"theorem": PROP_FILE, "coq_output": pr["out"][-1500:]}, False)
    # ---- findings: committed replays must still fail
    if only is None:
        for f in findings:
            rc = json.load(open(os.path.join(vlib.VERIF, f["replay"])))["cases"]
            rr = U.replay_atp(chk, rc, tag=f["id"])
            bad = [r for c in rr for sm in c["meta"]["stmts"] for r in [analyze_stmt(c, sm)] if r["oracle"] and r["pred"] == f["pred"]]
            if bad:
                chk.known("%s :: %s" % (f["id"], f["what"]))
            else:
                print("STALE-FINDING: property=C18 %s no longer reproduces" % f["id"])
                chk.notes.append("stale finding " + f["id"])
    clean = [(ci, si, r) for ci, si, r in recs if not r["pred"]]
    dist = {}
    for ci, si, r in recs:
        k = "%s.%s.%s" % (cases[ci]["meta"]["stream"].split(":")[0], r["kind"], r["class"])
        dist[k] = dist.get(k, 0) + 1
        dist["table." + cases[ci]["meta"]["table"]] = dist.get("table." + cases[ci]["meta"]["table"], 0) + 1
    nontriv = [(ci, si, r) for ci, si, r in clean if r["matched"] > 0]
    chk.coverage.update({
        "trusted_base": TRUSTED,
        "evaluations": len(irecs) + len(arecs),
        "distinct_nontrivial": vlib.distinct([r["icase"] for _, _, r in nontriv if r["icase"]]),
        "rule": "%d scenarios (clean + malformed + finding streams) of 1-4 autocommit DML statements inside a global transaction over 4 schemas "
                "(auto-increment, string key, composite key, plain integer key, composite key declared out of column order, auto-increment key ID + secondary "
                "unique index for upserts; mixed-case column names), both settings of only-care-update-columns; "
                "WHERE from comparison/AND/OR/NOT/IN/BETWEEN/IS NULL/LIKE/parentheses/unary minus, ORDER BY + LIMIT, parameters or literals "
                "anywhere; multi-row VALUES mixing literals, parameters, NULL, DEFAULT; key-changing updates, duplicate keys, unknown columns, "
                "surplus arguments in the malformed stream; non-trivial = at least one row matched/inserted; distinct by the model case term"
                % len(cases),
        "statements": len(recs),
        "statement_cases_in_coq": len(irecs), "argument_cases_in_coq": len(arecs),
        "traces_validated_against_impl": len(irecs) - len(mism) + len(arecs) - len(amism),
        "oracle_failures_outside_findings": sum(1 for _, _, r in recs if unexplained(r, preds)),
        "finding_stream_statements": sum(1 for _, _, r in recs if r["pred"]),
        "input_distribution": dist,
        "harness_seconds": round(secs, 2),
        "samples": [U.slim_case(cases[ci])["scenario"]["steps"][0]["steps"][int(cases[ci]["meta"]["stmts"][si]["path"].split(".")[1])] for ci, si, _ in nontriv[3:6]],
    })
    chk.assumptions += [
        "the database checks key uniqueness row by row in scan order (MySQL; fakedb does the same) - used by C18_pk_reject",
        "column types limited to integers, strings and NULL (other types: C08)",
        "'exactly the rows it changed' is read as: image keys = rows matched by WHERE/ORDER/LIMIT (a matched row updated to the same value is recorded), changed rows are a subset",
        "auto_increment_increment = 1 (the model's generated keys are consecutive; the Go code multiplies by the variable's value)",
        "string literals or function calls around parameters in WHERE are probe streams (refused statements), not part of the clean stream",
    ]
    return chk.finish()


def replay(chk, path):
    r = json.load(open(path))
    if "scenario" in r and "meta" in r:
        return run(chk, only=[r])
    if "cases" in r:
        return run(chk, only=r["cases"])
    print("replay names a proof obligation, not a scenario: " + json.dumps(r)[:300])
    return run(chk)
