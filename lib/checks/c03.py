"""C03 — global lock keys cover every written row; locking reads consult the coordinator."""
import json, os
import vlib
import atp_util as U
from vlib import coq_list, coq_bool, coq_hex

MANIFEST = {
    "text": "Coq theorems: C03_cover (for ALL local transactions = lists of row-level update/delete/insert statements over the C18 kernel: "
            "every row whose content differs across the local commit is named by the lock keys of one of its statements), C03_canonical (key "
            "text is a function of table and key values whatever the image's column order / repeated key columns; the shipped pre-repair "
            "builder is refuted: C03_canonical_refuted_legacy; C03_canonical_sfu: the locking read's own builder gives the same text), C03_parse (coordinator's parse of the joined text = the keys, for values "
            "without , _ ; :  -- integers always; C03_parse_refuted: ambiguity witnesses with separators), C03_sfu (rows handed out only after a "
            "lockable answer covering exactly their keys; conflict => Err and ROLLBACK TO), C03_isolation (any schedule of local commits of any "
            "number of global transactions, coordinator grants a key to one xid at a time, keys cover writes => written row sets disjoint; "
            "C03_isolation_needs_cover). Tie: BranchRegisterRequest.LockKey / GlobalLockQueryRequest.LockKey as received by tcstub vs the text "
            "the model builds from the decoded image, and the coordinator-side parse vs the row diff of the dumps across each local COMMIT, "
            "inside Coq (vm_compute); select-for-update journals vs the model; nested RequiresNew global transactions on overlapping rows.",
    "note": "Trusted: Coq kernel + vm_compute, no axioms; fakedb/tcstub (lock table with Seata semantics)/atrun; lib/checks/c03.py projection. "
            "Statement-level cover on the real code is inherited from C18 (images exact) + the text tie here.",
    "technique": "Coq proof (induction over statement lists / schedules, invariants, string lemmas) + differential correspondence (vm_compute) + direct oracle",
}
PROP_FILE = "Props/P_C03.v"
REQ = "From SeataV Require Import Props.P_C03."
TRUSTED = vlib.TRUSTED_COMMON + [
    "harness/fakedb, harness/tcstub (lock table: a key is owned by one xid until its global transaction ends), harness/atrun",
    "harness/atp generators (DML scenarios shared with C18, select-for-update with seeded foreign locks, nested RequiresNew transactions)",
    "lib/checks/c03.py: projection of images / journals to model terms, parse of observed key texts by column kind",
]
HEADER = """From Coq Require Import List NArith ZArith Bool.
From Coq.Strings Require Import Byte.
From SeataV Require Import Base.Bytes At.Db At.Image At.LockKey At.Lock At.LockCases.
Import ListNotations. Open Scope nat_scope.
"""
ERR = {36: "lock key text of the locking read's own builder differs from the model's text for the same keys",
       35: "the register text of a multi-statement local transaction is not the set of the statements' key texts",
       31: "lock key text sent to the coordinator differs from the model's text of the recorded image",
       32: "a row changed by the local transaction is not named by the lock keys sent (cover)",
       33: "select-for-update journal (savepoint, key query, business query, lock query, rollback-to) differs from the model's",
       34: "rows handed out by select-for-update differ from the model's"}


def tc_events(tr, lo, hi, kind):
    return [e["tc"] for e in tr["journal"] if e["src"] == "tc" and lo < e["seq"] <= hi and e["tc"]["kind"] == kind]


def irow_term(cells):
    return coq_list(["(%d, %s)" % (i, U.coq_value(v)) for i, v in cells])


def parse_key_text(text, kinds):
    """coordinator-side parse of 'T:1_x,2_y' into canonical keys by column kind"""
    out = []
    if ":" not in text:
        return out
    rows = text.rstrip(";").split(":", 1)[1]
    for r in [x for x in rows.split(",") if x != ""]:
        vals = r.split("_")
        out.append(tuple(typed(("s", v.encode().hex()), k) for v, k in zip(vals, kinds)))
    return out


def analyze_dml(case, sm):
    meta, tr = case["meta"], case["trace"]
    pk, table = meta["pk"], meta["table"]
    names = [c["name"] for c in meta["cols"]]
    st = U.step_at(tr, sm["path"])
    res = {"oracle": [], "lcase": None, "pred": sm.get("pred") or "", "kind": sm["kind"], "class": st["class"], "sent": 0, "texts": []}
    d0 = U.dump_table(U.step_at(tr, sm["dump_pre"]), table)
    d1 = U.dump_table(U.step_at(tr, sm["dump_post"]), table)
    k0, k1 = dict(U.keyed(d0, pk)), dict(U.keyed(d1, pk))
    changed = [k for k in k0 if k1.get(k) != k0[k]] + [k for k in k1 if k not in k0]
    regs = tc_events(tr, st["seq_from"], st["seq_to"], "BranchRegister")
    granted = [r for r in regs if r["outcome"] == "ok"]
    kinds = [meta["cols"][i]["kind"] for i in pk]
    res["sep_key"] = any(v[0] == "s" and any(ch in bytes.fromhex(v[1]).decode("utf-8", "replace") for ch in ",_;:") for k in changed for v in k)
    sent = [k for r in granted for k in parse_key_text(r.get("lock_key") or "", kinds)]
    res["sent"] = len(sent)
    for k in changed:
        if k not in sent:
            res["oracle"].append("row %s was written by the local transaction but no lock key sent names it (sent %s)" % (str(k), [r.get("lock_key") for r in granted]))
    if st["class"] != "ok" and changed:
        res["oracle"].append("a failed statement changed rows")
    # the image the key was built from: before image (update/delete), after image (insert), of this statement's undo record
    if st["class"] == "ok" and granted:
        prev = set()
        for s in U.steps_flat(tr["steps"]):
            if s["path"] == sm["path"]:
                break
            if s["op"] != "gtx":
                prev |= {u["branch_id"] for u in s.get("undo") or []}
        new = [u for u in st.get("undo") or [] if u["branch_id"] not in prev]
        items = [it for u in new for it in u.get("items") or []]
        if items:
            img = items[0]["after"] if sm["kind"] in ("insert", "upsert") else items[0]["before"]
            idx = {n.lower(): i for i, n in enumerate(names)}
            rows = [[(idx[c["name"].lower()], U.canon_tv(c["value"])) for c in row if c["name"].lower() in idx] for row in (img or {}).get("rows") or []]
            rt = row_texts(granted[0].get("lock_key") or "")
            ikeys = [tuple(typed(dict(r).get(i, ("n",)), kinds[n]) for n, i in enumerate(pk)) for r in rows]
            if len(rt) == len(ikeys):
                res["texts"] += list(zip(ikeys, rt))
            res["lcase"] = "{| l_table := %s; l_pk := %s; l_rows := %s; l_changed := %s; l_obs := %s |}" % (
                coq_hex(table.upper().encode().hex()), coq_list(map(str, pk)), coq_list([irow_term(r) for r in rows]),
                coq_list([U.coq_vals(list(k)) for k in changed]), coq_hex((granted[0].get("lock_key") or "").encode().hex()))
    return res


def analyze_sfu(case, sm):
    meta, tr = case["meta"], case["trace"]
    pk = meta["pk"]
    kinds = [meta["cols"][i]["kind"] for i in pk]
    st = U.step_at(tr, sm["path"])
    ms = U.step_at(tr, sm["match_path"])
    res = {"oracle": [], "scase": None, "pred": sm.get("pred") or "", "class": st["class"], "texts": []}
    qtext = None
    matched = [tuple(typed(U.canon_tv(v), kd) for v, kd in zip(row, kinds)) for row in ms.get("rows") or []]
    evs, lockable = [], True
    for e in U.db_events(tr, st["seq_from"], st["seq_to"]):
        if e["src"] == "db":
            sql = (e["db"].get("sql") or "").strip().lower()
            if sql.startswith("savepoint"):
                evs.append("SSavepoint")
            elif sql.startswith("rollback to"):
                evs.append("SRollbackTo")
            elif "sql_no_cache" in sql and "for update" in sql:
                evs.append("SKeyQuery %s" % coq_list([U.coq_vals(list(k)) for k in matched]))
            elif sql.startswith("select") and "for update" in sql:
                evs.append("SBusiness")
        elif e["tc"]["kind"] == "GlobalLockQuery":
            lockable = e["tc"]["outcome"] == "ok"
            ks = parse_key_text(e["tc"].get("lock_key") or "", kinds)
            evs.append("SLockQuery %s %s" % (coq_list([U.coq_vals(list(k)) for k in ks]), coq_bool(lockable)))
            qtext = e["tc"].get("lock_key") or ""
            rt = row_texts(qtext)
            if len(rt) == len(matched):
                res["texts"] += list(zip(matched, rt))
            if sorted(ks) != sorted(matched):
                res["oracle"].append("lock query names %s, the locking read matched %s" % (ks, matched))
    if (meta.get("extra") or {}).get("wrote_first"):
        # the same rows were written before the locking read: the text their branch registration carries
        for e in tr["journal"]:
            if e["src"] == "tc" and e["tc"]["kind"] == "BranchRegister" and e["seq"] > st["seq_to"]:
                for piece in [x for x in (e["tc"].get("lock_key") or "").split(";") if x]:
                    rt = row_texts(piece)
                    if len(rt) == len(matched):
                        res["texts"] += list(zip(matched, rt))
    got = None
    if st["class"] == "ok":
        got = [tuple(typed(U.canon_tv(row[i]), meta["cols"][i]["kind"]) for i in pk) for row in st.get("rows") or []]
        if not any(x.startswith("SLockQuery") and x.endswith("true") for x in evs):
            res["oracle"].append("rows handed out without a lockable answer from the coordinator")
        if sorted(got) != sorted(matched):
            res["oracle"].append("rows handed out %s differ from the rows matched %s" % (got, matched))
    else:
        if lockable:
            res["oracle"].append("select-for-update failed without a lock conflict (%s)" % st.get("err_class"))
        if "SRollbackTo" not in evs:
            res["oracle"].append("lock conflict but no ROLLBACK TO SAVEPOINT / ROLLBACK was issued: local row locks stay")
        ex = meta.get("extra") or {}
        if ex.get("locks_pre") and not ex.get("wrote_first"):
            pre = set(U.step_at(tr, ex["locks_pre"]).get("locks") or [])
            post = set(U.step_at(tr, ex["locks_post"]).get("locks") or [])
            if post - pre:
                res["oracle"].append("the refused locking read still holds the row locks it took: %s" % sorted(post - pre))
    res["scase"] = "{| s_matched := %s; s_lockable := %s; s_journal := %s; s_rows := %s; s_table := %s; s_pk := %s; s_text := %s |}" % (
        coq_list([U.coq_vals(list(k)) for k in matched]), coq_bool(lockable), coq_list(evs),
        "None" if got is None else "Some %s" % coq_list([U.coq_vals(list(k)) for k in got]),
        coq_hex(meta["table"].upper().encode().hex()), coq_list(map(str, pk)),
        "None" if qtext is None or (meta.get("extra") or {}).get("ordered") else "Some " + coq_hex(qtext.encode().hex()))
    return res


def analyze_sfubad(case, sm):
    """a locking read the executor cannot describe: refused, or consulted - never passed to the database un-consulted"""
    tr = case["trace"]
    st = U.step_at(tr, sm["path"])
    out = []
    passed = [e["db"]["sql"] for e in U.db_events(tr, st["seq_from"], st["seq_to"]) if e["src"] == "db"
              and e["db"]["kind"] in ("QUERY", "STMT_QUERY", "EXEC") and "for update" in (e["db"].get("sql") or "").lower()]
    asked = tc_events(tr, st["seq_from"], st["seq_to"], "GlobalLockQuery")
    if st["class"] == "panic":
        out.append("the locking read panicked instead of being refused")
    if passed and not asked:
        out.append("a FOR UPDATE statement reached the database inside a global transaction without the coordinator being asked: %s" % passed[0][:120])
    if st["class"] == "ok" and not any(a["outcome"] == "ok" for a in asked):
        out.append("a locking read returned inside a global transaction without a lockable answer from the coordinator")
    return {"oracle": out, "pred": "", "texts": []}


def analyze_tx(case):
    """one explicit local transaction of several statements: cover over the whole row diff, register text vs the images"""
    meta, tr = case["meta"], case["trace"]
    ex, pk, table = meta["extra"], meta["pk"], meta["table"]
    names = [c["name"] for c in meta["cols"]]
    kinds = [meta["cols"][i]["kind"] for i in pk]
    res = {"oracle": [], "tcase": None}
    d0 = U.dump_table(U.step_at(tr, ex["dump_pre"]), table)
    d1 = U.dump_table(U.step_at(tr, ex["dump_post"]), table)
    k0, k1 = dict(U.keyed(d0, pk)), dict(U.keyed(d1, pk))
    changed = [k for k in k0 if k1.get(k) != k0[k]] + [k for k in k1 if k not in k0]
    cm = U.step_at(tr, ex["commit_path"])
    regs = tc_events(tr, cm["seq_from"], cm["seq_to"], "BranchRegister")
    granted = [r for r in regs if r["outcome"] == "ok"]
    sent = [k for r in granted for k in parse_key_text_multi(r.get("lock_key") or "", kinds)]
    if cm["class"] != "ok" and changed:
        res["oracle"].append("the local commit failed but rows changed")
    for k in changed:
        if k not in sent:
            res["oracle"].append("row %s was written by the local transaction but no lock key sent names it (sent %s)" % (str(k), [r.get("lock_key") for r in granted]))
    if cm["class"] == "ok" and granted:
        new = cm.get("undo") or []
        items = [it for u in new if u["branch_id"] == granted[0]["branch_id"] for it in u.get("items") or []]
        idx = {n.lower(): i for i, n in enumerate(names)}
        images = []
        for it in items:
            img = it["after"] if it["sql_type"] == 1 else it["before"]
            images.append([[(idx[c["name"].lower()], U.canon_tv(c["value"])) for c in row if c["name"].lower() in idx] for row in (img or {}).get("rows") or []])
        res["tcase"] = "{| t_table := %s; t_pk := %s; t_images := %s; t_changed := %s; t_obs := %s |}" % (
            coq_hex(table.upper().encode().hex()), coq_list(map(str, pk)), coq_list([coq_list([irow_term(r) for r in im]) for im in images]),
            coq_list([U.coq_vals(list(k)) for k in changed]), coq_hex((granted[0].get("lock_key") or "").encode().hex()))
    return res


def parse_key_text_multi(text, kinds):
    out = []
    for piece in [p for p in text.split(";") if p]:
        out += parse_key_text(piece, kinds)
    return out


def typed(c, kind):
    if kind in ("int", "num") and c[0] == "s":
        try:
            t = bytes.fromhex(c[1]).decode()
            return ("i", int(t)) if kind == "int" else ("f", float(t))
        except ValueError:
            return c
    if kind == "num" and c[0] == "i":
        return ("f", float(c[1]))
    return c


def row_texts(text):
    """the row pieces of one 'T:r1,r2' text, each with its table prefix ('T:r1', 'T:r2')"""
    if ":" not in text:
        return []
    t, rows = text.rstrip(";").split(":", 1)
    return [t + ":" + x for x in rows.split(",") if x != ""]


def analyze_iso(case):
    """two global transactions open at once: rows written by their locally committed statements must be disjoint"""
    tr, out = case["trace"], []
    written = {}
    def walk(steps, xid):
        prev = None
        for s in steps:
            if s["op"] == "gtx":
                walk(s.get("sub") or [], s.get("xid") or xid)
                prev = None
            elif s["op"] == "dump":
                prev_rows = prev
                cur = {tuple(r[:1]): r for r in U.dump_table(s, "t_kv")}
                if prev_rows is not None and walk.last_exec is not None:
                    ch = [k for k in set(prev_rows) | set(cur) if prev_rows.get(k) != cur.get(k)]
                    written.setdefault(walk.last_xid, set()).update(ch)
                prev = cur
                walk.last_exec = None
            elif s["op"] == "exec":
                walk.last_exec, walk.last_xid = s, xid
    walk.last_exec, walk.last_xid = None, None
    walk(tr["steps"], "")
    xs = list(written)
    for i in range(len(xs)):
        for j in range(i + 1, len(xs)):
            both = written[xs[i]] & written[xs[j]]
            if both:
                out.append("rows %s were written by two open global transactions %s and %s" % (sorted(map(str, both)), xs[i], xs[j]))
    return out, sum(len(v) for v in written.values())


def run(chk, only=None):
    pr = vlib.proof_step(chk, PROP_FILE, REQ)
    ok_cases, out_cases = vlib.coq_make(["At/LockCases.vo"])
    if not ok_cases:
        raise vlib.Broken("At/LockCases.v does not compile:\n" + out_cases[-1500:])
    secs = 0.0
    if only is None:
        sz = dict(n=400, m=60, f=6) if chk.tier == "quick" else dict(n=6000, m=900, f=60)
        cases, secs = U.run_atp(chk, prop="c03", seed=chk.seed, **sz)
    else:
        cases = U.replay_atp(chk, only)
    findings = vlib.known_findings("C03")
    preds = {f["pred"] for f in findings}
    c18_preds = {f["pred"] for f in vlib.known_findings("C18")}
    lrecs, srecs, trecs, nfail, niso, nwritten = [], [], [], 0, 0, 0
    seen = set()

    def flag(c, o, extra):
        nonlocal nfail
        nfail += 1
        if o[0][:45] in seen:
            return
        seen.add(o[0][:45])
        chk.violation("C03 fails on the real code: " + "; ".join(o[:3]), dict(U.slim_case(c), oracle=o[:6], **extra), True)

    for ci, c in enumerate(cases):
        if c["trace"].get("setup_err"):
            raise vlib.Broken("scenario setup failed: " + c["trace"]["setup_err"])
        shape = (c["meta"].get("extra") or {}).get("shape")
        if shape == "iso":
            o, w = analyze_iso(c)
            niso += 1
            nwritten += w
            if o:
                flag(c, o, {})
            continue
        if shape == "tx":
            r = analyze_tx(c)
            if r["oracle"]:
                flag(c, r["oracle"], {})
            if r["tcase"]:
                trecs.append((ci, 0, r))
            continue
        key_texts = {}
        for si, sm in enumerate(c["meta"]["stmts"] or []):
            r = analyze_sfu(c, sm) if sm["kind"] == "sfu" else analyze_sfubad(c, sm) if sm["kind"] == "sfubad" else analyze_dml(c, sm)
            if not r["pred"]:
                for k, t in r.get("texts") or []:
                    key_texts.setdefault(k, set()).add(t)
                two = sorted((str(k), sorted(ts)) for k, ts in key_texts.items() if len(ts) > 1)
                if two and not r["oracle"]:
                    r["oracle"].append("the same row got different lock key texts from different statement forms: %s" % two[:3])
                    key_texts = {}
            bad = r["oracle"]
            if r["pred"] and (r["pred"] in preds or r["pred"] in c18_preds):
                # a listed finding explains exactly one kind of failure: a written row no lock key names (or the C18 panic)
                bad = [m for m in r["oracle"] if not ("no lock key sent names it" in m or m.startswith("the statement panicked"))]
                if r["pred"] == "lockkey.separator" and not r.get("sep_key"):
                    bad = r["oracle"]      # the region is: a written row whose string key holds one of , _ ; :
            if bad:
                flag(c, bad, {"failing_statement": si})
            if r.get("lcase") and not r["pred"]:
                lrecs.append((ci, si, r))
            if r.get("scase") and not r["pred"]:
                srecs.append((ci, si, r))
    mism = vlib.eval_mismatches("C03", HEADER, [r["lcase"] for _, _, r in lrecs], case_type="lcase", shard=120) if lrecs else {}
    smism = vlib.eval_mismatches("C03s", HEADER, [r["scase"] for _, _, r in srecs], fn="smismatches", case_type="scase", shard=200) if srecs else {}
    tmism = vlib.eval_mismatches("C03t", HEADER, [r["tcase"] for _, _, r in trecs], fn="tmismatches", case_type="tcase", shard=120) if trecs else {}
    if not chk.violations:
        for recs, mm in ((lrecs, mism), (srecs, smism), (trecs, tmism)):
            for i in sorted(mm):
                ci, si, r = recs[i]
                chk.violation("correspondence between the lock-key model and the code broke (%s)" % "; ".join(ERR[e] for e in mm[i]),
                              dict(U.slim_case(cases[ci]), failing_statement=si, model_disagreements=[ERR[e] for e in mm[i]],
                                   correspondence="At/LockCases.v"), False)
                break
    if not pr["ok"] and not chk.violations:
        chk.violation("a proof obligation of C03 no longer checks", {"theorem": PROP_FILE, "coq_output": pr["out"][-1500:]}, False)
    if only is None:
        for f in findings:
            rc = json.load(open(os.path.join(vlib.VERIF, f["replay"])))["cases"]
            rr = U.replay_atp(chk, rc, tag=f["id"])
            bad = [1 for c in rr for sm in c["meta"]["stmts"] if sm["kind"] != "sfu" and analyze_dml(c, sm)["oracle"]]
            if bad:
                chk.known("%s :: %s" % (f["id"], f["what"]))
            else:
                print("STALE-FINDING: property=C03 %s no longer reproduces" % f["id"])
                chk.notes.append("stale finding " + f["id"])
    dist = {}
    for c in cases:
        k = (c["meta"].get("extra") or {}).get("shape") or "dml"
        dist["shape." + k] = dist.get("shape." + k, 0) + 1
        dist["table." + c["meta"]["table"]] = dist.get("table." + c["meta"]["table"], 0) + 1
    chk.coverage.update({
        "trusted_base": TRUSTED,
        "evaluations": len(lrecs) + len(srecs) + len(trecs) + niso,
        "multi_statement_transactions_in_coq": len(trecs),
        "distinct_nontrivial": vlib.distinct([r["lcase"] for _, _, r in lrecs if r["sent"] > 0] + [r["scase"] for _, _, r in srecs]),
        "rule": "%d scenarios: DML statements of the C18 generator over 5 schemas (auto-increment, string key, composite key, integer key, composite key "
                "declared in another order than the columns) with shuffled INSERT column lists, select-for-update (autocommit / inside an explicit "
                "transaction, with and without a foreign lock seeded at the coordinator, 0..n rows), explicit local transactions of 2-5 writes (and a write followed by a locking read of the same rows) with key pools "
                "rich in prefix pairs (1/10/100, a/ab/abc), two global transactions (RequiresNew inside an open one) writing overlapping integer keys; non-trivial = a lock key naming >= 1 row was sent" % len(cases),
        "lock_key_cases_in_coq": len(lrecs), "sfu_cases_in_coq": len(srecs), "two_transaction_scenarios": niso,
        "rows_written_in_two_transaction_scenarios": nwritten,
        "traces_validated_against_impl": len(lrecs) - len(mism) + len(srecs) - len(smism) + len(trecs) - len(tmism),
        "oracle_failures_outside_findings": nfail,
        "input_distribution": dist,
        "harness_seconds": round(secs, 2),
        "samples": [r["lcase"][:400] for _, _, r in lrecs[7:9]],
    })
    chk.assumptions += [
        "key values free of the separators , _ ; : (hypothesis item_ok of C03_parse; integer keys satisfy it by theorem); separator-bearing string keys are the listed finding",
        "statement-level exactness of the images on the real code is C18's tie; here the text built from the recorded image and the coordinator-side parse are compared",
        "interleavings on the real code: sequential (an inner RequiresNew transaction runs while the outer one is open); all interleavings are covered by the theorem only",
        "lock retry (retry on errors other than a conflict) and lock release timing are not modelled",
    ]
    return chk.finish()


def replay(chk, path):
    r = json.load(open(path))
    if "scenario" in r and "meta" in r:
        return run(chk, only=[r])
    if "cases" in r:
        return run(chk, only=r["cases"])
    print("replay names a proof obligation, not a scenario: " + json.dumps(r)[:300])
    return run(chk)
