"""C11 — phase-two commit deletes exactly the committed branch's undo log, eventually."""
import json, os
import vlib

MANIFEST = {
    "text": "Coq theorems over an executable model of the AT async commit worker (bounded receive queue, run's buffer with "
            "ticker/threshold flush, blocking fan-out, worker jobs with per-group connection and per-pair DELETE, re-queueing): "
            "C11_answer (answered Committed <=> queued; a call whose context is done is refused, not queued), C11_precise, C11_no_loss (multiset invariant accepted = deleted + pending + skipped-empty-resource, by "
            "induction over ALL event lists, fault outcomes and settings), C11_eventual (constructive: work(s) fault-free "
            "scheduler steps drain every reachable state whose pending items fit the receive queue), and the refutation of the "
            "unconditional version (circular wait run<->worker under small buffers, finding worker.small-buffers). The model is "
            "tied to the code on every run by driving the REAL AsyncWorker (through ATSourceManager.BranchCommit) on a stateful "
            "fake database/sql driver with injected Connect/DELETE faults and late/never registered resources; the observed trace "
            "is replayed against the model's specification state and the final table / pending set are compared with the model's "
            "own run, inside Coq (vm_compute); a direct oracle on the real run reports lost rows, foreign deletions, wrong answers.",
    "note": "Trusted: Coq kernel + vm_compute, no axioms; harness workerrun (fake driver, trace recorder) and this driver's case "
            "printer. Liveness on the implementation is sampled with a wall-clock bound (200 worker intervals + slack). Calls whose "
            "context is done are modelled (event Refuse) and generated; rows inserted concurrently are outside the model.",
    "technique": "Coq proof (invariant by induction over event lists, ranking function for liveness) + differential "
                 "correspondence of the model with the real worker (vm_compute) + direct oracle",
}
PROP_FILE = "Props/P_C11.v"
TRUSTED = vlib.TRUSTED_COMMON + [
    "harness workerrun: fake database/sql driver holding undo_log per resource (DELETE ... WHERE branch_id/xid IN/= ...), "
    "fault injection, trace recorder, goroutine-dump classification of a circular wait",
    "lib/checks/c11.py: printer of observed runs as Coq terms; finding predicate worker.small-buffers",
]
ERR = {1: "a BranchCommit call was answered neither PhasetwoCommitted (without error) nor refused (failure status with an error)",
       11: "a refusal of a request that was not submitted",
       2: "a DELETE for an (xid, branch) pair that no pending request has",
       3: "final undo_log table differs from the model's",
       4: "the set of requests still pending differs from the model's",
       5: "Connect/DELETE on an unregistered resource or without a pending request for it",
       6: "a DELETE removed other rows than those equal to its (xid, branch) pair",
       7: "a DELETE that is not a single (xid, branch) pair (the model deletes pair by pair)",
       8: "final table differs from the replayed trace (harness inconsistency)",
       9: "a statement the undo-log manager does not have",
       10: "the model's own answers are not all Committed"}
PROPERTY_CODES = (1, 2, 6, 7, 9, 11)

HEADER = """From Coq Require Import List NArith Bool Arith.
From SeataV Require Import At.Worker At.WorkerCases.
Import ListNotations. Open Scope N_scope.
"""
KNOWN_SCEN = os.path.join(vlib.VERIF, "replays", "known", "C11-small-buffers.json")


def nat(v):
    return "(N.to_nat %d)" % v


def item(it):
    return "(mkItem %d %d %d)" % (it["x"], it["b"], it["r"])


def items(l):
    return vlib.coq_list([item(x) for x in (l or [])])


def requeue_source(sc):
    """something can be re-queued: a fault pattern with a failure, or a resource that is not registered at start"""
    used = {q["r"] for q in sc["reqs"]}
    for r in range(1, sc["nres"] + 1):
        if r in used and sc["res_mode"][r] != 0:
            return True
        if any(sc["conn_pat"][r] or []) or any(sc["del_pat"][r] or []):
            return True
    return False


def in_finding_pred(sc):
    """worker.small-buffers: receive queue smaller than the number of requests while something re-queues"""
    return sc["cfg"]["recv_size"] < len(sc["reqs"]) and requeue_source(sc)


def case_term(res, cmp_sim):
    sc = res["scen"]
    cfg = sc["cfg"]
    reqs = sc["reqs"]
    trace = []
    order = []
    ans = {a["i"]: a for a in res["answers"]}

    def accepted(a):
        return a["returned"] and a["st"] == 5 and not a["err"]

    def refused(a):
        return a["returned"] and a["st"] != 5 and bool(a["err"])
    for e in res["trace"]:
        k = e["k"]
        if k == "S":
            i = e.get("i", 0)
            order.append(i)
            trace.append("OSubmit " + item(reqs[i]))
        elif k == "A":
            i = e.get("i", 0)
            if refused(ans[i]):
                trace.append("ORefused " + item(reqs[i]))
        elif k == "R":
            trace.append("OAppear %d" % e["r"])
        elif k == "C":
            trace.append("OConn %d %s" % (e["r"], vlib.coq_bool(e.get("ok", False))))
        elif k == "P":
            trace.append("OPrepFail %d" % e["r"])
        elif k == "U":
            trace.append("OUnknownStmt %d" % e["r"])
        elif k == "D":
            single = e.get("x", 0) >= 1
            trace.append("ODelete %d %d %d %s %s %s" % (e["r"], max(e.get("x", 0), 0), max(e.get("b", 0), 0),
                                                       vlib.coq_bool(single), vlib.coq_bool(e.get("ok", False)),
                                                       items(e.get("rm"))))
    npat = sum(len(p or []) for p in sc["conn_pat"]) + sum(len(p or []) for p in sc["del_pat"])
    fuel = 12 * (len(reqs) + 4) * (npat + 4)
    script = ["SAcc " + item(reqs[i]) for i in order if accepted(ans[i])]
    script += ["SRef " + item(reqs[i]) for i in order if ans[i]["returned"] and not accepted(ans[i])]
    script += ["SAuto " + nat(fuel // 2)]
    script += ["SApp %d" % r for r in range(1, sc["nres"] + 1) if sc["res_mode"][r] == 1]
    script += ["SAuto " + nat(fuel)]
    k0 = [str(r) for r in range(1, sc["nres"] + 1) if sc["res_mode"][r] == 0]

    def pats(p):
        return vlib.coq_list(["(%d, %s)" % (r, vlib.coq_list([vlib.coq_bool(v != 0) for v in (p[r] or [])]))
                              for r in range(1, sc["nres"] + 1)])
    status = ["(%d, %s)" % (a["st"], vlib.coq_bool(bool(a["err"]))) for a in res["answers"] if a["returned"]]
    return ("(mkCase (mkCfg %s %s %s %s) %s %s %s %s %s %s %s %s %s)" % (
        nat(cfg["recv_size"]), nat(cfg["buffer_limit"]), nat(cfg["fan_buf"]), nat(cfg["workers"]),
        items(sc["rows"]), vlib.coq_list(k0), pats(sc["conn_pat"]), pats(sc["del_pat"]),
        vlib.coq_list(script), vlib.coq_bool(cmp_sim), vlib.coq_list(trace), items(res["final"]),
        vlib.coq_list(status)), fuel)


def slim(res):
    return {"scenario": res["scen"], "answers": res["answers"], "final": res["final"], "expected": res["expected"],
            "quiescent": res["quiescent"], "lost": res["lost"], "imprecise": res["imprecise"],
            "not_committed": res["not_committed"], "run_blocked": res["run_blocked"],
            "worker_blocked": res["worker_blocked"], "trace": res["trace"][:400]}


def analyse(chk, results, label=""):
    """direct oracle + Coq correspondence on observed runs; returns stats"""
    terms, cmp_flags, steps = [], [], 0
    for res in results:
        pred = in_finding_pred(res["scen"])
        cmp_sim = not pred and res["quiescent"]
        t, fuel = case_term(res, cmp_sim)
        steps += fuel if cmp_sim else 0
        terms.append(t)
        cmp_flags.append(cmp_sim)
    mism = vlib.eval_mismatches("C11", HEADER, terms, fn="mismatches", case_type="wcase",
                                shard=25 if chk.tier == "quick" else 60) if terms else {}
    known_hits, n_viol, corr_fail = 0, 0, 0
    findings = vlib.known_findings("C11")
    have_finding = any(f.get("id") == "worker.small-buffers" for f in findings)
    for i, res in enumerate(results):
        sc = res["scen"]
        pred = in_finding_pred(sc)
        codes = sorted(set(mism.get(i, [])))
        deadlock = (not res["quiescent"]) and res["run_blocked"] and res["worker_blocked"]
        excused = pred and deadlock and have_finding
        if excused:
            known_hits += 1
        what = []
        answers = res["answers"]
        bad_answer = [a["i"] for a in answers if a["returned"] and not (a["st"] == 5 and not a["err"])
                      and not (a["st"] != 5 and a["err"])]
        unreturned = [a["i"] for a in answers if not a["returned"]]
        if bad_answer:
            what.append("request(s) %s answered neither PhasetwoCommitted nor refused (failure status with an error)" % bad_answer[:5])
        if unreturned and not excused:
            what.append("BranchCommit call(s) %s never returned" % unreturned[:5])
        if res["imprecise"]:
            what.append("undo_log rows deleted that no request named: %s" % res["imprecise"][:3])
        if res["unknown_statements"]:
            what.append("%d statement(s) that are not an undo-log DELETE" % res["unknown_statements"])
        if res["lost"] and not excused:
            what.append("accepted commits whose undo_log rows are still present after %d ms (%d intervals of %d ms): %s"
                        % (res["waited_ms"], res["waited_ms"] // max(sc["cfg"]["interval_ms"], 1),
                           sc["cfg"]["interval_ms"], res["lost"][:3]))
        elif not res["quiescent"] and not excused and not res["lost"]:
            what.append("an accepted commit never got its successful DELETE within the bound (request lost; it names no row, or the final table differs from the expected one)")
        pcodes = [c for c in codes if c in PROPERTY_CODES]
        if pcodes and not what:
            what.append("; ".join(ERR[c] for c in pcodes))
        if what:
            n_viol += 1
            tag = ("minimised from scenario %d, " % (sc["min_of"] - 1)) if sc.get("min_of") else ""
            chk.violation("%sscenario %s (%s%s): %s" % (label, sc["id"], tag, sc["class"], "; ".join(what)),
                          dict(slim(res), model_disagreements=[ERR[c] for c in codes]), True)
        elif codes:
            corr_fail += 1
            chk.violation("%scorrespondence between the worker model and the code broke on scenario %s: %s"
                          % (label, sc["id"], "; ".join(ERR[c] for c in codes)),
                          dict(slim(res), model_disagreements=[ERR[c] for c in codes],
                               correspondence="At/WorkerCases.v check_case"), False)
    return {"known_hits": known_hits, "violating": n_viol, "corr_fail": corr_fail,
            "cmp_sim": sum(cmp_flags), "model_steps": steps}


def run(chk, scen_file=None, repeat=1):
    quick = chk.tier == "quick"
    n, nf = (400, 2) if quick else (12000, 20)
    ok_cases, out_cases = vlib.coq_make(["At/WorkerCases.vo"])
    if not ok_cases:
        raise vlib.Broken("At/WorkerCases.v does not compile:\n" + out_cases[-1500:])
    ps = vlib.proof_step(chk, PROP_FILE, "From SeataV Require Import Props.P_C11.")
    if not ps["ok"]:
        chk.violation("proof obligations of C11 no longer check", {"coq_output": ps["out"][-2000:]}, False)
    if scen_file is None:
        data, secs = vlib.run_harness("workerrun", chk.tmp("worker.json"), timeout=1500, seed=chk.seed, n=n, nf=nf,
                                      par=4 if quick else 6)
        results = data["results"] or []
        skipped = data.get("skipped", 0)
    else:
        skipped = 0
        results, secs = [], 0.0
        for k in range(repeat):
            data, s = vlib.run_harness("workerrun", chk.tmp("worker%d.json" % k), timeout=600, scen=scen_file)
            results += data["results"]
            secs += s
    st = analyse(chk, results)
    # the committed replay of the listed finding runs on every check
    known_st = {"known_hits": 0}
    if scen_file is None and os.path.exists(KNOWN_SCEN):
        kd = json.load(open(KNOWN_SCEN))
        kf = chk.tmp("known_scen.json")
        json.dump([kd["scenario"]], open(kf, "w"))
        data, s = vlib.run_harness("workerrun", chk.tmp("known.json"), timeout=300, scen=kf)
        known_st = analyse(chk, data["results"], label="known-replay ")
        secs += s
    hits = st["known_hits"] + known_st["known_hits"]
    if hits:
        for f in vlib.known_findings("C11"):
            if f.get("id") == "worker.small-buffers":
                chk.known("id=worker.small-buffers site=%s pred=%s replay=%s reproduced_on=%d run(s)" % (
                    f.get("site"), f.get("pred"), f.get("replay"), hits))

    def nontrivial(r):
        return any(e["k"] == "D" and e.get("ok") and e.get("rm") for e in r["trace"])
    ev = [e for r in results for e in r["trace"]]
    classes = {}
    for r in results:
        classes[r["scen"]["class"]] = classes.get(r["scen"]["class"], 0) + 1
    mid = sorted(results, key=lambda r: len(r["trace"]))[len(results) // 2] if results else None
    chk.coverage.update({
        "trusted_base": TRUSTED,
        "evaluations": len(results),
        "scenarios_not_explored_after_first_violations": skipped,
        "distinct_nontrivial": vlib.distinct([(r["scen"]["cfg"], r["scen"]["rows"], r["scen"]["reqs"], r["scen"]["conn_pat"],
                                               r["scen"]["del_pat"], r["scen"]["res_mode"])
                                              for r in results if nontrivial(r)]),
        "rule": "seeded scenarios driven through the real ATSourceManager.BranchCommit/AsyncWorker on the fake driver: "
                "1-4 resources (registered at start / late / never), 1-4 xids, branch ids shared across xids, 1-12 requests "
                "over 1-3 goroutines, buffer limit 0..10000, interval 1-3 ms, 1-10 workers, fan-out buffer 0..1000, receive "
                "queue >= #requests (or smaller when nothing can re-queue); Connect and DELETE/Prepare failure patterns; "
                "every 5th scenario is the malformed stream (empty resource id, never registered resource, duplicates, "
                "requests without a row); non-trivial = at least one DELETE that removed a row; distinct by scenario content",
        "traces_validated_against_impl": len(results) - st["corr_fail"] - st["violating"],
        "compared_with_model_final_state": st["cmp_sim"],
        "model_scheduler_steps_budget": st["model_steps"],
        "requests": sum(len(r["scen"]["reqs"]) for r in results),
        "requests_with_cancellable_context": sum(1 for r in results for q in r["scen"]["reqs"] if q.get("ctx")),
        "requests_refused": sum(1 for r in results for a in r["answers"] if a["returned"] and a["st"] != 5 and a["err"]),
        "observed_events": len(ev),
        "deletes_ok": sum(1 for e in ev if e["k"] == "D" and e.get("ok")),
        "deletes_failed": sum(1 for e in ev if e["k"] in ("D", "P") and not e.get("ok")),
        "connects_failed": sum(1 for e in ev if e["k"] == "C" and not e.get("ok")),
        "scenario_classes": classes,
        "small_buffer_circular_waits_observed": hits,
        "harness_seconds": round(secs, 1),
        "samples": [slim(mid)] if mid else [],
    })
    chk.assumptions += [
        "liveness on the implementation is a wall-clock sample: rows must be gone within 200 worker intervals (+3 s slack)",
        "rows are not inserted into undo_log while the worker runs",
    ]
    return chk.finish()


def replay(chk, path):
    r = json.load(open(path))
    if "scenario" not in r:
        print("replay names a proof obligation, not an input: " + json.dumps(r)[:400])
        return run(chk)
    f = chk.tmp("replay_scen.json")
    json.dump([r["scenario"]], open(f, "w"))
    return run(chk, scen_file=f, repeat=3)
