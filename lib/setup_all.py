"""MANIFEST.setup_cmd: build translators, regenerate tables, build the whole
Coq development (full .vo), build the Go harness."""
import os, sys
import vlib


def run():
    vlib.build_xlate()
    import regen
    regen.all_tables()
    vlib.coq_setup()
    ok, out = vlib.coq_make([])
    sys.stderr.write(out[-4000:])
    if not ok:
        print("setup: coq build failed")
        return 2
    vlib.build_harness()
    print("setup ok")
    return 0
