"""Shared by the C04 and C07 drivers: Coq terms of tmrun cases, the direct oracles
(the properties' own statements evaluated on what the real code did), the
independent reference semantics of the propagation modes, input predicates of
the known findings."""
import json, os
import vlib

HEADER = """From Coq Require Import List NArith Bool String.
From SeataV Require Import Tm.TmModel Gen.TmShape Tm.TmCases.
Import ListNotations. Open Scope N_scope.
"""
MODE = {"Required": "Required", "RequiresNew": "RequiresNew", "NotSupported": "NotSupported",
        "Supports": "Supports", "Never": "Never", "Mandatory": "Mandatory", "Other": "MOther"}
OUT = {"nil": "ONil", "err": "OErr", "panic": "OPanic"}
REP = {"o": "ROk", "f": "RFailed", "e": "RErr", "t": "RNoReply", "n": "RNil"}
RES = {"nil": "RNilC", "err": "RErrC", "panic": "RPanicC"}
REQ = {"begin": "QBegin", "commit": "QCommit", "rollback": "QRollback"}
TRANSPORT = ("e", "t")
SEND_CAP = 8
TIE_CODES = {1: "the coordinator's request log differs from the model's",
             2: "the class of a value returned by WithGlobalTx differs from the model's",
             3: "what a callback sees in its context (xid/role/name) differs from the model's"}


def scope_term(s):
    return "(Scope %s %d %s [%s] %s)" % (MODE[s["m"]], s["id"], "true" if s["shared"] else "false",
                                          "; ".join(scope_term(k) for k in (s.get("kids") or [])), OUT[s["out"]])


def role_ok(r):
    return r if r in ("UnKnow", "Launcher", "Participant") else "UnKnow"


def ev_term(e):
    k = e["k"]
    if k == "req":
        return "EReq (%s %d) %s" % (REQ[e["q"]], e["n"], REP[e["r"]])
    if k == "enter":
        return "EEnter %d %d %s %d" % (e["n"], e["xid"], role_ok(e["role"]), e["name"])
    if k == "after":
        return "EAfter %d %d %s %d" % (e["n"], e["xid"], role_ok(e["role"]), e["name"])
    if k == "ret":
        return "ERet %d %s" % (e["n"], RES[e["r"]])
    return "EDiverge"


def case_term(c):
    e = c["entry"]
    return ("{| tc_tree := %s; tc_entry := {| g_xid := %d; g_name := %d; g_role := %s |}; tc_script := [%s]; "
            "tc_default := %s; tc_cancel := %s; tc_nc := %d%%nat; tc_nr := %d%%nat; tc_trace := [%s] |}" % (
                scope_term(c["tree"]), e["xid"], e["name"], role_ok(e["role"]),
                "; ".join(REP[x] for x in c["script"]), REP[c["default"]],
                "None" if c["cancel"] < 0 else "(Some %d%%nat)" % c["cancel"], c["nc"], c["nr"],
                "; ".join(ev_term(x) for x in c["trace"])))


def inputs(c):
    return {k: c[k] for k in ("suite", "gen", "tree", "entry", "script", "default", "cancel", "nc", "nr", "incb") if k in c}


def slim(c):
    d = inputs(c)
    d["trace"] = [compact(e) for e in c["trace"]]
    if c.get("callobs"):
        d["carrier_calls"] = [{"scope": o["scope"], "kind": o["kind"], "callee_found": o["got"], "caller_xid": o["want"],
                               "caller_after": compact(o["after"])} for o in c["callobs"]]
    return d


def compact(e):
    k = e["k"]
    if k == "req":
        return "%s(%d)->%s" % (e["q"], e["n"], e["r"])
    if k in ("enter", "after"):
        return "%s[%d] xid=%d role=%s name=%d" % (k, e["n"], e["xid"], e["role"], e["name"])
    if k == "ret":
        return "ret[%d]=%s" % (e["n"], e["r"])
    return "DIVERGED"


def size(c):
    def n(s):
        return 1 + sum(n(k) for k in (s.get("kids") or []))
    return n(c["tree"]) * 100 + len(c["script"]) * 3 + (0 if c["cancel"] < 0 else 1) + len(c["trace"])


# ------------------------------------------------------------------ finding predicates (on INPUTS)
def pred_failed_result(c):
    """tm.second-phase.failed-result: some reply a commit/rollback can receive is a well-formed
    response with ResultCode = Failed (for a single scope the first script entry answers begin)"""
    sc = c["script"][1:] if is_leaf(c) else c["script"]
    return "f" in sc or c["default"] == "f"


def pred_retry0_forever(c):
    """tm.retry0.transport-forever: the retry count that applies is 0 and every reply the second
    phase can receive is a transport failure (error or no reply), for ever"""
    if is_leaf(c):
        n = c["nc"] if c["tree"]["out"] == "nil" else c["nr"]
        return n == 0 and c["default"] in TRANSPORT and all(x in TRANSPORT for x in c["script"][1:])
    return (c["nc"] == 0 or c["nr"] == 0) and c["default"] in TRANSPORT


def is_leaf(c):
    return not (c["tree"].get("kids") or [])


# ------------------------------------------------------------------ documented semantics (independent of the Go code)
def disposition(m, has_tx):
    if m == "Required":
        return "join" if has_tx else "new"
    if m == "RequiresNew":
        return "new"
    if m == "NotSupported":
        return "none"
    if m == "Supports":
        return "join" if has_tx else "none"
    if m == "Never":
        return "fail" if has_tx else "none"
    if m == "Mandatory":
        return "join" if has_tx else "fail"
    return "fail"


def spec(s, cur, nxt):
    """-> (events, next): events = ("req", kind, n) | ("enter", id, xid) | ("ret", id, class)"""
    d = disposition(s["m"], cur != 0)
    res = "nil" if s["out"] == "nil" else "err"
    if d == "fail":
        return [("ret", s["id"], "err")], nxt
    ev = []
    if d == "new":
        mine = nxt
        nxt += 1
        ev.append(("req", "begin", s["id"]))
        inner = mine
    elif d == "join":
        inner = cur
    else:
        inner = 0
    ev.append(("enter", s["id"], inner))
    for k in (s.get("kids") or []):
        e, nxt = spec(k, inner, nxt)
        ev += e
    if d == "new":
        ev.append(("req", "commit" if s["out"] == "nil" else "rollback", mine))
    ev.append(("ret", s["id"], res))
    return ev, nxt


def project(trace):
    out = []
    for e in trace:
        if e["k"] == "req":
            out.append(("req", e["q"], e["n"]))
        elif e["k"] == "enter":
            out.append(("enter", e["n"], e["xid"]))
        elif e["k"] == "ret":
            out.append(("ret", e["n"], e["r"]))
    return out


def ok_world(c):
    return not c["script"] and c["default"] == "o" and c["cancel"] < 0


DUBBO_KEYS = ("SEATA_XID", "seata_xid", "TX_XID", "tx_xid")


def hv_first(h):
    if h["shape"] == "o" or not h["vals"]:
        return b""
    return bytes.fromhex(h["vals"][0])


def pred_dubbo_forwarded_stale(kind, sender_xid, pre):
    """carrier.dubbo.no-tx-stale-attachment: a dubbo consumer whose context has NO transaction bound
    calls with an invocation that still carries an xid attachment under an accepted key"""
    if kind != "dubbo" or sender_xid:
        return False
    return any(bytes.fromhex(h["key"]).decode("latin1") in DUBBO_KEYS and hv_first(h) for h in pre)


def call_fails(ob):
    """one outgoing RPC made from inside a callback: the callee sees exactly the caller's current
    transaction (none when the scope runs without one), the caller's context is untouched"""
    who = "scope %d, %s call with %s already in the outgoing headers" % (
        ob["scope"], ob["kind"], [(bytes.fromhex(h["key"]).decode("latin1"), h["shape"]) for h in (ob["pre"] or [])])
    if ob["panic"]:
        return who + ": the integration panicked"
    a, e = ob["after"], ob["enter"]
    if (a["xid"], a["role"], a["name"]) != (e["xid"], e["role"], e["name"]):
        return "%s: the call changed the caller's context to xid=%d role=%s name=%d (was xid=%d role=%s name=%d)" % (
            who, a["xid"], a["role"], a["name"], e["xid"], e["role"], e["name"])
    if ob["got"] != ob["want"] and not pred_dubbo_forwarded_stale(ob["kind"], ob["want"], ob["pre"] or []):
        return "%s: the callee found xid %r, the caller's transaction is %r" % (who, ob["got"], ob["want"])
    return None


# ------------------------------------------------------------------ direct oracle C07
def oracle_c07(c):
    """the statement of C07 on one real run; returns a list of failed clauses"""
    fails = []
    tr = c["trace"]
    if c.get("hung"):
        return ["the call did not return"]
    if any(e["k"] == "ret" and e["r"] == "panic" for e in tr):
        fails.append("WithGlobalTx panicked")
    # intact: after a child returns the enclosing scope sees what it saw on entry
    seen = {}
    for e in tr:
        if e["k"] == "enter":
            seen[e["n"]] = (e["xid"], e["role"], e["name"])
        elif e["k"] == "after" and e["n"] != 0 and e["n"] in seen:
            if (e["xid"], e["role"], e["name"]) != seen[e["n"]]:
                fails.append("scope %d: after an inner scope returned its context holds xid=%d role=%s name=%d, "
                             "on entry it held xid=%d role=%s name=%d" % ((e["n"], e["xid"], e["role"], e["name"]) + seen[e["n"]]))
                break
    for ob in (c.get("callobs") or []):
        f = call_fails(ob)
        if f:
            fails.append(f)
            break
    last = tr[-1] if tr else None
    if last and last["k"] == "after" and last["n"] == 0 and not c["entry"]["plain"]:
        ent = c["entry"]
        if (last["xid"], last["role"], last["name"]) != (ent["xid"], role_ok(ent["role"]), ent["name"]):
            fails.append("the caller's context is not what it was before the outermost scope (xid=%d role=%s name=%d)"
                         % (last["xid"], last["role"], last["name"]))
    if ok_world(c):
        want, _ = spec(c["tree"], c["entry"]["xid"], 1)
        got = project(tr)
        if [x for x in got if x[0] == "req"] != [x for x in want if x[0] == "req"]:
            fails.append("requests sent %s differ from the documented semantics %s" % (
                [x[1:] for x in got if x[0] == "req"], [x[1:] for x in want if x[0] == "req"]))
        elif [x for x in got if x[0] == "enter"] != [x for x in want if x[0] == "enter"]:
            fails.append("xid seen by the callbacks %s differs from the documented semantics %s" % (
                [x[1:] for x in got if x[0] == "enter"], [x[1:] for x in want if x[0] == "enter"]))
        elif got != want:
            fails.append("returned values / order %s differ from the documented semantics %s" % (got, want))
    return fails


# ------------------------------------------------------------------ direct oracle C04 (single scopes)
def oracle_c04(c, strict_failed=False):
    """the statement of C04 on one real run of a single scope.  With a listed finding's
    predicate true the clause the finding is about is relaxed (unless strict)."""
    if not is_leaf(c):
        return oracle_c04_nested(c, strict_failed)
    fails = []
    tr = c["trace"]
    if c.get("hung"):
        return ["the call did not return"]
    t = c["tree"]
    out = t["out"]
    reqs = [e for e in tr if e["k"] == "req"]
    begins = [e for e in reqs if e["q"] == "begin"]
    commits = [e for e in reqs if e["q"] == "commit"]
    rollbacks = [e for e in reqs if e["q"] == "rollback"]
    second = [e for e in reqs if e["q"] != "begin"]
    diverged = any(e["k"] == "diverge" for e in tr)
    rets = [e for e in tr if e["k"] == "ret" and e["n"] == t["id"]]
    ret = rets[0]["r"] if rets else None
    entered = any(e["k"] == "enter" for e in tr)
    began = bool(begins) and begins[0]["r"] == "o"
    relaxed = pred_failed_result(c) and not strict_failed
    acks = ("o", "f") if relaxed else ("o",)
    n = c["nc"] if out == "nil" else c["nr"]
    # --- decision
    if commits and (out != "nil" or rollbacks):
        fails.append("a commit was requested although the business %s" % ("did not succeed" if out != "nil" else "was also rolled back"))
    if rollbacks and out == "nil":
        fails.append("a rollback was requested although the business callback returned nil")
    if second and not began:
        fails.append("second-phase request for a transaction this scope did not begin")
    if began and any(e["n"] != 1 for e in second):
        fails.append("second-phase request names another transaction than the one begun")
    if len(begins) > 1:
        fails.append("more than one begin")
    if began and c["cancel"] < 0 and not diverged:
        if out == "nil" and not commits:
            fails.append("business returned nil, context alive, but no commit was requested")
        if out != "nil" and not rollbacks:
            fails.append("business failed, context alive, but no rollback was requested")
    # --- retry
    if n >= 1 and len(second) > n:
        fails.append("%d second-phase sends with a configured retry count of %d" % (len(second), n))
    if any(e["r"] not in TRANSPORT for e in second[:-1]):
        fails.append("a second-phase request was repeated after a reply that was not a transport failure")
    # --- result
    if diverged:
        if not (n == 0 and pred_retry0_forever(c)):
            fails.append("the call did not terminate (send cap reached)")
        return fails
    if ret is None:
        fails.append("no return recorded")
        return fails
    if ret == "panic":
        fails.append("WithGlobalTx crashed (panic) instead of returning an error")
        return fails
    if began:
        acked = bool(second) and second[-1]["r"] in acks
        cancelled_early = 0 <= c["cancel"] <= 1
        if ret == "nil":
            if out != "nil":
                fails.append("returned nil although the business %s" % ("panicked" if out == "panic" else "returned an error"))
            elif not (commits and acked):
                fails.append("returned nil although the commit was not acknowledged (last reply: %s)" % (
                    second[-1]["r"] if second else "nothing sent"))
            if cancelled_early:
                fails.append("returned nil although the caller's context was cancelled before the second phase")
        else:
            if out == "nil" and commits and commits[-1]["r"] == "o":
                fails.append("returned an error although business succeeded and the coordinator acknowledged the commit")
    else:
        if begins:      # begin refused or lost
            if ret != "err" or entered:
                fails.append("begin failed but the call %s" % ("ran the business callback" if entered else "returned nil"))
        else:           # not an initiator
            d = disposition(t["m"], c["entry"]["xid"] != 0)
            if d == "new":
                fails.append("a scope that must begin a transaction sent no begin")
            elif d == "fail":
                if ret != "err" or entered:
                    fails.append("unmet precondition of %s did not fail the call" % t["m"])
            else:
                want = "nil" if out == "nil" else "err"
                if ret != want:
                    fails.append("returned %s for a business outcome %s in a scope that is not the initiator" % (ret, out))
    return fails


def scopes_by_id(t, acc=None):
    acc = {} if acc is None else acc
    acc[t["id"]] = t
    for k in (t.get("kids") or []):
        scopes_by_id(k, acc)
    return acc


def oracle_c04_nested(c, strict_failed=False):
    """C04 per transaction when the business of a scope opens further scopes (nesting on a shared
    or fresh context): for every xid the coordinator handed out in this run, the scope that began
    it -- and only that scope's outcome -- decides; nothing is decided for any other xid."""
    fails = []
    tr = c["trace"]
    if c.get("hung"):
        return ["the call did not return"]
    if any(e["k"] == "ret" and e["r"] == "panic" for e in tr):
        return ["WithGlobalTx crashed (panic) instead of returning an error"]
    diverged = any(e["k"] == "diverge" for e in tr)
    scopes = scopes_by_id(c["tree"])
    reqs = [e for e in tr if e["k"] == "req"]
    rets = {e["n"]: e["r"] for e in tr if e["k"] == "ret"}
    acks = ("o",) if (strict_failed or not pred_failed_result(c)) else ("o", "f")
    owner, nx = {}, 0
    for e in reqs:
        if e["q"] == "begin" and e["r"] == "o":
            nx += 1
            owner[nx] = e["n"]
    for e in reqs:
        if e["q"] != "begin" and e["n"] not in owner:
            fails.append("%s requested for xid %d, a transaction no scope of this run began" % (e["q"], e["n"]))
            return fails
    for x, sid in owner.items():
        s = scopes.get(sid)
        if s is None:
            fails.append("begin under an unknown name %d" % sid)
            continue
        sp = [e for e in reqs if e["q"] != "begin" and e["n"] == x]
        commits = [e for e in sp if e["q"] == "commit"]
        rollbacks = [e for e in sp if e["q"] == "rollback"]
        what = "xid %d begun by scope %d (%s, business %s)" % (x, sid, s["m"], s["out"])
        if commits and (s["out"] != "nil" or rollbacks):
            fails.append("%s: a commit was requested although %s" % (what, "its business did not succeed" if s["out"] != "nil" else "it was also rolled back"))
        if rollbacks and s["out"] == "nil":
            fails.append("%s: a rollback was requested although its business returned nil" % what)
        if c["cancel"] < 0 and not diverged and sid in rets:
            if s["out"] == "nil" and not commits:
                fails.append("%s: its business returned nil, context alive, but no commit was requested" % what)
            if s["out"] != "nil" and not rollbacks:
                fails.append("%s: its business failed, context alive, but no rollback was requested" % what)
        n = c["nc"] if s["out"] == "nil" else c["nr"]
        if n >= 1 and len(sp) > n:
            fails.append("%s: %d second-phase sends with a configured retry count of %d" % (what, len(sp), n))
        if any(e["r"] not in TRANSPORT for e in sp[:-1]):
            fails.append("%s: a second-phase request was repeated after a reply that was not a transport failure" % what)
        if sid in rets and not diverged:
            acked = bool(commits) and sp[-1]["r"] in acks
            if rets[sid] == "nil" and not (s["out"] == "nil" and acked):
                fails.append("%s: returned nil although %s" % (what, "its business failed" if s["out"] != "nil" else "the commit was not acknowledged"))
    if diverged and not pred_retry0_forever(c):
        fails.append("the call did not terminate (send cap reached)")
    return fails


# ------------------------------------------------------------------ plumbing shared by both drivers
def tie(prop, cases):
    terms = [case_term(c) for c in cases]
    return vlib.eval_mismatches(prop, HEADER, terms, case_type="tcase", shard=250)


def run_in(chk, cases_in, name):
    p = chk.tmp(name + "_in.json")
    json.dump(cases_in, open(p, "w"))
    data, _ = vlib.run_harness("tmrun", chk.tmp(name + "_out.json"), timeout=600, **{"in": p})
    return data["cases"]


def model_ready():
    vlib.run_xlate("tmshape", "TmShape.v")
    ok, out = vlib.coq_make(["Tm/TmCases.vo"])
    if not ok:
        raise vlib.TieBroken("the regenerated TM shape table does not type-check in Coq:\n" + out[-1500:])


def shape_diag():
    try:
        r = vlib.coq_compute("tm", HEADER, ["shape_ok go_shape", "go_shape"])
        return {"shape_ok go_shape": r[0], "go_shape": r[1]}
    except Exception as e:  # diagnostics only
        return {"error": str(e)[:300]}


def load_known(path):
    p = os.path.join(vlib.VERIF, path)
    return json.load(open(p))
