"""Regenerate every translator-produced table of the model (coq/Gen/*.v) from
/repo's working tree."""
import vlib

TABLES = [("codec", "GoLayouts.v")]


def all_tables():
    for which, out in TABLES:
        vlib.run_xlate(which, out)
