"""Regenerate every translator-produced table of the model (coq/Gen/*.v) from
the repo's working tree.  A check module that owns a table declares
`TABLES = [("translator", "Table.v")]`; they are collected here."""
import glob, importlib, os
import vlib


def _tables():
    t = []
    here = os.path.join(os.path.dirname(os.path.abspath(__file__)), "checks")
    for f in sorted(glob.glob(os.path.join(here, "c[0-9][0-9].py"))):
        mod = importlib.import_module("checks." + os.path.basename(f)[:-3])
        for x in getattr(mod, "TABLES", []):
            if x not in t:
                t.append(x)
    return t


class _Lazy(list):
    def __iter__(self):
        return iter(_tables())


TABLES = _Lazy()


def all_tables():
    for which, out in _tables():
        vlib.run_xlate(which, out)
