"""Differential cross-check of the in-memory MySQL stand-in (harness/fakedb) against
the Coq statement semantics coq/At/Stmt.v (docs/STMT.md).

    run_stage(chk, n)   generate ~n statements (seed = chk.seed), run them on the BARE fakedb
                        (harness sub-command `stmtx`), evaluate Stmt.exec on the same programs
                        inside Coq (vm_compute) and compare outcome + table after every statement.
                        Returns {"cases", "skipped", "mismatches": [...], ...}; raises nothing on
                        success (vlib.Broken / vlib.TieBroken when the machinery itself fails).
    proof_stage(chk)    full .vo build of coq/At/StmtProofs.v + Print Assumptions of its theorems.
"""
import os
import vlib

HEADER = """From Coq Require Import List NArith ZArith Bool.
From Coq.Strings Require Import Byte.
From SeataV Require Import Base.Bytes At.Db At.Stmt At.StmtCases.
Import ListNotations.
"""

KINDS = {1: "outcome class (rows / counts / error) differs", 2: "error number differs",
         3: "affected-row count differs", 4: "last insert id differs", 5: "result rows differ",
         6: "table contents after the statement differ", 7: "AUTO_INCREMENT counter differs",
         8: "fakedb's dump is not in primary-key order", 15: "not modelled"}

PROOF_FILE = "At/StmtProofs.v"
PROOF_REQUIRES = "From SeataV Require Import At.StmtProofs."
TX_PROOF_FILE = "At/TxProofs.v"
TX_PROOF_REQUIRES = "From SeataV Require Import At.TxProofs."
TX_HEADER = HEADER.replace("At.StmtCases.", "At.StmtCases At.Tx At.TxCases.")
KINDS[9] = "row locks held differ"
KINDS[14] = "statement outside the Coq grammar"


def run_stage(chk, n, seed=None, steps=12, malformed=18):
    seed = chk.seed if seed is None else seed
    out = chk.tmp("stmtx-%s.json" % seed)
    data, secs = vlib.run_harness("stmtx", out, seed=seed, n=n, steps=steps, malformed=malformed)
    if data.get("aborted"):
        raise vlib.Broken("stmtx generator defect: " + "; ".join(data["aborted"][:3]))
    cases = [c for c in data["cases"] if c.get("coq")]
    vlib.coq_make(["At/StmtCases.vo"])
    terms = [c["coq"] for c in cases]
    shard = max(1, (len(terms) + 5) // 6)
    mm = vlib.eval_mismatches("stmtx%s" % chk.prop, HEADER, terms, fn="mismatches", case_type="scase", shard=shard, workers=6)
    mismatches, model_skips = [], 0
    for ci, codes in sorted(mm.items()):
        c = cases[ci]
        by_step = {}
        for code in codes:
            by_step.setdefault(code // 16, []).append(code % 16)
        for step, kinds in sorted(by_step.items()):
            if kinds == [15]:
                model_skips += 1
                continue
            s = c["steps"][step - 1] if step >= 1 else None
            mismatches.append({
                "seed": seed, "case": c["index"], "step": step, "kinds": [KINDS.get(k, str(k)) for k in kinds],
                "ddl": c["ddl"], "setup": c["setup"], "init": c["init"],
                "program": [{"sql": x["sql"], "args": x["args"]} for x in c["steps"][:step]],
                "sql": s and s["sql"], "args": s and s["args"], "prepared": s and s["prepared"],
                "fakedb_answer": s and s["obs"], "fakedb_dump": s and s["dump"], "fakedb_auto_inc": s and s["auto"],
                "replay": "build/verifh stmtx seed=%s n=%d steps=%d malformed=%d only=%d out=/tmp/x.json" % (seed, n, steps, malformed, c["index"]),
            })
    total = data["statements"]
    skipped = data["skipped"] + model_skips
    return {"cases": total - skipped, "statements": total, "programs": len(cases), "skipped": skipped,
            "skipped_translator_or_engine": data["skipped"], "skipped_model": model_skips,
            "skip_why": data["skip_why"], "kinds": data["kinds"], "fakedb_answers": data["errnos"],
            "mismatches": mismatches, "harness_s": round(secs, 2)}


def tx_stage(chk, n, seed=None, steps=20):
    """the transaction / lock layer: ~n operations in sequential schedules of 2-3 connections
    (BEGIN/COMMIT/ROLLBACK, savepoints, FOR UPDATE, conflicting writes, closes with an open
    transaction) on the bare fakedb vs Tx.step; compared after EVERY operation: outcome / error
    number (1205 at the same operations), result rows, committed rows, AUTO_INCREMENT counter and
    the set of row locks held.  Same return shape as run_stage."""
    seed = chk.seed if seed is None else seed
    out = chk.tmp("txx-%s.json" % seed)
    data, secs = vlib.run_harness("txx", out, seed=seed, n=n, steps=steps)
    if data.get("aborted"):
        raise vlib.Broken("txx generator defect: " + "; ".join(data["aborted"][:3]))
    cases = [c for c in data["cases"] if c.get("coq")]
    vlib.coq_make(["At/TxCases.vo"])
    terms = [c["coq"] for c in cases]
    shard = max(1, (len(terms) + 5) // 6)
    mm = vlib.eval_mismatches("txx%s" % chk.prop, TX_HEADER, terms, fn="tmismatches", case_type="tcase", shard=shard, workers=6)
    mismatches, model_skips = [], 0
    for ci, codes in sorted(mm.items()):
        c = cases[ci]
        step = codes[0] // 16
        kinds = [code % 16 for code in codes]
        if kinds == [15] or kinds == [14]:
            model_skips += len(c["steps"]) - step + 1      # the schedule is not followed further
            continue
        s = c["steps"][step - 1]
        mismatches.append({
            "seed": seed, "case": c["index"], "step": step, "kinds": [KINDS.get(k, str(k)) for k in kinds],
            "ddl": c["ddl"], "setup": c["setup"], "init": c["init"],
            "program": [{"conn": x["conn"], "op": x["op"], "sql": x["sql"], "args": x["args"], "errno": x["obs"].get("errno")}
                        for x in c["steps"][:step]],
            "sql": "conn %d: %s" % (s["conn"], s["sql"] or s["op"]), "args": s["args"], "prepared": s["prepared"],
            "fakedb_answer": s["obs"], "fakedb_dump": s["dump"], "fakedb_auto_inc": s["auto"], "fakedb_locks": s["locks"],
            "replay": "build/verifh txx seed=%s n=%d steps=%d only=%d out=/tmp/x.json" % (seed, n, steps, c["index"]),
        })
    total = data["statements"]
    skipped = data["skipped"] + model_skips
    return {"cases": total - skipped, "statements": total, "programs": len(cases), "skipped": skipped,
            "skipped_translator_or_engine": data["skipped"], "skipped_model": model_skips,
            "skip_why": data["skip_why"], "kinds": data["kinds"], "fakedb_answers": data["errnos"],
            "mismatches": mismatches, "harness_s": round(secs, 2)}


def proof_stage(chk):
    """machine-checked part: the theorems of At/StmtProofs.v (and At/TxProofs.v) compile and are closed"""
    a = _proof_stage(PROOF_FILE, PROOF_REQUIRES)
    if not a["ok"] or not os.path.exists(os.path.join(vlib.COQ, TX_PROOF_FILE)):
        return a
    b = _proof_stage(TX_PROOF_FILE, TX_PROOF_REQUIRES)
    return {"ok": b["ok"], "out": a["out"] + b["out"], "thms": a["thms"] + b["thms"], "n_closed": a["n_closed"] + b["n_closed"]}


def _proof_stage(PROOF_FILE, PROOF_REQUIRES):
    ok, out = vlib.coq_make([PROOF_FILE + "o"])
    thms = [t for t in _theorems(PROOF_FILE)]
    if not ok:
        return {"ok": False, "out": out, "thms": thms, "n_closed": 0}
    text = PROOF_REQUIRES + "\n" + "\n".join("Print Assumptions %s." % t for t in thms) + "\n"
    name = "assume_stmt_%d" % os.getpid()
    ok2, out2 = vlib.coq_eval(name, text)
    vlib.cleanup_run(name)
    if not ok2:
        raise vlib.Broken("Print Assumptions run failed:\n" + out2[-1500:])
    n_closed, closed = vlib.assumptions_closed(out2)
    if not closed or n_closed != len(thms):
        raise vlib.Broken("Print Assumptions reports axioms (or a theorem is missing):\n" + out2[-1500:])
    return {"ok": True, "out": out, "thms": thms, "n_closed": n_closed}


def _theorems(PROOF_FILE=PROOF_FILE):
    import re
    src = open(os.path.join(vlib.COQ, PROOF_FILE)).read()
    out, mod = [], ""
    for line in src.splitlines():
        m = re.match(r"\s*Module\s+(\w+)\s*\.", line)
        if m:
            mod = m.group(1) + "."
        elif re.match(r"\s*End\s+\w+\s*\.", line):
            mod = ""
        m = re.match(r"\s*(?:Theorem|Example)\s+(\w+)", line)
        if m:
            out.append(mod + m.group(1))
    return out
