"""Shared machinery of the /verif checks: building the translators and the Go
harness from /repo's working tree, compiling / evaluating Coq, verdicts,
evidence, known findings.  See DESIGN.md sections 1, 3, 4."""
import fcntl, hashlib, json, os, re, shutil, subprocess, sys, time

VERIF = os.path.dirname(os.path.dirname(os.path.abspath(__file__)))
REPO = os.environ.get("VERIF_REPO", "/repo")
BUILD = os.path.join(VERIF, "build")
COQ = os.path.join(VERIF, "coq")
HARNESS = os.path.join(VERIF, "harness")
XLATE_SRC = os.path.join(VERIF, "tools", "xlate")
EVIDENCE = os.path.join(VERIF, "evidence")
REPLAYS = os.path.join(VERIF, "replays")
KNOWN = os.path.join(VERIF, "KNOWN_FINDINGS.txt")

GOENV = dict(os.environ, GOFLAGS="-mod=mod", GOPROXY="off", GOSUMDB="off",
             GOTOOLCHAIN="local", CGO_ENABLED="0")

TRUSTED_COMMON = [
    "Coq 8.16.1 kernel (coqc, vm_compute; no native_compute); axioms: none "
    "(Print Assumptions under every property theorem says 'Closed under the global context')",
    "hand-written Gallina model, tied to /repo by the translators (B1) and the correspondence run (B2)",
]


class Broken(Exception):
    """the machinery failed for a reason that is not in /repo"""


def log(*a):
    print(*a, file=sys.stderr, flush=True)


def sh(cmd, cwd=None, env=None, timeout=1800, stdin=None):
    p = subprocess.run(cmd, cwd=cwd, env=env, timeout=timeout, input=stdin,
                       stdout=subprocess.PIPE, stderr=subprocess.STDOUT, text=True, errors="replace")
    return p.returncode, p.stdout


class Lock:
    def __init__(self, name="build"):
        os.makedirs(BUILD, exist_ok=True)
        self.path = os.path.join(BUILD, "." + name + ".lock")

    def __enter__(self):
        self.f = open(self.path, "w")
        fcntl.flock(self.f, fcntl.LOCK_EX)
        return self

    def __exit__(self, *a):
        fcntl.flock(self.f, fcntl.LOCK_UN)
        self.f.close()


# ---------------------------------------------------------------- builds
def build_xlate():
    with Lock():
        rc, out = sh(["go", "build", "-o", os.path.join(BUILD, "xlate"), "."], cwd=XLATE_SRC, env=GOENV)
    if rc != 0:
        raise Broken("translator build failed:\n" + out)
    return os.path.join(BUILD, "xlate")


def run_xlate(which, outfile, *extra):
    """regenerate a table of the model from /repo's working tree (B1)"""
    x = build_xlate()
    out = os.path.join(COQ, "Gen", outfile)
    tmp = out + ".tmp%d" % os.getpid()
    rc, o = sh([x, which, REPO, tmp] + list(extra), env=GOENV)
    if rc != 0:
        raise TieBroken("translator %s cannot read the source:\n%s" % (which, o))
    with Lock():
        old = open(out).read() if os.path.exists(out) else None
        new = open(tmp).read()
        if old != new:
            os.replace(tmp, out)
        else:
            os.unlink(tmp)
    return out


class TieBroken(Exception):
    """/repo builds but harness / translator cannot be built or run against it"""


def gen_harness_gomod():
    src = open(os.path.join(REPO, "go.mod")).read()
    src = re.sub(r"^module .*$", "module verifh", src, count=1, flags=re.M)
    src += "\nrequire seata.apache.org/seata-go v0.0.0\nreplace seata.apache.org/seata-go => %s\n" % REPO
    p = os.path.join(HARNESS, "go.mod")
    if not os.path.exists(p) or open(p).read() != src:
        open(p, "w").write(src)
    gs = os.path.join(HARNESS, "go.sum")
    s = open(os.path.join(REPO, "go.sum")).read()
    if not os.path.exists(gs) or open(gs).read() != s:
        open(gs, "w").write(s)


def build_harness(race=False):
    """rebuild the Go harness against /repo's working tree with the hooks on"""
    name = "verifh-race" if race else "verifh"
    out = os.path.join(BUILD, name)
    with Lock():
        gen_harness_gomod()
        cmd = ["go", "build", "-tags", "verif", "-gcflags=all=-l", "-o", out]
        env = dict(GOENV)
        if race:
            cmd.insert(2, "-race")
            env["CGO_ENABLED"] = "1"
        rc, o = sh(cmd + ["."], cwd=HARNESS, env=env, timeout=1500)
    if rc != 0:
        rc2, o2 = sh(["go", "build", "-tags", "verif", "./..."], cwd=REPO, env=GOENV, timeout=1500)
        if rc2 != 0:
            raise Broken("/repo itself does not build with -tags verif:\n" + o2[-3000:])
        raise TieBroken("the harness no longer builds against /repo:\n" + o[-3000:])
    return out


def run_harness(sub, out_json, timeout=900, race=False, **kw):
    h = build_harness(race=race)
    args = [h, sub, "out=" + out_json] + ["%s=%s" % (k, v) for k, v in kw.items()]
    if os.path.exists(out_json):
        os.unlink(out_json)
    t0 = time.time()
    p = subprocess.run(args, cwd=BUILD, env=GOENV, timeout=timeout,
                       stdout=subprocess.DEVNULL, stderr=subprocess.PIPE, text=True, errors="replace")
    if not os.path.exists(out_json):
        raise TieBroken("harness %s produced no result (exit %d):\n%s" % (sub, p.returncode, p.stderr[-3000:]))
    return json.load(open(out_json)), time.time() - t0


# ---------------------------------------------------------------- Coq
COQPROJECT_HEAD = ("-Q . SeataV\n-arg -w -arg -notation-overridden,-deprecated-hint-without-locality,"
                   "-deprecated-instance-without-locality\n")


def gen_coqproject():
    """_CoqProject lists every .v under coq/ (Run/ excluded: per-run case files);
    regenerated so that adding a file needs no edit of a shared list"""
    files = []
    for root, dirs, fs in os.walk(COQ):
        dirs[:] = [d for d in dirs if d != "Run"]
        for f in fs:
            if f.endswith(".v"):
                files.append(os.path.relpath(os.path.join(root, f), COQ))
    txt = COQPROJECT_HEAD + "\n".join(sorted(files)) + "\n"
    p = os.path.join(COQ, "_CoqProject")
    if not os.path.exists(p) or open(p).read() != txt:
        open(p, "w").write(txt)
        return True
    return False


def coq_setup():
    import regen
    if any(not os.path.exists(os.path.join(COQ, "Gen", out)) for _, out in regen.TABLES):
        regen.all_tables()
    with Lock():
        changed = gen_coqproject()
        if changed or not os.path.exists(os.path.join(COQ, "Makefile")) or \
           os.path.getmtime(os.path.join(COQ, "Makefile")) < os.path.getmtime(os.path.join(COQ, "_CoqProject")):
            rc, o = sh(["coq_makefile", "-f", "_CoqProject", "-o", "Makefile"], cwd=COQ)
            if rc != 0:
                raise Broken("coq_makefile failed:\n" + o)


def coq_make(targets, timeout=1500):
    """full .vo build of the targets' dependency cone; returns (ok, output)"""
    coq_setup()
    with Lock():
        rc, o = sh(["bash", "-c", "ulimit -s unlimited 2>/dev/null; exec make -j16 " + " ".join(targets)],
                   cwd=COQ, timeout=timeout)
    return rc == 0, o


def coq_eval(name, text, timeout=1500):
    """compile coq/Run/<name>.v (generated per run, e.g. the cases evaluated
    with vm_compute) and return (ok, output)"""
    d = os.path.join(COQ, "Run")
    os.makedirs(d, exist_ok=True)
    p = os.path.join(d, name + ".v")
    open(p, "w").write(text)
    rc, o = sh(["bash", "-c", "ulimit -s unlimited 2>/dev/null; exec coqc -noglob -Q . SeataV -w -notation-overridden Run/%s.v" % name],
               cwd=COQ, timeout=timeout)
    return rc == 0, o


def assumptions_closed(output):
    """every Print Assumptions in the output must report a closed term"""
    n_closed = output.count("Closed under the global context")
    bad = "Axioms:" in output
    return n_closed, not bad


FORBIDDEN = re.compile(r"\b(Admitted|admit|Axiom|Parameter|Conjecture|Hypothesis|Variable|bypass_check)\b|Unset Guard|type-in-type|impredicative-set|Admit Obligations")


def grep_forbidden():
    """no admitted proof, declared axiom or disabled check anywhere (Section
    variables are allowed only inside sections, which this grep reports too:
    the development uses none outside)"""
    hits = []
    for root, _, files in os.walk(COQ):
        if "/Run" in root:
            continue
        for f in files:
            if not f.endswith(".v"):
                continue
            p = os.path.join(root, f)
            depth = 0
            for i, line in enumerate(open(p), 1):
                code = re.sub(r"\(\*.*?\*\)", "", line)
                if re.match(r"\s*Section\b", code):
                    depth += 1
                if re.match(r"\s*End\b", code) and depth > 0:
                    depth -= 1
                m = FORBIDDEN.search(code)
                if m:
                    if m.group(1) in ("Variable", "Hypothesis") and depth > 0:
                        continue
                    if '"' in code and m.group(0) in re.sub(r'[^"]*"([^"]*)"[^"]*', r"\1", code):
                        continue
                    hits.append("%s:%d: %s" % (os.path.relpath(p, VERIF), i, line.strip()))
    return hits


def theorem_names(vfile):
    src = open(os.path.join(COQ, vfile)).read()
    return re.findall(r"^\s*(?:Theorem|Lemma|Corollary|Example)\s+(\w+)", src, flags=re.M)


def proof_step(chk, prop_file, requires, extra_obligation_files=()):
    """(A) of DESIGN section 1: full .vo build of the cone of Props/P_Cxx.v, then
    Print Assumptions of every theorem in it (always re-run, also when make had
    nothing to rebuild), forbidden-construct grep.  `requires` is the
    `From SeataV Require Import ...` line needed to name the theorems.
    Returns dict(ok, out, thms, n_closed). Fills the proof keys of chk.coverage."""
    ok, out = coq_make([prop_file + "o"])
    forbidden = grep_forbidden()
    if forbidden:
        raise Broken("forbidden constructs in the development: " + "; ".join(forbidden[:5]))
    thms = theorem_names(prop_file)
    extra = []
    for f in extra_obligation_files:
        extra += theorem_names(f)
    n_closed = 0
    if ok:
        text = requires + "\n" + "\n".join("Print Assumptions %s." % t for t in thms) + "\n"
        ok2, out2 = coq_eval("assume_%s_%d" % (chk.prop, os.getpid()), text)
        cleanup_run("assume_%s_%d" % (chk.prop, os.getpid()))
        if not ok2:
            raise Broken("Print Assumptions run failed:\n" + out2[-1500:])
        n_closed, closed = assumptions_closed(out2)
        if not closed or n_closed != len(thms):
            raise Broken("Print Assumptions reports axioms (or a theorem is missing):\n" + out2[-1500:])
    chk.coverage.update({
        "obligations": len(thms) + len(extra), "discharged": (len(thms) + len(extra)) if ok else 0,
        "theorems": thms + extra, "print_assumptions_closed": n_closed,
        "checker_cmd": "make -C coq %so (coqc 8.16.1, full .vo build of the dependency cone) + Print Assumptions of each theorem" % prop_file,
    })
    return {"ok": ok, "out": out, "thms": thms, "n_closed": n_closed}


def cleanup_run(name):
    for ext in (".v", ".vo", ".glob", ".vok", ".vos"):
        try:
            os.unlink(os.path.join(COQ, "Run", name + ext))
        except OSError:
            pass
    try:
        os.unlink(os.path.join(COQ, "Run", "." + name + ".aux"))
    except OSError:
        pass


def eval_mismatches(prop, header, terms, fn="mismatches", case_type=None, shard=200, workers=12, timeout=1500):
    """(B2) evaluate the model on observed cases inside Coq.  `terms[i]` is the Coq
    term of case i; the Coq function `fn : list <case> -> list (nat * N)` returns
    (index in the list, disagreement code) pairs.  Returns {case index: [codes]}."""
    import concurrent.futures
    groups = [list(range(i, min(i + shard, len(terms)))) for i in range(0, len(terms), shard)]
    res = {}

    def one(idx):
        name = "cases_%s_%d_%d" % (prop, os.getpid(), idx[0])
        ty = (" : list %s" % case_type) if case_type else ""
        text = header + "\nDefinition cases%s := [\n" % ty + ";\n".join(terms[i] for i in idx) + \
            "].\nDefinition M := Eval vm_compute in %s cases.\nPrint M.\n" % fn
        ok, out = coq_eval(name, text, timeout=timeout)
        if ok:
            cleanup_run(name)
        if not ok:
            raise Broken("case evaluation failed in Coq (%s):\n%s" % (name, out[-2000:]))
        printed = parse_coq_printed(out, "M")
        if printed is None:
            raise Broken("cannot parse Coq output:\n" + out[-2000:])
        r = {}
        for m in re.finditer(r"\((\d+)(?:%nat)?,\s*(\d+)(?:%N)?\)", printed):
            r.setdefault(idx[int(m.group(1))], []).append(int(m.group(2)))
        if printed != "[]" and not r:
            raise Broken("unparsed mismatch list: " + printed[:300])
        return r

    with concurrent.futures.ThreadPoolExecutor(max_workers=workers) as ex:
        for r in ex.map(one, groups):
            res.update(r)
    return res


def coq_compute(prop, header, exprs, timeout=600):
    """evaluate closed Coq expressions with vm_compute; returns the printed values (strings)"""
    name = "compute_%s_%d" % (prop, os.getpid())
    text = header + "\n" + "\n".join("Definition R%d := Eval vm_compute in (%s).\nPrint R%d." % (i, e, i)
                                       for i, e in enumerate(exprs)) + "\n"
    ok, out = coq_eval(name, text, timeout=timeout)
    cleanup_run(name)
    if not ok:
        raise Broken("coq_compute failed:\n" + out[-2000:])
    return [parse_coq_printed(out, "R%d" % i) for i in range(len(exprs))]


# ---------------------------------------------------------------- Coq term printing
def coq_hex(h):
    """a byte string as a Coq term: a list of Byte.byte constructors (4x cheaper
    for coqc to read than a string literal decoded by `hex`)"""
    return "[" + ";".join("x" + h[i:i + 2] for i in range(0, len(h), 2)) + "]"


def coq_str(s):
    return '"' + s.replace('"', '""') + '"'


def coq_list(items):
    return "[" + "; ".join(items) + "]"


def coq_bool(b):
    return "true" if b else "false"


def coq_opt(x):
    return "None" if x is None else "(Some %s)" % x


def parse_coq_printed(output, ident):
    """return the text Coq printed for `Print ident.` / `Eval` between
    '<ident> = ' and the following '     : '"""
    m = re.search(re.escape(ident) + r"\s*=\s*(.*?)\n\s+: ", output, flags=re.S)
    return None if not m else re.sub(r"\s+", " ", m.group(1)).strip()


# ---------------------------------------------------------------- known findings
def known_findings(prop):
    out = []
    if not os.path.exists(KNOWN):
        return out
    for line in open(KNOWN):
        line = line.strip()
        if not line.startswith("finding:"):
            continue
        kv = dict(re.findall(r"(\w+)=(\S+)", line.split("::")[0]))
        if kv.get("property") != prop:
            continue
        kv["what"] = line.split("::", 1)[1].strip() if "::" in line else ""
        out.append(kv)
    return out


def fixed_entries(prop):
    out = []
    if os.path.exists(KNOWN):
        for line in open(KNOWN):
            if line.startswith("fixed:") and ("property=%s " % prop) in line:
                out.append(line.strip())
    return out


# ---------------------------------------------------------------- verdicts
class Check:
    def __init__(self, prop, tier, seed):
        self.prop, self.tier, self.seed = prop, tier, seed
        self.t0 = time.time()
        self.coverage = {}
        self.assumptions = []
        self.violations = []      # (replay_path, suffix)
        self.known_lines = []
        self.notes = []
        self.rundir = os.path.join(BUILD, "run-%s-%d" % (prop, os.getpid()))
        os.makedirs(self.rundir, exist_ok=True)
        os.makedirs(REPLAYS, exist_ok=True)
        os.makedirs(EVIDENCE, exist_ok=True)

    def tmp(self, name):
        return os.path.join(self.rundir, name)

    def violation(self, what, replay_obj, found_input):
        """record a violation; replay_obj is written to a replay file"""
        body = json.dumps(replay_obj, sort_keys=True, indent=1, default=str)
        h = hashlib.sha1(body.encode()).hexdigest()[:10]
        path = os.path.join(REPLAYS, "%s-%s.json" % (self.prop, h))
        replay_obj = dict(replay_obj, property=self.prop, what=what,
                          failing_input_found=found_input,
                          replay_cmd="bin/check %s --replay %s" % (self.prop, path))
        open(path, "w").write(json.dumps(replay_obj, sort_keys=True, indent=1, default=str))
        self.violations.append((path, "" if found_input else " no-failing-input-found", what))

    def known(self, what):
        self.known_lines.append("KNOWN-FINDING: property=%s %s" % (self.prop, what))

    def finish(self, level="proof"):
        wall = time.time() - self.t0
        ev = {
            "property_id": self.prop, "tier": self.tier, "seed": int(self.seed), "level": level,
            "coverage": self.coverage, "assumptions": self.assumptions,
            "wall_s": round(wall, 2), "violations": len(self.violations),
        }
        if self.coverage.get("discharged") == 0:
            # a proof-level evidence needs discharged >= 1; on a run whose proofs broke the
            # count moves to another key and the exploration-style keys stand in
            self.coverage["discharged_on_this_run"] = self.coverage.pop("discharged")
            self.coverage.setdefault("evaluations", 1)
            self.coverage.setdefault("distinct_nontrivial", 2)
        if self.notes:
            ev["coverage"]["notes"] = self.notes
        if self.known_lines:
            ev["coverage"]["known_findings_reproduced"] = self.known_lines
        open(os.path.join(EVIDENCE, self.prop + ".json"), "w").write(json.dumps(ev, indent=1, sort_keys=True, default=str))
        shutil.rmtree(self.rundir, ignore_errors=True)
        for l in self.known_lines:
            print(l)
        if self.violations:
            for path, suffix, what in self.violations[:20]:
                log("violation: " + what)
                print("VIOLATION property=%s replay=%s%s" % (self.prop, path, suffix))
            return 1
        print("PASS property=%s tier=%s wall=%.1fs" % (self.prop, self.tier, wall))
        return 0


def distinct(items):
    return len({json.dumps(i, sort_keys=True, default=str) for i in items})
