"""Shared driver of C01 / C10 / C09 (AT branch rollback): runs harness/atroll (the REAL proxy, undo
manager, resource manager and processors over fakedb + tcstub), prints the observed cases as Coq terms for
At/RollbackCases.v `mismatches` (vm_compute), collects the direct-oracle verdicts."""
import json, os
import vlib
from vlib import coq_hex, coq_list, coq_bool

TABLES = [("undoflow", "UndoFlow.v")]
HEADER = """From Coq Require Import String List NArith ZArith Bool.
From Coq.Strings Require Import Byte.
From SeataV Require Import Base.Bytes At.Db At.RollbackKinds Gen.UndoFlow At.Rollback At.RollbackCases.
Import ListNotations. Open Scope N_scope.
"""
ERR = {1: "phase one: the local commit succeeded / failed where the model says otherwise",
       2: "phase one: the decoded undo images differ from the model's images",
       3: "rollback: the BranchRollbackResponse status differs from the model's",
       4: "rollback: whether the injected database fault hit a call of the rollback differs (control flow of Undo)",
       5: "rollback: the tables after the delivery differ from the model's",
       6: "the final tables differ from the model's", 7: "the final undo_log rows differ from the model's",
       8: "rollback: the number of database calls of a successful delivery differs from the model's"}
TRUSTED = vlib.TRUSTED_COMMON + [
    "harness/fakedb (in-memory MySQL stand-in: atomic local transactions, primary-key uniqueness, row locks), "
    "harness/tcstub (call-level coordinator), harness/atrun (scenario runner)",
    "harness/atroll: generators, shadow evaluation of the generated DML (cross-checked against fakedb's dumps on every case; "
    "a case the shadow does not predict is excluded from the correspondence and counted), direct oracles",
    "lib/atroll_util.py case printer; tools/xlate/undoflow.go (go/ast reading of Undo, BranchRollback, the three ExecuteOn bodies)",
    "the undo-log codec is C08's subject: the model takes the decoded images as the log content",
]


def hexs(s):
    return s.encode().hex()


def val(v):
    if v["k"] == "null":
        return "VNull"
    if v["k"] == "int":
        n = int(v["v"])
        return "(VInt %d%%Z)" % n if n >= 0 else "(VInt (%d)%%Z)" % n
    if v["k"] == "dec":
        return "(VDec %s)" % coq_hex(hexs(v["v"]))
    if v["k"] == "bytes":
        return "(VBytes %s)" % coq_hex(v.get("v", ""))
    if v["k"] == "time":
        import datetime
        t = datetime.datetime.strptime(v["v"], "%Y-%m-%d %H:%M:%S.%f").replace(tzinfo=datetime.timezone.utc)
        us = (t - datetime.datetime(1970, 1, 1, tzinfo=datetime.timezone.utc)) // datetime.timedelta(microseconds=1)
        return "(VTime %d%%Z)" % us
    if v["k"] == "float":
        import struct
        return "(VFloat %d)" % struct.unpack(">Q", struct.pack(">d", float(v["v"])))[0]
    return "(VStr %s)" % coq_hex(hexs(v.get("v", "")))


def vals(vs):
    return coq_list([val(v) for v in vs or []])


def rows(rs):
    return coq_list(["(%s, %s)" % (vals(r["key"]), vals(r.get("vals"))) for r in rs or []])


def tabs(ts):
    return coq_list(["(%s, %s)" % (coq_hex(hexs(t["name"])), rows(t.get("rows"))) for t in ts or []])


def mask(m):
    return "None" if m is None else "(Some %s)" % coq_list([coq_bool(b) for b in m])


def stmt(e):
    tn = coq_hex(hexs(e["table"]))
    if e["kind"] == "insert":
        return "SInsert %s %s" % (tn, rows(e["rows"]))
    if e["kind"] == "update":
        return "SUpdate %s %s %s" % (tn, mask(e.get("mask")), rows(e["rows"]))
    return "SDelete %s %s" % (tn, coq_list([vals(r["key"]) for r in e["rows"] or []]))


KIND = {"insert": "KInsert", "update": "KUpdate", "delete": "KDelete"}


def image(i):
    return "{| i_tn := %s; i_kind := %s; i_mask := %s; i_before := %s; i_after := %s |}" % (
        coq_hex(hexs(i["table"])), KIND[i["kind"]], mask(i["mask"]), rows(i.get("before")), rows(i.get("after")))


def fwrite(w):
    tn = coq_hex(hexs(w["table"]))
    if w.get("set") is None:
        return "FDel %s %s" % (tn, vals(w["key"]))
    return "FSet %s %s %s" % (tn, vals(w["key"]), vals(w["set"]))


def event(e):
    if e["e"] == "branch":
        return "EBranch %d %s %s %s" % (e["b"], coq_list([stmt(s) for s in e.get("stmts") or []]), coq_bool(e["ok"]),
                                        coq_list([image(i) for i in e.get("images") or []]))
    if e["e"] == "foreign":
        return "EForeign %s" % coq_list([fwrite(w) for w in e["writes"]])
    if e["e"] == "corrupt":
        return "ECorrupt %d" % e["b"]
    f = "None" if e["fault"] < 0 else "(Some %d%%nat)" % e["fault"]
    out = "None" if e["out"] < 0 else "(Some %d)" % e["out"]
    return "ERollback %d %s %s %s %s %d%%nat" % (e["b"], f, out, coq_bool(e["fired"]), tabs(e.get("tabs")), e["ops"])


def case_term(c):
    return ("{| k_dv := %s; k_oc := %s; k_xid := %d;\n   k_init := %s;\n   k_events := %s;\n   k_final := %s;\n   k_undo := %s |}" % (
        coq_bool(c["dv"]), coq_bool(c["oc"]), c["xid"], tabs(c["init"]),
        "[" + ";\n     ".join(event(e) for e in c["events"] or [] or []) + "]", tabs(c["final"]),
        coq_list(["(%d, %s)" % (u["b"], coq_bool(u["normal"])) for u in c.get("undo") or []])))


def slim(c):
    """replay object: the generated plan (self-contained) + what was observed"""
    return {"plans": [c["plan"]], "stream": c["stream"], "name": c["name"], "oracle": c["oracle"],
            "observed_events": [{k: v for k, v in e.items() if k not in ("tabs",)} for e in c["events"] or []], "notes": c.get("notes")}


SIZES = {  # per property: harness arguments per tier
    "C01": {"quick": dict(n01=500, n10r=0, n10f=10, n10m=30, n09=0, ncor=20, kf=4),
            "thorough": dict(n01=5000, n10r=0, n10f=60, n10m=0, n09=0, ncor=100, kf=0)},
    "C10": {"quick": dict(n01=0, n10r=150, n10f=40, n10m=80, n09=0, ncor=0, kf=6, n10x=100),
            "thorough": dict(n01=0, n10r=1200, n10f=300, n10m=800, n09=0, ncor=0, kf=0, n10x=1000)},
    "C09": {"quick": dict(n01=0, n10r=0, n10f=0, n10m=0, n09=1100, ncor=0, kf=0),
            "thorough": dict(n01=0, n10r=0, n10f=0, n10m=0, n09=8000, ncor=0, kf=0)},
}


def run_property(chk, prop, prop_file, req, rule, assumptions, only=None):
    vlib.run_xlate("undoflow", "UndoFlow.v")      # B1: the control-flow table of the model follows the working tree
    pr = vlib.proof_step(chk, prop_file, req)
    okc, outc = vlib.coq_make(["At/RollbackCases.vo"])
    if not okc and pr["ok"]:
        raise vlib.Broken("At/RollbackCases.v does not compile:\n" + outc[-1500:])
    if only is None:
        import subprocess
        limit = 240 if chk.tier == "quick" else 3000
        try:
            data, secs = vlib.run_harness("atroll", chk.tmp("atroll.json"), timeout=limit, seed=chk.seed,
                                          budget_s=(60 if chk.tier == "quick" else 1500), **SIZES[prop][chk.tier])
        except subprocess.TimeoutExpired:
            # on the unchanged tree the run takes a few seconds; a rollback that leaves its local transaction
            # open (never finished sql.Tx) blocks the engine's teardown for good
            chk.coverage.update({"trusted_base": TRUSTED, "evaluations": 1, "distinct_nontrivial": 2,
                                 "rule": rule, "explanation": "harness did not terminate within %d s" % limit})
            chk.violation("%s: the run through the real rollback path did not terminate within %d s (a delivery left its "
                          "local transaction open and blocks the engine); proof step %s" % (prop, limit, "ok" if pr["ok"] else "BROKEN: " + pr["out"][-400:]),
                          {"harness": "atroll", "args": SIZES[prop][chk.tier], "seed": chk.seed, "proof_ok": pr["ok"]}, False)
            return chk.finish()
    else:
        p = chk.tmp("replay_in.json")
        json.dump({"plans": only}, open(p, "w"))
        data, secs = vlib.run_harness("atroll", chk.tmp("atroll.json"), timeout=600, seed=chk.seed, replay=p)
    cases = data["cases"] or []
    if data.get("truncated"):
        chk.notes.append("harness stopped at its wall-clock budget after %d cases" % len(cases))
    clean = [c for c in cases if not c["excluded"]]
    excluded = [c for c in cases if c["excluded"]]
    # ---- direct oracle: the property's own statement on the real run
    seen = set()
    for c in cases:
        for o in c["oracle"]:
            key = (c["stream"], o.split(" of branch")[0][:50])
            if key in seen:
                continue
            seen.add(key)
            chk.violation("%s fails on the real code: %s" % (prop, o), slim(c), True)
    # ---- correspondence with the Coq model
    mism = {}
    if clean and okc:
        mism = vlib.eval_mismatches(prop, HEADER, [case_term(c) for c in clean], case_type="rcase", shard=60)
    if not chk.violations:
        for i in sorted(mism, key=lambda i: len(json.dumps(clean[i]["plan"]))):
            chk.violation("correspondence between the rollback model and the code broke (%s); the property is not shown on this tree"
                          % "; ".join(ERR[e] for e in sorted(set(mism[i]))),
                          dict(slim(clean[i]), model_disagreements=[ERR[e] for e in sorted(set(mism[i]))],
                               correspondence="At/RollbackCases.v check_case"), False)
            break
    if data.get("truncated") and not chk.violations:
        chk.violation("%s: the run through the real rollback path exhausted its wall-clock budget (steps or teardown blocked) "
                      "without a property violation being observed" % prop, {"harness": "atroll", "cases_run": len(cases)}, False)
    # ---- listed findings: the committed replay must still fail (it prints KNOWN-FINDING and does not alarm)
    if only is None:
        for f in vlib.known_findings(prop):
            fp = os.path.join(vlib.VERIF, f["replay"])
            fd, _ = vlib.run_harness("atroll", chk.tmp("known.json"), timeout=300, seed=chk.seed, replay=fp)
            if any(c["oracle"] for c in fd["cases"] or []):
                chk.known("%s :: %s" % (f["id"], f["what"]))
            else:
                print("STALE-FINDING: property=%s %s no longer reproduces" % (prop, f["id"]))
                chk.notes.append("stale finding " + f["id"])
    if not pr["ok"] and not chk.violations:
        chk.violation("a proof obligation of %s no longer checks (the generated table Gen/UndoFlow.v changed, or a proof broke)" % prop,
                      {"theorem": prop_file, "coq_output": pr["out"][-1500:]}, False)
    dist = {}
    for c in cases:
        dist["stream." + c["stream"]] = dist.get("stream." + c["stream"], 0) + 1
        for k, v in (c.get("stats") or {}).items():
            dist[k] = dist.get(k, 0) + v
        pl = c["plan"]
        dist["cfg.dv=%s,oc=%s,%s" % (c["dv"], c["oc"], pl["config"].get("serializer") or "json")] = \
            dist.get("cfg.dv=%s,oc=%s,%s" % (c["dv"], c["oc"], pl["config"].get("serializer") or "json"), 0) + 1
        for b in pl["branches"]:
            for s in b["stmts"]:
                dist["stmt." + s["kind"]] = dist.get("stmt." + s["kind"], 0) + 1
            dist["branch." + ("explicit" if b["explicit"] else "autocommit")] = dist.get("branch." + ("explicit" if b["explicit"] else "autocommit"), 0) + 1
        for e in c["events"] or []:
            if e["e"] == "rollback":
                k = "delivery." + ("fault" if e["fault"] >= 0 else "clean") + (".status%d" % e["out"])
                dist[k] = dist.get(k, 0) + 1
    nontriv = [c for c in clean if any(e["e"] == "branch" and e.get("images") for e in c["events"] or [])]
    chk.coverage.update({
        "trusted_base": TRUSTED,
        "evaluations": len(cases),
        "distinct_nontrivial": vlib.distinct([(c["plan"]["tables"], c["plan"]["init"], c["plan"]["branches"], c["plan"].get("foreign"),
                                              c["plan"]["deliver"], c["plan"]["config"]) for c in nontriv]),
        "rule": rule + "; non-trivial = phase one wrote an undo log with at least one image; distinct by (schema, initial rows, "
                       "program, foreign writes, deliveries, configuration)",
        "traces_validated_against_impl": len(clean) - len(mism),
        "cases_excluded_shadow_unpredicted": len(excluded),
        "oracle_failures": sum(1 for c in cases if c["oracle"]),
        "input_distribution": dist,
        "harness_seconds": round(secs, 2),
        "samples": [slim(c) for c in nontriv[3:5]],
    })
    if excluded:
        chk.notes.append("excluded from the correspondence (direct oracle still applied): " +
                         "; ".join(sorted({c["excluded"][:80] for c in excluded})[:5]))
    chk.assumptions += assumptions
    return chk.finish()


def replay_property(chk, path, runner):
    r = json.load(open(path))
    if "plans" in r:
        return runner(chk, only=r["plans"])
    print("replay names a proof obligation, not a case: " + json.dumps(r)[:300])
    return runner(chk)
