(* The generic lemmas of TmProofs.v / TmTreeProofs.v instantiated at the code shape
   regenerated from pkg/tm/transaction_executor.go (Gen/TmShape.v).  If the source
   no longer realises the documented dispositions (or no longer restores the caller's
   transaction, or the role switch changed) go_shape_ok fails and with it every
   theorem of Props/P_C04.v and Props/P_C07.v. *)
From Coq Require Import List NArith Bool Lia Arith.
From SeataV Require Import Tm.TmModel Tm.TmProofs Gen.TmShape.
Import ListNotations.
Open Scope N_scope.

Lemma go_shape_ok : shape_ok go_shape = true.
Proof. vm_compute. reflexivity. Qed.

Section Leaf.
  Variables (cf : config) (m : mode) (id : N) (out : outcome) (w w' : world) (v v' : gtx)
            (res : result) (es : list ev).
  Hypothesis Hn : w_next w <> 0.
  Hypothesis H : run_scope go_shape cf (leaf m id out) w v = (w', v', res, es).

  Lemma go_c04_decision :
    ((n_commits es > 0)%nat -> out = ONil /\ n_rollbacks es = 0%nat) /\
    ((n_rollbacks es > 0)%nat -> out <> ONil /\ n_commits es = 0%nat) /\
    Forall (fun x => x = w_next w) (sp_xids es) /\
    (sp_xids es <> [] -> began id es = true) /\
    (n_begins es <= 1)%nat.
  Proof. exact (c04_decision _ _ _ _ _ _ _ _ _ _ _ go_shape_ok Hn H). Qed.

  Lemma go_c04_decision_complete :
    began id es = true -> w_cancel_after w = None -> w_halt w = false ->
    (out = ONil -> (n_commits es >= 1)%nat) /\ (out <> ONil -> (n_rollbacks es >= 1)%nat).
  Proof. exact (c04_decision_complete _ _ _ _ _ _ _ _ _ _ _ go_shape_ok Hn H). Qed.

  Lemma go_c04_retry :
    (sp_n cf out <> 0%nat -> (List.length (sp_replies es) <= sp_n cf out)%nat) /\
    Forall (fun r => transport_error r = true) (removelast (sp_replies es)).
  Proof. exact (c04_retry _ _ _ _ _ _ _ _ _ _ _ go_shape_ok Hn H). Qed.

  Lemma go_c04_result :
    began id es = true ->
    (res = RNilC <-> out = ONil /\ (n_commits es >= 1)%nat /\ acked (last (sp_replies es) RNil) = true) /\
    (res = RNilC \/ res = RErrC).
  Proof. exact (c04_result _ _ _ _ _ _ _ _ _ _ _ go_shape_ok Hn H). Qed.

  Lemma go_c04_truthful_partial :
    began id es = true -> never_failed w = true -> res = RNilC -> last (sp_replies es) RNil = ROk.
  Proof. exact (c04_truthful_partial _ _ _ _ _ _ _ _ _ _ _ go_shape_ok Hn H). Qed.

  Lemma go_c04_surfaces : out <> ONil -> res = RErrC.
  Proof. exact (c04_surfaces _ _ _ _ _ _ _ _ _ _ _ go_shape_ok Hn H). Qed.

  Lemma go_c04_cancel_surfaces j :
    began id es = true -> w_cancel_after w = Some j -> (j <= S (w_nreq w))%nat ->
    res = RErrC /\ sp_replies es = [].
  Proof. exact (c04_cancel_surfaces _ _ _ _ _ _ _ _ _ _ _ j go_shape_ok Hn H). Qed.

  Lemma go_c04_not_initiator :
    n_begins es = 0%nat ->
    es = filter (fun e => negb (is_begin e || is_commit e || is_rollback e)) es /\
    sp_replies es = [] /\
    disposition_of m (is_gtx v) <> DNew /\
    (res = RNilC <-> out = ONil /\ disposition_of m (is_gtx v) <> DFail) /\
    (entered es = true <-> disposition_of m (is_gtx v) <> DFail).
  Proof. exact (c04_not_initiator _ _ _ _ _ _ _ _ _ _ _ go_shape_ok Hn H). Qed.

  Lemma go_c04_begin_failed :
    began id es = false -> n_begins es <> 0%nat ->
    exists rep, rep <> ROk /\ es = [EReq (QBegin id) rep; ERet id RErrC] /\ res = RErrC.
  Proof. exact (c04_begin_failed _ _ _ _ _ _ _ _ _ _ _ go_shape_ok Hn H). Qed.

  Lemma go_c04_terminates :
    ((sp_n cf out <> 0%nat /\ (sp_n cf out <= send_cap)%nat) \/
     (transport_error (w_default w) = false /\ (List.length (w_script w) <= send_cap)%nat)) ->
    diverged es = false.
  Proof. exact (c04_terminates _ _ _ _ _ _ _ _ _ _ _ go_shape_ok Hn H). Qed.
End Leaf.

(* ---- the two listed findings, as refutations of the unrestricted statements *)
Definition no_ctx : gtx := {| g_xid := 0; g_name := 0; g_role := UnKnow |}.
Definition run_leaf_on (nc nr : nat) (m : mode) (out : outcome) (script : list reply) (d : reply) (cancel : option nat) :=
  run_scope go_shape {| cf_commit_retry := nc; cf_rollback_retry := nr |} (leaf m 1 out)
            (init_world script d cancel) no_ctx.

(* tm.second-phase.failed-result: nil is returned although the coordinator answered ResultCode = Failed *)
Lemma go_c04_nil_sound_refuted :
  exists script d, let '(_, _, res, es) := run_leaf_on 2 2 Required ONil script d None in
                   began 1 es = true /\ res = RNilC /\ last (sp_replies es) RNil = RFailed.
Proof. exists [ROk; RFailed], ROk. vm_compute. auto. Qed.

(* tm.retry0.transport-forever: retry count 0, permanent transport failure: the send cap is reached *)
Lemma go_c04_retry0_diverges :
  exists script d, let '(_, _, res, es) := run_leaf_on 0 0 Required ONil script d None in
                   diverged es = true /\ List.length (sp_replies es) = send_cap.
Proof. exists [ROk], RErr. vm_compute. auto. Qed.

(* ---------------------------------------------------------------- scope trees (C07) at the regenerated shape *)
From SeataV Require Import Tm.TmTreeProofs.

Lemma go_c07_trace : forall cf t w v w' v' res es,
  okw w -> run_scope go_shape cf t w v = (w', v', res, es) ->
  project es = fst (spec_scope t (g_xid v) (w_next w)).
Proof. intros. eapply c07_trace; eauto using go_shape_ok. Qed.

Lemma go_c07_requests : forall cf t w v w' v' res es,
  okw w -> run_scope go_shape cf t w v = (w', v', res, es) ->
  reqs_of (project es) = reqs_of (fst (spec_scope t (g_xid v) (w_next w))).
Proof. intros. f_equal. eapply go_c07_trace; eauto. Qed.

Lemma go_c07_sees_xid : forall cf t w v w' v' res es,
  okw w -> run_scope go_shape cf t w v = (w', v', res, es) ->
  sees_of (project es) = sees_of (fst (spec_scope t (g_xid v) (w_next w))).
Proof. intros. f_equal. eapply go_c07_trace; eauto. Qed.

Lemma go_c07_outer_intact : forall cf t w v w' v' res es,
  run_scope go_shape cf t w v = (w', v', res, es) ->
  v' = v /\ forall id x ro nm, In (EAfter id x ro nm) es -> In (EEnter id x ro nm) es.
Proof. intros. eapply c07_outer_intact; eauto using go_shape_ok. Qed.

Lemma go_c07_never_ends_joined : forall cf t w v w' v' res es,
  okw w -> g_xid v < w_next w ->
  run_scope go_shape cf t w v = (w', v', res, es) ->
  forall rep, ~ In (EReq (QCommit (g_xid v)) rep) es /\ ~ In (EReq (QRollback (g_xid v)) rep) es.
Proof. intros. eapply c07_never_ends_joined; eauto using go_shape_ok. Qed.

(* the code as it was before the repair (no restore): the same model refutes the property *)
Definition unrestored_shape : code_shape :=
  {| cs_table := cs_table go_shape; cs_default := cs_default go_shape; cs_restores := false;
     cs_second := cs_second go_shape; cs_panic_total := cs_panic_total go_shape |}.
Definition nested_required : scope :=
  Scope Required 1 true [Scope Required 2 true [] ONil] ONil.

Lemma go_c07_without_restore_refuted :
  let '(_, v', _, es) := run_scope unrestored_shape {| cf_commit_retry := 2; cf_rollback_retry := 2 |}
                                   nested_required (init_world [] ROk None) no_ctx in
  reqs_of (project es) = [QBegin 1] /\
  reqs_of (fst (spec_scope nested_required 0 1)) = [QBegin 1; QCommit 1] /\ v' <> no_ctx.
Proof. vm_compute. repeat split. discriminate. Qed.

Lemma okw_init : okw (init_world [] ROk None).
Proof. constructor; cbn; congruence. Qed.

Lemma go_c07_ends_only_own : forall cf t w v w' v' res es,
  run_scope go_shape cf t w v = (w', v', res, es) ->
  w_next w <= w_next w' /\ xid_range (w_next w) (w_next w') (sp_xids es).
Proof. intros. eapply all_own; eauto using go_shape_ok. Qed.

Lemma go_c07_never_ends_joined_any : forall cf t w v w' v' res es,
  g_xid v < w_next w ->
  run_scope go_shape cf t w v = (w', v', res, es) ->
  ~ In (g_xid v) (sp_xids es).
Proof. intros. eapply c07_never_ends_joined_any_world; eauto using go_shape_ok. Qed.

(* ---------------------------------------------------------------- C04 lifted to programs, at the regenerated shape *)
From SeataV Require Import Tm.TmDecisionProofs.

Lemma go_c04_tree_decision : forall cf t w v w' v' res es,
  w_next w <> 0 -> run_scope go_shape cf t w v = (w', v', res, es) ->
  forall x, seg x es <> [] -> exists s, In s (subscopes t) /\ decided cf x s es.
Proof. intros. eapply all_decide; eauto using go_shape_ok. Qed.

Lemma go_c04_tree_complete : forall cf t w v w' v' res es,
  w_next w <> 0 -> alive w -> run_scope go_shape cf t w v = (w', v', res, es) -> diverged es = false ->
  forall id x nm, x <> 0 -> In (EEnter id x Launcher nm) es -> seg x es <> [].
Proof.
  intros cf t w v w' v' res es Hn Ha H Hd id x nm Hx Hin. apply seg_in.
  destruct (all_complete go_shape cf go_shape_ok t _ _ _ _ _ _ Hn Ha H Hd) as [_ Hc]. eapply Hc; eauto.
Qed.

Lemma go_c04_tree_nil_truthful : forall cf t w v w' v' res es,
  run_scope go_shape cf t w v = (w', v', res, es) ->
  (res = RNilC -> match t with Scope _ _ _ _ out => out = ONil end) /\
  forall id, In (ERet id RNilC) es -> exists m sh kids, In (Scope m id sh kids ONil) (subscopes t).
Proof. intros. eapply all_nil_truthful; eauto. Qed.
