(* The xid arrives unchanged through each integration, under exactly the accepted key spellings. *)
From Coq Require Import List NArith Bool String.
From SeataV Require Import Base.Bytes Tm.Carrier.
Import ListNotations.
Open Scope N_scope.

Lemma bytes_eqb_sym a b : bytes_eqb a b = bytes_eqb b a.
Proof.
  destruct (bytes_eqb a b) eqn:E1, (bytes_eqb b a) eqn:E2; try reflexivity.
  - apply bytes_eqb_eq in E1. subst. rewrite bytes_eqb_refl in E2. discriminate.
  - apply bytes_eqb_eq in E2. subst. rewrite bytes_eqb_refl in E1. discriminate.
Qed.

Lemma lower_TX : lower k_TX_XID = k_tx_xid. Proof. reflexivity. Qed.
Lemma lower_tx : lower k_tx_xid = k_tx_xid. Proof. reflexivity. Qed.
Lemma canon_tx : canon k_tx_xid = canon k_TX_XID. Proof. reflexivity. Qed.

Lemma get_single c K k v :
  get c K [(k, v)] = if bytes_eqb (norm c k) K then hd [] (vals v) else [].
Proof. unfold get. cbn [flat_map fst snd]. rewrite app_nil_r. destruct (bytes_eqb (norm c k) K); reflexivity. Qed.

(* a single header, whatever the shape of its value: found exactly under the accepted
   spellings, and then the (first) string it holds, byte for byte *)
Lemma carried_single c k v : carried c [(k, v)] = if accepted c k then hd [] (vals v) else [].
Proof.
  unfold carried, extract, wanted, accepted. destruct c; cbn [map]; rewrite !get_single; cbn [norm].
  - rewrite lower_TX, lower_tx.
    destruct (bytes_eqb (lower k) k_tx_xid); destruct (hd [] (vals v)); reflexivity.
  - rewrite canon_tx.
    destruct (bytes_eqb (canon k) (canon k_TX_XID)); destruct (hd [] (vals v)); reflexivity.
  - rewrite lower_TX.
    destruct (bytes_eqb k k_SEATA_XID), (bytes_eqb k (lower k_SEATA_XID)),
             (bytes_eqb k k_TX_XID), (bytes_eqb k k_tx_xid); destruct (hd [] (vals v)); reflexivity.
Qed.

Lemma carrier_accepted c k x : accepted c k = true ->
  carried c [(k, AStr x)] = x /\ carried c [(k, AList [x])] = x.
Proof. intro H. rewrite !carried_single, H. auto. Qed.

Lemma get_head c K k x rest : bytes_eqb (norm c k) K = true -> get c K ((k, AStr x) :: rest) = x.
Proof. unfold get. cbn [flat_map fst snd]. intros ->. reflexivity. Qed.

Lemma first_nonempty_cons x l : x <> [] -> first_nonempty (x :: l) = x.
Proof. destruct x; [congruence|reflexivity]. Qed.

(* sender half then receiver half is the identity, whatever the outgoing context / request /
   invocation already held (other keys, the same key with an older value, other spellings,
   wrapped or ill-typed values) *)
Lemma carrier_roundtrip c pre x : x <> [] -> carried c (inject c x pre) = x.
Proof.
  intro Hx. unfold carried, extract. destruct c; cbn [wanted inject map].
  - rewrite get_head by reflexivity. now apply first_nonempty_cons.
  - rewrite get_head by reflexivity. now apply first_nonempty_cons.
  - destruct x as [|b x]; [congruence|]. cbn [map]. rewrite get_head by reflexivity. now apply first_nonempty_cons.
Qed.

(* a sender WITHOUT a transaction (none, or suspended by NotSupported): whatever xid keys its outgoing
   context still holds, nothing travels -- gRPC and HTTP; the dubbo filter forwards them (finding
   carrier.dubbo.no-tx-stale-attachment) *)
Lemma carrier_no_transaction c pre : c <> Dubbo -> carried c (inject c [] pre) = [].
Proof.
  intro Hc. unfold carried, extract. destruct c; try congruence; cbn [wanted inject map].
  - reflexivity.
  - rewrite !get_head by reflexivity. reflexivity.
Qed.

Lemma carrier_no_transaction_dubbo_refuted :
  exists pre, carried Dubbo (inject Dubbo [] pre) <> [].
Proof. exists [(k_SEATA_XID, AStr (bytes_of_string "stale"))]. vm_compute. discriminate. Qed.

Lemma carrier_no_transaction_dubbo_partial pre :
  carried Dubbo pre = [] -> carried Dubbo (inject Dubbo [] pre) = [].
Proof. intro H. exact H. Qed.

Lemma carrier_roundtrip_empty c : carried c (inject c [] []) = [].
Proof. destruct c; reflexivity. Qed.

(* every upper/lower-case spelling of TX_XID is accepted by the gRPC and gin receivers *)
Lemma lower_b_idem c : lower_b (lower_b c) = lower_b c.
Proof. destruct c; reflexivity. Qed.

Lemma lower_b_inv c d : lower_b c = d -> c = d \/ c = upper_b d.
Proof. intros <-. destruct c; cbn; auto. Qed.

(* "every accepted key spelling": any mix of upper and lower case of TX_XID reaches the
   gRPC and the gin receiver *)
Lemma case_spellings_accepted k : lower k = k_tx_xid ->
  accepted Grpc k = true /\ accepted Gin k = true.
Proof.
  intro H. split; [unfold accepted; rewrite H; reflexivity|].
  unfold lower, k_tx_xid in H.
  destruct k as [|c1 [|c2 [|c3 [|c4 [|c5 [|c6 [|c7 k]]]]]]]; try discriminate.
  cbn in H. inversion H as [[H1 H2 H3 H4 H5 H6]].
  apply lower_b_inv in H1, H2, H3, H4, H5, H6.
  destruct H1 as [-> | ->], H2 as [-> | ->], H3 as [-> | ->], H4 as [-> | ->], H5 as [-> | ->], H6 as [-> | ->];
    reflexivity.
Qed.
