(* The xid arrives unchanged through each integration, under exactly the accepted key spellings. *)
From Coq Require Import List NArith Bool String.
From SeataV Require Import Base.Bytes Tm.Carrier.
Import ListNotations.
Open Scope N_scope.

Lemma bytes_eqb_sym a b : bytes_eqb a b = bytes_eqb b a.
Proof.
  destruct (bytes_eqb a b) eqn:E1, (bytes_eqb b a) eqn:E2; try reflexivity.
  - apply bytes_eqb_eq in E1. subst. rewrite bytes_eqb_refl in E2. discriminate.
  - apply bytes_eqb_eq in E2. subst. rewrite bytes_eqb_refl in E1. discriminate.
Qed.

Lemma first_nonempty_same x n : first_nonempty (repeat [] n ++ [x]) = x.
Proof. induction n; cbn; [destruct x; reflexivity|exact IHn]. Qed.

Lemma lower_TX : lower k_TX_XID = k_tx_xid. Proof. reflexivity. Qed.
Lemma lower_tx : lower k_tx_xid = k_tx_xid. Proof. reflexivity. Qed.
Lemma canon_tx : canon k_tx_xid = canon k_TX_XID. Proof. reflexivity. Qed.

(* a single header: found exactly under the accepted spellings, and then unchanged *)
Lemma carried_single c k x : carried c [(k, x)] = if accepted c k then x else [].
Proof.
  destruct c; unfold carried, normalise, extract, accepted; cbn [map fst snd lookup].
  - rewrite lower_TX, lower_tx, (bytes_eqb_sym k_tx_xid).
    destruct (bytes_eqb (lower k) k_tx_xid); destruct x; reflexivity.
  - rewrite canon_tx, (bytes_eqb_sym (canon k_TX_XID)).
    destruct (bytes_eqb (canon k) (canon k_TX_XID)); destruct x; reflexivity.
  - rewrite (bytes_eqb_sym k_SEATA_XID), (bytes_eqb_sym (lower k_SEATA_XID)),
            (bytes_eqb_sym k_TX_XID), (bytes_eqb_sym (lower k_TX_XID)), lower_TX.
    destruct (bytes_eqb k k_SEATA_XID), (bytes_eqb k (lower k_SEATA_XID)),
             (bytes_eqb k k_TX_XID), (bytes_eqb k k_tx_xid); destruct x; reflexivity.
Qed.

Lemma carrier_accepted c k x : accepted c k = true -> carried c [(k, x)] = x.
Proof. intro H. now rewrite carried_single, H. Qed.

Lemma carrier_roundtrip c x : carried c (inject c x) = x.
Proof. destruct c; cbn; destruct x; reflexivity. Qed.

(* every upper/lower-case spelling of TX_XID is accepted by the gRPC and gin receivers *)
Lemma lower_b_idem c : lower_b (lower_b c) = lower_b c.
Proof. destruct c; reflexivity. Qed.

Lemma lower_b_inv c d : lower_b c = d -> c = d \/ c = upper_b d.
Proof. intros <-. destruct c; cbn; auto. Qed.

(* "every accepted key spelling": any mix of upper and lower case of TX_XID reaches the
   gRPC and the gin receiver *)
Lemma case_spellings_accepted k : lower k = k_tx_xid ->
  accepted Grpc k = true /\ accepted Gin k = true.
Proof.
  intro H. split; [unfold accepted; rewrite H; reflexivity|].
  unfold lower, k_tx_xid in H.
  destruct k as [|c1 [|c2 [|c3 [|c4 [|c5 [|c6 [|c7 k]]]]]]]; try discriminate.
  cbn in H. inversion H as [[H1 H2 H3 H4 H5 H6]].
  apply lower_b_inv in H1, H2, H3, H4, H5, H6.
  destruct H1 as [-> | ->], H2 as [-> | ->], H3 as [-> | ->], H4 as [-> | ->], H5 as [-> | ->], H6 as [-> | ->];
    reflexivity.
Qed.
