(* Executable comparison of traces observed on the real pkg/tm (harness tmrun)
   with the model evaluated at the code shape regenerated from the source.
   No proofs here: this file must stay evaluable when a proof obligation breaks. *)
From Coq Require Import List NArith Bool String.
From SeataV Require Import Tm.TmModel Gen.TmShape.
Import ListNotations.
Open Scope N_scope.

Record tcase := {
  tc_tree : scope;
  tc_entry : gtx;                 (* context variable the root is called on *)
  tc_script : list reply;
  tc_default : reply;
  tc_cancel : option nat;
  tc_nc : nat;                    (* CommitRetryCount *)
  tc_nr : nat;                    (* RollbackRetryCount *)
  tc_trace : list ev;             (* observed on the implementation *)
}.

Fixpoint trace_eqb (a b : list ev) : bool :=
  match a, b with
  | [], [] => true
  | x :: a', y :: b' => ev_eqb x y && trace_eqb a' b'
  | _, _ => false
  end.

Definition only_reqs (t : list ev) : list ev :=
  filter (fun e => match e with EReq _ _ | EDiverge => true | _ => false end) t.
Definition only_rets (t : list ev) : list ev :=
  filter (fun e => match e with ERet _ _ => true | _ => false end) t.

Definition model_trace (c : tcase) : list ev :=
  run_case go_shape {| cf_commit_retry := tc_nc c; cf_rollback_retry := tc_nr c |}
           (tc_tree c) (tc_entry c) (tc_script c) (tc_default c) (tc_cancel c).

(* codes: 1 the coordinator's request log differs; 2 a returned value class differs;
   3 what a callback sees (xid/role/name on entry or after a child) differs *)
Definition check_case (c : tcase) : list N :=
  let m := model_trace c in
  let o := tc_trace c in
  if trace_eqb m o then []
  else if negb (trace_eqb (only_reqs m) (only_reqs o)) then [1]
  else if negb (trace_eqb (only_rets m) (only_rets o)) then [2]
  else [3].

Fixpoint mismatches_from (i : nat) (cs : list tcase) : list (nat * N) :=
  match cs with
  | [] => []
  | c :: cs' => map (fun e => (i, e)) (check_case c) ++ mismatches_from (S i) cs'
  end.
Definition mismatches := mismatches_from 0.
