(* Executable model of pkg/tm: the context variable, begin's propagation
   switch (interpreted from a table of small op lists that tools/xlate
   regenerates from `begin`), WithGlobalTx incl. recover and the save/restore
   of the bound transaction, commitOrRollback, and the Commit/Rollback retry
   loops over the backoff (MaxRetries 0 = unbounded: the loop runs on fuel).
   The coordinator is an oracle: a script of replies consumed one per request,
   then a default reply for ever.  Context cancellation is "once the j-th
   request has been received".  Definitions only; proofs in TmProofs.v /
   PropProofs.v. *)
From Coq Require Import List NArith Bool String.
Import ListNotations.
Open Scope N_scope.

(* ---------------------------------------------------------------- data *)
Inductive role := UnKnow | Launcher | Participant.
Inductive mode := Required | RequiresNew | NotSupported | Supports | Never | Mandatory
                | MOther.      (* a Propagation value outside the six constants *)
Inductive outcome := ONil | OErr | OPanic.        (* what the business callback does *)
Inductive result := RNilC | RErrC | RPanicC.       (* class of the value WithGlobalTx returns *)

(* coordinator behaviour for one request *)
Inductive reply :=
| ROk          (* well-formed response, ResultCodeSuccess *)
| RFailed      (* well-formed response, ResultCodeFailed *)
| RErr         (* transport error from SendSyncRequest *)
| RNoReply     (* no reply: the error SendSyncRequest returns after its wait *)
| RNil.        (* (nil, nil): an empty reply without an error *)

(* xids and names are numbers: 0 = "" ; the stub assigns xids 1,2,.. per case *)
Inductive req := QBegin (name : N) | QCommit (xid : N) | QRollback (xid : N).

(* tm.GlobalTransaction inside the ContextVariable (XidCopy and TxStatus are
   not modelled: the TM path never sets the former and the property does not
   speak of the latter) *)
Record gtx := { g_xid : N; g_name : N; g_role : role }.

Inductive ev :=
| EReq (q : req) (r : reply)                 (* request received by the coordinator, and its answer *)
| EEnter (id xid : N) (ro : role) (name : N) (* callback of scope id starts: what it sees in ctx *)
| EAfter (id xid : N) (ro : role) (name : N) (* in scope id's callback after a child returned *)
| ERet (id : N) (res : result)               (* WithGlobalTx of scope id returned *)
| EDiverge.                                  (* the send cap was hit *)

(* a program: nested WithGlobalTx scopes.  id doubles as the transaction name.
   shared = the child is called with the parent's ctx (local call);
   otherwise with a fresh seata context carrying only the xid (remote call). *)
Inductive scope := Scope (m : mode) (id : N) (shared : bool) (kids : list scope) (out : outcome).

(* ops of one arm of begin's switch, as emitted by the translator *)
Inductive bop :=
| BUnbind | BUseExist | BRetNil | BRetErr | BNew
| BUnknown (src : string).
Definition begin_row := (mode * list bop * list bop)%type.   (* mode, arm if IsGlobalTx, arm otherwise *)
(* arms of commitOrRollback's switch on the role *)
Inductive sp_action :=
| SADecide                        (* Commit when the first phase succeeded, else Rollback *)
| SANothing | SAError
| SAUnknown (src : string).
Record code_shape := {
  cs_table : list begin_row;
  cs_default : list bop;          (* default: arm *)
  cs_restores : bool;             (* WithGlobalTx saves the bound GlobalTransaction and restores it on exit *)
  cs_second : list (role * sp_action);
  cs_panic_total : bool;          (* the recovered panic value becomes the returned error by a conversion that is total
                                     (not a type switch / condition that leaves some values out) *)
}.

Record config := { cf_commit_retry : nat; cf_rollback_retry : nat }.

Record world := {
  w_nreq : nat;                   (* requests received so far *)
  w_next : N;                     (* next xid the coordinator assigns *)
  w_script : list reply;
  w_default : reply;
  w_cancel_after : option nat;    (* ctx is cancelled once this many requests were received; Some 0 = on entry *)
  w_halt : bool;                  (* the send cap was hit: harness cancelled the ctx *)
}.

(* ---------------------------------------------------------------- equality *)
Definition role_eqb (a b : role) : bool :=
  match a, b with UnKnow, UnKnow | Launcher, Launcher | Participant, Participant => true | _, _ => false end.
Definition mode_eqb (a b : mode) : bool :=
  match a, b with
  | Required, Required | RequiresNew, RequiresNew | NotSupported, NotSupported
  | Supports, Supports | Never, Never | Mandatory, Mandatory | MOther, MOther => true
  | _, _ => false end.
Definition result_eqb (a b : result) : bool :=
  match a, b with RNilC, RNilC | RErrC, RErrC | RPanicC, RPanicC => true | _, _ => false end.
Definition reply_eqb (a b : reply) : bool :=
  match a, b with
  | ROk, ROk | RFailed, RFailed | RErr, RErr | RNoReply, RNoReply | RNil, RNil => true
  | _, _ => false end.
Definition req_eqb (a b : req) : bool :=
  match a, b with
  | QBegin x, QBegin y | QCommit x, QCommit y | QRollback x, QRollback y => x =? y
  | _, _ => false end.
Definition ev_eqb (a b : ev) : bool :=
  match a, b with
  | EReq q r, EReq q' r' => req_eqb q q' && reply_eqb r r'
  | EEnter i x ro n, EEnter i' x' ro' n' => (i =? i') && (x =? x') && role_eqb ro ro' && (n =? n')
  | EAfter i x ro n, EAfter i' x' ro' n' => (i =? i') && (x =? x') && role_eqb ro ro' && (n =? n')
  | ERet i r, ERet i' r' => (i =? i') && result_eqb r r'
  | EDiverge, EDiverge => true
  | _, _ => false end.

(* ---------------------------------------------------------------- coordinator *)
Definition is_gtx (v : gtx) : bool := negb (g_xid v =? 0).            (* IsGlobalTx *)

Definition cancelled (w : world) : bool :=                             (* ctx.Err() != nil *)
  w_halt w ||
  match w_cancel_after w with Some j => Nat.leb j (w_nreq w) | None => false end.

Definition transport_error (r : reply) : bool :=
  match r with RErr | RNoReply => true | _ => false end.

(* SendSyncRequest against the scripted coordinator *)
Definition send (q : req) (w : world) : world * reply * list ev :=
  let rep := match w_script w with [] => w_default w | r :: _ => r end in
  ({| w_nreq := S (w_nreq w); w_next := w_next w; w_script := tl (w_script w);
      w_default := w_default w; w_cancel_after := w_cancel_after w; w_halt := w_halt w |},
   rep, [EReq q rep]).

Definition bump_next (w : world) : world :=
  {| w_nreq := w_nreq w; w_next := w_next w + 1; w_script := w_script w; w_default := w_default w;
     w_cancel_after := w_cancel_after w; w_halt := w_halt w |}.
Definition halt (w : world) : world :=
  {| w_nreq := w_nreq w; w_next := w_next w; w_script := w_script w; w_default := w_default w;
     w_cancel_after := w_cancel_after w; w_halt := true |}.

(* ---------------------------------------------------------------- begin *)
Definition set_xid (v : gtx) (x : N) : gtx := {| g_xid := x; g_name := g_name v; g_role := g_role v |}.
Definition clear_conf (v : gtx) : gtx := {| g_xid := g_xid v; g_name := 0; g_role := UnKnow |}.   (* clearTxConf *)
Definition use_exist (name : N) (v : gtx) : gtx :=                                                 (* useExistGtx *)
  if is_gtx v then {| g_xid := g_xid v; g_name := name; g_role := Participant |} else v.
Definition fresh_of (v : gtx) : gtx := {| g_xid := g_xid v; g_name := 0; g_role := UnKnow |}.     (* carrier: xid only *)

(* beginNewGtx + GlobalTransactionManager.Begin *)
Definition begin_new (name : N) (w : world) (v : gtx) : world * gtx * bool * list ev :=
  let v1 := {| g_xid := g_xid v; g_name := name; g_role := Launcher |} in
  let '(w1, rep, es) := send (QBegin name) w in
  match rep with
  | ROk => (bump_next w1, set_xid v1 (w_next w1), true, es)
  | _ => (w1, v1, false, es)
  end.

Fixpoint run_bops (ops : list bop) (name : N) (w : world) (v : gtx) : world * gtx * bool * list ev :=
  match ops with
  | [] => (w, v, false, [])
  | BUnbind :: r => run_bops r name w (set_xid v 0)
  | BUseExist :: r => run_bops r name w (use_exist name v)
  | BRetNil :: _ => (w, v, true, [])
  | BRetErr :: _ => (w, v, false, [])
  | BNew :: _ => begin_new name w v
  | BUnknown _ :: _ => (w, v, false, [])
  end.

Fixpoint lookup_row (t : list begin_row) (m : mode) : option (list bop * list bop) :=
  match t with
  | [] => None
  | (m', a, b) :: t' => if mode_eqb m m' then Some (a, b) else lookup_row t' m
  end.
Definition ops_for (cs : code_shape) (m : mode) (tx : bool) : list bop :=
  match lookup_row (cs_table cs) m with
  | Some (a, b) => if tx then a else b
  | None => cs_default cs
  end.

(* ---------------------------------------------------------------- second phase *)
Inductive sp_result := SPNil | SPErr | SPDiverge.

(* Commit / Rollback: `for bf.Ongoing() { send; if err == nil break; bf.Wait() }` then the
   result.  k = numRetries.  An acknowledged send (any well-formed response: the
   ResultCode is not looked at) is success; nothing sent, every send failed, or an empty
   reply is an error.  Fuel = the harness's send cap. *)
Fixpoint sp_loop (fuel : nat) (n k : nat) (q : req) (w : world) : world * sp_result * list ev :=
  if cancelled w || (negb (Nat.eqb n 0) && Nat.leb n k) then (w, SPErr, [])
  else match fuel with
       | O => (halt w, SPDiverge, [EDiverge])
       | S f =>
           let '(w1, rep, es) := send q w in
           match rep with
           | ROk | RFailed => (w1, SPNil, es)
           | RNil => (w1, SPErr, es)
           | RErr | RNoReply =>
               let '(w2, r, es2) := sp_loop f n (S k) q w1 in (w2, r, es ++ es2)
           end
       end.

Definition send_cap : nat := 8.

(* the deferred part of WithGlobalTx: `if IsGlobalTx(ctx) { commitOrRollback(...) }`;
   returns whether it produced an error *)
Fixpoint lookup_role (t : list (role * sp_action)) (r : role) : option sp_action :=
  match t with
  | [] => None
  | (r', a) :: t' => if role_eqb r r' then Some a else lookup_role t' r
  end.

(* GlobalTransactionManager.Commit/Rollback: ignored unless the role is Launcher *)
Definition decide (cf : config) (ok : bool) (w : world) (v : gtx) : world * bool * list ev :=
  match g_role v with
  | Launcher =>
      let '(w1, r, es) :=
        sp_loop send_cap (if ok then cf_commit_retry cf else cf_rollback_retry cf) 0
                (if ok then QCommit (g_xid v) else QRollback (g_xid v)) w in
      (w1, match r with SPNil => false | _ => true end, es)
  | _ => (w, false, [])
  end.

Definition second_phase (cs : code_shape) (cf : config) (ok : bool) (w : world) (v : gtx) : world * bool * list ev :=
  if is_gtx v then
    match lookup_role (cs_second cs) (g_role v) with
    | Some SADecide => decide cf ok w v
    | Some SANothing => (w, false, [])
    | Some SAError => (w, true, [])
    | Some (SAUnknown _) => (w, true, [])
    | None => (w, false, [])          (* a switch without a matching case does nothing *)
    end
  else (w, false, []).

(* ---------------------------------------------------------------- WithGlobalTx over scope trees *)
Definition out_ok (o : outcome) : bool := match o with ONil => true | _ => false end.

(* children of scope `id`, run in order on the scope's own context variable; after each
   the callback looks at its context (EAfter) *)
Definition kids_with (rs : scope -> world -> gtx -> world * gtx * result * list ev) (id : N) :=
  fix kids_loop (ks : list scope) (w : world) (v : gtx) {struct ks} : world * gtx * list ev :=
    match ks with
    | [] => (w, v, [])
    | k :: ks' =>
        let '(wa, va, _, ea) := rs k w v in
        let '(wb, vb, eb) := kids_loop ks' wa va in
        (wb, vb, ea ++ [EAfter id (g_xid va) (g_role va) (g_name va)] ++ eb)
    end.

Section Run.
  Variable cs : code_shape.
  Variable cf : config.

  (* v = the caller's context variable; returns the caller's variable afterwards *)
  Fixpoint run_scope (s : scope) (w : world) (v : gtx) {struct s} : world * gtx * result * list ev :=
    match s with
    | Scope m id shared kids out =>
        let vin := if shared then v else fresh_of v in
        let v0 := if is_gtx vin then clear_conf vin else vin in
        let '(w1, v1, ok, es1) := run_bops (ops_for cs m (is_gtx v0)) id w v0 in
        let back (vend : gtx) := if shared then (if cs_restores cs then v else vend) else v in
        if negb ok then (w1, back v1, RErrC, es1 ++ [ERet id RErrC])
        else
          let '(w3, v3, es3) := kids_with run_scope id kids w1 v1 in
          let '(w4, sperr, es4) := second_phase cs cf (out_ok out) w3 v3 in
          let res := if out_ok out && negb sperr then RNilC else RErrC in
          (w4, back v3, res,
           es1 ++ [EEnter id (g_xid v1) (g_role v1) (g_name v1)] ++ es3 ++ es4 ++ [ERet id res])
    end.

  Definition run_kids := kids_with run_scope.
End Run.

(* the trace the harness can see: frozen when the cap is hit *)
Fixpoint truncate (t : list ev) : list ev :=
  match t with
  | [] => []
  | EDiverge :: _ => [EDiverge]
  | e :: t' => e :: truncate t'
  end.

Definition init_world (script : list reply) (dflt : reply) (cancel : option nat) : world :=
  {| w_nreq := 0; w_next := 1; w_script := script; w_default := dflt; w_cancel_after := cancel; w_halt := false |}.

(* one harness case: the root scope called on a context whose variable is `entry`,
   then the variable is read back *)
Definition run_case (cs : code_shape) (cf : config) (t : scope) (entry : gtx)
           (script : list reply) (dflt : reply) (cancel : option nat) : list ev :=
  let '(_, v, _, es) := run_scope cs cf t (init_world script dflt cancel) entry in
  truncate (es ++ [EAfter 0 (g_xid v) (g_role v) (g_name v)]).

(* ---------------------------------------------------------------- documented semantics (independent reference) *)
Inductive sev := SReq (q : req) | SEnter (id xid : N) | SRet (id : N) (res : result).
Inductive disposition := DJoin | DNew | DNone | DFail.

(* the propagation table of the documentation (constant.go comments / Seata):
   by mode and by whether a transaction is current *)
Definition disposition_of (m : mode) (has_tx : bool) : disposition :=
  match m, has_tx with
  | Required, true => DJoin      | Required, false => DNew
  | RequiresNew, _ => DNew
  | NotSupported, _ => DNone
  | Supports, true => DJoin      | Supports, false => DNone
  | Never, true => DFail         | Never, false => DNone
  | Mandatory, true => DJoin     | Mandatory, false => DFail
  | MOther, _ => DFail
  end.

Definition res_of (o : outcome) : result := if out_ok o then RNilC else RErrC.

Definition spec_kids_with (sp : scope -> N -> N -> list sev * N) :=
  fix sk (ks : list scope) (cur next : N) {struct ks} : list sev * N :=
    match ks with
    | [] => ([], next)
    | k :: ks' => let '(e1, n1) := sp k cur next in
                  let '(e2, n2) := sk ks' cur n1 in (e1 ++ e2, n2)
    end.

(* cur = xid of the current transaction (0 = none); next = next xid the coordinator hands out *)
Fixpoint spec_scope (s : scope) (cur next : N) {struct s} : list sev * N :=
  match s with
  | Scope m id _ kids out =>
      match disposition_of m (negb (cur =? 0)) with
      | DFail => ([SRet id RErrC], next)
      | DJoin => let '(es, n') := spec_kids_with spec_scope kids cur next in
                 (SEnter id cur :: es ++ [SRet id (res_of out)], n')
      | DNone => let '(es, n') := spec_kids_with spec_scope kids 0 next in
                 (SEnter id 0 :: es ++ [SRet id (res_of out)], n')
      | DNew => let '(es, n') := spec_kids_with spec_scope kids next (next + 1) in
                (SReq (QBegin id) :: SEnter id next :: es ++
                 [SReq (if out_ok out then QCommit next else QRollback next); SRet id (res_of out)], n')
      end
  end.
Definition spec_kids := spec_kids_with spec_scope.

(* what of an implementation trace the documented semantics speaks about *)
Fixpoint project (t : list ev) : list sev :=
  match t with
  | [] => []
  | EReq q _ :: t' => SReq q :: project t'
  | EEnter id x _ _ :: t' => SEnter id x :: project t'
  | ERet id r :: t' => SRet id r :: project t'
  | _ :: t' => project t'
  end.

Definition reqs_of (t : list sev) : list req :=
  flat_map (fun e => match e with SReq q => [q] | _ => [] end) t.
Definition sees_of (t : list sev) : list (N * N) :=
  flat_map (fun e => match e with SEnter i x => [(i, x)] | _ => [] end) t.

(* ---------------------------------------------------------------- conformance of a regenerated table *)
Definition bop_eqb (a b : bop) : bool :=
  match a, b with
  | BUnbind, BUnbind | BUseExist, BUseExist | BRetNil, BRetNil | BRetErr, BRetErr | BNew, BNew => true
  | _, _ => false end.

Fixpoint ops_eqb (a b : list bop) : bool :=
  match a, b with
  | [], [] => true
  | x :: a', y :: b' => bop_eqb x y && ops_eqb a' b'
  | _, _ => false
  end.

(* the op sequence that realises a disposition (tx: a transaction is current) *)
Definition expected_arm (d : disposition) (tx : bool) : list bop :=
  match d, tx with
  | DJoin, _ => [BUseExist; BRetNil]
  | DNew, true => [BUnbind; BNew]
  | DNew, false => [BNew]
  | DNone, true => [BUnbind; BRetNil]
  | DNone, false => [BRetNil]
  | DFail, _ => [BRetErr]
  end.

Definition arm_ok (m : mode) (tx : bool) (ops : list bop) : bool :=
  ops_eqb ops (expected_arm (disposition_of m tx) tx).

Definition all_modes : list mode := [Required; RequiresNew; NotSupported; Supports; Never; Mandatory; MOther].

Definition shape_ok (cs : code_shape) : bool :=
  forallb (fun m => arm_ok m true (ops_for cs m true) && arm_ok m false (ops_for cs m false)) all_modes
  && cs_restores cs
  && match lookup_role (cs_second cs) Launcher, lookup_role (cs_second cs) Participant,
           lookup_role (cs_second cs) UnKnow with
     | Some SADecide, Some SANothing, Some SAError => true
     | _, _, _ => false
     end
  && cs_panic_total cs.

(* ---------------------------------------------------------------- observables used in the theorem statements *)
Definition is_begin (e : ev) : bool := match e with EReq (QBegin _) _ => true | _ => false end.
Definition is_commit (e : ev) : bool := match e with EReq (QCommit _) _ => true | _ => false end.
Definition is_rollback (e : ev) : bool := match e with EReq (QRollback _) _ => true | _ => false end.
Definition n_begins (t : list ev) : nat := List.length (filter is_begin t).
Definition n_commits (t : list ev) : nat := List.length (filter is_commit t).
Definition n_rollbacks (t : list ev) : nat := List.length (filter is_rollback t).
(* replies to the commit/rollback requests, in order; xids those requests name *)
Definition sp_replies (t : list ev) : list reply :=
  flat_map (fun e => match e with EReq (QCommit _) r | EReq (QRollback _) r => [r] | _ => [] end) t.
Definition sp_xids (t : list ev) : list N :=
  flat_map (fun e => match e with EReq (QCommit x) _ | EReq (QRollback x) _ => [x] | _ => [] end) t.
Definition diverged (t : list ev) : bool :=
  existsb (fun e => match e with EDiverge => true | _ => false end) t.
(* this call's own begin was acknowledged *)
Definition began (id : N) (t : list ev) : bool := existsb (ev_eqb (EReq (QBegin id) ROk)) t.
Definition entered (t : list ev) : bool :=
  existsb (fun e => match e with EEnter _ _ _ _ => true | _ => false end) t.
Definition acked (r : reply) : bool := match r with ROk | RFailed => true | _ => false end.
Definition leaf (m : mode) (id : N) (out : outcome) : scope := Scope m id true [] out.
Definition sp_n (cf : config) (out : outcome) : nat :=
  if out_ok out then cf_commit_retry cf else cf_rollback_retry cf.
(* the coordinator never answers a commit/rollback with ResultCode = Failed
   (complement of the finding predicate tm.second-phase.failed-result) *)
Definition never_failed (w : world) : bool :=
  forallb (fun r => negb (reply_eqb r RFailed)) (w_script w) && negb (reply_eqb (w_default w) RFailed).

(* ---------------------------------------------------------------- per-transaction observables over programs *)
(* second-phase requests naming xid x, with their replies, in order *)
Definition names (x : N) (e : ev) : bool :=
  match e with EReq (QCommit y) _ | EReq (QRollback y) _ => y =? x | _ => false end.
Definition seg (x : N) (t : list ev) : list ev := filter (names x) t.
(* every WithGlobalTx call of a program *)
Fixpoint subscopes (s : scope) : list scope :=
  match s with Scope _ _ _ kids _ => s :: flat_map subscopes kids end.
Definition sp_q (out : outcome) (x : N) : req := if out_ok out then QCommit x else QRollback x.

(* the scope s (one WithGlobalTx call of the program) began transaction x and is the one that
   decided it: every request naming x in the whole trace is ITS decision -- commit iff its
   business returned nil, rollback otherwise, never both; resent only after transport failures, at
   most the configured number of times; and the value it returned is nil exactly when its business
   returned nil and the last reply to its commit was a well-formed response *)
Definition decided (cf : config) (x : N) (s : scope) (t : list ev) : Prop :=
  match s with
  | Scope m id sh kids out =>
      exists reps,
        seg x t = map (EReq (sp_q out x)) reps /\ reps <> [] /\
        Forall (fun r => transport_error r = true) (removelast reps) /\
        (sp_n cf out <> 0%nat -> (List.length reps <= sp_n cf out)%nat) /\
        In (EReq (QBegin id) ROk) t /\ In (EEnter id x Launcher id) t /\
        exists res, In (ERet id res) t /\ (res = RNilC <-> out = ONil /\ acked (last reps RNil) = true)
  end.
