(* How the xid travels through the gRPC, gin and dubbo integrations
   (the packages under pkg/integration): which key the sender writes, how the transport
   normalises keys, in which order the receiver looks keys up.  Definitions only. *)
From Coq Require Import List NArith Bool String.
From SeataV Require Import Base.Bytes.
Import ListNotations.
Open Scope N_scope.

Inductive carrier := Grpc | Gin | Dubbo.
(* the value stored under a key: a string; a list of strings (gRPC metadata and HTTP headers are
   multi-valued; the triple protocol hands dubbo attachments over wrapped in []string); or
   something that is neither (dubbo attachments are interface{} values) *)
Inductive aval := AStr (s : bytes) | AList (l : list bytes) | AOther.
Definition headers := list (bytes * aval).
Definition vals (v : aval) : list bytes :=
  match v with AStr s => [s] | AList l => l | AOther => [] end.

Definition lower_b (c : byte) : byte :=
  let n := b2n c in if (65 <=? n) && (n <=? 90) then n2b (n + 32) else c.
Definition upper_b (c : byte) : byte :=
  let n := b2n c in if (97 <=? n) && (n <=? 122) then n2b (n - 32) else c.
Definition lower (s : bytes) : bytes := map lower_b s.           (* strings.ToLower on ASCII *)

(* net/textproto.CanonicalMIMEHeaderKey: a key with a byte that is not a token character
   is left alone; otherwise first letter and letters after '-' upper case, the rest lower *)
Definition token_b (c : byte) : bool :=
  let n := b2n c in
  ((48 <=? n) && (n <=? 57)) || ((65 <=? n) && (n <=? 90)) || ((97 <=? n) && (n <=? 122)) ||
  existsb (N.eqb n) [33; 35; 36; 37; 38; 39; 42; 43; 45; 46; 94; 95; 96; 124; 126].
Fixpoint canon_from (up : bool) (s : bytes) : bytes :=
  match s with
  | [] => []
  | c :: r => (if up then upper_b c else lower_b c) :: canon_from (b2n c =? 45) r
  end.
Definition canon (s : bytes) : bytes := if forallb token_b s then canon_from true s else s.

Fixpoint first_nonempty (l : list bytes) : bytes :=
  match l with
  | [] => []
  | [] :: r => first_nonempty r
  | x :: _ => x
  end.

Definition k_TX_XID : bytes := bytes_of_string "TX_XID".
Definition k_tx_xid : bytes := bytes_of_string "tx_xid".
Definition k_SEATA_XID : bytes := bytes_of_string "SEATA_XID".

(* what the transport does to a key the sender set: metadata.New / Pairs / Append and the
   wire lower-case; http.Header.Set / Add and the server's reader canonicalise; dubbo
   attachments are a plain map *)
Definition norm (c : carrier) (k : bytes) : bytes :=
  match c with Grpc => lower k | Gin => canon k | Dubbo => k end.

(* md.Get(K)[0] / Header.Get(K) / GetAttachment(K): the first of all values that ended up under
   the normalised key K ("" when there is none); a dubbo []string attachment yields its first
   element, a value of another type nothing *)
Definition get (c : carrier) (K : bytes) (h : headers) : bytes :=
  hd [] (flat_map (fun kv => if bytes_eqb (norm c (fst kv)) K then vals (snd kv) else []) h).

(* keys the receiver asks for, in its order: ServerTransactionInterceptor /
   TransactionMiddleware / dubboTransactionFilter.getRpcXid *)
Definition wanted (c : carrier) : list bytes :=
  match c with
  | Grpc => [norm Grpc k_TX_XID; norm Grpc k_tx_xid]
  | Gin => [norm Gin k_TX_XID; norm Gin k_tx_xid]
  | Dubbo => [k_SEATA_XID; lower k_SEATA_XID; k_TX_XID; lower k_TX_XID]
  end.
Definition extract (c : carrier) (h : headers) : bytes :=
  first_nonempty (map (fun K => get c K h) (wanted c)).
Definition carried := extract.

(* the sender, on headers `pre` the outgoing context / request / invocation already holds:
   ClientTransactionInterceptor REPLACES the outgoing metadata by {TX_XID: xid};
   an HTTP caller SETS the header (all values under the canonical key go);
   dubboTransactionFilter.Invoke SETS the attachments SEATA_XID and TX_XID.
   With xid = [] the sender runs without a transaction (none, or suspended): gRPC still replaces
   the metadata by {TX_XID: ""}, the HTTP caller sets an empty header *)
Definition inject (c : carrier) (xid : bytes) (pre : headers) : headers :=
  match c with
  | Grpc => [(k_TX_XID, AStr xid)]
  | Gin => (k_TX_XID, AStr xid) ::
           filter (fun kv => negb (bytes_eqb (canon (fst kv)) (canon k_TX_XID))) pre
  | Dubbo =>
      match xid with
      | [] => pre      (* no transaction bound: the filter leaves the attachments as they are *)
      | _ => (k_SEATA_XID, AStr xid) :: (k_TX_XID, AStr xid) ::
             filter (fun kv => negb (bytes_eqb (fst kv) k_SEATA_XID || bytes_eqb (fst kv) k_TX_XID)) pre
      end
  end.

(* key spellings under which a receiver finds the xid *)
Definition accepted (c : carrier) (k : bytes) : bool :=
  match c with
  | Grpc => bytes_eqb (lower k) k_tx_xid
  | Gin => bytes_eqb (canon k) (canon k_TX_XID)
  | Dubbo => bytes_eqb k k_SEATA_XID || bytes_eqb k (lower k_SEATA_XID) ||
             bytes_eqb k k_TX_XID || bytes_eqb k k_tx_xid
  end.

(* ---- comparison with what the real integrations did (harness tmcarrier) *)
Record ccase := {
  cc_kind : carrier;
  cc_roundtrip : bool;          (* true: the sender half ran with cc_xid on top of cc_hdrs *)
  cc_hdrs : headers;            (* otherwise: exactly what the receiver is handed *)
  cc_xid : bytes;
  cc_got : bytes;               (* xid the callee found in its context *)
}.
Definition check_ccase (c : ccase) : list N :=
  let h := if cc_roundtrip c then inject (cc_kind c) (cc_xid c) (cc_hdrs c) else cc_hdrs c in
  if bytes_eqb (carried (cc_kind c) h) (cc_got c) then [] else [4].
Fixpoint cmismatches_from (i : nat) (cs : list ccase) : list (nat * N) :=
  match cs with
  | [] => []
  | c :: cs' => map (fun e => (i, e)) (check_ccase c) ++ cmismatches_from (S i) cs'
  end.
Definition cmismatches := cmismatches_from 0.
