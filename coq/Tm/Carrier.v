(* How the xid travels through the gRPC, gin and dubbo integrations
   (the packages under pkg/integration): which key the sender writes, how the transport
   normalises keys, in which order the receiver looks keys up.  Definitions only. *)
From Coq Require Import List NArith Bool String.
From SeataV Require Import Base.Bytes.
Import ListNotations.
Open Scope N_scope.

Inductive carrier := Grpc | Gin | Dubbo.
Definition headers := list (bytes * bytes).

Definition lower_b (c : byte) : byte :=
  let n := b2n c in if (65 <=? n) && (n <=? 90) then n2b (n + 32) else c.
Definition upper_b (c : byte) : byte :=
  let n := b2n c in if (97 <=? n) && (n <=? 122) then n2b (n - 32) else c.
Definition lower (s : bytes) : bytes := map lower_b s.           (* strings.ToLower on ASCII *)

(* net/textproto.CanonicalMIMEHeaderKey: a key with a byte that is not a token character
   is left alone; otherwise first letter and letters after '-' upper case, the rest lower *)
Definition token_b (c : byte) : bool :=
  let n := b2n c in
  ((48 <=? n) && (n <=? 57)) || ((65 <=? n) && (n <=? 90)) || ((97 <=? n) && (n <=? 122)) ||
  existsb (N.eqb n) [33; 35; 36; 37; 38; 39; 42; 43; 45; 46; 94; 95; 96; 124; 126].
Fixpoint canon_from (up : bool) (s : bytes) : bytes :=
  match s with
  | [] => []
  | c :: r => (if up then upper_b c else lower_b c) :: canon_from (b2n c =? 45) r
  end.
Definition canon (s : bytes) : bytes := if forallb token_b s then canon_from true s else s.

Fixpoint lookup (k : bytes) (h : headers) : bytes :=            (* "" when absent *)
  match h with
  | [] => []
  | (k', v) :: h' => if bytes_eqb k k' then v else lookup k h'
  end.
Fixpoint first_nonempty (l : list bytes) : bytes :=
  match l with
  | [] => []
  | [] :: r => first_nonempty r
  | x :: _ => x
  end.

Definition k_TX_XID : bytes := bytes_of_string "TX_XID".
Definition k_tx_xid : bytes := bytes_of_string "tx_xid".
Definition k_SEATA_XID : bytes := bytes_of_string "SEATA_XID".

(* what the transport does to the keys the sender set *)
Definition normalise (c : carrier) (h : headers) : headers :=
  match c with
  | Grpc => map (fun kv => (lower (fst kv), snd kv)) h           (* metadata.New / Pairs / the wire *)
  | Gin => map (fun kv => (canon (fst kv), snd kv)) h            (* http.Header.Set / the server's reader *)
  | Dubbo => h                                                   (* attachments: a plain map *)
  end.

(* the receiver: ServerTransactionInterceptor / TransactionMiddleware / dubboTransactionFilter.getRpcXid *)
Definition extract (c : carrier) (h : headers) : bytes :=
  match c with
  | Grpc => first_nonempty [lookup (lower k_TX_XID) h; lookup (lower k_tx_xid) h]      (* md.Get lowercases *)
  | Gin => first_nonempty [lookup (canon k_TX_XID) h; lookup (canon k_tx_xid) h]       (* Header.Get canonicalises *)
  | Dubbo => first_nonempty [lookup k_SEATA_XID h; lookup (lower k_SEATA_XID) h;
                             lookup k_TX_XID h; lookup (lower k_TX_XID) h]
  end.

(* the sender: ClientTransactionInterceptor / (caller sets the header) / dubboTransactionFilter.Invoke *)
Definition inject (c : carrier) (xid : bytes) : headers :=
  match c with
  | Grpc => [(k_TX_XID, xid)]
  | Gin => [(k_TX_XID, xid)]
  | Dubbo => [(k_SEATA_XID, xid); (k_TX_XID, xid)]
  end.

Definition carried (c : carrier) (h : headers) : bytes := extract c (normalise c h).

(* key spellings under which a receiver finds the xid *)
Definition accepted (c : carrier) (k : bytes) : bool :=
  match c with
  | Grpc => bytes_eqb (lower k) k_tx_xid
  | Gin => bytes_eqb (canon k) (canon k_TX_XID)
  | Dubbo => bytes_eqb k k_SEATA_XID || bytes_eqb k (lower k_SEATA_XID) ||
             bytes_eqb k k_TX_XID || bytes_eqb k k_tx_xid
  end.

(* ---- comparison with what the real integrations did (harness tmrun carrier) *)
Record ccase := {
  cc_kind : carrier;
  cc_roundtrip : bool;          (* true: the sender half produced the headers from cc_xid *)
  cc_key : bytes;               (* otherwise: the single key the headers were built with *)
  cc_xid : bytes;
  cc_got : bytes;               (* xid the callee found in its context *)
}.
Definition check_ccase (c : ccase) : list N :=
  let h := if cc_roundtrip c then inject (cc_kind c) (cc_xid c) else [(cc_key c, cc_xid c)] in
  if bytes_eqb (carried (cc_kind c) h) (cc_got c) then [] else [4].
Fixpoint cmismatches_from (i : nat) (cs : list ccase) : list (nat * N) :=
  match cs with
  | [] => []
  | c :: cs' => map (fun e => (i, e)) (check_ccase c) ++ cmismatches_from (S i) cs'
  end.
Definition cmismatches := cmismatches_from 0.
