(* Scope trees of any depth: the enclosing scope's context is intact after an inner
   scope (any coordinator behaviour), and against a coordinator that always answers ok
   the model of WithGlobalTx produces exactly the trace of the documented semantics.
   Structural induction over the tree (nested through the list of children). *)
From Coq Require Import List NArith Bool Lia Arith.
From SeataV Require Import Tm.TmModel Tm.TmProofs.
Import ListNotations.
Open Scope N_scope.

(* ---------------------------------------------------------------- induction principle *)
Lemma scope_ind' (P : scope -> Prop) :
  (forall m id sh kids out, Forall P kids -> P (Scope m id sh kids out)) -> forall s, P s.
Proof.
  intro H. fix IH 1. intros [m id sh kids out]. apply H.
  induction kids as [|k ks IHk]; constructor; [apply IH|exact IHk].
Qed.

(* ---------------------------------------------------------------- unfolding *)
Lemma run_scope_eq cs cf m id shared kids out w v :
  run_scope cs cf (Scope m id shared kids out) w v =
    let vin := if shared then v else fresh_of v in
    let v0 := if is_gtx vin then clear_conf vin else vin in
    let '(w1, v1, ok, es1) := run_bops (ops_for cs m (is_gtx v0)) id w v0 in
    let back (vend : gtx) := if shared then (if cs_restores cs then v else vend) else v in
    if negb ok then (w1, back v1, RErrC, es1 ++ [ERet id RErrC])
    else
      let '(w3, v3, es3) := run_kids cs cf id kids w1 v1 in
      let '(w4, sperr, es4) := second_phase cs cf (out_ok out) w3 v3 in
      let res := if out_ok out && negb sperr then RNilC else RErrC in
      (w4, back v3, res,
       es1 ++ [EEnter id (g_xid v1) (g_role v1) (g_name v1)] ++ es3 ++ es4 ++ [ERet id res]).
Proof. reflexivity. Qed.

Lemma run_kids_cons cs cf id k ks w v :
  run_kids cs cf id (k :: ks) w v =
    let '(wa, va, _, ea) := run_scope cs cf k w v in
    let '(wb, vb, eb) := run_kids cs cf id ks wa va in
    (wb, vb, ea ++ [EAfter id (g_xid va) (g_role va) (g_name va)] ++ eb).
Proof. reflexivity. Qed.

Lemma spec_scope_eq m id sh kids out cur next :
  spec_scope (Scope m id sh kids out) cur next =
      match disposition_of m (negb (cur =? 0)) with
      | DFail => ([SRet id RErrC], next)
      | DJoin => let '(es, n') := spec_kids kids cur next in
                 (SEnter id cur :: es ++ [SRet id (res_of out)], n')
      | DNone => let '(es, n') := spec_kids kids 0 next in
                 (SEnter id 0 :: es ++ [SRet id (res_of out)], n')
      | DNew => let '(es, n') := spec_kids kids next (next + 1) in
                (SReq (QBegin id) :: SEnter id next :: es ++
                 [SReq (if out_ok out then QCommit next else QRollback next); SRet id (res_of out)], n')
      end.
Proof. reflexivity. Qed.

Lemma spec_kids_cons k ks cur next :
  spec_kids (k :: ks) cur next =
    let '(e1, n1) := spec_scope k cur next in
    let '(e2, n2) := spec_kids ks cur n1 in (e1 ++ e2, n2).
Proof. reflexivity. Qed.

(* ---------------------------------------------------------------- which events the pieces emit *)
Definition req_like (e : ev) : Prop := match e with EReq _ _ | EDiverge => True | _ => False end.

Lemma run_bops_events : forall ops name w v w' v' ok es,
  run_bops ops name w v = (w', v', ok, es) -> Forall req_like es.
Proof.
  induction ops as [|o ops IH]; intros name w v w' v' ok es H; cbn [run_bops] in H.
  - inversion H. constructor.
  - destruct o; try (inversion H; constructor); try (eapply IH; exact H).
    unfold begin_new in H. rewrite send_eq in H.
    destruct (match w_script w with [] => w_default w | r :: _ => r end); inversion H; repeat constructor.
Qed.

Lemma sp_loop_events fuel n k q w w' r es :
  sp_loop fuel n k q w = (w', r, es) -> Forall req_like es.
Proof.
  intro H. destruct (sp_loop_spec _ _ _ _ _ _ _ _ H) as (reps & -> & _).
  apply Forall_app. split.
  - apply Forall_forall. intros e He. apply in_map_iff in He as (? & <- & _). exact I.
  - destruct r; repeat constructor.
Qed.

Lemma second_phase_events cs cf ok w v w' e es :
  second_phase cs cf ok w v = (w', e, es) -> Forall req_like es.
Proof.
  unfold second_phase. intro H.
  destruct (is_gtx v); [|inversion H; constructor].
  destruct (lookup_role (cs_second cs) (g_role v)) as [a|]; [|inversion H; constructor].
  destruct a; try (inversion H; constructor).
  unfold decide in H. destruct (g_role v).
  - inversion H; constructor.
  - destruct (sp_loop _ _ _ _ _) as [[w1 r] es1] eqn:E. inversion H; subst.
    eapply sp_loop_events; exact E.
  - inversion H; constructor.
Qed.

Lemma req_like_not_after es id x ro nm : Forall req_like es -> ~ In (EAfter id x ro nm) es.
Proof. intros HF Hin. rewrite Forall_forall in HF. apply (HF _ Hin). Qed.

(* ---------------------------------------------------------------- C07_outer_intact *)
Definition intact (cs : code_shape) (cf : config) (s : scope) : Prop :=
  forall w v w' v' res es,
    run_scope cs cf s w v = (w', v', res, es) ->
    v' = v /\
    forall id x ro nm, In (EAfter id x ro nm) es -> In (EEnter id x ro nm) es.

Lemma kids_intact cs cf id ks :
  Forall (intact cs cf) ks ->
  forall w v wb vb eb,
    run_kids cs cf id ks w v = (wb, vb, eb) ->
    vb = v /\
    forall id' x ro nm, In (EAfter id' x ro nm) eb ->
      (id' = id /\ x = g_xid v /\ ro = g_role v /\ nm = g_name v) \/ In (EEnter id' x ro nm) eb.
Proof.
  induction 1 as [|k ks Hk Hks IH]; intros w v wb vb eb H.
  - inversion H; subst. split; [reflexivity|]. intros ? ? ? ? [].
  - rewrite run_kids_cons in H.
    destruct (run_scope cs cf k w v) as [[[wa va] ra] ea] eqn:Ek.
    destruct (run_kids cs cf id ks wa va) as [[wb' vb'] eb'] eqn:Eks.
    inversion H; subst; clear H.
    destruct (Hk _ _ _ _ _ _ Ek) as [-> Hka].
    destruct (IH _ _ _ _ _ Eks) as [-> Hkb].
    split; [reflexivity|].
    intros id' x ro nm Hin. apply in_app_or in Hin as [Hin|Hin].
    + right. apply in_or_app. left. now apply Hka.
    + cbn in Hin. destruct Hin as [Heq|Hin].
      * inversion Heq; subst. left. auto.
      * destruct (Hkb _ _ _ _ Hin) as [?|?]; [left; assumption|].
        right. apply in_or_app. right. now right.
Qed.

Lemma all_intact cs cf : cs_restores cs = true -> forall s, intact cs cf s.
Proof.
  intros Hr. apply scope_ind'. intros m id sh kids out HK.
  intros w v w' v' res es H. rewrite run_scope_eq in H. cbv zeta in H. rewrite Hr in H.
  destruct (run_bops _ id w _) as [[[w1 v1] ok] es1] eqn:Eb.
  pose proof (run_bops_events _ _ _ _ _ _ _ _ Eb) as Hes1.
  destruct ok; cbn [negb] in H.
  - destruct (run_kids cs cf id kids w1 v1) as [[w3 v3] es3] eqn:Ek.
    destruct (second_phase cs cf (out_ok out) w3 v3) as [[w4 sperr] es4] eqn:Es.
    pose proof (second_phase_events _ _ _ _ _ _ _ _ Es) as Hes4.
    destruct (kids_intact cs cf id kids HK _ _ _ _ _ Ek) as [-> Hk].
    inversion H; subst; clear H. split; [destruct sh; reflexivity|].
    intros id' x ro nm Hin.
    apply in_app_or in Hin as [Hin|Hin]; [exfalso; exact (req_like_not_after _ _ _ _ _ Hes1 Hin)|].
    apply in_or_app. right.
    cbn [app] in Hin |- *. destruct Hin as [Hin|Hin]; [discriminate|].
    apply in_app_or in Hin as [Hin|Hin].
    + destruct (Hk _ _ _ _ Hin) as [(-> & -> & -> & ->)|Hin']; [now left|].
      right. apply in_or_app. now left.
    + exfalso. apply in_app_or in Hin as [Hin|Hin]; [exact (req_like_not_after _ _ _ _ _ Hes4 Hin)|].
      cbn in Hin. destruct Hin as [Hin|[]]. discriminate.
  - inversion H; subst; clear H. split; [destruct sh; reflexivity|].
    intros id' x ro nm Hin. exfalso.
    apply in_app_or in Hin as [Hin|Hin]; [exact (req_like_not_after _ _ _ _ _ Hes1 Hin)|].
    cbn in Hin. destruct Hin as [Hin|[]]. discriminate.
Qed.

(* ---------------------------------------------------------------- a coordinator that always answers ok *)
Record okw (w : world) : Prop := {
  ok_script : w_script w = [];
  ok_default : w_default w = ROk;
  ok_cancel : w_cancel_after w = None;
  ok_halt : w_halt w = false;
  ok_next : w_next w <> 0;
}.

Lemma okw_after_begin w : okw w -> okw (after_begin w).
Proof.
  intros [a b c d e]. unfold after_begin, bump_next. constructor; cbn; try assumption.
  - now rewrite a.
  - lia.
Qed.

Lemma okw_next_reply w : okw w -> next_reply w = ROk.
Proof. intros [a b _ _ _]. unfold next_reply. now rewrite a. Qed.

Lemma okw_not_cancelled w : okw w -> cancelled w = false.
Proof. intros [_ _ c d _]. unfold cancelled. now rewrite c, d. Qed.

Definition sent (w : world) : world :=
  {| w_nreq := S (w_nreq w); w_next := w_next w; w_script := tl (w_script w);
     w_default := w_default w; w_cancel_after := w_cancel_after w; w_halt := w_halt w |}.

Lemma okw_sent w : okw w -> okw (sent w).
Proof. intros [a b c d e]. unfold sent. constructor; cbn; try assumption. now rewrite a. Qed.

Lemma sp_loop_okw n q w : okw w ->
  sp_loop send_cap n 0 q w = (sent w, SPNil, [EReq q ROk]).
Proof.
  intro Hw. unfold send_cap. rewrite sp_loop_unfold.
  unfold stop. rewrite (okw_not_cancelled w Hw). cbn [orb].
  replace (negb (Nat.eqb n 0) && Nat.leb n 0) with false
    by (destruct n; reflexivity).
  rewrite send_eq. unfold sent. destruct Hw as [a b _ _ _]. rewrite a, b. reflexivity.
Qed.

Lemma project_app a b : project (a ++ b) = project a ++ project b.
Proof.
  induction a as [|e a IH]; [reflexivity|]. destruct e; cbn; rewrite ?IH; reflexivity.
Qed.

(* ---------------------------------------------------------------- C07: model = documented semantics *)
Definition conforms (cs : code_shape) (cf : config) (s : scope) : Prop :=
  forall w v w' v' res es,
    okw w -> run_scope cs cf s w v = (w', v', res, es) ->
    okw w' /\
    project es = fst (spec_scope s (g_xid v) (w_next w)) /\
    w_next w' = snd (spec_scope s (g_xid v) (w_next w)).

Lemma kids_conform cs cf id ks :
  Forall (intact cs cf) ks -> Forall (conforms cs cf) ks ->
  forall w v wb vb eb,
    okw w -> run_kids cs cf id ks w v = (wb, vb, eb) ->
    okw wb /\
    project eb = fst (spec_kids ks (g_xid v) (w_next w)) /\
    w_next wb = snd (spec_kids ks (g_xid v) (w_next w)).
Proof.
  intros HI HC. revert HI. induction HC as [|k ks Hk Hks IH]; intros HI w v wb vb eb Hw H.
  - inversion H; subst. auto.
  - inversion HI as [|? ? HIk HIks]; subst.
    rewrite run_kids_cons in H. rewrite spec_kids_cons.
    destruct (run_scope cs cf k w v) as [[[wa va] ra] ea] eqn:Ek.
    destruct (run_kids cs cf id ks wa va) as [[wb' vb'] eb'] eqn:Eks.
    inversion H; subst; clear H.
    destruct (HIk _ _ _ _ _ _ Ek) as [-> _].
    destruct (Hk _ _ _ _ _ _ Hw Ek) as (Hwa & Pa & Na).
    destruct (IH HIks _ _ _ _ _ Hwa Eks) as (Hwb & Pb & Nb).
    destruct (spec_scope k (g_xid v) (w_next w)) as [e1 n1]. cbn [fst snd] in *. subst n1.
    destruct (spec_kids ks (g_xid v) (w_next wa)) as [e2 n2]. cbn [fst snd] in *.
    split; [exact Hwb|]. split; [|exact Nb].
    rewrite !project_app. cbn [project app]. now rewrite Pa, Pb.
Qed.

Lemma is_gtx_xid v : is_gtx v = negb (g_xid v =? 0).
Proof. reflexivity. Qed.

Lemma all_conform cs cf : shape_ok cs = true -> forall s, conforms cs cf s.
Proof.
  intros Hs.
  pose proof (shape_restores cs Hs) as Hr.
  destruct (shape_roles cs Hs) as (RL & RP & RU).
  apply scope_ind'. intros m id sh kids out HK.
  assert (Forall (intact cs cf) kids) as HI by (apply Forall_forall; intros; now apply all_intact).
  intros w v w' v' res es Hw H. rewrite run_scope_eq in H. cbv zeta in H.
  rewrite spec_scope_eq.
  set (vin := if sh then v else fresh_of v) in *.
  assert (g_xid vin = g_xid v) as Hx by (unfold vin; destruct sh; reflexivity).
  rewrite is_gtx_clear in H. rewrite (shape_ops cs Hs) in H.
  rewrite <- Hx. rewrite <- (is_gtx_xid vin).
  destruct (disposition_of m (is_gtx vin)) eqn:D; destruct (is_gtx vin) eqn:T;
    cbn [expected_arm run_bops negb] in H.
  - (* join *)
    rewrite (use_exist_clear id vin T) in H.
    destruct (run_kids cs cf id kids w _) as [[w3 v3] es3] eqn:Ek.
    destruct (kids_intact cs cf id kids HI _ _ _ _ _ Ek) as [-> _].
    destruct (kids_conform cs cf id kids HI HK _ _ _ _ _ Hw Ek) as (Hw3 & P3 & N3).
    cbn [g_xid] in P3, N3.
    rewrite second_phase_participant in H by auto.
    inversion H; subst; clear H.
    destruct (spec_kids kids (g_xid vin) (w_next w)) as [e2 n2]. cbn [fst snd] in *.
    split; [exact Hw3|]. split; [|exact N3].
    cbn [app project g_xid g_role g_name]. rewrite ?project_app. cbn [project app].
    rewrite P3, andb_true_r. reflexivity.
  - exfalso. destruct m; discriminate D.
  - (* a transaction is current and a new one begins: suspend, begin *)
    rewrite (begin_new_ok id w _ (okw_next_reply w Hw)) in H.
    pose proof (okw_after_begin w Hw) as Hwb.
    destruct (run_kids cs cf id kids (after_begin w) _) as [[w3 v3] es3] eqn:Ek.
    destruct (kids_intact cs cf id kids HI _ _ _ _ _ Ek) as [-> _].
    destruct (kids_conform cs cf id kids HI HK _ _ _ _ _ Hwb Ek) as (Hw3 & P3 & N3).
    cbn [g_xid] in P3, N3.
    rewrite (second_phase_launcher cs cf out w3 (w_next w) id RL (ok_next w Hw)) in H.
    rewrite (sp_loop_okw _ _ w3 Hw3) in H.
    inversion H; subst; clear H.
    replace (w_next (after_begin w)) with (w_next w + 1) in * by reflexivity.
    destruct (spec_kids kids (w_next w) (w_next w + 1)) as [e2 n2]. cbn [fst snd] in *.
    split; [now apply okw_sent|]. split; [|exact N3].
    cbn [app project g_xid g_role g_name]. rewrite ?project_app. cbn [project app].
    rewrite P3. unfold sp_q, res_of. destruct (out_ok out); reflexivity.
  - (* no transaction: begin *)
    rewrite (begin_new_ok id w _ (okw_next_reply w Hw)) in H.
    pose proof (okw_after_begin w Hw) as Hwb.
    destruct (run_kids cs cf id kids (after_begin w) _) as [[w3 v3] es3] eqn:Ek.
    destruct (kids_intact cs cf id kids HI _ _ _ _ _ Ek) as [-> _].
    destruct (kids_conform cs cf id kids HI HK _ _ _ _ _ Hwb Ek) as (Hw3 & P3 & N3).
    cbn [g_xid] in P3, N3.
    rewrite (second_phase_launcher cs cf out w3 (w_next w) id RL (ok_next w Hw)) in H.
    rewrite (sp_loop_okw _ _ w3 Hw3) in H.
    inversion H; subst; clear H.
    replace (w_next (after_begin w)) with (w_next w + 1) in * by reflexivity.
    destruct (spec_kids kids (w_next w) (w_next w + 1)) as [e2 n2]. cbn [fst snd] in *.
    split; [now apply okw_sent|]. split; [|exact N3].
    cbn [app project g_xid g_role g_name]. rewrite ?project_app. cbn [project app].
    rewrite P3. unfold sp_q, res_of. destruct (out_ok out); reflexivity.
  - (* a transaction is current, the scope runs without: unbind *)
    destruct (run_kids cs cf id kids w _) as [[w3 v3] es3] eqn:Ek.
    destruct (kids_intact cs cf id kids HI _ _ _ _ _ Ek) as [-> _].
    destruct (kids_conform cs cf id kids HI HK _ _ _ _ _ Hw Ek) as (Hw3 & P3 & N3).
    cbn [g_xid set_xid] in P3, N3.
    rewrite second_phase_nogtx in H by reflexivity.
    inversion H; subst; clear H.
    destruct (spec_kids kids 0 (w_next w)) as [e2 n2]. cbn [fst snd] in *.
    split; [exact Hw3|]. split; [|exact N3].
    cbn [app project g_xid g_role g_name set_xid]. rewrite ?project_app. cbn [project app].
    rewrite P3, andb_true_r. reflexivity.
  - (* no transaction, none wanted *)
    assert (g_xid vin = 0) as Ex by (unfold is_gtx in T; apply negb_false_iff in T; now apply N.eqb_eq in T).
    destruct (run_kids cs cf id kids w vin) as [[w3 v3] es3] eqn:Ek.
    destruct (kids_intact cs cf id kids HI _ _ _ _ _ Ek) as [-> _].
    destruct (kids_conform cs cf id kids HI HK _ _ _ _ _ Hw Ek) as (Hw3 & P3 & N3).
    rewrite Ex in P3, N3.
    rewrite second_phase_nogtx in H by exact T.
    inversion H; subst; clear H.
    destruct (spec_kids kids 0 (w_next w)) as [e2 n2]. cbn [fst snd] in *.
    split; [exact Hw3|]. split; [|exact N3].
    cbn [app project]. rewrite ?project_app. cbn [project app].
    rewrite P3, ?Ex, andb_true_r. reflexivity.
  - (* refused *)
    inversion H; subst; clear H. auto.
  - inversion H; subst; clear H. auto.
Qed.

(* ---------------------------------------------------------------- a transaction is only ever ended by the scope that began it *)
Definition ends (x : N) (e : sev) : Prop := e = SReq (QCommit x) \/ e = SReq (QRollback x).

Definition fresh_only (s : scope) : Prop :=
  forall cur next, next <= snd (spec_scope s cur next) /\
                   forall x e, In e (fst (spec_scope s cur next)) -> ends x e -> next <= x.

Lemma kids_fresh_only ks : Forall fresh_only ks ->
  forall cur next, next <= snd (spec_kids ks cur next) /\
                   forall x e, In e (fst (spec_kids ks cur next)) -> ends x e -> next <= x.
Proof.
  induction 1 as [|k ks Hk Hks IH]; intros cur next.
  - cbn. split; [lia|]. intros ? ? [].
  - rewrite spec_kids_cons.
    destruct (Hk cur next) as [Hn1 He1].
    destruct (spec_scope k cur next) as [e1 n1]. cbn [fst snd] in *.
    destruct (IH cur n1) as [Hn2 He2].
    destruct (spec_kids ks cur n1) as [e2 n2]. cbn [fst snd] in *.
    split; [lia|]. intros x e Hin He. apply in_app_or in Hin as [Hin|Hin].
    + eapply He1; eauto.
    + specialize (He2 _ _ Hin He). lia.
Qed.

Lemma all_fresh_only : forall s, fresh_only s.
Proof.
  apply scope_ind'. intros m id sh kids out HK cur next. rewrite spec_scope_eq.
  pose proof (kids_fresh_only kids HK) as HKs.
  destruct (disposition_of m (negb (cur =? 0))).
  - destruct (HKs cur next) as [Hn He]. destruct (spec_kids kids cur next) as [e2 n2]. cbn [fst snd] in *.
    split; [exact Hn|]. intros x e Hin Hx. destruct Hin as [<-|Hin]; [destruct Hx; discriminate|].
    apply in_app_or in Hin as [Hin|[<-|[]]]; [eapply He; eauto|destruct Hx; discriminate].
  - destruct (HKs next (next + 1)) as [Hn He]. destruct (spec_kids kids next (next + 1)) as [e2 n2]. cbn [fst snd] in *.
    split; [lia|]. intros x e Hin Hx.
    destruct Hin as [<-|[<-|Hin]]; try (destruct Hx; discriminate).
    apply in_app_or in Hin as [Hin|Hin]; [specialize (He _ _ Hin Hx); lia|].
    destruct Hin as [<-|[<-|[]]]; [|destruct Hx; discriminate].
    destruct Hx as [Hx|Hx]; destruct (out_ok out); inversion Hx; lia.
  - destruct (HKs 0 next) as [Hn He]. destruct (spec_kids kids 0 next) as [e2 n2]. cbn [fst snd] in *.
    split; [exact Hn|]. intros x e Hin Hx. destruct Hin as [<-|Hin]; [destruct Hx; discriminate|].
    apply in_app_or in Hin as [Hin|[<-|[]]]; [eapply He; eauto|destruct Hx; discriminate].
  - cbn [fst snd]. split; [lia|]. intros x e [<-|[]] Hx. destruct Hx; discriminate.
Qed.

Lemma project_in_req q rep es : In (EReq q rep) es -> In (SReq q) (project es).
Proof.
  induction es as [|e es IH]; [intros []|]. intros [->|Hin]; [now left|].
  destruct e; cbn; auto.
Qed.

(* ---------------------------------------------------------------- the statements for a shape satisfying shape_ok *)
Lemma c07_trace cs cf t w v w' v' res es :
  shape_ok cs = true -> okw w ->
  run_scope cs cf t w v = (w', v', res, es) ->
  project es = fst (spec_scope t (g_xid v) (w_next w)).
Proof. intros Hs Hw H. now destruct (all_conform cs cf Hs t _ _ _ _ _ _ Hw H) as (_ & P & _). Qed.

Lemma c07_outer_intact cs cf t w v w' v' res es :
  shape_ok cs = true ->
  run_scope cs cf t w v = (w', v', res, es) ->
  v' = v /\ forall id x ro nm, In (EAfter id x ro nm) es -> In (EEnter id x ro nm) es.
Proof. intros Hs H. exact (all_intact cs cf (shape_restores cs Hs) t _ _ _ _ _ _ H). Qed.

Lemma c07_never_ends_joined cs cf t w v w' v' res es :
  shape_ok cs = true -> okw w -> g_xid v < w_next w ->
  run_scope cs cf t w v = (w', v', res, es) ->
  forall rep, ~ In (EReq (QCommit (g_xid v)) rep) es /\ ~ In (EReq (QRollback (g_xid v)) rep) es.
Proof.
  intros Hs Hw Hlt H rep.
  pose proof (c07_trace _ _ _ _ _ _ _ _ _ Hs Hw H) as P.
  destruct (all_fresh_only t (g_xid v) (w_next w)) as [_ He].
  split; intro Hin; apply project_in_req in Hin; rewrite P in Hin;
    [specialize (He (g_xid v) _ Hin (or_introl eq_refl)) | specialize (He (g_xid v) _ Hin (or_intror eq_refl))]; lia.
Qed.

(* ---------------------------------------------------------------- under ANY coordinator behaviour:
   every commit/rollback of a program names a transaction the program itself began *)
Definition xid_range (lo hi : N) (xs : list N) : Prop := Forall (fun x => lo <= x /\ x < hi) xs.

Lemma xid_range_weaken lo hi lo' hi' xs : lo' <= lo -> hi <= hi' -> xid_range lo hi xs -> xid_range lo' hi' xs.
Proof. intros H1 H2 H. eapply Forall_impl; [|exact H]. cbn. intros. lia. Qed.

Lemma sp_loop_xids fuel n k q w w' r es :
  sp_loop fuel n k q w = (w', r, es) ->
  w_next w' = w_next w /\ forall x, In x (sp_xids es) -> q = QCommit x \/ q = QRollback x.
Proof.
  intro H. destruct (sp_loop_spec _ _ _ _ _ _ _ _ H) as (reps & -> & _ & _ & _ & _ & _ & _ & _ & Hn).
  split; [exact Hn|]. intros x Hx. rewrite sp_xids_app in Hx. apply in_app_or in Hx as [Hx|Hx].
  - clear H. induction reps as [|rp reps IH]; [destruct Hx|].
    destruct q; cbn in Hx; auto; destruct Hx as [<-|Hx]; auto.
  - destruct r; cbn in Hx; destruct Hx.
Qed.

Lemma second_phase_xids cs cf ok w v w' e es :
  lookup_role (cs_second cs) Launcher = Some SADecide ->
  lookup_role (cs_second cs) Participant = Some SANothing ->
  lookup_role (cs_second cs) UnKnow = Some SAError ->
  second_phase cs cf ok w v = (w', e, es) ->
  w_next w' = w_next w /\
  (sp_xids es = [] \/ (is_gtx v = true /\ g_role v = Launcher /\ Forall (fun x => x = g_xid v) (sp_xids es))).
Proof.
  intros RL RP RU H. unfold second_phase in H.
  destruct (is_gtx v) eqn:G; [|inversion H; subst; auto].
  destruct (g_role v) eqn:R.
  - rewrite RU in H. inversion H; subst; auto.
  - rewrite RL in H. unfold decide in H. rewrite R in H.
    destruct (sp_loop _ _ _ _ _) as [[w1 r] es1] eqn:E. inversion H; subst.
    destruct (sp_loop_xids _ _ _ _ _ _ _ _ E) as [Hn Hx]. split; [exact Hn|]. right.
    repeat split; auto. apply Forall_forall. intros x Hin. specialize (Hx _ Hin).
    destruct ok; destruct Hx as [Hx|Hx]; inversion Hx; reflexivity.
  - rewrite RP in H. inversion H; subst; auto.
Qed.

(* what begin leaves behind, for every mode and entry context *)
Lemma bops_cases cs m id w vin w1 v1 ok es1 :
  shape_ok cs = true ->
  run_bops (ops_for cs m (is_gtx (if is_gtx vin then clear_conf vin else vin))) id w
           (if is_gtx vin then clear_conf vin else vin) = (w1, v1, ok, es1) ->
  sp_xids es1 = [] /\ w_next w <= w_next w1 /\
  (ok = true -> is_gtx v1 = true -> g_role v1 = Launcher -> g_xid v1 = w_next w /\ w_next w1 = w_next w + 1).
Proof.
  intros Hs H. rewrite is_gtx_clear in H. rewrite (shape_ops cs Hs) in H.
  assert (forall v0, let '(wa, va, oka, ea) := begin_new id w v0 in
            sp_xids ea = [] /\ w_next w <= w_next wa /\
            (oka = true -> g_xid va = w_next w /\ w_next wa = w_next w + 1)) as HB.
  { intro v0. unfold begin_new. rewrite send_eq.
    destruct (match w_script w with [] => w_default w | r :: _ => r end); cbn;
      repeat split; try lia; try discriminate; auto. }
  destruct (is_gtx vin) eqn:T; destruct m; cbn [disposition_of expected_arm run_bops] in H;
    try (inversion H; subst; cbn; repeat split; try lia; try discriminate; intros; try discriminate;
         match goal with
         | [ X : is_gtx _ = true |- _ ] => try (cbn in X; discriminate); try congruence
         end; fail).
  all: try (match type of H with begin_new ?i ?ww ?vv = _ => specialize (HB vv); rewrite H in HB;
             destruct HB as (A & B & C); repeat split; auto; intros; apply C; auto end).
  all: try (rewrite (use_exist_clear id vin T) in H; inversion H; subst; cbn; repeat split; try lia; discriminate).
Qed.

Lemma sp_xids_enter a b c d : sp_xids [EEnter a b c d] = []. Proof. reflexivity. Qed.
Lemma sp_xids_cons_enter a b c d l : sp_xids (EEnter a b c d :: l) = sp_xids l. Proof. reflexivity. Qed.
Lemma sp_xids_ret a b : sp_xids [ERet a b] = []. Proof. reflexivity. Qed.
Lemma sp_xids_after a b c d : sp_xids [EAfter a b c d] = []. Proof. reflexivity. Qed.

Definition owns (cs : code_shape) (cf : config) (s : scope) : Prop :=
  forall w v w' v' res es,
    run_scope cs cf s w v = (w', v', res, es) ->
    w_next w <= w_next w' /\ xid_range (w_next w) (w_next w') (sp_xids es).

Lemma kids_own cs cf id ks :
  Forall (owns cs cf) ks ->
  forall w v wb vb eb,
    run_kids cs cf id ks w v = (wb, vb, eb) ->
    w_next w <= w_next wb /\ xid_range (w_next w) (w_next wb) (sp_xids eb).
Proof.
  induction 1 as [|k ks Hk Hks IH]; intros w v wb vb eb H.
  - inversion H; subst. split; [lia|constructor].
  - rewrite run_kids_cons in H.
    destruct (run_scope cs cf k w v) as [[[wa va] ra] ea] eqn:Ek.
    destruct (run_kids cs cf id ks wa va) as [[wb' vb'] eb'] eqn:Eks.
    inversion H; subst; clear H.
    destruct (Hk _ _ _ _ _ _ Ek) as [L1 R1]. destruct (IH _ _ _ _ _ Eks) as [L2 R2].
    split; [lia|]. rewrite !sp_xids_app. cbn [sp_xids flat_map app].
    apply Forall_app. split.
    + eapply xid_range_weaken; [| |exact R1]; lia.
    + eapply xid_range_weaken; [| |exact R2]; lia.
Qed.

Lemma all_own cs cf : shape_ok cs = true -> forall s, owns cs cf s.
Proof.
  intros Hs. pose proof (shape_restores cs Hs) as Hr.
  destruct (shape_roles cs Hs) as (RL & RP & RU).
  apply scope_ind'. intros m id sh kids out HK.
  assert (Forall (intact cs cf) kids) as HI by (apply Forall_forall; intros; now apply all_intact).
  intros w v w' v' res es H. rewrite run_scope_eq in H. cbv zeta in H.
  set (vin := if sh then v else fresh_of v) in *.
  destruct (run_bops _ id w _) as [[[w1 v1] ok] es1] eqn:Eb.
  destruct (bops_cases cs m id w vin _ _ _ _ Hs Eb) as (X1 & N1 & L1).
  destruct ok; cbn [negb] in H.
  - destruct (run_kids cs cf id kids w1 v1) as [[w3 v3] es3] eqn:Ek.
    destruct (kids_intact cs cf id kids HI _ _ _ _ _ Ek) as [-> _].
    destruct (kids_own cs cf id kids HK _ _ _ _ _ Ek) as [N3 X3].
    destruct (second_phase cs cf (out_ok out) w3 v1) as [[w4 sperr] es4] eqn:Es.
    destruct (second_phase_xids cs cf _ _ _ _ _ _ RL RP RU Es) as [N4 X4].
    inversion H; subst; clear H.
    split; [lia|].
    rewrite sp_xids_app, X1, ?sp_xids_cons_enter, !sp_xids_app, ?sp_xids_enter, sp_xids_ret, ?app_nil_r. cbn [app].
    unfold xid_range. apply Forall_app. split; [eapply xid_range_weaken; [| |exact X3]; lia|].
    destruct X4 as [->|(G & R & F)]; [constructor|].
    destruct (L1 eq_refl G R) as [E1 E2].
    eapply Forall_impl; [|exact F]. cbn. intros x ->. lia.
  - inversion H; subst; clear H. split; [exact N1|].
    rewrite sp_xids_app, X1, sp_xids_ret. constructor.
Qed.

(* corollary: a transaction that was current on entry is never ended, whatever the coordinator does *)
Lemma c07_never_ends_joined_any_world cs cf t w v w' v' res es :
  shape_ok cs = true -> g_xid v < w_next w ->
  run_scope cs cf t w v = (w', v', res, es) ->
  ~ In (g_xid v) (sp_xids es).
Proof.
  intros Hs Hlt H Hin. destruct (all_own cs cf Hs t _ _ _ _ _ _ H) as [_ R].
  unfold xid_range in R. rewrite Forall_forall in R. specialize (R _ Hin). lia.
Qed.
