(* Proofs about the TM model. *)
From Coq Require Import List NArith Bool String Lia.
From SeataV Require Import Tm.TmModel Gen.TmShape.
Import ListNotations.
Open Scope N_scope.

(* the switch tables regenerated from the Go source realise the documented dispositions,
   and WithGlobalTx restores the caller's transaction *)
Lemma go_shape_ok : shape_ok go_shape = true.
Proof. vm_compute. reflexivity. Qed.
