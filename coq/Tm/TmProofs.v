(* Proofs about the TM model: conformance of a code shape, the retry loop,
   single scopes (C04). *)
From Coq Require Import List NArith Bool Lia Arith.
From SeataV Require Import Tm.TmModel.
Import ListNotations.
Open Scope N_scope.

(* ---------------------------------------------------------------- shape_ok unpacked *)
Lemma bop_eqb_eq a b : bop_eqb a b = true -> a = b.
Proof. destruct a, b; cbn; congruence. Qed.

Lemma ops_eqb_eq a : forall b, ops_eqb a b = true -> a = b.
Proof.
  induction a as [|x a IH]; intros [|y b]; cbn; try congruence.
  intro H. apply andb_true_iff in H as [H1 H2].
  apply bop_eqb_eq in H1. apply IH in H2. congruence.
Qed.

Lemma shape_ops cs : shape_ok cs = true ->
  forall m tx, ops_for cs m tx = expected_arm (disposition_of m tx) tx.
Proof.
  unfold shape_ok. intro H.
  apply andb_true_iff in H as [H _]. apply andb_true_iff in H as [H _]. apply andb_true_iff in H as [H _].
  rewrite forallb_forall in H.
  intros m tx.
  assert (In m all_modes) as Hin by (destruct m; cbn; tauto).
  specialize (H m Hin). apply andb_true_iff in H as [Ht Hf].
  destruct tx; [apply ops_eqb_eq in Ht | apply ops_eqb_eq in Hf]; assumption.
Qed.

Lemma shape_restores cs : shape_ok cs = true -> cs_restores cs = true.
Proof.
  unfold shape_ok. intro H. apply andb_true_iff in H as [H _]. apply andb_true_iff in H as [H _]. apply andb_true_iff in H as [_ H]. exact H.
Qed.

Lemma shape_roles cs : shape_ok cs = true ->
  lookup_role (cs_second cs) Launcher = Some SADecide /\
  lookup_role (cs_second cs) Participant = Some SANothing /\
  lookup_role (cs_second cs) UnKnow = Some SAError.
Proof.
  unfold shape_ok. intro H. apply andb_true_iff in H as [H _]. apply andb_true_iff in H as [_ H].
  destruct (lookup_role (cs_second cs) Launcher) as [[]|]; try discriminate;
  destruct (lookup_role (cs_second cs) Participant) as [[]|]; try discriminate;
  destruct (lookup_role (cs_second cs) UnKnow) as [[]|]; try discriminate; auto.
Qed.

(* ---------------------------------------------------------------- the retry loop *)

Lemma send_eq q w : send q w =
  ({| w_nreq := S (w_nreq w); w_next := w_next w; w_script := tl (w_script w);
      w_default := w_default w; w_cancel_after := w_cancel_after w; w_halt := w_halt w |},
   match w_script w with [] => w_default w | r :: _ => r end,
   [EReq q match w_script w with [] => w_default w | r :: _ => r end]).
Proof. reflexivity. Qed.

Definition stop (w : world) (n k : nat) : bool :=
  cancelled w || (negb (Nat.eqb n 0) && Nat.leb n k).

Lemma stop_false w n k : stop w n k = false ->
  cancelled w = false /\ (n = 0%nat \/ (k < n)%nat).
Proof.
  unfold stop. intro H. apply orb_false_iff in H as [H1 H2]. split; [exact H1|].
  destruct (Nat.eqb n 0) eqn:E; [apply Nat.eqb_eq in E; auto|].
  cbn in H2. apply Nat.leb_gt in H2. auto.
Qed.

Lemma stop_true w n k : stop w n k = true ->
  cancelled w = true \/ (n <> 0%nat /\ (n <= k)%nat).
Proof.
  unfold stop. intro H. apply orb_true_iff in H as [H|H]; [auto|].
  apply andb_true_iff in H as [H1 H2]. right. split.
  - intro. subst. discriminate.
  - now apply Nat.leb_le.
Qed.

Lemma sp_loop_unfold fuel n k q w : sp_loop fuel n k q w =
  if stop w n k then (w, SPErr, [])
  else match fuel with
       | O => (halt w, SPDiverge, [EDiverge])
       | S f =>
           let '(w1, rep, es) := send q w in
           match rep with
           | ROk | RFailed => (w1, SPNil, es)
           | RNil => (w1, SPErr, es)
           | RErr | RNoReply =>
               let '(w2, r, es2) := sp_loop f n (S k) q w1 in (w2, r, es ++ es2)
           end
       end.
Proof. destruct fuel; reflexivity. Qed.

Lemma removelast_cons_ne {A} (x : A) l : l <> [] -> removelast (x :: l) = x :: removelast l.
Proof. destruct l; [congruence|reflexivity]. Qed.

(* everything the properties need to know about one Commit/Rollback call *)
Lemma sp_loop_spec : forall fuel n k q w w' r es,
  sp_loop fuel n k q w = (w', r, es) ->
  exists reps,
    es = map (EReq q) reps ++ (match r with SPDiverge => [EDiverge] | _ => [] end)
    /\ Forall (fun x => transport_error x = true) (removelast reps)
    /\ (r = SPNil -> exists pre rep, reps = pre ++ [rep] /\ acked rep = true)
    /\ (r <> SPNil -> Forall (fun x => acked x = false) reps)
    /\ (n <> 0%nat -> (k <= n)%nat -> (length reps + k <= n)%nat)
    /\ (r = SPDiverge -> length reps = fuel /\ (n = 0%nat \/ (fuel + k < n)%nat))
    /\ (cancelled w = true -> reps = [] /\ r = SPErr)
    /\ (cancelled w = false -> (n = 0%nat \/ (k < n)%nat) -> fuel <> 0%nat -> reps <> [])
    /\ w_next w' = w_next w.
Proof.
  induction fuel as [|f IH]; intros n k q w w' r es H; rewrite sp_loop_unfold in H.
  - destruct (stop w n k) eqn:E; inversion H; subst; clear H; exists []; cbn.
    + repeat split; auto; try congruence; try lia.
    + apply stop_false in E as [E1 E2].
      repeat split; auto; try congruence; try lia.
  - destruct (stop w n k) eqn:E.
    + inversion H; subst; clear H. exists []; cbn.
      apply stop_true in E.
      repeat split; auto; try congruence; try lia.
      intros Hc Hn _. destruct E as [E|[E1 E2]]; [congruence|]. destruct Hn; [congruence|lia].
    + apply stop_false in E as [E1 E2].
      rewrite send_eq in H.
      set (rep := match w_script w with [] => w_default w | r0 :: _ => r0 end) in *.
      set (w1 := {| w_nreq := S (w_nreq w); w_next := w_next w; w_script := tl (w_script w);
                    w_default := w_default w; w_cancel_after := w_cancel_after w; w_halt := w_halt w |}) in *.
      destruct rep eqn:Erep.
      * inversion H; subst; clear H. exists [ROk]; cbn.
        repeat split; auto; try congruence; try lia.
        -- intros _. exists [], ROk. auto.
      * inversion H; subst; clear H. exists [RFailed]; cbn.
        repeat split; auto; try congruence; try lia.
        -- intros _. exists [], RFailed. auto.
      * destruct (sp_loop f n (S k) q w1) as [[w2 r2] es2] eqn:EL.
        inversion H; subst; clear H.
        apply IH in EL as (reps & H1 & H2 & H3 & H4 & H5 & H6 & H7 & H8 & H9).
        exists (RErr :: reps). subst es2. cbn [map app length].
        split; [reflexivity|]. split.
        { destruct reps as [|y reps']; [constructor|].
          rewrite removelast_cons_ne by congruence. constructor; auto. }
        split. { intro Hr. destruct (H3 Hr) as (pre & rp & -> & Ha). exists (RErr :: pre), rp. auto. }
        split. { intro Hr. constructor; auto. }
        split. { intros Hn Hk. specialize (H5 Hn). lia. }
        split. { intro Hr. destruct (H6 Hr) as [Hl Hd]. split; [lia|]. destruct Hd; [auto|right; lia]. }
        split. { congruence. }
        split. { congruence. }
        rewrite H9. reflexivity.
      * destruct (sp_loop f n (S k) q w1) as [[w2 r2] es2] eqn:EL.
        inversion H; subst; clear H.
        apply IH in EL as (reps & H1 & H2 & H3 & H4 & H5 & H6 & H7 & H8 & H9).
        exists (RNoReply :: reps). subst es2. cbn [map app length].
        split; [reflexivity|]. split.
        { destruct reps as [|y reps']; [constructor|].
          rewrite removelast_cons_ne by congruence. constructor; auto. }
        split. { intro Hr. destruct (H3 Hr) as (pre & rp & -> & Ha). exists (RNoReply :: pre), rp. auto. }
        split. { intro Hr. constructor; auto. }
        split. { intros Hn Hk. specialize (H5 Hn). lia. }
        split. { intro Hr. destruct (H6 Hr) as [Hl Hd]. split; [lia|]. destruct Hd; [auto|right; lia]. }
        split. { congruence. }
        split. { congruence. }
        rewrite H9. reflexivity.
      * inversion H; subst; clear H. exists [RNil]; cbn.
        repeat split; auto; try congruence; try lia.
Qed.

(* ---------------------------------------------------------------- single scopes *)

Lemma run_leaf_eq cs cf m id out w v :
  run_scope cs cf (leaf m id out) w v =
   let v0 := if is_gtx v then clear_conf v else v in
   let '(w1, v1, ok, es1) := run_bops (ops_for cs m (is_gtx v0)) id w v0 in
   let back (vend : gtx) := if cs_restores cs then v else vend in
   if negb ok then (w1, back v1, RErrC, es1 ++ [ERet id RErrC])
   else let '(w4, sperr, es4) := second_phase cs cf (out_ok out) w1 v1 in
        let res := if out_ok out && negb sperr then RNilC else RErrC in
        (w4, back v1, res, es1 ++ [EEnter id (g_xid v1) (g_role v1) (g_name v1)] ++ es4 ++ [ERet id res]).
Proof. reflexivity. Qed.

Lemma is_gtx_clear v : is_gtx (if is_gtx v then clear_conf v else v) = is_gtx v.
Proof. destruct (is_gtx v) eqn:E; [exact E|exact E]. Qed.

Definition after_begin (w : world) : world :=
  bump_next {| w_nreq := S (w_nreq w); w_next := w_next w; w_script := tl (w_script w);
               w_default := w_default w; w_cancel_after := w_cancel_after w; w_halt := w_halt w |}.
Definition next_reply (w : world) : reply := match w_script w with [] => w_default w | r :: _ => r end.

Lemma use_exist_clear id v : is_gtx v = true ->
  use_exist id (clear_conf v) = {| g_xid := g_xid v; g_name := id; g_role := Participant |}.
Proof. unfold use_exist, clear_conf, is_gtx. cbn. intros ->. reflexivity. Qed.

Lemma second_phase_nogtx cs cf ok w v : is_gtx v = false -> second_phase cs cf ok w v = (w, false, []).
Proof. unfold second_phase. intros ->. reflexivity. Qed.

Lemma second_phase_participant cs cf ok w v :
  lookup_role (cs_second cs) Participant = Some SANothing -> g_role v = Participant ->
  second_phase cs cf ok w v = (w, false, []).
Proof. unfold second_phase. intros H1 H2. destruct (is_gtx v); [rewrite H2, H1|]; reflexivity. Qed.

Lemma second_phase_launcher cs cf out w x nm :
  lookup_role (cs_second cs) Launcher = Some SADecide -> x <> 0 ->
  second_phase cs cf (out_ok out) w {| g_xid := x; g_name := nm; g_role := Launcher |} =
  let '(w1, r, es) := sp_loop send_cap (sp_n cf out) 0 (sp_q out x) w in
  (w1, match r with SPNil => false | _ => true end, es).
Proof.
  unfold second_phase, is_gtx. cbn [g_xid g_role]. intros -> Hx.
  apply N.eqb_neq in Hx. rewrite Hx. cbn [negb]. unfold decide, sp_n, sp_q. cbn [g_role g_xid].
  reflexivity.
Qed.

Lemma begin_new_ok name w v : next_reply w = ROk ->
  begin_new name w v =
  (after_begin w, {| g_xid := w_next w; g_name := name; g_role := Launcher |}, true, [EReq (QBegin name) ROk]).
Proof. unfold begin_new, next_reply, after_begin. rewrite send_eq. intros ->. reflexivity. Qed.

Lemma begin_new_fail name w v : next_reply w <> ROk ->
  exists w1 v1, begin_new name w v = (w1, v1, false, [EReq (QBegin name) (next_reply w)]) /\ w_next w1 = w_next w.
Proof.
  unfold begin_new, next_reply. rewrite send_eq. intro H.
  destruct (match w_script w with [] => w_default w | r :: _ => r end); try congruence; eauto.
Qed.

(* the arm that begins a new transaction *)
Lemma leaf_new cs cf id out w v0 (v : gtx) w' (v' : gtx) res es :
  lookup_role (cs_second cs) Launcher = Some SADecide -> w_next w <> 0 ->
  (let '(w1, v1, ok, es1) := begin_new id w v0 in
   if negb ok then (w1, v, RErrC, es1 ++ [ERet id RErrC])
   else let '(w4, sperr, es4) := second_phase cs cf (out_ok out) w1 v1 in
        let res := if out_ok out && negb sperr then RNilC else RErrC in
        (w4, v, res, es1 ++ [EEnter id (g_xid v1) (g_role v1) (g_name v1)] ++ es4 ++ [ERet id res]))
  = (w', v', res, es) ->
  v' = v /\
  ((next_reply w <> ROk /\ es = [EReq (QBegin id) (next_reply w); ERet id RErrC] /\ res = RErrC) \/
   (next_reply w = ROk /\ exists w4 r es4,
      sp_loop send_cap (sp_n cf out) 0 (sp_q out (w_next w)) (after_begin w) = (w4, r, es4) /\
      w' = w4 /\
      es = EReq (QBegin id) ROk :: EEnter id (w_next w) Launcher id :: es4 ++ [ERet id res] /\
      res = (if out_ok out && match r with SPNil => true | _ => false end then RNilC else RErrC))).
Proof.
  intros RL Hn H.
  destruct (reply_eqb (next_reply w) ROk) eqn:E.
  - assert (next_reply w = ROk) as E' by (destruct (next_reply w); cbn in E; congruence).
    rewrite (begin_new_ok id w v0 E') in H. cbn [negb] in H.
    rewrite (second_phase_launcher cs cf out (after_begin w) (w_next w) id RL Hn) in H.
    destruct (sp_loop send_cap (sp_n cf out) 0 (sp_q out (w_next w)) (after_begin w)) as [[w4 r] es4] eqn:EL.
    cbn [g_xid g_role g_name] in H. inversion H; subst; clear H.
    split; [reflexivity|]. right. split; [exact E'|].
    eexists _, r, es4. split; [reflexivity|]. split; [reflexivity|].
    split; destruct r; reflexivity.
  - assert (next_reply w <> ROk) as E' by (intro X; rewrite X in E; discriminate).
    destruct (begin_new_fail id w v0 E') as (w1 & v1 & Eb & _). rewrite Eb in H. cbn [negb] in H.
    inversion H; subst; clear H. split; [reflexivity|]. left. auto.
Qed.

(* what a single scope does, by the documented disposition of its mode *)
Lemma leaf_cases cs cf m id out w v w' v' res es :
  shape_ok cs = true -> w_next w <> 0 ->
  run_scope cs cf (leaf m id out) w v = (w', v', res, es) ->
  v' = v /\
  match disposition_of m (is_gtx v) with
  | DFail => es = [ERet id RErrC] /\ res = RErrC /\ w' = w
  | DJoin => es = [EEnter id (g_xid v) Participant id; ERet id res] /\ res = res_of out /\ w' = w
  | DNone => es = [EEnter id 0 (g_role (if is_gtx v then clear_conf v else v)) (g_name (if is_gtx v then clear_conf v else v)); ERet id res]
             /\ res = res_of out /\ w' = w
  | DNew =>
      (next_reply w <> ROk /\ es = [EReq (QBegin id) (next_reply w); ERet id RErrC] /\ res = RErrC) \/
      (next_reply w = ROk /\ exists w4 r es4,
          sp_loop send_cap (sp_n cf out) 0 (sp_q out (w_next w)) (after_begin w) = (w4, r, es4) /\
          w' = w4 /\
          es = EReq (QBegin id) ROk :: EEnter id (w_next w) Launcher id :: es4 ++ [ERet id res] /\
          res = (if out_ok out && match r with SPNil => true | _ => false end then RNilC else RErrC))
  end.
Proof.
  intros Hs Hn H. rewrite run_leaf_eq in H. cbv zeta in H.
  rewrite is_gtx_clear in H. rewrite (shape_ops cs Hs) in H. rewrite (shape_restores cs Hs) in H.
  destruct (shape_roles cs Hs) as (RL & RP & RU).
  destruct (is_gtx v) eqn:Etx.
  - (* a transaction is current *)
    assert (is_gtx (set_xid (clear_conf v) 0) = false) as Eun by reflexivity.
    destruct m; cbn [disposition_of expected_arm run_bops] in H |- *.
    + (* Required: join *)
      rewrite (use_exist_clear id v Etx) in H. cbn [negb] in H.
      rewrite second_phase_participant in H by auto. cbn in H.
      inversion H; subst; clear H. rewrite andb_true_r. auto.
    + (* RequiresNew *)
      apply leaf_new in H; auto.
    + (* NotSupported *)
      cbn [negb] in H. rewrite second_phase_nogtx in H by exact Eun. cbn in H.
      inversion H; subst; clear H. rewrite andb_true_r. auto.
    + rewrite (use_exist_clear id v Etx) in H. cbn [negb] in H.
      rewrite second_phase_participant in H by auto. cbn in H.
      inversion H; subst; clear H. rewrite andb_true_r. auto.
    + cbn in H. inversion H; subst; clear H. auto.
    + rewrite (use_exist_clear id v Etx) in H. cbn [negb] in H.
      rewrite second_phase_participant in H by auto. cbn in H.
      inversion H; subst; clear H. rewrite andb_true_r. auto.
    + cbn in H. inversion H; subst; clear H. auto.
  - (* no transaction *)
    assert (g_xid v = 0) as Ex by (unfold is_gtx in Etx; apply negb_false_iff in Etx; now apply N.eqb_eq in Etx).
    destruct m; cbn [disposition_of expected_arm run_bops] in H |- *.
    + apply leaf_new in H; auto.
    + apply leaf_new in H; auto.
    + cbn [negb] in H. rewrite second_phase_nogtx in H by exact Etx. cbn in H.
      inversion H; subst; clear H. rewrite andb_true_r, Ex. auto.
    + cbn [negb] in H. rewrite second_phase_nogtx in H by exact Etx. cbn in H.
      inversion H; subst; clear H. rewrite andb_true_r, Ex. auto.
    + cbn [negb] in H. rewrite second_phase_nogtx in H by exact Etx. cbn in H.
      inversion H; subst; clear H. rewrite andb_true_r, Ex. auto.
    + cbn in H. inversion H; subst; clear H. auto.
    + cbn in H. inversion H; subst; clear H. auto.
Qed.

(* ---------------------------------------------------------------- counting over traces *)
Lemma n_commits_app a b : n_commits (a ++ b) = (n_commits a + n_commits b)%nat.
Proof. unfold n_commits. now rewrite filter_app, app_length. Qed.
Lemma n_rollbacks_app a b : n_rollbacks (a ++ b) = (n_rollbacks a + n_rollbacks b)%nat.
Proof. unfold n_rollbacks. now rewrite filter_app, app_length. Qed.
Lemma n_begins_app a b : n_begins (a ++ b) = (n_begins a + n_begins b)%nat.
Proof. unfold n_begins. now rewrite filter_app, app_length. Qed.
Lemma sp_replies_app a b : sp_replies (a ++ b) = sp_replies a ++ sp_replies b.
Proof. unfold sp_replies. now rewrite flat_map_app. Qed.
Lemma sp_xids_app a b : sp_xids (a ++ b) = sp_xids a ++ sp_xids b.
Proof. unfold sp_xids. now rewrite flat_map_app. Qed.
Lemma diverged_app a b : diverged (a ++ b) = diverged a || diverged b.
Proof. unfold diverged. now rewrite existsb_app. Qed.

Definition sp_q_is_commit (out : outcome) : bool := out_ok out.

Lemma sp_map_commits out x reps :
  n_commits (map (EReq (sp_q out x)) reps) = if out_ok out then List.length reps else 0%nat.
Proof.
  unfold sp_q. induction reps as [|r reps IH]; [destruct (out_ok out); reflexivity|].
  destruct (out_ok out); cbn in *; unfold n_commits in *; cbn; lia.
Qed.
Lemma sp_map_rollbacks out x reps :
  n_rollbacks (map (EReq (sp_q out x)) reps) = if out_ok out then 0%nat else List.length reps.
Proof.
  unfold sp_q. induction reps as [|r reps IH]; [destruct (out_ok out); reflexivity|].
  destruct (out_ok out); cbn in *; unfold n_rollbacks in *; cbn; lia.
Qed.
Lemma sp_map_begins out x reps : n_begins (map (EReq (sp_q out x)) reps) = 0%nat.
Proof. unfold sp_q. induction reps; [reflexivity|]. destruct (out_ok out); cbn in *; exact IHreps. Qed.
Lemma sp_map_replies out x reps : sp_replies (map (EReq (sp_q out x)) reps) = reps.
Proof.
  unfold sp_q, sp_replies. destruct (out_ok out); induction reps as [|r reps IH]; try reflexivity;
    cbn [flat_map map app]; rewrite IH; reflexivity.
Qed.
Lemma sp_map_xids out x reps : sp_xids (map (EReq (sp_q out x)) reps) = map (fun _ => x) reps.
Proof.
  unfold sp_q, sp_xids. destruct (out_ok out); induction reps as [|r reps IH]; try reflexivity;
    cbn [flat_map map app]; rewrite IH; reflexivity.
Qed.
Lemma sp_map_diverged out x reps : diverged (map (EReq (sp_q out x)) reps) = false.
Proof. unfold sp_q. induction reps; [reflexivity|]. destruct (out_ok out); cbn in *; exact IHreps. Qed.

Definition dtail (r : sp_result) : list ev := match r with SPDiverge => [EDiverge] | _ => [] end.

(* the trace of a scope that began its transaction, in closed form *)
Record launcher_trace (cf : config) (id : N) (out : outcome) (w : world) (res : result) (es : list ev)
       (reps : list reply) (r : sp_result) : Prop := {
  lt_es : es = EReq (QBegin id) ROk :: EEnter id (w_next w) Launcher id ::
               map (EReq (sp_q out (w_next w))) reps ++ dtail r ++ [ERet id res];
  lt_res : res = (if out_ok out && match r with SPNil => true | _ => false end then RNilC else RErrC);
  lt_retry : Forall (fun x => transport_error x = true) (removelast reps);
  lt_nil : r = SPNil -> exists pre rep, reps = pre ++ [rep] /\ acked rep = true;
  lt_notnil : r <> SPNil -> Forall (fun x => acked x = false) reps;
  lt_bound : sp_n cf out <> 0%nat -> (List.length reps <= sp_n cf out)%nat;
  lt_div : r = SPDiverge -> List.length reps = send_cap /\ (sp_n cf out = 0%nat \/ (send_cap < sp_n cf out)%nat);
  lt_cancel : cancelled (after_begin w) = true -> reps = [] /\ r = SPErr;
  lt_alive : cancelled (after_begin w) = false -> reps <> [];
}.

Lemma leaf_launcher cs cf m id out w v w' v' res es :
  shape_ok cs = true -> w_next w <> 0 ->
  run_scope cs cf (leaf m id out) w v = (w', v', res, es) ->
  began id es = true ->
  disposition_of m (is_gtx v) = DNew /\ next_reply w = ROk /\
  exists reps r w4, launcher_trace cf id out w res es reps r /\
                    sp_loop send_cap (sp_n cf out) 0 (sp_q out (w_next w)) (after_begin w) = (w4, r, map (EReq (sp_q out (w_next w))) reps ++ dtail r).
Proof.
  intros Hs Hn H Hb. destruct (leaf_cases _ _ _ _ _ _ _ _ _ _ _ Hs Hn H) as [_ HC].
  destruct (disposition_of m (is_gtx v)).
  - destruct HC as (-> & _). cbn in Hb. discriminate.
  - destruct HC as [(Hr & -> & _)|(Hr & w4 & r & es4 & HL & -> & -> & ->)].
    + exfalso. cbn in Hb. rewrite N.eqb_refl in Hb. cbn in Hb.
      destruct (next_reply w); cbn in Hb; congruence.
    + split; [reflexivity|]. split; [exact Hr|].
      pose proof (sp_loop_spec _ _ _ _ _ _ _ _ HL) as (reps & H1 & H2 & H3 & H4 & H5 & H6 & H7 & H8 & H9).
      exists reps, r, w4. subst es4. split; [|exact HL].
      constructor.
      * cbn. f_equal. f_equal. rewrite <- app_assoc. reflexivity.
      * reflexivity.
      * exact H2.
      * exact H3.
      * exact H4.
      * intro Hn0. specialize (H5 Hn0). lia.
      * intro Hd. destruct (H6 Hd) as [Hl Hx]. split; [exact Hl|]. destruct Hx; [auto|right; lia].
      * exact H7.
      * intro Hc. apply H8; auto. { destruct (sp_n cf out); [auto|right; lia]. } { discriminate. }
  - destruct HC as (-> & _). cbn in Hb. discriminate.
  - destruct HC as (-> & _). cbn in Hb. discriminate.
Qed.

Lemma leaf_no_begin cs cf m id out w v w' v' res es :
  shape_ok cs = true -> w_next w <> 0 ->
  run_scope cs cf (leaf m id out) w v = (w', v', res, es) ->
  began id es = false ->
  sp_replies es = [] /\ sp_xids es = [] /\ n_commits es = 0%nat /\ n_rollbacks es = 0%nat /\
  diverged es = false /\ (n_begins es <= 1)%nat /\ res <> RPanicC.
Proof.
  intros Hs Hn H Hb. destruct (leaf_cases _ _ _ _ _ _ _ _ _ _ _ Hs Hn H) as [_ HC].
  destruct (disposition_of m (is_gtx v)).
  - destruct HC as (-> & -> & _). cbn. destruct (res_of out) eqn:E; repeat split; auto; try congruence;
      unfold res_of in E; destruct (out_ok out); discriminate.
  - destruct HC as [(Hr & -> & ->)|(Hr & w4 & r & es4 & HL & -> & -> & ->)].
    + cbn. repeat split; auto; congruence.
    + cbn in Hb. rewrite N.eqb_refl in Hb. discriminate.
  - destruct HC as (-> & -> & _). cbn. destruct (res_of out) eqn:E; repeat split; auto; try congruence;
      unfold res_of in E; destruct (out_ok out); discriminate.
  - destruct HC as (-> & -> & _). cbn. repeat split; auto; congruence.
Qed.

Lemma launcher_counts cf id out w res es reps r :
  launcher_trace cf id out w res es reps r ->
  n_commits es = (if out_ok out then List.length reps else 0%nat) /\
  n_rollbacks es = (if out_ok out then 0%nat else List.length reps) /\
  n_begins es = 1%nat /\
  sp_replies es = reps /\
  sp_xids es = map (fun _ => w_next w) reps /\
  diverged es = (match r with SPDiverge => true | _ => false end).
Proof.
  intros [-> _ _ _ _ _ _ _ _].
  change (EReq (QBegin id) ROk :: EEnter id (w_next w) Launcher id ::
          map (EReq (sp_q out (w_next w))) reps ++ dtail r ++ [ERet id res])
    with ([EReq (QBegin id) ROk; EEnter id (w_next w) Launcher id] ++
          map (EReq (sp_q out (w_next w))) reps ++ dtail r ++ [ERet id res]).
  rewrite !n_commits_app, !n_rollbacks_app, !n_begins_app, !sp_replies_app, !sp_xids_app, !diverged_app.
  rewrite sp_map_commits, sp_map_rollbacks, sp_map_begins, sp_map_replies, sp_map_xids, sp_map_diverged.
  destruct r; cbn; destruct (out_ok out); rewrite ?app_nil_r; repeat split; lia.
Qed.

Lemma began_cases id es : began id es = true \/ began id es = false.
Proof. destruct (began id es); auto. Qed.

(* ---- C04_decision *)
Lemma c04_decision cs cf m id out w v w' v' res es :
  shape_ok cs = true -> w_next w <> 0 ->
  run_scope cs cf (leaf m id out) w v = (w', v', res, es) ->
  ((n_commits es > 0)%nat -> out = ONil /\ n_rollbacks es = 0%nat) /\
  ((n_rollbacks es > 0)%nat -> out <> ONil /\ n_commits es = 0%nat) /\
  Forall (fun x => x = w_next w) (sp_xids es) /\
  (sp_xids es <> [] -> began id es = true) /\
  (n_begins es <= 1)%nat.
Proof.
  intros Hs Hn H. destruct (began_cases id es) as [Hb|Hb].
  - destruct (leaf_launcher _ _ _ _ _ _ _ _ _ _ _ Hs Hn H Hb) as (_ & _ & reps & r & w4 & LT & _).
    destruct (launcher_counts _ _ _ _ _ _ _ _ LT) as (C & R & B & _ & X & _).
    rewrite C, R, B, X. destruct out; cbn [out_ok]; repeat split; try lia; try congruence; auto.
    all: try (apply Forall_forall; intros x Hx; apply in_map_iff in Hx as (? & ? & _); auto).
  - destruct (leaf_no_begin _ _ _ _ _ _ _ _ _ _ _ Hs Hn H Hb) as (_ & X & C & R & _ & B & _).
    rewrite C, R, X. repeat split; try lia; try congruence; auto.
Qed.

(* ---- C04_decision_complete *)
Lemma c04_decision_complete cs cf m id out w v w' v' res es :
  shape_ok cs = true -> w_next w <> 0 ->
  run_scope cs cf (leaf m id out) w v = (w', v', res, es) ->
  began id es = true -> w_cancel_after w = None -> w_halt w = false ->
  (out = ONil -> (n_commits es >= 1)%nat) /\ (out <> ONil -> (n_rollbacks es >= 1)%nat).
Proof.
  intros Hs Hn H Hb Hc Hh.
  destruct (leaf_launcher _ _ _ _ _ _ _ _ _ _ _ Hs Hn H Hb) as (_ & _ & reps & r & w4 & LT & _).
  destruct (launcher_counts _ _ _ _ _ _ _ _ LT) as (C & R & _).
  assert (cancelled (after_begin w) = false) as Ha.
  { unfold cancelled, after_begin, bump_next. cbn. rewrite Hc, Hh. reflexivity. }
  pose proof (lt_alive _ _ _ _ _ _ _ _ LT Ha) as Hne.
  rewrite C, R. destruct reps; [congruence|].
  split; intro Ho; destruct out; cbn; try congruence; lia.
Qed.

(* ---- C04_retry *)
Lemma c04_retry cs cf m id out w v w' v' res es :
  shape_ok cs = true -> w_next w <> 0 ->
  run_scope cs cf (leaf m id out) w v = (w', v', res, es) ->
  (sp_n cf out <> 0%nat -> (List.length (sp_replies es) <= sp_n cf out)%nat) /\
  Forall (fun r => transport_error r = true) (removelast (sp_replies es)).
Proof.
  intros Hs Hn H. destruct (began_cases id es) as [Hb|Hb].
  - destruct (leaf_launcher _ _ _ _ _ _ _ _ _ _ _ Hs Hn H Hb) as (_ & _ & reps & r & w4 & LT & _).
    destruct (launcher_counts _ _ _ _ _ _ _ _ LT) as (_ & _ & _ & S & _). rewrite S.
    split; [apply (lt_bound _ _ _ _ _ _ _ _ LT) | apply (lt_retry _ _ _ _ _ _ _ _ LT)].
  - destruct (leaf_no_begin _ _ _ _ _ _ _ _ _ _ _ Hs Hn H Hb) as (S & _). rewrite S. cbn. split; [lia|constructor].
Qed.

Lemma last_app_single {A} (l : list A) x d : last (l ++ [x]) d = x.
Proof. induction l as [|y l IH]; [reflexivity|]. cbn. destruct (l ++ [x]) eqn:E; [destruct l; discriminate|]. exact IH. Qed.

Lemma last_Forall {A} (P : A -> Prop) l d : Forall P l -> l <> [] -> P (last l d).
Proof.
  induction l as [|y l IH]; [congruence|]. intros HF _. inversion HF; subst.
  destruct l; [exact H1|]. apply IH; [exact H2|congruence].
Qed.

(* ---- C04_result_truthful *)
Lemma c04_result cs cf m id out w v w' v' res es :
  shape_ok cs = true -> w_next w <> 0 ->
  run_scope cs cf (leaf m id out) w v = (w', v', res, es) ->
  began id es = true ->
  (res = RNilC <-> out = ONil /\ (n_commits es >= 1)%nat /\ acked (last (sp_replies es) RNil) = true) /\
  (res = RNilC \/ res = RErrC).
Proof.
  intros Hs Hn H Hb.
  destruct (leaf_launcher _ _ _ _ _ _ _ _ _ _ _ Hs Hn H Hb) as (_ & _ & reps & r & w4 & LT & _).
  destruct (launcher_counts _ _ _ _ _ _ _ _ LT) as (C & _ & _ & S & _). rewrite C, S.
  pose proof (lt_res _ _ _ _ _ _ _ _ LT) as HR.
  pose proof (lt_nil _ _ _ _ _ _ _ _ LT) as HN. pose proof (lt_notnil _ _ _ _ _ _ _ _ LT) as HNN.
  split.
  - split.
    + intro E. rewrite E in HR. destruct out; cbn in HR; try discriminate.
      destruct r; try discriminate. destruct (HN eq_refl) as (pre & rep & -> & Ha).
      cbn [out_ok]. rewrite last_app_single, app_length. cbn. repeat split; auto; lia.
    + intros (-> & Hc & Ha). cbn [out_ok] in *. rewrite HR. destruct r; cbn; auto.
      * exfalso. assert (SPErr <> SPNil) as X by discriminate. specialize (HNN X).
        destruct reps; [cbn in Hc; lia|].
        pose proof (last_Forall _ _ RNil HNN ltac:(discriminate)) as Y. cbn beta in Y. congruence.
      * exfalso. assert (SPDiverge <> SPNil) as X by discriminate. specialize (HNN X).
        destruct reps; [cbn in Hc; lia|].
        pose proof (last_Forall _ _ RNil HNN ltac:(discriminate)) as Y. cbn beta in Y. congruence.
  - rewrite HR. destruct (out_ok out && _); auto.
Qed.

(* ---- replies come from the script *)
Lemma in_tl {A} (x : A) l : In x (tl l) -> In x l.
Proof. destruct l; cbn; auto. Qed.

Lemma sp_loop_replies_from : forall fuel n k q w w' r es,
  sp_loop fuel n k q w = (w', r, es) ->
  forall q' rep, In (EReq q' rep) es -> In rep (w_script w) \/ rep = w_default w.
Proof.
  induction fuel as [|f IH]; intros n k q w w' r es H q' rep Hin; rewrite sp_loop_unfold in H;
    destruct (stop w n k); try (inversion H; subst; cbn in Hin; intuition congruence).
  rewrite send_eq in H.
  assert (forall x, x = match w_script w with [] => w_default w | r0 :: _ => r0 end ->
                    In x (w_script w) \/ x = w_default w) as Hhead.
  { intros x ->. destruct (w_script w); cbn; auto. }
  set (rep0 := match w_script w with [] => w_default w | r0 :: _ => r0 end) in *.
  destruct rep0 eqn:E.
  - inversion H; subst. cbn in Hin. destruct Hin as [X|[]]. inversion X; subst. apply Hhead. congruence.
  - inversion H; subst. cbn in Hin. destruct Hin as [X|[]]. inversion X; subst. apply Hhead. congruence.
  - destruct (sp_loop f n (S k) q _) as [[w2 r2] es2] eqn:EL. inversion H; subst. cbn in Hin.
    destruct Hin as [X|Hin]; [inversion X; subst; apply Hhead; congruence|].
    destruct (IH _ _ _ _ _ _ _ EL _ _ Hin) as [Y|Y]; cbn in Y; [left; now apply in_tl|right; exact Y].
  - destruct (sp_loop f n (S k) q _) as [[w2 r2] es2] eqn:EL. inversion H; subst. cbn in Hin.
    destruct Hin as [X|Hin]; [inversion X; subst; apply Hhead; congruence|].
    destruct (IH _ _ _ _ _ _ _ EL _ _ Hin) as [Y|Y]; cbn in Y; [left; now apply in_tl|right; exact Y].
  - inversion H; subst. cbn in Hin. destruct Hin as [X|[]]. inversion X; subst. apply Hhead. congruence.
Qed.

Lemma sp_loop_diverge_default : forall fuel n k q w w' es,
  sp_loop fuel n k q w = (w', SPDiverge, es) ->
  (List.length (w_script w) < fuel)%nat -> transport_error (w_default w) = true.
Proof.
  induction fuel as [|f IH]; intros n k q w w' es H Hl; [lia|].
  rewrite sp_loop_unfold in H. destruct (stop w n k); [discriminate|].
  rewrite send_eq in H.
  destruct (w_script w) as [|r0 t] eqn:Es.
  - destruct (w_default w) eqn:Ed; try discriminate; reflexivity.
  - cbn [tl] in H.
    destruct r0; try discriminate;
      destruct (sp_loop f n (S k) q _) as [[w2 r2] es2] eqn:EL; inversion H; subst;
      apply IH in EL; cbn in *; auto; lia.
Qed.

(* ---- never_failed: an acknowledged reply is ResultCode = Success *)
Lemma never_failed_spec w : never_failed w = true ->
  forall rep, In rep (w_script w) \/ rep = w_default w -> rep <> RFailed.
Proof.
  unfold never_failed. intro H. apply andb_true_iff in H as [H1 H2]. rewrite forallb_forall in H1.
  intros rep [Hin| ->] E; subst.
  - specialize (H1 _ Hin). discriminate.
  - destruct (w_default w); discriminate.
Qed.

Lemma c04_truthful_partial cs cf m id out w v w' v' res es :
  shape_ok cs = true -> w_next w <> 0 ->
  run_scope cs cf (leaf m id out) w v = (w', v', res, es) ->
  began id es = true -> never_failed w = true -> res = RNilC ->
  last (sp_replies es) RNil = ROk.
Proof.
  intros Hs Hn H Hb Hnf Hres.
  destruct (c04_result _ _ _ _ _ _ _ _ _ _ _ Hs Hn H Hb) as [[T _] _].
  destruct (T Hres) as (_ & Hc & Ha).
  destruct (leaf_launcher _ _ _ _ _ _ _ _ _ _ _ Hs Hn H Hb) as (_ & _ & reps & r & w4 & LT & HL).
  destruct (launcher_counts _ _ _ _ _ _ _ _ LT) as (C & _ & _ & S & _). rewrite S in *.
  assert (reps <> []) as Hne. { rewrite C in Hc. destruct reps; [destruct (out_ok out); cbn in Hc; lia|congruence]. }
  assert (In (last reps RNil) reps) as Hin.
  { destruct (exists_last Hne) as (pre & x & ->). rewrite last_app_single. apply in_or_app. right. now left. }
  assert (In (EReq (sp_q out (w_next w)) (last reps RNil)) (map (EReq (sp_q out (w_next w))) reps ++ dtail r)) as Hin2.
  { apply in_or_app. left. now apply in_map. }
  pose proof (sp_loop_replies_from _ _ _ _ _ _ _ _ HL _ _ Hin2) as Hfrom.
  assert (last reps RNil <> RFailed) as Hnot.
  { apply (never_failed_spec w Hnf). unfold after_begin, bump_next in Hfrom. cbn in Hfrom.
    destruct Hfrom as [X|X]; [left; now apply in_tl|right; exact X]. }
  destruct (last reps RNil); cbn in Ha; congruence.
Qed.

(* ---- C04_surfaces *)
Lemma c04_surfaces cs cf m id out w v w' v' res es :
  shape_ok cs = true -> w_next w <> 0 ->
  run_scope cs cf (leaf m id out) w v = (w', v', res, es) ->
  out <> ONil -> res = RErrC.
Proof.
  intros Hs Hn H Ho. destruct (leaf_cases _ _ _ _ _ _ _ _ _ _ _ Hs Hn H) as [_ HC].
  assert (out_ok out = false) as Hf by (destruct out; cbn; congruence).
  destruct (disposition_of m (is_gtx v)).
  - destruct HC as (_ & -> & _). unfold res_of. now rewrite Hf.
  - destruct HC as [(_ & _ & ->)|(_ & w4 & r & es4 & _ & _ & _ & ->)]; [reflexivity|]. now rewrite Hf.
  - destruct HC as (_ & -> & _). unfold res_of. now rewrite Hf.
  - destruct HC as (_ & -> & _). reflexivity.
Qed.

Lemma c04_cancel_surfaces cs cf m id out w v w' v' res es j :
  shape_ok cs = true -> w_next w <> 0 ->
  run_scope cs cf (leaf m id out) w v = (w', v', res, es) ->
  began id es = true -> w_cancel_after w = Some j -> (j <= S (w_nreq w))%nat ->
  res = RErrC /\ sp_replies es = [].
Proof.
  intros Hs Hn H Hb Hc Hj.
  destruct (leaf_launcher _ _ _ _ _ _ _ _ _ _ _ Hs Hn H Hb) as (_ & _ & reps & r & w4 & LT & _).
  destruct (launcher_counts _ _ _ _ _ _ _ _ LT) as (_ & _ & _ & S & _). rewrite S.
  assert (cancelled (after_begin w) = true) as Ha.
  { unfold cancelled, after_begin, bump_next. cbn. rewrite Hc. apply orb_true_iff. right. now apply Nat.leb_le. }
  destruct (lt_cancel _ _ _ _ _ _ _ _ LT Ha) as [-> ->].
  split; [|reflexivity]. rewrite (lt_res _ _ _ _ _ _ _ _ LT). now rewrite andb_false_r.
Qed.

(* ---- scopes that do not initiate *)
Lemma c04_not_initiator cs cf m id out w v w' v' res es :
  shape_ok cs = true -> w_next w <> 0 ->
  run_scope cs cf (leaf m id out) w v = (w', v', res, es) ->
  n_begins es = 0%nat ->
  es = filter (fun e => negb (is_begin e || is_commit e || is_rollback e)) es /\
  sp_replies es = [] /\
  disposition_of m (is_gtx v) <> DNew /\
  (res = RNilC <-> out = ONil /\ disposition_of m (is_gtx v) <> DFail) /\
  (entered es = true <-> disposition_of m (is_gtx v) <> DFail).
Proof.
  intros Hs Hn H Hb. destruct (leaf_cases _ _ _ _ _ _ _ _ _ _ _ Hs Hn H) as [_ HC]. clear H Hs.
  destruct (disposition_of m (is_gtx v)).
  - destruct HC as (-> & -> & _). cbn. repeat split; try congruence; auto.
    all: try (unfold res_of in *; destruct out; cbn in *; congruence).
    all: try (intros [-> _]; reflexivity).
  - destruct HC as [(_ & -> & ->)|(_ & w4 & r & es4 & _ & _ & -> & _)]; cbn in Hb; discriminate.
  - destruct HC as (-> & -> & _). cbn. repeat split; try congruence; auto.
    all: try (unfold res_of in *; destruct out; cbn in *; congruence).
    all: try (intros [-> _]; reflexivity).
  - destruct HC as (-> & -> & _). cbn. repeat split; try congruence; auto.
    all: try (intros [_ X]; congruence).
Qed.

Lemma c04_begin_failed cs cf m id out w v w' v' res es :
  shape_ok cs = true -> w_next w <> 0 ->
  run_scope cs cf (leaf m id out) w v = (w', v', res, es) ->
  began id es = false -> n_begins es <> 0%nat ->
  exists rep, rep <> ROk /\ es = [EReq (QBegin id) rep; ERet id RErrC] /\ res = RErrC.
Proof.
  intros Hs Hn H Hb Hnb. destruct (leaf_cases _ _ _ _ _ _ _ _ _ _ _ Hs Hn H) as [_ HC].
  destruct (disposition_of m (is_gtx v)).
  - destruct HC as (-> & _). cbn in Hnb. congruence.
  - destruct HC as [(Hr & -> & ->)|(_ & w4 & r & es4 & _ & _ & -> & _)].
    + eauto.
    + cbn in Hb. rewrite N.eqb_refl in Hb. discriminate.
  - destruct HC as (-> & _). cbn in Hnb. congruence.
  - destruct HC as (-> & _). cbn in Hnb. congruence.
Qed.

(* ---- termination *)
Lemma c04_terminates cs cf m id out w v w' v' res es :
  shape_ok cs = true -> w_next w <> 0 ->
  run_scope cs cf (leaf m id out) w v = (w', v', res, es) ->
  ((sp_n cf out <> 0%nat /\ (sp_n cf out <= send_cap)%nat) \/
   (transport_error (w_default w) = false /\ (List.length (w_script w) <= send_cap)%nat)) ->
  diverged es = false.
Proof.
  intros Hs Hn H Hc. destruct (began_cases id es) as [Hb|Hb].
  - destruct (leaf_launcher _ _ _ _ _ _ _ _ _ _ _ Hs Hn H Hb) as (_ & _ & reps & r & w4 & LT & HL).
    destruct (launcher_counts _ _ _ _ _ _ _ _ LT) as (_ & _ & _ & _ & _ & D). rewrite D.
    destruct r; try reflexivity. exfalso.
    destruct Hc as [[H1 H2]|[H1 H2]].
    + destruct (lt_div _ _ _ _ _ _ _ _ LT eq_refl) as [_ [X|X]]; lia.
    + assert ((List.length (w_script (after_begin w)) < send_cap)%nat) as Hlen.
      { unfold after_begin, bump_next. cbn [w_script]. clear - H2.
        destruct (w_script w); cbn [tl List.length] in *; unfold send_cap in *; lia. }
      pose proof (sp_loop_diverge_default _ _ _ _ _ _ _ HL Hlen) as X.
      unfold after_begin, bump_next in X. cbn [w_default] in X. congruence.
  - now destruct (leaf_no_begin _ _ _ _ _ _ _ _ _ _ _ Hs Hn H Hb) as (_ & _ & _ & _ & D & _).
Qed.
