(* C04 lifted to programs: for every scope tree, every coordinator script, retry setting and
   cancellation point, every transaction begun in the run is decided by the scope that began it
   and by nobody else.  Structural induction over trees with the coordinator threaded as state. *)
From Coq Require Import List NArith Bool Lia Arith.
From SeataV Require Import Tm.TmModel Tm.TmProofs Tm.TmTreeProofs.
Import ListNotations.
Open Scope N_scope.

(* ---------------------------------------------------------------- seg *)
Lemma seg_app x a b : seg x (a ++ b) = seg x a ++ seg x b.
Proof. unfold seg. apply filter_app. Qed.

Lemma seg_in x es : seg x es <> [] <-> In x (sp_xids es).
Proof.
  induction es as [|e es IH]; cbn; [tauto|].
  destruct e as [q r| | | |]; cbn; try exact IH.
  destruct q as [n|y|y]; cbn; try exact IH.
  - destruct (y =? x) eqn:E.
    + apply N.eqb_eq in E. subst. split; [auto|discriminate].
    + apply N.eqb_neq in E. rewrite IH. split; [auto|intros [?|?]; [congruence|auto]].
  - destruct (y =? x) eqn:E.
    + apply N.eqb_eq in E. subst. split; [auto|discriminate].
    + apply N.eqb_neq in E. rewrite IH. split; [auto|intros [?|?]; [congruence|auto]].
Qed.

Lemma seg_nil_of_xids x es : ~ In x (sp_xids es) -> seg x es = [].
Proof. intro H. destruct (seg x es) eqn:E; [reflexivity|]. exfalso. apply H, seg_in. congruence. Qed.

Lemma seg_out_of_range x lo hi es : xid_range lo hi (sp_xids es) -> (x < lo \/ hi <= x) -> seg x es = [].
Proof.
  intros HR Hx. apply seg_nil_of_xids. intro Hin. unfold xid_range in HR. rewrite Forall_forall in HR.
  specialize (HR _ Hin). lia.
Qed.

Lemma seg_in_range x lo hi es : xid_range lo hi (sp_xids es) -> seg x es <> [] -> lo <= x /\ x < hi.
Proof.
  intros HR Hs. apply seg_in in Hs. unfold xid_range in HR. rewrite Forall_forall in HR. now apply HR.
Qed.

Lemma seg_map_own out x reps : seg x (map (EReq (sp_q out x)) reps) = map (EReq (sp_q out x)) reps.
Proof.
  unfold seg, sp_q. induction reps as [|r reps IH]; [reflexivity|].
  destruct (out_ok out); cbn; rewrite N.eqb_refl; cbn in IH; now rewrite IH.
Qed.

Lemma seg_dtail x r : seg x (dtail r) = [].
Proof. destruct r; reflexivity. Qed.

Lemma seg_single_other x e : names x e = false -> seg x [e] = [].
Proof. unfold seg. cbn. now intros ->. Qed.
Lemma seg_cons_other x e l : names x e = false -> seg x (e :: l) = seg x l.
Proof. unfold seg. cbn. now intros ->. Qed.
Lemma seg_nil x : seg x [] = [].
Proof. reflexivity. Qed.
Ltac seg_norm := repeat (rewrite seg_app || (rewrite seg_cons_other by reflexivity) || rewrite seg_nil || rewrite app_nil_r).
Ltac seg_norm_in H := repeat (rewrite seg_app in H || (rewrite seg_cons_other in H by reflexivity) || rewrite seg_nil in H || rewrite app_nil_r in H).

(* ---------------------------------------------------------------- begin, once more: the launching arm *)
Lemma arm_launch d tx id w v0 w1 v1 es1 :
  run_bops (expected_arm d tx) id w v0 = (w1, v1, true, es1) ->
  is_gtx v0 = tx ->
  is_gtx v1 = true -> g_role v1 = Launcher -> (tx = true -> g_role v0 = UnKnow) ->
  es1 = [EReq (QBegin id) ROk] /\ v1 = {| g_xid := w_next w; g_name := id; g_role := Launcher |} /\
  w1 = after_begin w.
Proof.
  intros H Htx G R HU.
  assert (forall v, begin_new id w v = (w1, v1, true, es1) ->
            es1 = [EReq (QBegin id) ROk] /\ v1 = {| g_xid := w_next w; g_name := id; g_role := Launcher |} /\
            w1 = after_begin w) as HB.
  { intros v Hb. destruct (reply_eqb (next_reply w) ROk) eqn:E.
    - assert (next_reply w = ROk) as E' by (destruct (next_reply w); cbn in E; congruence).
      rewrite (begin_new_ok id w v E') in Hb. inversion Hb; subst. auto.
    - assert (next_reply w <> ROk) as E' by (intro X; rewrite X in E; discriminate).
      destruct (begin_new_fail id w v E') as (wa & va & Eb & _). rewrite Eb in Hb. discriminate. }
  destruct d, tx; cbn [expected_arm run_bops] in H; try (now apply HB in H); try discriminate.
  - (* join, tx *) inversion H; subst. unfold use_exist in R. rewrite Htx in R. cbn in R. discriminate.
  - inversion H; subst. unfold use_exist in G. rewrite Htx in G. congruence.
  - (* none, tx *) inversion H; subst. cbn in G. discriminate.
  - inversion H; subst. congruence.
Qed.

Lemma bops_launch cs m id w vin w1 v1 es1 :
  shape_ok cs = true ->
  run_bops (ops_for cs m (is_gtx (if is_gtx vin then clear_conf vin else vin))) id w
           (if is_gtx vin then clear_conf vin else vin) = (w1, v1, true, es1) ->
  is_gtx v1 = true -> g_role v1 = Launcher ->
  es1 = [EReq (QBegin id) ROk] /\ v1 = {| g_xid := w_next w; g_name := id; g_role := Launcher |} /\
  w1 = after_begin w.
Proof.
  intros Hs H G R. rewrite (shape_ops cs Hs) in H.
  eapply arm_launch; eauto.
  intro T. rewrite is_gtx_clear in T. rewrite T. reflexivity.
Qed.

(* begin's own events never name a transaction in a commit/rollback *)
Lemma bops_seg cs m id w vin w1 v1 ok es1 x :
  shape_ok cs = true ->
  run_bops (ops_for cs m (is_gtx (if is_gtx vin then clear_conf vin else vin))) id w
           (if is_gtx vin then clear_conf vin else vin) = (w1, v1, ok, es1) ->
  seg x es1 = [].
Proof.
  intros Hs H. destruct (bops_cases cs m id w vin _ _ _ _ Hs H) as (X & _).
  apply seg_nil_of_xids. rewrite X. intros [].
Qed.

(* the deferred second phase of a scope that did not launch sends nothing *)
Lemma second_phase_silent cs cf ok w v w' e es :
  lookup_role (cs_second cs) Launcher = Some SADecide ->
  lookup_role (cs_second cs) Participant = Some SANothing ->
  lookup_role (cs_second cs) UnKnow = Some SAError ->
  second_phase cs cf ok w v = (w', e, es) ->
  (is_gtx v = false \/ g_role v <> Launcher) -> es = [] /\ w' = w.
Proof.
  intros RL RP RU H Hn. unfold second_phase in H.
  destruct (is_gtx v) eqn:G; [|inversion H; auto].
  destruct Hn as [?|Hn]; [discriminate|].
  destruct (g_role v) eqn:R; try congruence.
  - rewrite RU in H. inversion H; auto.
  - rewrite RP in H. inversion H; auto.
Qed.

(* ---------------------------------------------------------------- T1: every transaction touched is decided by its launcher *)
Lemma decided_lift cf x s ek es :
  decided cf x s ek -> seg x es = seg x ek -> incl ek es -> decided cf x s es.
Proof.
  destruct s as [m id sh kids out]. cbn [decided].
  intros (reps & H1 & H2 & H3 & H4 & H5 & H6 & res & H7 & H8) Hs Hi.
  exists reps. rewrite Hs. repeat split; auto. exists res. split; auto.
Qed.

Definition decides (cs : code_shape) (cf : config) (s : scope) : Prop :=
  forall w v w' v' res es,
    w_next w <> 0 -> run_scope cs cf s w v = (w', v', res, es) ->
    forall x, seg x es <> [] -> exists s', In s' (subscopes s) /\ decided cf x s' es.

Lemma kids_decide cs cf id ks :
  Forall (owns cs cf) ks -> Forall (decides cs cf) ks ->
  forall w v wb vb eb,
    w_next w <> 0 -> run_kids cs cf id ks w v = (wb, vb, eb) ->
    forall x, seg x eb <> [] -> exists s', In s' (flat_map subscopes ks) /\ decided cf x s' eb.
Proof.
  intros HO HD. revert HO. induction HD as [|k ks Hk Hks IH]; intros HO w v wb vb eb Hn H x Hx.
  - inversion H; subst. cbn in Hx. congruence.
  - inversion HO as [|? ? HOk HOks]; subst.
    rewrite run_kids_cons in H.
    destruct (run_scope cs cf k w v) as [[[wa va] ra] ea] eqn:Ek.
    destruct (run_kids cs cf id ks wa va) as [[wb' vb'] eb'] eqn:Eks.
    inversion H; subst; clear H.
    destruct (HOk _ _ _ _ _ _ Ek) as [L1 R1].
    destruct (kids_own cs cf id ks HOks _ _ _ _ _ Eks) as [L2 R2].
    assert (w_next wa <> 0) as Hna by lia.
    seg_norm_in Hx.
    destruct (seg x ea) eqn:Sa.
    + (* x belongs to a later child *)
      cbn [app] in Hx.
      destruct (IH HOks _ _ _ _ _ Hna Eks x Hx) as (s' & Hin & Hd).
      exists s'. split; [cbn [flat_map]; apply in_or_app; now right|].
      eapply decided_lift; [exact Hd| |].
      * seg_norm. rewrite Sa. reflexivity.
      * intros e He. apply in_or_app. right. now right.
    + (* x belongs to this child *)
      assert (seg x ea <> []) as Hxa by (rewrite Sa; discriminate).
      destruct (seg_in_range _ _ _ _ R1 Hxa) as [Ha Hb].
      assert (seg x eb' = []) as Sb by (eapply seg_out_of_range; [exact R2|left; lia]).
      destruct (Hk _ _ _ _ _ _ Hn Ek x Hxa) as (s' & Hin & Hd).
      exists s'. split; [cbn [flat_map]; apply in_or_app; now left|].
      eapply decided_lift; [exact Hd| |].
      * seg_norm. rewrite Sb. now rewrite app_nil_r.
      * intros e0 He. apply in_or_app. now left.
Qed.

Lemma all_decide cs cf : shape_ok cs = true -> forall s, decides cs cf s.
Proof.
  intros Hs. pose proof (shape_restores cs Hs) as Hr.
  destruct (shape_roles cs Hs) as (RL & RP & RU).
  apply scope_ind'. intros m id sh kids out HK.
  assert (Forall (intact cs cf) kids) as HI by (apply Forall_forall; intros; now apply all_intact).
  assert (Forall (owns cs cf) kids) as HO by (apply Forall_forall; intros; now apply all_own).
  intros w v w' v' res es Hn H x Hx. rewrite run_scope_eq in H. cbv zeta in H.
  set (vin := if sh then v else fresh_of v) in *.
  destruct (run_bops _ id w _) as [[[w1 v1] ok] es1] eqn:Eb.
  pose proof (bops_seg cs m id w vin _ _ _ _ x Hs Eb) as S1.
  destruct (bops_cases cs m id w vin _ _ _ _ Hs Eb) as (_ & N1 & _).
  destruct ok; cbn [negb] in H.
  2:{ inversion H; subst. seg_norm_in Hx. rewrite S1 in Hx. cbn in Hx. congruence. }
  destruct (run_kids cs cf id kids w1 v1) as [[w3 v3] es3] eqn:Ek.
  destruct (kids_intact cs cf id kids HI _ _ _ _ _ Ek) as [-> _].
  destruct (kids_own cs cf id kids HO _ _ _ _ _ Ek) as [N3 X3].
  destruct (second_phase cs cf (out_ok out) w3 v1) as [[w4 sperr] es4] eqn:Es.
  inversion H; subst; clear H.
  assert (w_next w1 <> 0) as Hn1 by lia.
  seg_norm_in Hx. rewrite S1 in Hx. cbn [app] in Hx.
  assert (forall e, In e es3 -> In e (es1 ++ [EEnter id (g_xid v1) (g_role v1) (g_name v1)] ++ es3 ++ es4 ++
            [ERet id (if out_ok out && negb sperr then RNilC else RErrC)])) as Hincl3.
  { intros e He. apply in_or_app. right. cbn [app]. right. apply in_or_app. now left. }
  destruct (is_gtx v1 && role_eqb (g_role v1) Launcher) eqn:EL.
  - (* this scope launched *)
    apply andb_true_iff in EL as [G R]. assert (g_role v1 = Launcher) as R' by (destruct (g_role v1); cbn in R; congruence).
    destruct (bops_launch cs m id w vin _ _ _ Hs Eb G R') as (-> & -> & ->).
    rewrite (second_phase_launcher cs cf out w3 (w_next w) id RL Hn) in Es.
    destruct (sp_loop send_cap (sp_n cf out) 0 (sp_q out (w_next w)) w3) as [[w5 r] es5] eqn:ELp.
    inversion Es; subst; clear Es.
    destruct (sp_loop_spec _ _ _ _ _ _ _ _ ELp) as (reps & -> & H2 & H3 & H4 & H5 & H6 & H7 & H8 & H9).
    change (w_next (after_begin w)) with (w_next w + 1) in *.
    destruct (N.eq_dec x (w_next w)) as [->|Hne].
    + (* x is the transaction this scope began *)
      assert (seg (w_next w) es3 = []) as S3 by (eapply seg_out_of_range; [exact X3|left; lia]).
      rewrite S3 in Hx. cbn [app] in Hx.
      fold (dtail r) in Hx. rewrite seg_app, seg_map_own, seg_dtail, ?app_nil_r in Hx.
      exists (Scope m id sh kids out). split; [now left|]. cbn [decided].
      exists reps. split.
      { cbn [g_xid g_role g_name]. fold (dtail r). seg_norm. rewrite S3, seg_map_own, seg_dtail, ?app_nil_r.
        reflexivity. }
      split. { destruct reps; [cbn in Hx; congruence|discriminate]. }
      split; [exact H2|]. split. { intro Hn0. specialize (H5 Hn0). lia. }
      split. { now left. }
      split. { right. now left. }
      eexists. split.
      { apply in_or_app. right. right. apply in_or_app. right. apply in_or_app. right. now left. }
      destruct r; cbn.
      * destruct (H3 eq_refl) as (pre & rp & -> & Ha). rewrite last_app_single.
        destruct out; cbn; split; intros; try discriminate; auto; destruct H; congruence.
      * rewrite andb_false_r. split; [discriminate|]. intros [_ Ha]. exfalso.
        assert (SPErr <> SPNil) as X by discriminate. specialize (H4 X).
        destruct reps; [cbn in Hx; congruence|].
        pose proof (last_Forall _ _ RNil H4 ltac:(discriminate)) as Y. cbn beta in Y. congruence.
      * rewrite andb_false_r. split; [discriminate|]. intros [_ Ha]. exfalso.
        assert (SPDiverge <> SPNil) as X by discriminate. specialize (H4 X).
        destruct reps; [cbn in Hx; congruence|].
        pose proof (last_Forall _ _ RNil H4 ltac:(discriminate)) as Y. cbn beta in Y. congruence.
    + (* another transaction: it belongs to a child *)
      assert (seg x (map (EReq (sp_q out (w_next w))) reps ++ match r with SPDiverge => [EDiverge] | _ => [] end) = []) as S4.
      { apply seg_nil_of_xids. rewrite sp_xids_app, sp_map_xids. intro Hin. apply in_app_or in Hin as [Hin|Hin].
        - apply in_map_iff in Hin as (? & <- & _). congruence.
        - destruct r; cbn in Hin; destruct Hin. }
      rewrite S4, app_nil_r in Hx.
      destruct (kids_decide cs cf id kids HO HK (after_begin w) _ _ _ _ Hn1 Ek x Hx) as (s' & Hin & Hd).
      exists s'. split; [now right|].
      eapply decided_lift; [exact Hd| |exact Hincl3].
      cbn [g_xid g_role g_name]. fold (dtail r). fold (dtail r) in S4. rewrite seg_app in S4.
      apply app_eq_nil in S4 as [S4a S4b]. seg_norm. rewrite S4a, S4b, ?app_nil_r. reflexivity.
  - (* this scope joined / runs without a transaction: it sends nothing itself *)
    assert (is_gtx v1 = false \/ g_role v1 <> Launcher) as Hnl.
    { apply andb_false_iff in EL as [?|E]; [now left|right]. intro X. rewrite X in E. discriminate. }
    destruct (second_phase_silent cs cf _ _ _ _ _ _ RL RP RU Es Hnl) as [-> ->].
    cbn [seg filter app] in Hx. rewrite app_nil_r in Hx.
    destruct (kids_decide cs cf id kids HO HK _ _ _ _ _ Hn1 Ek x Hx) as (s' & Hin & Hd).
    exists s'. split; [now right|].
    eapply decided_lift; [exact Hd| |exact Hincl3].
    seg_norm. rewrite S1. reflexivity.
Qed.

(* ---------------------------------------------------------------- T3: a launcher whose context stays alive does send its decision *)
Definition alive (w : world) : Prop := w_cancel_after w = None /\ w_halt w = false.

Lemma alive_not_cancelled w : alive w -> cancelled w = false.
Proof. intros [a b]. unfold cancelled. now rewrite a, b. Qed.

Lemma sp_loop_alive : forall fuel n k q w w' r es,
  sp_loop fuel n k q w = (w', r, es) ->
  w_cancel_after w' = w_cancel_after w /\ (r <> SPDiverge -> w_halt w' = w_halt w).
Proof.
  induction fuel as [|f IH]; intros n k q w w' r es H; rewrite sp_loop_unfold in H;
    destruct (stop w n k); try (inversion H; subst; cbn; split; [reflexivity|congruence]).
  rewrite send_eq in H.
  destruct (match w_script w with [] => w_default w | r0 :: _ => r0 end);
    try (inversion H; subst; cbn; split; [reflexivity|congruence]);
    destruct (sp_loop f n (S k) q _) as [[w2 r2] es2] eqn:EL; inversion H; subst;
    destruct (IH _ _ _ _ _ _ _ EL) as [A B]; cbn in A, B; auto.
Qed.

Lemma diverged_dtail r : diverged (dtail r) = match r with SPDiverge => true | _ => false end.
Proof. destruct r; reflexivity. Qed.

Lemma bops_alive : forall ops name w v w' v' ok es,
  run_bops ops name w v = (w', v', ok, es) ->
  w_cancel_after w' = w_cancel_after w /\ w_halt w' = w_halt w /\ diverged es = false.
Proof.
  induction ops as [|o ops IH]; intros name w v w' v' ok es H; cbn [run_bops] in H.
  - inversion H; auto.
  - destruct o; try (inversion H; subst; auto; fail); try (eapply IH; exact H).
    unfold begin_new in H. rewrite send_eq in H.
    destruct (match w_script w with [] => w_default w | r :: _ => r end); inversion H; subst; cbn; auto.
Qed.

Lemma second_phase_alive cs cf ok w v w' e es :
  second_phase cs cf ok w v = (w', e, es) -> diverged es = false ->
  w_cancel_after w' = w_cancel_after w /\ w_halt w' = w_halt w.
Proof.
  unfold second_phase. intros H Hd.
  destruct (is_gtx v); [|inversion H; auto].
  destruct (lookup_role (cs_second cs) (g_role v)) as [a|]; [|inversion H; auto].
  destruct a; try (inversion H; auto; fail).
  unfold decide in H. destruct (g_role v).
  - inversion H; auto.
  - destruct (sp_loop _ _ _ _ _) as [[w1 r] es1] eqn:E. inversion H; subst.
    destruct (sp_loop_alive _ _ _ _ _ _ _ _ E) as [A B]. split; [exact A|]. apply B.
    destruct (sp_loop_spec _ _ _ _ _ _ _ _ E) as (reps & -> & _).
    intro X. subst r. rewrite diverged_app in Hd. cbn in Hd. rewrite orb_true_r in Hd. discriminate.
  - inversion H; auto.
Qed.

Lemma req_like_not_enter es id x ro nm : Forall req_like es -> ~ In (EEnter id x ro nm) es.
Proof. intros HF Hin. rewrite Forall_forall in HF. apply (HF _ Hin). Qed.
Lemma req_like_not_ret es id r : Forall req_like es -> ~ In (ERet id r) es.
Proof. intros HF Hin. rewrite Forall_forall in HF. apply (HF _ Hin). Qed.

Definition completes (cs : code_shape) (cf : config) (s : scope) : Prop :=
  forall w v w' v' res es,
    w_next w <> 0 -> alive w -> run_scope cs cf s w v = (w', v', res, es) -> diverged es = false ->
    alive w' /\
    forall id x nm, x <> 0 -> In (EEnter id x Launcher nm) es -> In x (sp_xids es).

Lemma kids_complete cs cf id ks :
  Forall (owns cs cf) ks -> Forall (completes cs cf) ks ->
  forall w v wb vb eb,
    w_next w <> 0 -> alive w -> run_kids cs cf id ks w v = (wb, vb, eb) -> diverged eb = false ->
    alive wb /\
    forall id' x nm, x <> 0 -> In (EEnter id' x Launcher nm) eb -> In x (sp_xids eb).
Proof.
  intros HO HC. revert HO. induction HC as [|k ks Hk Hks IH]; intros HO w v wb vb eb Hn Ha H Hd.
  - inversion H; subst. split; [exact Ha|]. intros ? ? ? _ [].
  - inversion HO as [|? ? HOk HOks]; subst.
    rewrite run_kids_cons in H.
    destruct (run_scope cs cf k w v) as [[[wa va] ra] ea] eqn:Ek.
    destruct (run_kids cs cf id ks wa va) as [[wb' vb'] eb'] eqn:Eks.
    inversion H; subst; clear H.
    destruct (HOk _ _ _ _ _ _ Ek) as [L1 _].
    rewrite diverged_app in Hd. apply orb_false_iff in Hd as [Hd1 Hd2].
    change (diverged (EAfter id (g_xid va) (g_role va) (g_name va) :: eb') = false) in Hd2.
    assert (diverged eb' = false) as Hd2' by exact Hd2.
    destruct (Hk _ _ _ _ _ _ Hn Ha Ek Hd1) as [Haa Hka].
    assert (w_next wa <> 0) as Hna by lia.
    destruct (IH HOks _ _ _ _ _ Hna Haa Eks Hd2') as [Hab Hkb].
    split; [exact Hab|]. intros id' x nm Hx0 Hin.
    rewrite sp_xids_app. apply in_or_app.
    apply in_app_or in Hin as [Hin|Hin]; [left; eapply Hka; eauto|].
    destruct Hin as [Hin|Hin]; [discriminate|]. right.
    change (In x (sp_xids eb')). eapply Hkb; eauto.
Qed.

Lemma all_complete cs cf : shape_ok cs = true -> forall s, completes cs cf s.
Proof.
  intros Hs. pose proof (shape_restores cs Hs) as Hr.
  destruct (shape_roles cs Hs) as (RL & RP & RU).
  apply scope_ind'. intros m id sh kids out HK.
  assert (Forall (intact cs cf) kids) as HI by (apply Forall_forall; intros; now apply all_intact).
  assert (Forall (owns cs cf) kids) as HO by (apply Forall_forall; intros; now apply all_own).
  intros w v w' v' res es Hn Ha H Hd. rewrite run_scope_eq in H. cbv zeta in H.
  set (vin := if sh then v else fresh_of v) in *.
  destruct (run_bops _ id w _) as [[[w1 v1] ok] es1] eqn:Eb.
  destruct (bops_alive _ _ _ _ _ _ _ _ Eb) as (A1 & B1 & D1).
  pose proof (run_bops_events _ _ _ _ _ _ _ _ Eb) as Hes1.
  destruct (bops_cases cs m id w vin _ _ _ _ Hs Eb) as (_ & N1 & _).
  assert (alive w1) as Ha1 by (destruct Ha as [a b]; split; congruence).
  destruct ok; cbn [negb] in H.
  2:{ inversion H; subst. split; [exact Ha1|]. intros id' x nm _ Hin. exfalso.
      apply in_app_or in Hin as [Hin|[Hin|[]]]; [exact (req_like_not_enter _ _ _ _ _ Hes1 Hin)|discriminate]. }
  destruct (run_kids cs cf id kids w1 v1) as [[w3 v3] es3] eqn:Ek.
  destruct (kids_intact cs cf id kids HI _ _ _ _ _ Ek) as [-> _].
  destruct (second_phase cs cf (out_ok out) w3 v1) as [[w4 sperr] es4] eqn:Es.
  pose proof (second_phase_events _ _ _ _ _ _ _ _ Es) as Hes4.
  inversion H; subst; clear H.
  rewrite !diverged_app in Hd. apply orb_false_iff in Hd as [_ Hd].
  change (diverged (es3 ++ es4 ++ [ERet id (if out_ok out && negb sperr then RNilC else RErrC)]) = false) in Hd.
  rewrite !diverged_app in Hd. apply orb_false_iff in Hd as [Hd3 Hd]. apply orb_false_iff in Hd as [Hd4 _].
  assert (w_next w1 <> 0) as Hn1 by lia.
  destruct (kids_complete cs cf id kids HO HK _ _ _ _ _ Hn1 Ha1 Ek Hd3) as [Ha3 Hk3].
  destruct (second_phase_alive _ _ _ _ _ _ _ _ Es Hd4) as [A4 B4].
  split. { destruct Ha3 as [a b]; split; congruence. }
  intros id' x nm Hx0 Hin.
  rewrite !sp_xids_app. apply in_or_app. right.
  apply in_app_or in Hin as [Hin|Hin]; [exfalso; exact (req_like_not_enter _ _ _ _ _ Hes1 Hin)|].
  cbn [app] in Hin |- *. destruct Hin as [Hin|Hin].
  - (* this scope's own callback saw role Launcher with a transaction: it launched *)
    inversion Hin; subst. rewrite sp_xids_cons_enter, !sp_xids_app. apply in_or_app. right. apply in_or_app. left.
    assert (is_gtx v1 = true) as G by (unfold is_gtx; apply negb_true_iff, N.eqb_neq; exact Hx0).
    assert (g_role v1 = Launcher) as R by (first [assumption | symmetry; assumption]).
    destruct (bops_launch cs m id' w vin _ _ _ Hs Eb G R) as (-> & -> & ->).
    rewrite (second_phase_launcher cs cf out w3 (w_next w) id' RL Hn) in Es.
    destruct (sp_loop send_cap (sp_n cf out) 0 (sp_q out (w_next w)) w3) as [[w5 r] es5] eqn:ELp.
    inversion Es; subst; clear Es.
    destruct (sp_loop_spec _ _ _ _ _ _ _ _ ELp) as (reps & -> & _ & _ & _ & _ & _ & _ & H8 & _).
    assert (reps <> []) as Hne.
    { apply H8; [now apply alive_not_cancelled| destruct (sp_n cf out); [auto|right; lia] | discriminate]. }
    rewrite sp_xids_app, sp_map_xids. apply in_or_app. left. cbn [g_xid].
    destruct reps; [congruence|now left].
  - rewrite sp_xids_cons_enter, !sp_xids_app. apply in_or_app.
    apply in_app_or in Hin as [Hin|Hin]; [left; eapply Hk3; eauto|].
    exfalso. apply in_app_or in Hin as [Hin|[Hin|[]]]; [exact (req_like_not_enter _ _ _ _ _ Hes4 Hin)|discriminate].
Qed.

(* ---------------------------------------------------------------- T4: nil only from a scope whose own business returned nil *)
Definition nil_truthful (cs : code_shape) (cf : config) (s : scope) : Prop :=
  forall w v w' v' res es,
    run_scope cs cf s w v = (w', v', res, es) ->
    (res = RNilC -> match s with Scope _ _ _ _ out => out = ONil end) /\
    forall id, In (ERet id RNilC) es -> exists m sh kids, In (Scope m id sh kids ONil) (subscopes s).

Lemma kids_nil_truthful cs cf id ks :
  Forall (nil_truthful cs cf) ks ->
  forall w v wb vb eb,
    run_kids cs cf id ks w v = (wb, vb, eb) ->
    forall id', In (ERet id' RNilC) eb -> exists m sh kids, In (Scope m id' sh kids ONil) (flat_map subscopes ks).
Proof.
  induction 1 as [|k ks Hk Hks IH]; intros w v wb vb eb H id' Hin.
  - inversion H; subst. destruct Hin.
  - rewrite run_kids_cons in H.
    destruct (run_scope cs cf k w v) as [[[wa va] ra] ea] eqn:Ek.
    destruct (run_kids cs cf id ks wa va) as [[wb' vb'] eb'] eqn:Eks.
    inversion H; subst; clear H.
    apply in_app_or in Hin as [Hin|Hin].
    + destruct (Hk _ _ _ _ _ _ Ek) as [_ Hx]. destruct (Hx _ Hin) as (m & sh & kk & Hs).
      exists m, sh, kk. cbn [flat_map]. apply in_or_app. now left.
    + destruct Hin as [Hin|Hin]; [discriminate|].
      destruct (IH _ _ _ _ _ Eks _ Hin) as (m & sh & kk & Hs).
      exists m, sh, kk. cbn [flat_map]. apply in_or_app. now right.
Qed.

Lemma all_nil_truthful cs cf : forall s, nil_truthful cs cf s.
Proof.
  apply scope_ind'. intros m id sh kids out HK.
  intros w v w' v' res es H. rewrite run_scope_eq in H. cbv zeta in H.
  destruct (run_bops _ id w _) as [[[w1 v1] ok] es1] eqn:Eb.
  pose proof (run_bops_events _ _ _ _ _ _ _ _ Eb) as Hes1.
  destruct ok; cbn [negb] in H.
  2:{ inversion H; subst. split; [discriminate|]. intros id' Hin. exfalso.
      apply in_app_or in Hin as [Hin|[Hin|[]]]; [exact (req_like_not_ret _ _ _ Hes1 Hin)|discriminate]. }
  destruct (run_kids cs cf id kids w1 v1) as [[w3 v3] es3] eqn:Ek.
  destruct (second_phase cs cf (out_ok out) w3 v3) as [[w4 sperr] es4] eqn:Es.
  pose proof (second_phase_events _ _ _ _ _ _ _ _ Es) as Hes4.
  inversion H; subst; clear H.
  assert ((if out_ok out && negb sperr then RNilC else RErrC) = RNilC -> out = ONil) as Hout.
  { destruct out; cbn; congruence. }
  split; [exact Hout|].
  intros id' Hin.
  apply in_app_or in Hin as [Hin|Hin]; [exfalso; exact (req_like_not_ret _ _ _ Hes1 Hin)|].
  cbn [app] in Hin. destruct Hin as [Hin|Hin]; [discriminate|].
  apply in_app_or in Hin as [Hin|Hin].
  - destruct (kids_nil_truthful cs cf id kids HK _ _ _ _ _ Ek _ Hin) as (m' & sh' & kk & Hs).
    exists m', sh', kk. cbn [subscopes]. now right.
  - apply in_app_or in Hin as [Hin|[Hin|[]]]; [exfalso; exact (req_like_not_ret _ _ _ Hes4 Hin)|].
    inversion Hin as [[E1 E2]]. subst id'. exists m, sh, kids. cbn [subscopes]. left.
    rewrite (Hout E2). reflexivity.
Qed.
