(* C20 — no re-entrant locking: sync.Mutex / sync.RWMutex / sync.Once are not re-entrant.
   A goroutine that holds lock l (read or write) and, on the same goroutine, reaches code
   that acquires l again blocks for ever: always when either acquisition is exclusive, and
   for two read acquisitions as soon as a writer queues between them (Go's RWMutex lets a
   queued writer bar new readers).  Model part: definitions only.  The tables
   (`ls_funcs`, `ls_held_calls` in Gen/LockSet.v) are regenerated from the source. *)
From Coq Require Import String List NArith Bool.
From SeataV Require Import Conc.LockSet.
Import ListNotations.
Open Scope string_scope.

(* one function: the locks it takes itself on its caller's goroutine (on its own receiver,
   or package-level), its callees on the same object (methods of its receiver, package-level
   functions), and a claimed closure of both *)
Record fn_row := mkFn {
  f_name   : string;
  f_direct : list string;
  f_calls  : list string;
  f_may    : list string
}.

(* a call made while h_lock is held, on the object the lock belongs to *)
Record hc_row := mkHc {
  hc_func   : string;
  hc_line   : N;
  hc_lock   : string;
  hc_mode   : lmode;
  hc_callee : string
}.

(* running f may acquire l on the caller's goroutine *)
Inductive MayAcquire (fs : list fn_row) : string -> string -> Prop :=
| MA_direct : forall r l, In r fs -> In l (f_direct r) -> MayAcquire fs (f_name r) l
| MA_call : forall r g l, In r fs -> In g (f_calls r) -> MayAcquire fs g l -> MayAcquire fs (f_name r) l.

Definition memb (s : string) (l : list string) : bool := existsb (String.eqb s) l.
Definition subsetb (a b : list string) : bool := forallb (fun x => memb x b) a.

(* the claimed closure is closed: it contains the direct locks and the closure of every callee *)
Definition closed_row (fs : list fn_row) (r : fn_row) : bool :=
  subsetb (f_direct r) (f_may r)
  && forallb (fun g => forallb (fun gr => negb (f_name gr =? g) || subsetb (f_may gr) (f_may r)) fs) (f_calls r).

Definition closed_table (fs : list fn_row) : bool := forallb (closed_row fs) fs.

Definition hc_ok (fs : list fn_row) (h : hc_row) : bool :=
  forallb (fun r => negb (f_name r =? hc_callee h) || negb (memb (hc_lock h) (f_may r))) fs.

Definition reent_check (fs : list fn_row) (hcs : list hc_row) : bool :=
  closed_table fs && forallb (hc_ok fs) hcs.

Definition reentrant_calls (fs : list fn_row) (hcs : list hc_row) : list hc_row :=
  filter (fun h => negb (hc_ok fs h)) hcs.

Definition no_reentrant_lock (fs : list fn_row) (hcs : list hc_row) : Prop :=
  forall h, In h hcs -> ~ MayAcquire fs (hc_callee h) (hc_lock h).
