(* C20 — the re-entrancy checker is sound for every pair of tables; a held lock bars its
   own re-acquisition in the mutex machine. *)
From Coq Require Import String List NArith Bool.
From SeataV Require Import Conc.LockSet Conc.Reent.
Import ListNotations.
Open Scope string_scope.

Lemma memb_In : forall s l, memb s l = true <-> In s l.
Proof.
  intros. unfold memb. rewrite existsb_exists. split.
  - intros [x [Hx He]]. apply String.eqb_eq in He. subst. exact Hx.
  - intro H. exists s. split; [exact H|apply String.eqb_refl].
Qed.

Lemma subsetb_In : forall a b, subsetb a b = true -> forall x, In x a -> In x b.
Proof.
  intros a b H x Hx. unfold subsetb in H. rewrite forallb_forall in H.
  apply memb_In. apply H. exact Hx.
Qed.

(* a closed table's closure covers everything the function may acquire *)
Lemma closed_covers : forall fs, closed_table fs = true ->
  forall f l, MayAcquire fs f l -> exists r, In r fs /\ f_name r = f /\ In l (f_may r).
Proof.
  intros fs Hc f l H. unfold closed_table in Hc. rewrite forallb_forall in Hc.
  induction H as [r l Hr Hl | r g l Hr Hg _ IH].
  - exists r. split; [exact Hr|]. split; [reflexivity|].
    specialize (Hc r Hr). unfold closed_row in Hc. apply andb_true_iff in Hc. destruct Hc as [Hd _].
    eapply subsetb_In; eassumption.
  - destruct IH as [gr [Hgr [Hn Hl]]].
    exists r. split; [exact Hr|]. split; [reflexivity|].
    specialize (Hc r Hr). unfold closed_row in Hc. apply andb_true_iff in Hc. destruct Hc as [_ Hcalls].
    rewrite forallb_forall in Hcalls. specialize (Hcalls g Hg).
    rewrite forallb_forall in Hcalls. specialize (Hcalls gr Hgr).
    apply orb_true_iff in Hcalls. destruct Hcalls as [Hne|Hsub].
    + apply negb_true_iff in Hne. apply String.eqb_neq in Hne. contradiction.
    + eapply subsetb_In; eassumption.
Qed.

Theorem reent_check_sound : forall fs hcs, reent_check fs hcs = true -> no_reentrant_lock fs hcs.
Proof.
  intros fs hcs H h Hh Hm. unfold reent_check in H. apply andb_true_iff in H. destruct H as [Hc Hk].
  rewrite forallb_forall in Hk. specialize (Hk h Hh). unfold hc_ok in Hk. rewrite forallb_forall in Hk.
  destruct (closed_covers fs Hc _ _ Hm) as [r [Hr [Hn Hl]]].
  specialize (Hk r Hr). apply orb_true_iff in Hk. destruct Hk as [Hne|Hnm].
  - apply negb_true_iff in Hne. apply String.eqb_neq in Hne. contradiction.
  - apply negb_true_iff in Hnm. apply memb_In in Hl. congruence.
Qed.

Theorem reentrant_calls_spec : forall fs hcs h,
  In h (reentrant_calls fs hcs) <-> In h hcs /\ hc_ok fs h = false.
Proof.
  intros. unfold reentrant_calls. rewrite filter_In, negb_true_iff. tauto.
Qed.

(* mutex machine: while a thread holds l, an exclusive acquisition of l cannot proceed, and
   while it holds l exclusively no acquisition of l can: re-acquiring on the same goroutine
   never returns, since the only release would come after it *)
Theorem held_bars_reacquire : forall (s : lstate) t l m,
  In (t, l, m) s ->
  can_acquire s l Excl = false /\ (m = Excl -> can_acquire s l Shared = false).
Proof.
  intros s t l m Hin. split.
  - simpl. destruct (forallb (fun h => negb (h_lock h =? l)) s) eqn:E; [|reflexivity].
    rewrite forallb_forall in E. specialize (E _ Hin). unfold h_lock in E. simpl in E.
    rewrite String.eqb_refl in E. discriminate.
  - intro Hm. subst m. simpl.
    destruct (forallb (fun h => negb ((h_lock h =? l) && is_excl (h_mode h))) s) eqn:E; [|reflexivity].
    rewrite forallb_forall in E. specialize (E _ Hin). unfold h_lock, h_mode in E. simpl in E.
    rewrite String.eqb_refl in E. discriminate.
Qed.

(* ... and the state does not change: the machine stays where it is (a lock-up) *)
Theorem reacquire_stutters : forall (s : lstate) t l m,
  In (t, l, m) s -> lstep s (Acquire t l Excl) = s.
Proof.
  intros s t l m Hin. simpl. destruct (held_bars_reacquire s t l m Hin) as [H _].
  unfold can_acquire in H. rewrite H. reflexivity.
Qed.
