(* C20 — the boolean checker of the lock discipline is sound and complete; what a
   common lock guarantees in every reachable mutex state. *)
From Coq Require Import String List NArith Bool Lia.
From SeataV Require Import Conc.LockSet.
Import ListNotations.
Open Scope string_scope.

Lemma is_excl_true : forall m, is_excl m = true <-> m = Excl.
Proof. destruct m; simpl; split; congruence. Qed.

Lemma guard_okb_spec : forall a l, guard_okb a l = true <-> guard_ok a l.
Proof.
  intros a l. unfold guard_okb, guard_ok. rewrite existsb_exists. split.
  - intros [[l' m] [Hin H]]. simpl in H. apply andb_true_iff in H. destruct H as [Hl Hm].
    apply String.eqb_eq in Hl. subst l'. exists m. split; [exact Hin|].
    intro Hw. rewrite Hw in Hm. simpl in Hm. apply is_excl_true. exact Hm.
  - intros [m [Hin Hm]]. exists (l, m). split; [exact Hin|]. simpl.
    rewrite String.eqb_refl. simpl. destruct (is_write a); simpl; [|reflexivity].
    apply is_excl_true. apply Hm. reflexivity.
Qed.

Lemma conflictingb_spec : forall a1 a2, conflictingb a1 a2 = true <-> conflicting a1 a2.
Proof.
  intros. unfold conflictingb, conflicting.
  destruct (String.eqb_spec (a_var a1) (a_var a2)) as [E|E].
  - rewrite !andb_true_iff, orb_true_iff, !negb_true_iff. tauto.
  - split; [discriminate|]. intros [H _]. contradiction.
Qed.

Lemma is_synced_true : forall a, is_synced a = true <-> a_mode a = Synced.
Proof. intro a. unfold is_synced. destruct (a_mode a); split; congruence. Qed.

Lemma protectedb_spec : forall a1 a2, protectedb a1 a2 = true <-> protected a1 a2.
Proof.
  intros. unfold protectedb, protected. rewrite orb_true_iff, existsb_exists, andb_true_iff, !is_synced_true.
  split.
  - intros [[g [_ H]]|H]; [left|right; exact H].
    apply andb_true_iff in H. destruct H as [H1 H2].
    exists (fst g). split; apply guard_okb_spec; assumption.
  - intros [[l [H1 H2]]|H]; [left|right; exact H].
    destruct H1 as [m [Hin Hm]].
    exists (l, m). split; [exact Hin|]. simpl.
    apply andb_true_iff. split; apply guard_okb_spec; [exists m; auto | exact H2].
Qed.

Lemma triple_eqb_spec : forall x y, triple_eqb x y = true <-> x = y.
Proof.
  intros [[a b] c] [[a' b'] c']. unfold triple_eqb. simpl.
  rewrite !andb_true_iff, !String.eqb_eq. split.
  - intros [[-> ->] ->]. reflexivity.
  - intro H. inversion H. auto.
Qed.

Lemma existsb_triple : forall x L, existsb (triple_eqb x) L = true <-> In x L.
Proof.
  intros. rewrite existsb_exists. split.
  - intros [y [Hin H]]. apply triple_eqb_spec in H. subst. exact Hin.
  - intro H. exists x. split; [exact H|]. apply triple_eqb_spec. reflexivity.
Qed.

Lemma exemptb_spec : forall L a1 a2, exemptb L a1 a2 = true <-> exempt L a1 a2.
Proof. intros. unfold exemptb, exempt. rewrite orb_true_iff, !existsb_triple. tauto. Qed.

Lemma pair_okb_spec : forall L a1 a2,
  pair_okb L a1 a2 = true <-> (conflicting a1 a2 -> ~ exempt L a1 a2 -> protected a1 a2).
Proof.
  intros. unfold pair_okb.
  destruct (conflictingb a1 a2) eqn:Hc; destruct (exemptb L a1 a2) eqn:He; cbn [negb andb implb].
  - split; [|reflexivity]. intros _ _ Hne. exfalso. apply Hne. apply exemptb_spec. exact He.
  - rewrite protectedb_spec. split.
    + intros H _ _. exact H.
    + intro H. apply H.
      * apply conflictingb_spec. exact Hc.
      * intro Hx. apply exemptb_spec in Hx. congruence.
  - split; [|reflexivity]. intros _ Hx. apply conflictingb_spec in Hx. congruence.
  - split; [|reflexivity]. intros _ Hx. apply conflictingb_spec in Hx. congruence.
Qed.

(* the checker decides the discipline, for every table and listing *)
Theorem check_sound : forall L T, check L T = true -> discipline L T.
Proof.
  intros L T H a1 a2 H1 H2. unfold check in H. rewrite forallb_forall in H.
  specialize (H a1 H1). rewrite forallb_forall in H. specialize (H a2 H2).
  apply pair_okb_spec. exact H.
Qed.

Theorem check_complete : forall L T, discipline L T -> check L T = true.
Proof.
  intros L T H. unfold check. apply forallb_forall. intros a1 H1.
  apply forallb_forall. intros a2 H2. apply pair_okb_spec. apply H; assumption.
Qed.

Theorem failing_pairs_spec : forall L T a1 a2,
  In (a1, a2) (failing_pairs L T) <->
  In a1 T /\ In a2 T /\ conflicting a1 a2 /\ ~ exempt L a1 a2 /\ ~ protected a1 a2.
Proof.
  intros. unfold failing_pairs. rewrite in_flat_map. split.
  - intros [x [Hx Hin]]. apply in_map_iff in Hin. destruct Hin as [y [Heq Hy]].
    inversion Heq; subst. apply filter_In in Hy. destruct Hy as [Hy Hb].
    apply negb_true_iff in Hb. split; [exact Hx|]. split; [exact Hy|].
    unfold pair_okb in Hb.
    destruct (conflictingb a1 a2) eqn:Hc; destruct (exemptb L a1 a2) eqn:He; try discriminate.
    split; [apply conflictingb_spec; exact Hc|]. split.
    + intro Hx'. apply exemptb_spec in Hx'. congruence.
    + intro Hp. apply protectedb_spec in Hp. congruence.
  - intros [H1 [H2 [Hc [He Hp]]]]. exists a1. split; [exact H1|].
    apply in_map_iff. exists a2. split; [reflexivity|]. apply filter_In. split; [exact H2|].
    apply negb_true_iff. destruct (pair_okb L a1 a2) eqn:Hb; [|reflexivity].
    exfalso. apply Hp. apply (proj1 (pair_okb_spec L a1 a2) Hb); assumption.
Qed.

Theorem violatesb_sound : forall T v f1 f2, violatesb T v f1 f2 = true -> violates T v f1 f2.
Proof.
  intros T v f1 f2 H. unfold violatesb in H. apply existsb_exists in H. destruct H as [a1 [H1 H]].
  destruct (a_var a1 =? v) eqn:Hv; [|discriminate].
  destruct (a_func a1 =? f1) eqn:Hf1; [|discriminate].
  apply existsb_exists in H. destruct H as [a2 [H2 H]].
  destruct (a_func a2 =? f2) eqn:Hf2; [|discriminate].
  destruct (conflictingb a1 a2) eqn:Hc; [|discriminate]. rename H into Hp.
  apply String.eqb_eq in Hv, Hf1, Hf2. apply conflictingb_spec in Hc. apply negb_true_iff in Hp.
  exists a1, a2. repeat (split; [assumption|]).
  intro Hx. apply protectedb_spec in Hx. congruence.
Qed.

Theorem all_listed_violate_sound : forall L T, all_listed_violate L T = true ->
  forall v f1 f2, In (v, f1, f2) L -> violates T v f1 f2.
Proof.
  intros L T H v f1 f2 Hin. unfold all_listed_violate in H. rewrite forallb_forall in H.
  specialize (H _ Hin). simpl in H. apply violatesb_sound. exact H.
Qed.

Theorem wf_table_sound : forall R T, wf_table R T = true ->
  (forall a, In a T -> forall w, a_kind a <> Unknown w)
  /\ (forall v, In v R -> exists a, In a T /\ a_var a = v)
  /\ T <> [].
Proof.
  intros R T H. unfold wf_table in H. rewrite !andb_true_iff in H. destruct H as [[H1 H2] H3].
  rewrite forallb_forall in H1, H2. split; [|split].
  - intros a Ha w Hk. specialize (H1 a Ha). unfold is_unknown in H1. rewrite Hk in H1. discriminate.
  - intros v Hv. specialize (H2 v Hv). apply existsb_exists in H2. destruct H2 as [a [Ha He]].
    apply String.eqb_eq in He. exists a. auto.
  - intro He. subst T. discriminate.
Qed.

(* ---------------------------------------------------------------------------
   Mutex semantics: in every reachable state an exclusive holding of l is the
   only holding of l. *)
Definition excl_alone (s : lstate) : Prop :=
  forall t1 t2 l m, In (t1, l, Excl) s -> In (t2, l, m) s -> t1 = t2 /\ m = Excl.

Lemma remove_holding_subset : forall t l s h, In h (remove_holding t l s) -> In h s.
Proof.
  induction s as [|x r IH]; simpl; intros h H; [exact H|].
  destruct (Nat.eqb (h_tid x) t && (h_lock x =? l)); simpl in *; [right; exact H|].
  destruct H as [H|H]; [left; exact H|right; apply IH; exact H].
Qed.

Lemma lstep_excl_alone : forall s o, excl_alone s -> excl_alone (lstep s o).
Proof.
  intros s o Hinv. destruct o as [t l m|t l]; simpl.
  - destruct (can_acquire s l m) eqn:Hc; [|exact Hinv].
    intros t1 t2 l' m' H1 H2. simpl in H1, H2.
    destruct H1 as [H1|H1]; destruct H2 as [H2|H2].
    + inversion H1; inversion H2; subst. auto.
    + inversion H1; subst. simpl in Hc. rewrite forallb_forall in Hc.
      specialize (Hc _ H2). unfold h_lock in Hc. simpl in Hc. rewrite String.eqb_refl in Hc. discriminate.
    + inversion H2; subst. destruct m'.
      * simpl in Hc. rewrite forallb_forall in Hc. specialize (Hc _ H1).
        unfold h_lock, h_mode in Hc. simpl in Hc. rewrite String.eqb_refl in Hc. discriminate.
      * simpl in Hc. rewrite forallb_forall in Hc. specialize (Hc _ H1).
        unfold h_lock in Hc. simpl in Hc. rewrite String.eqb_refl in Hc. discriminate.
    + apply (Hinv t1 t2 l' m'); assumption.
  - intros t1 t2 l' m' H1 H2. apply remove_holding_subset in H1, H2. apply (Hinv t1 t2 l' m'); assumption.
Qed.

Lemma fold_excl_alone : forall ops s, excl_alone s -> excl_alone (fold_left lstep ops s).
Proof.
  induction ops as [|o r IH]; simpl; intros s H; [exact H|]. apply IH. apply lstep_excl_alone. exact H.
Qed.

Theorem reachable_excl_alone : forall ops, excl_alone (lrun ops).
Proof. intro ops. unfold lrun. apply fold_excl_alone. intros t1 t2 l m H. inversion H. Qed.

(* what the discipline buys: two different threads are never at two sites that
   share a lock in the discipline's sense while one of them writes *)
Theorem common_lock_excludes : forall ops t1 t2 a1 a2 l,
  t1 <> t2 ->
  at_site (lrun ops) t1 a1 -> at_site (lrun ops) t2 a2 ->
  guard_ok a1 l -> guard_ok a2 l ->
  (is_write a1 = true \/ is_write a2 = true) ->
  False.
Proof.
  intros ops t1 t2 a1 a2 l Hne S1 S2 [m1 [G1 W1]] [m2 [G2 W2]] Hw.
  pose proof (reachable_excl_alone ops) as Hinv.
  specialize (S1 _ _ G1). specialize (S2 _ _ G2).
  destruct Hw as [Hw|Hw].
  - specialize (W1 Hw). subst m1. destruct (Hinv _ _ _ _ S1 S2) as [He _]. contradiction.
  - specialize (W2 Hw). subst m2. destruct (Hinv _ _ _ _ S2 S1) as [He _]. symmetry in He. contradiction.
Qed.
