(* C20 — every unit of client work gives back what it takes, in any interleaving. *)
From Coq Require Import List NArith Bool Arith Lia Permutation.
From SeataV Require Import Conc.Accounting.
Import ListNotations.

Lemma acquired_app : forall r l1 l2, acquired r (l1 ++ l2) = acquired r l1 + acquired r l2.
Proof. induction l1 as [|[x|x] t IH]; intros; simpl; rewrite ?IH; lia. Qed.

Lemma released_app : forall r l1 l2, released r (l1 ++ l2) = released r l1 + released r l2.
Proof. induction l1 as [|[x|x] t IH]; intros; simpl; rewrite ?IH; lia. Qed.

Lemma acquired_perm : forall r l1 l2, Permutation l1 l2 -> acquired r l1 = acquired r l2.
Proof.
  intros r l1 l2 H. induction H as [|x l l' _ IH|x y l|l l' l'' _ IH1 _ IH2]; simpl.
  - reflexivity.
  - destruct x; rewrite IH; reflexivity.
  - destruct x, y; lia.
  - congruence.
Qed.

Lemma released_perm : forall r l1 l2, Permutation l1 l2 -> released r l1 = released r l2.
Proof.
  intros r l1 l2 H. induction H as [|x l l' _ IH|x y l|l l' l'' _ IH1 _ IH2]; simpl.
  - reflexivity.
  - destruct x; rewrite IH; reflexivity.
  - destruct x, y; lia.
  - congruence.
Qed.

Lemma res_eqb_refl : forall r, res_eqb r r = true.
Proof. destruct r; simpl; [apply Nat.eqb_refl|reflexivity]. Qed.

Lemma bracket_balanced : forall r x body,
  acquired r body = released r body -> acquired r (bracket x body) = released r (bracket x body).
Proof.
  intros r x body H. unfold bracket. simpl. rewrite acquired_app, released_app. simpl. lia.
Qed.

Lemma at_stmts_balanced : forall r n mm, acquired r (at_stmts n mm) = released r (at_stmts n mm).
Proof.
  induction n as [|k IH]; intro mm; simpl; [reflexivity|].
  rewrite acquired_app, released_app, IH. destruct mm; simpl; [reflexivity|]. lia.
Qed.

Theorem journal_balanced : forall k o r, pinned k = false ->
  acquired r (journal k o) = released r (journal k o).
Proof.
  intros k o r Hp. destruct k as [| |n mm f|[|]| | |[|]| |]; try discriminate Hp; unfold journal; try reflexivity;
    apply bracket_balanced; try reflexivity.
  apply at_stmts_balanced.
Qed.

(* prefix discipline *)
Lemma wb_from_app : forall r l1 l2 h,
  wb_from r h l1 = true ->
  wb_from r (h + acquired r l1 - released r l1) l2 = true ->
  released r l1 <= h + acquired r l1 ->
  wb_from r h (l1 ++ l2) = true.
Proof.
  induction l1 as [|[x|x] t IH]; intros l2 h H1 H2 Hle; simpl in *.
  - replace (h + 0 - 0) with h in H2 by lia. exact H2.
  - destruct (res_eqb x r).
    + apply IH; [exact H1| |lia].
      replace (S h + acquired r t - released r t) with (h + (1 + acquired r t) - released r t) by lia. exact H2.
    + apply IH; [exact H1|exact H2|exact Hle].
  - destruct (res_eqb x r).
    + destruct h as [|h']; [discriminate|]. apply IH; [exact H1| |lia].
      replace (h' + acquired r t - released r t) with (S h' + acquired r t - (1 + released r t)) by lia. exact H2.
    + apply IH; [exact H1|exact H2|exact Hle].
Qed.

Lemma wb_from_released_le : forall r l h, wb_from r h l = true -> released r l <= h + acquired r l.
Proof.
  induction l as [|[x|x] t IH]; intros h H; simpl in *; [lia| |].
  - destruct (res_eqb x r); apply IH in H; lia.
  - destruct (res_eqb x r).
    + destruct h as [|h']; [discriminate|]. apply IH in H. lia.
    + apply IH in H. lia.
Qed.

Lemma wb_bracket : forall r x body h,
  wb_from r (if res_eqb x r then S h else h) body = true ->
  acquired r body = released r body ->
  wb_from r h (bracket x body) = true.
Proof.
  intros r x body h H Hb. unfold bracket. simpl.
  apply wb_from_app; [exact H| |].
  - rewrite Hb. cbn [wb_from]. destruct (res_eqb x r).
    + replace (S h + released r body - released r body) with (S h) by lia. reflexivity.
    + reflexivity.
  - apply wb_from_released_le. exact H.
Qed.

Lemma wb_from_mono : forall r l h h', h <= h' -> wb_from r h l = true -> wb_from r h' l = true.
Proof.
  induction l as [|[x|x] t IH]; intros h h' Hle H; simpl in *; [reflexivity| |].
  - destruct (res_eqb x r); eapply IH; try eassumption; lia.
  - destruct (res_eqb x r).
    + destruct h as [|k]; [discriminate|]. destruct h' as [|k']; [lia|]. eapply IH; try eassumption. lia.
    + eapply IH; eassumption.
Qed.

Lemma wb_at_stmts : forall r n mm h, wb_from r h (at_stmts n mm) = true.
Proof.
  induction n as [|k IH]; intros mm h; simpl; [reflexivity|].
  apply wb_from_app.
  - destruct mm; [reflexivity|]. unfold bracket. cbn [app wb_from].
    destruct (res_eqb (RConn 1) r); reflexivity.
  - apply IH.
  - destruct mm; [simpl; lia|]. unfold bracket. cbn [app acquired released].
    destruct (res_eqb (RConn 1) r); lia.
Qed.

Theorem journal_well_bracketed : forall k o r, well_bracketed r (journal k o) = true.
Proof.
  intros k o r. unfold well_bracketed.
  destruct k as [| |n mm f|[|]| | |[|]| |]; unfold journal; try reflexivity;
    try (apply wb_bracket; [reflexivity | reflexivity]).
  apply wb_bracket; [apply wb_at_stmts | apply at_stmts_balanced].
Qed.

(* any interleaving of any multiset of units ends with nothing outstanding *)
Lemma concat_balanced : forall r (us : list (unit_kind * outcome)),
  forallb (fun u => negb (pinned (fst u))) us = true ->
  acquired r (concat (map (fun u => journal (fst u) (snd u)) us))
  = released r (concat (map (fun u => journal (fst u) (snd u)) us)).
Proof.
  induction us as [|[k o] t IH]; intro H; simpl in *; [reflexivity|].
  apply andb_true_iff in H. destruct H as [Hk Ht]. apply negb_true_iff in Hk.
  rewrite acquired_app, released_app, (IH Ht), (journal_balanced k o r Hk). reflexivity.
Qed.

Theorem interleaving_balanced : forall r (us : list (unit_kind * outcome)) (h : list ev),
  forallb (fun u => negb (pinned (fst u))) us = true ->
  Permutation h (concat (map (fun u => journal (fst u) (snd u)) us)) ->
  outstanding r h = 0 /\ acquired r h = released r h.
Proof.
  intros r us h Hn Hp. unfold outstanding.
  rewrite (acquired_perm r _ _ Hp), (released_perm r _ _ Hp), (concat_balanced r us Hn). lia.
Qed.

(* the pinned refresh tick keeps its connection: n ticks leave n connections in use *)
Theorem refresh_pinned_leaks : forall o n,
  outstanding (RConn 1) (concat (repeat (journal URefreshPinned o) n)) = n.
Proof.
  intros o n. unfold outstanding.
  assert (H : acquired (RConn 1) (concat (repeat (journal URefreshPinned o) n)) = n
              /\ released (RConn 1) (concat (repeat (journal URefreshPinned o) n)) = 0).
  { induction n as [|k [IH1 IH2]]; simpl; [split; reflexivity|].
    simpl in IH1, IH2. rewrite IH1, IH2. split; reflexivity. }
  destruct H as [-> ->]. lia.
Qed.

Theorem refresh_pinned_refuted : exists k o r, acquired r (journal k o) <> released r (journal k o).
Proof. exists URefreshPinned, Commit, (RConn 1). simpl. discriminate. Qed.
