(* C20 — resource accounting: pooled connections and goroutines taken and given
   back by one unit of client work (model part: definitions only).

   A unit is what one goroutine of the stress harness runs: a TM-only global
   transaction, a TCC global transaction with its phase-two request, an AT
   statement inside a global transaction with its phase two, a load-balance
   selection, a table-meta lookup, a cache refresh tick.  Pools: 0 = the pool
   of the proxy handle the application uses, 1 = the pool of the target handle
   (meta-data queries, undo, asynchronous commit). *)
From Coq Require Import List NArith Bool Arith.
Import ListNotations.

Inductive res := RConn (pool : nat) | RGor.
Inductive ev := Acq (r : res) | Rel (r : res).

Definition res_eqb (a b : res) : bool :=
  match a, b with
  | RConn p, RConn q => Nat.eqb p q
  | RGor, RGor => true
  | _, _ => false
  end.

Fixpoint acquired (r : res) (l : list ev) : nat :=
  match l with
  | [] => 0
  | Acq x :: t => (if res_eqb x r then 1 else 0) + acquired r t
  | Rel _ :: t => acquired r t
  end.

Fixpoint released (r : res) (l : list ev) : nat :=
  match l with
  | [] => 0
  | Rel x :: t => (if res_eqb x r then 1 else 0) + released r t
  | Acq _ :: t => released r t
  end.

(* never releases what it does not hold: checked on every prefix, per resource *)
Fixpoint wb_from (r : res) (held : nat) (l : list ev) : bool :=
  match l with
  | [] => true
  | Acq x :: t => wb_from r (if res_eqb x r then S held else held) t
  | Rel x :: t => if res_eqb x r
                  then match held with 0 => false | S h => wb_from r h t end
                  else wb_from r held t
  end.
Definition well_bracketed (r : res) (l : list ev) : bool := wb_from r 0 l.

Definition bracket (r : res) (body : list ev) : list ev := Acq r :: body ++ [Rel r].

Inductive outcome := Commit | Rollback.

Inductive unit_kind :=
  | UTm                       (* begin + commit/rollback through the TM: no pooled resource *)
  | UTcc                      (* TCC prepare + phase-two request handled on the caller's goroutine *)
  | UAt (stmts : nat) (metaMiss : nat) (fault : option nat)
                              (* AT: statements on one proxy connection; each of the first metaMiss
                                 statements loads table meta-data on a target connection; a fault at
                                 statement k ends the unit early *)
  | UAtPhase2 (closed : bool)  (* AT phase two of one branch: undo (rollback) or undo-log deletion by the
                                 worker (commit) on a target connection; closed = the code gives the
                                 connection back (read off the source by the translator) *)
  | USelect                   (* load-balance selection *)
  | UMeta (miss : bool)       (* one table-meta lookup *)
  | UMetaFail (cancelled : bool)
                              (* a table-meta lookup that FAILS: cache miss whose meta-data load errors
                                 (unknown table, no index, query error); cancelled = the context was
                                 already cancelled, no connection is obtained at all *)
  | URefreshFixed             (* cache refresh tick that closes its connection *)
  | URefreshPinned.           (* cache refresh tick of the pinned tree: the connection is never closed *)

Fixpoint at_stmts (n metaMiss : nat) : list ev :=
  match n with
  | 0 => []
  | S k => (match metaMiss with
            | 0 => []
            | S _ => bracket (RConn 1) []
            end) ++ at_stmts k (pred metaMiss)
  end.

Definition journal (k : unit_kind) (o : outcome) : list ev :=
  match k with
  | UTm => []
  | UTcc => []
  | UAt n mm fault =>
      let n' := match fault with Some f => Nat.min f n | None => n end in
      bracket (RConn 0) (at_stmts n' mm)
  | UAtPhase2 closed => if closed then bracket (RConn 1) [] else [Acq (RConn 1)]
  | USelect => []
  | UMeta _ => bracket (RConn 1) []
  | UMetaFail cancelled => if cancelled then [] else bracket (RConn 1) []
  | URefreshFixed => bracket (RConn 1) []
  | URefreshPinned => [Acq (RConn 1)]
  end.

Definition pinned (k : unit_kind) : bool :=
  match k with URefreshPinned => true | UAtPhase2 closed => negb closed | _ => false end.

(* outstanding resources after a history (a list of events in any order) *)
Definition outstanding (r : res) (l : list ev) : nat := acquired r l - released r l.

(* the tie: what the harness observed for one unit kind (deltas after settling) *)
Record obs := mkObs { o_kind : unit_kind; o_outcome : outcome; o_runs : nat; o_inuse0 : nat; o_inuse1 : nat; o_gor : nat }.

Definition obs_mismatch (x : obs) : list N :=
  let j := concat (repeat (journal (o_kind x) (o_outcome x)) (o_runs x)) in
  (if Nat.eqb (outstanding (RConn 0) j) (o_inuse0 x) then [] else [1%N])
  ++ (if Nat.eqb (outstanding (RConn 1) j) (o_inuse1 x) then [] else [2%N])
  ++ (if Nat.eqb (outstanding RGor j) (o_gor x) then [] else [3%N]).

Fixpoint mismatches_from (i : nat) (l : list obs) : list (nat * N) :=
  match l with
  | [] => []
  | x :: t => map (fun c => (i, c)) (obs_mismatch x) ++ mismatches_from (S i) t
  end.
Definition mismatches (l : list obs) : list (nat * N) := mismatches_from 0 l.
