(* C20 — the discipline instantiated at the table regenerated from the Go source
   (Gen/LockSet.v).  Everything here is re-checked by vm_compute on every run. *)
From Coq Require Import String List NArith Bool.
From SeataV Require Import Conc.LockSet Conc.LockSetProofs Conc.LockSetListing Conc.Accounting Conc.AccountingProofs Conc.Reent Conc.ReentProofs Conc.Order Conc.OrderProofs.
From SeataV Require Gen.LockSet.
Import ListNotations.
Open Scope string_scope.

Definition ls_table := SeataV.Gen.LockSet.ls_table.
Definition ls_brackets := SeataV.Gen.LockSet.ls_brackets.

(* a listed finding counts only while it still reproduces on the regenerated tables: a listed
   pair that no longer violates the discipline (or is no longer in the table) exempts nothing,
   a listed function whose connection is now given back on every path exempts nothing; the
   driver reports such entries as STALE-FINDING *)
Definition ls_live : listing :=
  filter (fun x => violatesb ls_table (fst (fst x)) (snd (fst x)) (snd x)) ls_listed.
Definition ls_stale : listing :=
  filter (fun x => negb (violatesb ls_table (fst (fst x)) (snd (fst x)) (snd x))) ls_listed.
Definition ls_leak_live : list string :=
  filter (fun f => existsb (fun r => (fst (fst r) =? f) && negb (snd r)) ls_brackets) ls_leak_listed.
Definition ls_leak_stale : list string :=
  filter (fun f => negb (existsb (fun r => (fst (fst r) =? f) && negb (snd r)) ls_brackets)) ls_leak_listed.

Lemma table_wf : wf_table ls_required ls_table = true.
Proof. vm_compute. reflexivity. Qed.

Lemma table_check : check ls_live ls_table = true.
Proof. vm_compute. reflexivity. Qed.

Lemma table_listed_violate : all_listed_violate ls_live ls_table = true.
Proof. vm_compute. reflexivity. Qed.

Theorem lockset_at_table :
  forall a1 a2, In a1 ls_table -> In a2 ls_table -> conflicting a1 a2 ->
  ~ exempt ls_live a1 a2 -> protected a1 a2.
Proof. exact (check_sound ls_live ls_table table_check). Qed.

Theorem table_wf_facts :
  (forall a, In a ls_table -> forall w, a_kind a <> Unknown w)
  /\ (forall v, In v ls_required -> exists a, In a ls_table /\ a_var a = v)
  /\ ls_table <> [].
Proof. exact (wf_table_sound ls_required ls_table table_wf). Qed.

Theorem listed_findings_refuted :
  forall v f1 f2, In (v, f1, f2) ls_live -> violates ls_table v f1 f2.
Proof. exact (all_listed_violate_sound ls_live ls_table table_listed_violate). Qed.

(* every exemption is used: no pair of the listing is outside the table's failing pairs *)
Definition conflicting_pairs_count : nat :=
  length (flat_map (fun a1 => filter (fun a2 => if conflictingb a1 a2 then negb (exemptb ls_live a1 a2) else false) ls_table) ls_table).

Lemma table_nonvacuous : Nat.ltb 0 conflicting_pairs_count = true.
Proof. vm_compute. reflexivity. Qed.

Theorem lockset_nonvacuous :
  exists a1 a2, In a1 ls_table /\ In a2 ls_table /\ conflicting a1 a2 /\ ~ exempt ls_live a1 a2.
Proof.
  assert (H : existsb (fun a1 => existsb (fun a2 => if conflictingb a1 a2 then negb (exemptb ls_live a1 a2) else false) ls_table) ls_table = true)
    by (vm_compute; reflexivity).
  apply existsb_exists in H. destruct H as [a1 [H1 H]]. apply existsb_exists in H. destruct H as [a2 [H2 H]].
  destruct (conflictingb a1 a2) eqn:Hc; [|discriminate]. rename H into He. apply negb_true_iff in He.
  exists a1, a2. repeat split; try assumption.
  - apply conflictingb_spec in Hc. apply Hc.
  - apply conflictingb_spec in Hc. apply Hc.
  - apply conflictingb_spec in Hc. apply Hc.
  - apply conflictingb_spec in Hc. apply Hc.
  - intro Hx. apply exemptb_spec in Hx. congruence.
Qed.

(* connection brackets *)
Definition brackets_ok : bool :=
  forallb (fun r => snd r || existsb (String.eqb (fst (fst r))) ls_leak_live) ls_brackets
  && negb (Nat.eqb (length ls_brackets) 0).

Lemma brackets_check : brackets_ok = true.
Proof. vm_compute. reflexivity. Qed.

Theorem brackets_at_table :
  forall f v c, In (f, v, c) ls_brackets -> ~ In f ls_leak_live -> c = true.
Proof.
  intros f v c Hin Hn. pose proof brackets_check as H. unfold brackets_ok in H.
  apply andb_true_iff in H. destruct H as [H _]. rewrite forallb_forall in H.
  specialize (H _ Hin). cbn [fst snd] in H. apply orb_true_iff in H. destruct H as [H|H]; [exact H|].
  exfalso. apply Hn. apply existsb_exists in H. destruct H as [x [Hx He]].
  apply String.eqb_eq in He. subst. exact Hx.
Qed.

(* which refresh tick the model uses follows the source *)
Definition refresh_closed : bool :=
  forallb (fun r => negb (fst (fst r) =? "datasource/sql/datasource/base.BaseTableMetaCache.refresh") || snd r) ls_brackets.
Definition refresh_unit : unit_kind := if refresh_closed then URefreshFixed else URefreshPinned.
Definition undo_closed : bool :=
  forallb (fun r => negb (fst (fst r) =? "datasource/sql/undo/base.BaseUndoLogManager.Undo") || snd r) ls_brackets.
Definition undo_unit : unit_kind := UAtPhase2 undo_closed.

(* no re-entrant locking, at the tables regenerated from the source *)
Definition ls_funcs := SeataV.Gen.LockSet.ls_funcs.
Definition ls_held_calls := SeataV.Gen.LockSet.ls_held_calls.

Lemma reent_table_check : reent_check ls_funcs ls_held_calls = true.
Proof. vm_compute. reflexivity. Qed.

Theorem no_reentrant_lock_at_table :
  forall h, In h ls_held_calls -> ~ MayAcquire ls_funcs (hc_callee h) (hc_lock h).
Proof. exact (reent_check_sound ls_funcs ls_held_calls reent_table_check). Qed.

Lemma reent_table_nonvacuous :
  negb (Nat.eqb (length ls_held_calls) 0)
  && existsb (fun r => negb (Nat.eqb (length (f_may r)) 0)) ls_funcs = true.
Proof. vm_compute. reflexivity. Qed.

(* wait-for graph: acyclic at the tables regenerated from the source *)
Definition ls_order_edges := SeataV.Gen.LockSet.ls_order_edges.
Definition ls_order_rank := SeataV.Gen.LockSet.ls_order_rank.

Lemma order_table_check : order_check ls_order_edges ls_order_rank = true.
Proof. vm_compute. reflexivity. Qed.

Theorem order_acyclic_at_table : forall a, ~ WaitsFor ls_order_edges a a.
Proof. exact (order_check_sound ls_order_edges ls_order_rank order_table_check). Qed.

Lemma order_table_nonvacuous :
  existsb (fun e => (e_from e =? "pool:sql.DB")%string) ls_order_edges = true.
Proof. vm_compute. reflexivity. Qed.

(* sync.Pool values: no use after Put in any function of the client *)
Definition ls_pool_traces := SeataV.Gen.LockSet.ls_pool_traces.

Lemma pool_table_check : forallb (fun t => pool_ok (snd t)) ls_pool_traces = true.
Proof. vm_compute. reflexivity. Qed.

Theorem pool_discipline_at_table : forall f p tr, In (f, p, tr) ls_pool_traces ->
  forall l1 w l2, tr = (l1 ++ PUse w :: l2)%list -> sin w (p_dead (prun pst0 l1)) = false.
Proof.
  intros f p tr Hin. pose proof pool_table_check as H. rewrite forallb_forall in H.
  specialize (H _ Hin). simpl in H. exact (pool_ok_sound tr H).
Qed.
