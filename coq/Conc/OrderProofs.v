(* C20 — a strictly increasing ranking excludes every wait-for cycle; the pool checker
   rejects every use of a dead value, at every position of every trace. *)
From Coq Require Import String List NArith Bool Lia.
From SeataV Require Import Conc.Order.
Import ListNotations.
Open Scope string_scope.

Lemma waits_rank : forall es r, order_check es r = true ->
  forall a b, WaitsFor es a b ->
  exists x y, rank_of r a = Some x /\ rank_of r b = Some y /\ (x < y)%N.
Proof.
  intros es r Hc a b H. unfold order_check in Hc. rewrite forallb_forall in Hc.
  induction H as [e He | a b c _ IH1 _ IH2].
  - specialize (Hc e He). unfold edge_ok in Hc.
    destruct (rank_of r (e_from e)) as [x|]; [|discriminate].
    destruct (rank_of r (e_to e)) as [y|]; [|discriminate].
    exists x, y. repeat split. apply N.ltb_lt. exact Hc.
  - destruct IH1 as [x [y [Hx [Hy Hxy]]]]. destruct IH2 as [y' [z [Hy' [Hz Hyz]]]].
    rewrite Hy in Hy'. inversion Hy'; subst y'.
    exists x, z. repeat split; try assumption. lia.
Qed.

Theorem order_check_sound : forall es r, order_check es r = true -> acyclic es.
Proof.
  intros es r Hc a H. destruct (waits_rank es r Hc a a H) as [x [y [Hx [Hy Hlt]]]].
  rewrite Hx in Hy. inversion Hy; subst. lia.
Qed.

Theorem order_bad_edges_spec : forall es r e,
  In e (order_bad_edges es r) <-> In e es /\ edge_ok r e = false.
Proof. intros. unfold order_bad_edges. rewrite filter_In, negb_true_iff. tauto. Qed.

(* pool discipline *)
Lemma pool_ok_from_sound : forall l st, pool_ok_from st l = true ->
  forall l1 w l2, l = (l1 ++ PUse w :: l2)%list -> sin w (p_dead (prun st l1)) = false.
Proof.
  induction l as [|e t IH]; intros st H l1 w l2 Heq.
  - destruct l1; discriminate.
  - destruct l1 as [|e1 t1].
    + simpl in Heq. inversion Heq; subst. simpl in H. apply andb_true_iff in H.
      destruct H as [H _]. apply negb_true_iff in H. exact H.
    + simpl in Heq. inversion Heq; subst e1 t. unfold prun. simpl.
      destruct e as [v|w' v|v|v]; simpl in H; try (apply (IH _ H t1 w l2 eq_refl)).
      apply andb_true_iff in H. destruct H as [_ H]. apply (IH _ H t1 w l2 eq_refl).
Qed.

Theorem pool_ok_sound : forall l, pool_ok l = true ->
  forall l1 w l2, l = (l1 ++ PUse w :: l2)%list -> sin w (p_dead (prun pst0 l1)) = false.
Proof. intros l H. exact (pool_ok_from_sound l pst0 H). Qed.

(* what "dead" contains: after P.Put(v), v itself and everything derived from it are dead *)
Lemma put_kills : forall st v, sin v (p_dead (pstep st (PPut v))) = true.
Proof. intros. unfold pstep, sin. cbn [p_dead existsb]. rewrite String.eqb_refl. reflexivity. Qed.

(* the checker at work: the statement list parsed by a pooled parser is read after the parser
   went back to the pool (rejected); reading it first is accepted *)
Example pool_rejects_use_after_put :
  pool_ok [PGet "p"; PUse "p"; PDerive "stmts" "p"; PPut "p"; PUse "stmts"] = false
  /\ pool_bad_from pst0 [PGet "p"; PUse "p"; PDerive "stmts" "p"; PPut "p"; PUse "stmts"] = ["stmts"]
  /\ pool_ok [PGet "p"; PUse "p"; PDerive "stmts" "p"; PUse "stmts"; PPut "p"] = true.
Proof. vm_compute. repeat split. Qed.
