(* C20 — trusted configuration of the lock-set obligation: the registries that must
   have rows, and the listed findings (KNOWN_FINDINGS.txt).  Definitions only. *)
From Coq Require Import String List.
From SeataV Require Import Conc.LockSet.
Import ListNotations.
Open Scope string_scope.

(* the registries property C20 names: each must have access rows *)
Definition ls_required : list string := [
  "datasource/sql/datasource/base.BaseTableMetaCache.cache";
  "datasource/sql/datasource/base.entry.lastAccess";
  "datasource/sql/datasource.tableMetaCacheMap";
  "datasource/sql/datasource.BasicSourceManager.tableMetaCache";
  "datasource/sql.txHooks";
  "datasource/sql/exec.commonHook";
  "datasource/sql/exec.hookSolts";
  "datasource/sql/undo.undoLogManagerMap";
  "datasource/sql/undo.builders";
  "remoting/loadbalance.Consistent.hashCircle";
  "remoting/loadbalance.Consistent.sortedHashNodes";
  "remoting/loadbalance.consistentInstance";
  "remoting/getty.SessionManager.allSessions";
  "remoting/getty.SessionManager.serverSessions";
  "remoting/getty.SessionManager.sessionSize";
  "remoting/getty.sessionManager";
  "rm.rmCacheInstance";
  "rm.ResourceManagerCache.resourceManagerMap"
].

(* listed findings (KNOWN_FINDINGS.txt, id race.commonHook): the common SQL hooks are
   documented "not goroutine safe"; RegisterCommonHook / CleanCommonHook write the slice
   without a lock while BuildExecutor reads it *)
Definition ls_listed : listing := [
  ("datasource/sql/exec.commonHook", "BuildExecutor", "RegisterCommonHook");
  ("datasource/sql/exec.commonHook", "BuildExecutor", "CleanCommonHook");
  ("datasource/sql/exec.commonHook", "RegisterCommonHook", "RegisterCommonHook");
  ("datasource/sql/exec.commonHook", "RegisterCommonHook", "CleanCommonHook");
  ("datasource/sql/exec.commonHook", "CleanCommonHook", "CleanCommonHook");
  (* id race.log: the logger is replaced by SetLogger / InitWithOption (configuration API, meant to
     be called before the client is used) without synchronisation while every log call reads it *)
  ("util/log.log", "Debug", "InitWithOption");
  ("util/log.log", "Debug", "SetLogger");
  ("util/log.log", "Debugf", "InitWithOption");
  ("util/log.log", "Debugf", "SetLogger");
  ("util/log.log", "Error", "InitWithOption");
  ("util/log.log", "Error", "SetLogger");
  ("util/log.log", "Errorf", "InitWithOption");
  ("util/log.log", "Errorf", "SetLogger");
  ("util/log.log", "Fatal", "InitWithOption");
  ("util/log.log", "Fatal", "SetLogger");
  ("util/log.log", "GetLogger", "InitWithOption");
  ("util/log.log", "GetLogger", "SetLogger");
  ("util/log.log", "Info", "InitWithOption");
  ("util/log.log", "Info", "SetLogger");
  ("util/log.log", "Infof", "InitWithOption");
  ("util/log.log", "Infof", "SetLogger");
  ("util/log.log", "InitWithOption", "InitWithOption");
  ("util/log.log", "InitWithOption", "Panic");
  ("util/log.log", "InitWithOption", "Panicf");
  ("util/log.log", "InitWithOption", "SetLogger");
  ("util/log.log", "InitWithOption", "Warn");
  ("util/log.log", "InitWithOption", "Warnf");
  ("util/log.log", "Panic", "SetLogger");
  ("util/log.log", "Panicf", "SetLogger");
  ("util/log.log", "SetLogger", "SetLogger");
  ("util/log.log", "SetLogger", "Warn");
  ("util/log.log", "SetLogger", "Warnf");
  ("util/log.zapLogger", "InitWithOption", "InitWithOption")
].

(* listed findings (id leak.refresh-conn): functions that take a pooled
   connection and never give it back *)
Definition ls_leak_listed : list string := [
  "datasource/sql/datasource/base.BaseTableMetaCache.refresh"
].

