(* C20 — lock discipline over the table of access sites (model part: definitions only).
   The table itself (Gen/LockSet.v, `ls_table`) is regenerated from the Go source
   on every run by tools/xlate lockset. *)
From Coq Require Import String List NArith Bool.
Import ListNotations.
Open Scope string_scope.

Inductive lmode := Shared | Excl.
Inductive akind := Read | Write | Unknown (why : string).
Inductive amode := Plain | Synced.

(* one access site of a shared registry *)
Record access := mkAcc {
  a_var    : string;                 (* registry: "<package dir>.<var>" or "<package dir>.<Type>.<field>" *)
  a_file   : string;
  a_func   : string;
  a_line   : N;
  a_kind   : akind;
  a_mode   : amode;                  (* Synced: method of a sync.Map/Once/mutex value, sync/atomic operation *)
  a_guards : list (string * lmode);  (* mutexes lexically held; "once:<var>" = sync.Once pseudo-lock *)
  a_init   : bool                    (* enclosing function is init-only *)
}.

Definition is_write (a : access) : bool :=
  match a_kind a with Write => true | _ => false end.
Definition is_unknown (a : access) : bool :=
  match a_kind a with Unknown _ => true | _ => false end.
Definition is_synced (a : access) : bool :=
  match a_mode a with Synced => true | Plain => false end.
Definition is_excl (m : lmode) : bool :=
  match m with Excl => true | Shared => false end.

(* a holds l strongly enough for what it does: a writer must hold it exclusively *)
Definition guard_ok (a : access) (l : string) : Prop :=
  exists m, In (l, m) (a_guards a) /\ (is_write a = true -> m = Excl).

Definition guard_okb (a : access) (l : string) : bool :=
  existsb (fun g => (fst g =? l) && (negb (is_write a) || is_excl (snd g))) (a_guards a).

(* two sites that can touch the same variable at the same time, one of them writing.
   Init-only code runs before the client is used concurrently (trusted, see the
   translator's root list), so a pair is concurrent only when NEITHER is init-only. *)
Definition conflicting (a1 a2 : access) : Prop :=
  a_var a1 = a_var a2 /\ (is_write a1 = true \/ is_write a2 = true)
  /\ a_init a1 = false /\ a_init a2 = false.

(* `if` instead of && where it matters: vm_compute evaluates both arguments of andb *)
Definition conflictingb (a1 a2 : access) : bool :=
  if a_var a1 =? a_var a2
  then (is_write a1 || is_write a2) && negb (a_init a1) && negb (a_init a2)
  else false.

(* Eraser discipline: a common lock (exclusive on the writing side) or both synchronised objects *)
Definition protected (a1 a2 : access) : Prop :=
  (exists l, guard_ok a1 l /\ guard_ok a2 l)
  \/ (a_mode a1 = Synced /\ a_mode a2 = Synced).

Definition protectedb (a1 a2 : access) : bool :=
  existsb (fun g => guard_okb a1 (fst g) && guard_okb a2 (fst g)) (a_guards a1)
  || (is_synced a1 && is_synced a2).

(* listed findings: (variable, function, function), unordered in the two functions *)
Definition listing := list (string * string * string).

Definition exempt (L : listing) (a1 a2 : access) : Prop :=
  In (a_var a1, a_func a1, a_func a2) L \/ In (a_var a1, a_func a2, a_func a1) L.

Definition triple_eqb (x y : string * string * string) : bool :=
  (fst (fst x) =? fst (fst y)) && (snd (fst x) =? snd (fst y)) && (snd x =? snd y).

Definition exemptb (L : listing) (a1 a2 : access) : bool :=
  existsb (triple_eqb (a_var a1, a_func a1, a_func a2)) L
  || existsb (triple_eqb (a_var a1, a_func a2, a_func a1)) L.

Definition discipline (L : listing) (T : list access) : Prop :=
  forall a1 a2, In a1 T -> In a2 T -> conflicting a1 a2 -> ~ exempt L a1 a2 -> protected a1 a2.

Definition pair_okb (L : listing) (a1 a2 : access) : bool :=
  if conflictingb a1 a2 then (if exemptb L a1 a2 then true else protectedb a1 a2) else true.

Definition check (L : listing) (T : list access) : bool :=
  forallb (fun a1 => forallb (pair_okb L a1) T) T.

(* the pairs that break the discipline (diagnostics and the failing-pair search) *)
Definition failing_pairs (L : listing) (T : list access) : list (access * access) :=
  flat_map (fun a1 => map (fun a2 => (a1, a2)) (filter (fun a2 => negb (pair_okb L a1 a2)) T)) T.

(* well-formed table: the translator recognised everything it saw and every
   registry the property names has at least one access row *)
Definition wf_table (required : list string) (T : list access) : bool :=
  forallb (fun a => negb (is_unknown a)) T
  && forallb (fun v => existsb (fun a => a_var a =? v) T) required
  && negb (Nat.eqb (length T) 0).

Definition unknown_rows (T : list access) : list access := filter is_unknown T.
Definition missing_registries (required : list string) (T : list access) : list string :=
  filter (fun v => negb (existsb (fun a => a_var a =? v) T)) required.

(* a listed finding must really violate the discipline, otherwise the entry is stale *)
Definition violates (T : list access) (v f1 f2 : string) : Prop :=
  exists a1 a2, In a1 T /\ In a2 T /\ a_var a1 = v /\ a_func a1 = f1 /\ a_func a2 = f2
                /\ conflicting a1 a2 /\ ~ protected a1 a2.

Definition violatesb (T : list access) (v f1 f2 : string) : bool :=
  existsb (fun a1 =>
     if a_var a1 =? v then
       if a_func a1 =? f1 then
         existsb (fun a2 => if a_func a2 =? f2
                            then (if conflictingb a1 a2 then negb (protectedb a1 a2) else false)
                            else false) T
       else false
     else false) T.

Definition all_listed_violate (L : listing) (T : list access) : bool :=
  forallb (fun x => violatesb T (fst (fst x)) (snd (fst x)) (snd x)) L.

(* ---------------------------------------------------------------------------
   Semantics of mutexes, to say what a common lock buys: a state is the multiset
   of holdings; an acquire that the mutex would block does not happen. *)
Definition tid := nat.
Inductive lop := Acquire (t : tid) (l : string) (m : lmode) | Release (t : tid) (l : string).
Definition holding := (tid * string * lmode)%type.
Definition lstate := list holding.

Definition h_lock (h : holding) : string := snd (fst h).
Definition h_mode (h : holding) : lmode := snd h.
Definition h_tid (h : holding) : tid := fst (fst h).

Definition can_acquire (s : lstate) (l : string) (m : lmode) : bool :=
  match m with
  | Excl => forallb (fun h => negb (h_lock h =? l)) s
  | Shared => forallb (fun h => negb ((h_lock h =? l) && is_excl (h_mode h))) s
  end.

Fixpoint remove_holding (t : tid) (l : string) (s : lstate) : lstate :=
  match s with
  | [] => []
  | h :: r => if Nat.eqb (h_tid h) t && (h_lock h =? l) then r else h :: remove_holding t l r
  end.

Definition lstep (s : lstate) (o : lop) : lstate :=
  match o with
  | Acquire t l m => if can_acquire s l m then (t, l, m) :: s else s
  | Release t l => remove_holding t l s
  end.

Definition lrun (ops : list lop) : lstate := fold_left lstep ops [].

(* thread t is at site a: it holds every real mutex the table says is held there *)
Definition at_site (s : lstate) (t : tid) (a : access) : Prop :=
  forall l m, In (l, m) (a_guards a) -> In (t, l, m) s.
