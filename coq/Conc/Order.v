(* C20 — (1) lock / pool ORDER: the wait-for graph regenerated from the source must be acyclic
   (an edge a -> b: some goroutine acquires b while holding a); (2) sync.Pool discipline: a
   value taken from a pool, or anything derived from it, is not used after it was put back.
   Model part: definitions only. *)
From Coq Require Import String List NArith Bool.
Import ListNotations.
Open Scope string_scope.

(* ---- wait-for graph *)
Definition oedge := (string * string * string * N)%type.   (* from, to, where, line *)
Definition e_from (e : oedge) : string := fst (fst (fst e)).
Definition e_to (e : oedge) : string := snd (fst (fst e)).

Fixpoint rank_of (r : list (string * N)) (n : string) : option N :=
  match r with
  | [] => None
  | (k, v) :: t => if k =? n then Some v else rank_of t n
  end.

(* a goroutine holding a can be waiting for b, through any chain of such waits *)
Inductive WaitsFor (es : list oedge) : string -> string -> Prop :=
| WF_edge : forall e, In e es -> WaitsFor es (e_from e) (e_to e)
| WF_trans : forall a b c, WaitsFor es a b -> WaitsFor es b c -> WaitsFor es a c.

Definition edge_ok (r : list (string * N)) (e : oedge) : bool :=
  match rank_of r (e_from e), rank_of r (e_to e) with
  | Some a, Some b => N.ltb a b
  | _, _ => false
  end.

Definition order_check (es : list oedge) (r : list (string * N)) : bool := forallb (edge_ok r) es.
Definition order_bad_edges (es : list oedge) (r : list (string * N)) : list oedge :=
  filter (fun e => negb (edge_ok r e)) es.

Definition acyclic (es : list oedge) : Prop := forall a, ~ WaitsFor es a a.

(* ---- sync.Pool values *)
Inductive pev :=
| PGet (v : string)             (* v := P.Get() *)
| PDerive (w v : string)        (* w obtained from an expression that mentions v *)
| PPut (v : string)             (* P.Put(v) *)
| PUse (v : string).            (* any other occurrence of v *)

(* state: which variable was derived from which root, and which variables are dead *)
Record pst := mkPst { p_root : list (string * string); p_dead : list string }.

Definition sin (s : string) (l : list string) : bool := existsb (String.eqb s) l.
Definition sremove (s : string) (l : list string) : list string := filter (fun x => negb (x =? s)) l.

Fixpoint root_of (m : list (string * string)) (v : string) : string :=
  match m with
  | [] => v
  | (w, r) :: t => if w =? v then r else root_of t v
  end.

Definition pstep (st : pst) (e : pev) : pst :=
  match e with
  | PGet v => mkPst (filter (fun p => negb (fst p =? v)) (p_root st)) (sremove v (p_dead st))
  | PDerive w v =>
      if sin v (p_dead st)
      then mkPst (p_root st) (w :: p_dead st)
      else mkPst ((w, root_of (p_root st) v) :: filter (fun p => negb (fst p =? w)) (p_root st)) (sremove w (p_dead st))
  | PPut v =>
      let r := root_of (p_root st) v in
      mkPst (p_root st)
            (v :: r :: map fst (filter (fun p => snd p =? r) (p_root st)) ++ p_dead st)
  | PUse _ => st
  end.

Definition prun (st : pst) (l : list pev) : pst := fold_left pstep l st.

Fixpoint pool_ok_from (st : pst) (l : list pev) : bool :=
  match l with
  | [] => true
  | PUse w :: t => negb (sin w (p_dead st)) && pool_ok_from st t
  | e :: t => pool_ok_from (pstep st e) t
  end.

Definition pst0 : pst := mkPst [] [].
Definition pool_ok (l : list pev) : bool := pool_ok_from pst0 l.

(* the uses that break the rule (diagnostics) *)
Fixpoint pool_bad_from (st : pst) (l : list pev) : list string :=
  match l with
  | [] => []
  | PUse w :: t => (if sin w (p_dead st) then [w] else []) ++ pool_bad_from st t
  | e :: t => pool_bad_from (pstep st e) t
  end.
