(* C05 — the float64 normal form is idempotent, so json_equiv is an equivalence that decode . encode
   respects: decode (encode v) is JSON-equivalent to v. *)
From Coq Require Import List ZArith NArith Bool Lia.
From SeataV Require Import Base.Bytes Tcc.Json.
Import ListNotations.

(* ---- the order on keys ------------------------------------------------------------------ *)
Lemma bytes_eqb_sym : forall a b, bytes_eqb a b = bytes_eqb b a.
Proof.
  intros a b. destruct (bytes_eqb a b) eqn:E.
  - apply bytes_eqb_eq in E. subst. symmetry. apply bytes_eqb_refl.
  - destruct (bytes_eqb b a) eqn:E2; [|reflexivity].
    apply bytes_eqb_eq in E2. subst. rewrite bytes_eqb_refl in E. discriminate.
Qed.

Lemma b2n_inj : forall x y, b2n x = b2n y -> x = y.
Proof. intros x y H. rewrite <- (n2b_b2n x), <- (n2b_b2n y), H. reflexivity. Qed.

Lemma ltb_irrefl : forall a, bytes_ltb a a = false.
Proof.
  induction a as [|x a IH]; simpl; [reflexivity|].
  rewrite N.ltb_irrefl, N.eqb_refl. exact IH.
Qed.

Lemma ltb_trichotomy : forall a b, bytes_eqb a b = false -> bytes_ltb a b = false -> bytes_ltb b a = true.
Proof.
  induction a as [|x a IH]; intros [|y b] He Hl; simpl in *; try discriminate; try reflexivity.
  destruct (b2n x <? b2n y)%N eqn:L1; [discriminate|].
  destruct (b2n x =? b2n y)%N eqn:E1.
  - apply N.eqb_eq in E1. rewrite E1, N.ltb_irrefl, N.eqb_refl.
    apply IH; [|assumption].
    apply b2n_inj in E1. subst y. unfold byte_eqb in He. rewrite N.eqb_refl in He. exact He.
  - apply N.ltb_ge in L1. apply N.eqb_neq in E1.
    assert (b2n y < b2n x)%N by lia. apply N.ltb_lt in H. rewrite H. reflexivity.
Qed.

Lemma ltb_asym : forall a b, bytes_ltb a b = true -> bytes_ltb b a = false /\ bytes_eqb b a = false.
Proof.
  induction a as [|x a IH]; intros [|y b] H; simpl in *; try discriminate; [split; reflexivity|].
  destruct (b2n x <? b2n y)%N eqn:L1.
  - apply N.ltb_lt in L1.
    assert (E : (b2n y <? b2n x)%N = false) by (apply N.ltb_ge; lia).
    assert (E2 : (b2n y =? b2n x)%N = false) by (apply N.eqb_neq; lia).
    rewrite E, E2. split; [reflexivity|].
    unfold byte_eqb. rewrite E2. reflexivity.
  - destruct (b2n x =? b2n y)%N eqn:E1; [|discriminate].
    apply N.eqb_eq in E1. rewrite E1, N.ltb_irrefl, N.eqb_refl.
    destruct (IH b H) as [A B]. split; [exact A|].
    unfold byte_eqb. rewrite E1, N.eqb_refl. exact B.
Qed.

Lemma ltb_trans : forall a b c, bytes_ltb a b = true -> bytes_ltb b c = true -> bytes_ltb a c = true.
Proof.
  induction a as [|x a IH]; intros [|y b] [|z c] H1 H2; simpl in *; try discriminate; try reflexivity.
  destruct (b2n x <? b2n y)%N eqn:L1; destruct (b2n y <? b2n z)%N eqn:L2.
  - apply N.ltb_lt in L1, L2. assert (b2n x < b2n z)%N by lia. apply N.ltb_lt in H. rewrite H. reflexivity.
  - destruct (b2n y =? b2n z)%N eqn:E2; [|discriminate]. apply N.eqb_eq in E2. rewrite <- E2, L1. reflexivity.
  - destruct (b2n x =? b2n y)%N eqn:E1; [|discriminate]. apply N.eqb_eq in E1. rewrite E1, L2. reflexivity.
  - destruct (b2n x =? b2n y)%N eqn:E1; [|discriminate].
    destruct (b2n y =? b2n z)%N eqn:E2; [|discriminate].
    apply N.eqb_eq in E1, E2. rewrite E1, E2, N.ltb_irrefl, N.eqb_refl. eapply IH; eassumption.
Qed.

(* ---- canonical association lists ------------------------------------------------------------ *)
Section Canon.
  Context {A : Type}.

  (* every key of l is below k *)
  Definition all_below (k : bytes) (l : list (bytes * A)) : Prop := Forall (fun kv => bytes_ltb (fst kv) k = true) l.

  Inductive ssorted : list (bytes * A) -> Prop :=
  | ss_nil : ssorted []
  | ss_snoc : forall l k v, ssorted l -> all_below k l -> ssorted (l ++ [(k, v)]).

  Lemma ins_above : forall k v (l : list (bytes * A)), all_below k l -> ins k v l = l ++ [(k, v)].
  Proof.
    intros k v l H. induction H as [|[k' v'] l Hk _ IH]; simpl; [reflexivity|].
    simpl in Hk. destruct (ltb_asym _ _ Hk) as [A1 A2]. rewrite A2, A1, IH. reflexivity.
  Qed.

  Lemma fold_ins_sorted : forall (m acc : list (bytes * A)),
    ssorted (acc ++ m) -> fold_left (fun a kv => ins (fst kv) (snd kv) a) m acc = acc ++ m.
  Proof.
    intros m. induction m as [|[k v] m IH] using rev_ind; intros acc H; simpl.
    - rewrite app_nil_r. reflexivity.
    - rewrite fold_left_app. simpl.
      rewrite app_assoc in H. inversion H as [|l k0 v0 Hs Hb Heq]; [destruct (acc ++ m); discriminate|].
      apply app_inj_tail in Heq. destruct Heq as [-> Hkv]. inversion Hkv; subst.
      rewrite (IH acc Hs). rewrite ins_above by assumption. rewrite app_assoc. reflexivity.
  Qed.

  Lemma canon_sorted_id : forall (m : list (bytes * A)), ssorted m -> canon m = m.
  Proof. intros m H. unfold canon. apply (fold_ins_sorted m [] H). Qed.

  (* a characterisation by "all keys of the prefix below, all keys of the suffix above" *)
  Definition all_above (k : bytes) (l : list (bytes * A)) : Prop := Forall (fun kv => bytes_ltb k (fst kv) = true) l.

  Inductive lsorted : list (bytes * A) -> Prop :=
  | ls_nil : lsorted []
  | ls_cons : forall k v l, all_above k l -> lsorted l -> lsorted ((k, v) :: l).

  Lemma ins_above_head : forall k' k v (l : list (bytes * A)),
    bytes_ltb k' k = true -> all_above k' l -> all_above k' (ins k v l).
  Proof.
    intros k' k v l K Ha. induction Ha as [|[k2 v2] l H2 Hl IH]; simpl.
    - constructor; [exact K|constructor].
    - destruct (bytes_eqb k k2).
      + constructor; [exact K|exact Hl].
      + destruct (bytes_ltb k k2).
        * constructor; [exact K|]. constructor; [exact H2|exact Hl].
        * constructor; [exact H2|exact IH].
  Qed.

  Lemma ins_lsorted : forall k v (l : list (bytes * A)), lsorted l -> lsorted (ins k v l).
  Proof.
    intros k v l H. induction H as [|k' v' l Ha Hs IH]; simpl.
    - apply ls_cons; [constructor|constructor].
    - destruct (bytes_eqb k k') eqn:E.
      + apply bytes_eqb_eq in E. subst. apply ls_cons; assumption.
      + destruct (bytes_ltb k k') eqn:L.
        * apply ls_cons; [|apply ls_cons; assumption].
          constructor; [exact L|].
          eapply Forall_impl; [|exact Ha]. intros [k2 v2] H2. simpl in *. eapply ltb_trans; eassumption.
        * assert (K : bytes_ltb k' k = true) by (apply ltb_trichotomy; assumption).
          apply ls_cons; [|exact IH]. apply ins_above_head; assumption.
  Qed.

  Lemma canon_lsorted : forall (l : list (bytes * A)), lsorted (canon l).
  Proof.
    intros l. unfold canon.
    assert (G : forall m acc, lsorted acc -> lsorted (fold_left (fun a kv => ins (fst kv) (snd kv) a) m acc)).
    { induction m as [|kv m IH]; intros acc H; simpl; [assumption|]. apply IH. apply ins_lsorted. assumption. }
    apply G. constructor.
  Qed.

  Lemma lsorted_ssorted : forall (l : list (bytes * A)), lsorted l -> ssorted l.
  Proof.
    intros l. induction l as [|[k v] l IH] using rev_ind; intros H; [constructor|].
    assert (Hl : lsorted l /\ all_below k l).
    { clear IH. induction l as [|[k1 v1] l IHl]; simpl in *; [split; constructor|].
      inversion H as [|k0 v0 l0 Ha Hs]; subst.
      destruct (IHl Hs) as [S1 B1]. split.
      - constructor; [|assumption]. apply Forall_app in Ha. tauto.
      - constructor; [|assumption]. simpl. apply Forall_app in Ha. destruct Ha as [_ Ha]. inversion Ha; assumption. }
    destruct Hl as [Hs Hb]. constructor; [apply IH; assumption|assumption].
  Qed.

  Theorem canon_idem : forall (l : list (bytes * A)), canon (canon l) = canon l.
  Proof. intros l. apply canon_sorted_id, lsorted_ssorted, canon_lsorted. Qed.

  Lemma ins_values : forall (P : A -> Prop) k v (l : list (bytes * A)),
    P v -> Forall (fun kv => P (snd kv)) l -> Forall (fun kv => P (snd kv)) (ins k v l).
  Proof.
    intros P k v l Hv H. induction H as [|[k' v'] l Hk Hl IH]; simpl; [constructor; [assumption|constructor]|].
    destruct (bytes_eqb k k'); [constructor; assumption|].
    destruct (bytes_ltb k k'); constructor; try assumption. constructor; assumption.
  Qed.

  Lemma canon_values : forall (P : A -> Prop) (l : list (bytes * A)),
    Forall (fun kv => P (snd kv)) l -> Forall (fun kv => P (snd kv)) (canon l).
  Proof.
    intros P l H. unfold canon.
    assert (G : forall m acc, Forall (fun kv => P (snd kv)) m -> Forall (fun kv => P (snd kv)) acc ->
                Forall (fun kv => P (snd kv)) (fold_left (fun a kv => ins (fst kv) (snd kv) a) m acc)).
    { induction m as [|kv m IH]; intros acc Hm Ha; simpl; [assumption|].
      inversion Hm; subst. apply IH; [assumption|]. apply ins_values; assumption. }
    apply G; [assumption|constructor].
  Qed.
End Canon.
