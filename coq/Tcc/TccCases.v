(* C05 — executable comparison of observed prepare / phase-two runs with the model. *)
From Coq Require Import String.
From Coq Require Import List ZArith NArith Bool.
From SeataV Require Import Base.Bytes Tcc.Json Tcc.TccModel.
Import ListNotations.
Open Scope Z_scope.

(* observed events, already projected by the driver (volatile context entries removed) *)
Inductive oevent :=
| ORegister (btype : N) (resource xid : bytes) (data : option goval)   (* data as json.Unmarshal reads the real bytes *)
| OTry (act : bytes) (bid : Z)
| OInvoke (act : bytes) (commit : bool) (xid : bytes) (bid : Z) (resource : bytes) (ctx : goval)
| ORespond (msgid : Z) (commit : bool) (xid : bytes) (bid : Z) (status code : N)
| OPanic.

Record pcase := mkPC {
  pc_action : action; pc_gtx : bool; pc_xid : bytes; pc_fields : list field; pc_reply : reply;
  pc_events : list oevent; pc_ok : bool }.

Record qcase := mkQC { qc_reg : list bytes; qc_req : p2req; qc_events : list oevent }.

(* several prepares with one context: inputs, all observed events in order, per-prepare results *)
Record scase := mkSC {
  sc_gtx : bool; sc_xid : bytes; sc_items : list (action * list field * reply);
  sc_events : list oevent; sc_oks : list bool }.

Inductive tcase := TP (c : pcase) | TQ (c : qcase) | TS (c : scase).

Definition ev_eqb_p (m : pevent) (o : oevent) : bool :=
  match m, o with
  | ERegister t r x d, ORegister t' r' x' (Some d') =>
      (t =? t')%N && bytes_eqb r r' && bytes_eqb x x' && goval_eqb (decode d) d'
  | ETry a b, OTry a' b' => bytes_eqb a a' && (b =? b')
  | _, _ => false
  end.

Definition ev_eqb_q (m : p2event) (o : oevent) : bool :=
  match m, o with
  | EInvoke a c x b r ctx, OInvoke a' c' x' b' r' ctx' =>
      bytes_eqb a a' && Bool.eqb c c' && bytes_eqb x x' && (b =? b') && bytes_eqb r r' && goval_eqb (GMap ctx) ctx'
  | ERespond i c x b s k, ORespond i' c' x' b' s' k' =>
      (i =? i') && Bool.eqb c c' && bytes_eqb x x' && (b =? b') && (s =? s')%N && (k =? k')%N
  | _, _ => false
  end.

Fixpoint all2 {A B} (f : A -> B -> bool) (a : list A) (b : list B) : bool :=
  match a, b with
  | [], [] => true
  | x :: a', y :: b' => f x y && all2 f a' b'
  | _, _ => false
  end.

Fixpoint bools_eqb (a b : list bool) : bool :=
  match a, b with
  | [], [] => true
  | x :: a', y :: b' => Bool.eqb x y && bools_eqb a' b'
  | _, _ => false
  end.

(* disagreement codes: 1 prepare events, 2 prepare result, 3 phase-two events,
   4 events of a prepare sequence on one context, 5 its results *)
Definition check_case (c : tcase) : list N :=
  match c with
  | TP p =>
      let '(evs, ok) := prepare (pc_action p) (pc_gtx p) (pc_xid p) (pc_fields p) (pc_reply p) in
      (if all2 ev_eqb_p evs (pc_events p) then [] else [1%N]) ++
      (if Bool.eqb ok (pc_ok p) then [] else [2%N])
  | TQ q => if all2 ev_eqb_q (phase2 (qc_reg q) (qc_req q)) (qc_events q) then [] else [3%N]
  | TS c =>
      (if all2 ev_eqb_p (prepare_seq (sc_gtx c) (sc_xid c) (sc_items c)) (sc_events c) then [] else [4%N]) ++
      (if bools_eqb (map (fun p => snd (prepare (fst (fst p)) (sc_gtx c) (sc_xid c) (snd (fst p)) (snd p))) (sc_items c))
                    (sc_oks c) then [] else [5%N])
  end.

Fixpoint mismatches_from (i : nat) (cs : list tcase) : list (nat * N) :=
  match cs with
  | [] => []
  | c :: cs' => map (fun e => (i, e)) (check_case c) ++ mismatches_from (S i) cs'
  end.
Definition mismatches (cs : list tcase) : list (nat * N) := mismatches_from 0 cs.
