(* C05 — model of a TCC prepare (pkg/rm/tcc/tcc_service.go: Prepare -> registeBranch ->
   initActionContext/getActionContextParameters -> BranchRegister, then the user's try)
   and of phase two (rm branch commit/rollback processor -> TCCResourceManager
   BranchCommit/BranchRollback -> getBusinessActionContext -> the user's method ->
   response).  Definitions only. *)
From Coq Require Import List ZArith NArith Bool String.
From SeataV Require Import Base.Bytes Tcc.Json.
From SeataV Require Export Tcc.TccTableDef.
From SeataV Require Import Gen.TccTable.
Import ListNotations.
Open Scope Z_scope.

Definition bs (s : string) : bytes := bytes_of_string s.

(* ---- prepare ---------------------------------------------------------------------- *)
Record field := mkF { f_exported : bool; f_tag : option bytes; f_val : goval }.

Record action := mkA { a_name : bytes; a_prepare : bytes; a_commit : bytes; a_rollback : bytes }.

(* getActionContextParameters: exported fields carrying a tccParam tag other than "" and "-" *)
Definition tagged_params (fs : list field) : list (bytes * goval) :=
  flat_map (fun f =>
    match f_exported f, f_tag f with
    | true, Some t => if bytes_eqb t (bs "-") || bytes_eqb t [] then [] else [(t, f_val f)]
    | _, _ => []
    end) fs.

(* initActionContext writes these after the parameters (action-start-time and host-name,
   which depend on the clock and the host, are left out of the model and of the comparison) *)
Definition sys_entries (a : action) : list (bytes * goval) :=
  [(bs "sys::prepare", GStr (a_prepare a)); (bs "sys::commit", GStr (a_commit a));
   (bs "sys::rollback", GStr (a_rollback a)); (bs "actionName", GStr (a_name a))].

(* the Go map that is captured: assignments in sequence, later ones win *)
Definition captured (a : action) (fs : list field) : goval :=
  GMap (canon (tagged_params fs ++ sys_entries a)).

Definition app_data (a : action) (fs : list field) : jv :=
  encode (GMap [(bs "actionContext", captured a fs)]).

(* what the sync request returns: an accepted registration; a failure result (with or without a transaction
   error code); a transport error; or, without any error, something that is not a BranchRegisterResponse value
   (nil, a response of another kind, a pointer to a response) *)
Inductive reply := ROk (bid : Z) | RFailCode | RError | RMalformed.

Inductive pevent :=
| ERegister (btype : N) (resource xid : bytes) (data : jv)
| ETry (act : bytes) (bid : Z).

Definition tcc_type : N := 1%N.      (* branch.BranchTypeTCC *)

Definition prepare (a : action) (in_gtx : bool) (xid : bytes) (fs : list field) (r : reply)
  : list pevent * bool :=
  if in_gtx then
    let reg := ERegister tcc_type (a_name a) xid (app_data a fs) in
    match r with
    | ROk b => ([reg; ETry (a_name a) b], true)
    | _ => ([reg], false)
    end
  else ([ETry (a_name a) 0], true).

(* several prepares with ONE context (one global transaction): the same action again or different
   actions, each with its own parameters and its own reply from the coordinator *)
Definition prepare_seq (in_gtx : bool) (xid : bytes) (ps : list (action * list field * reply)) : list pevent :=
  flat_map (fun p => fst (prepare (fst (fst p)) in_gtx xid (snd (fst p)) (snd p))) ps.

(* every try is immediately preceded by the registration of its own action *)
Fixpoint paired (evs : list pevent) : bool :=
  match evs with
  | [] => true
  | ERegister _ r _ _ :: rest =>
      match rest with
      | ETry a _ :: rest' => bytes_eqb r a && paired rest'
      | _ => paired rest
      end
  | ETry _ _ :: _ => false
  end.

Definition is_register (e : pevent) : bool := match e with ERegister _ _ _ _ => true | _ => false end.
Definition is_try (e : pevent) : bool := match e with ETry _ _ => true | _ => false end.
Definition reply_ok (r : reply) : bool := match r with ROk _ => true | _ => false end.

(* ---- phase two --------------------------------------------------------------------- *)
Inductive appdata :=
| AJson (j : jv)        (* bytes that parse as JSON *)
| AEmpty                (* no application data *)
| AGarbage.             (* bytes that are not JSON *)

Record p2req := mkQ {
  q_commit : bool; q_resource : bytes; q_xid : bytes; q_bid : Z; q_msgid : Z;
  q_app : appdata;
  q_user_fails : bool;    (* the user method returns a non-nil error *)
  q_user_bool : bool }.   (* the bool it returns next to it: irrelevant for the status *)

Inductive p2event :=
| EInvoke (act : bytes) (commit : bool) (xid : bytes) (bid : Z) (resource : bytes) (ctx : list (bytes * goval))
| ERespond (msgid : Z) (commit : bool) (xid : bytes) (bid : Z) (status code : N).

(* getBusinessActionContext; None = malformed application data (businessActionContextOf returns an error) *)
Definition ctx_of (d : appdata) : option (list (bytes * goval)) :=
  match d with
  | AEmpty => Some []
  | AGarbage => None
  | AJson j =>
      match decode j with
      | GMap kvs =>
          match lookup (bs "actionContext") kvs with
          | None => Some []
          | Some (GMap c) => Some c
          | Some _ => None
          end
      | GNil => Some []            (* "null" unmarshals into a nil map *)
      | _ => None
      end
  end.

Definition st_committed : N := 5%N.
Definition st_commit_retry : N := 6%N.
Definition st_rollbacked : N := 8%N.
Definition st_rollback_retry : N := 9%N.

Definition status_of (commit fails : bool) : N :=
  match commit, fails with
  | true, false => st_committed | true, true => st_commit_retry
  | false, false => st_rollbacked | false, true => st_rollback_retry
  end.

Definition code_of (fails : bool) : N := if fails then 0%N else 1%N.   (* ResultCodeFailed = 0 *)

Definition registered (reg : list bytes) (r : bytes) : bool := existsb (bytes_eqb r) reg.

(* the reference behaviour, with the Seata branch-status codes written out *)
Definition phase2_ref (reg : list bytes) (q : p2req) : list p2event :=
  if registered reg (q_resource q) then
    match ctx_of (q_app q) with
    | None =>
        (* unreadable application data: no user code, the failure is reported as retryable *)
        [ERespond (q_msgid q) (q_commit q) (q_xid q) (q_bid q) (status_of (q_commit q) true) (code_of true)]
    | Some ctx =>
        [EInvoke (q_resource q) (q_commit q) (q_xid q) (q_bid q) (q_resource q) ctx;
         ERespond (q_msgid q) (q_commit q) (q_xid q) (q_bid q)
                  (status_of (q_commit q) (q_user_fails q)) (code_of (q_user_fails q))]
    end
  else [].

(* the behaviour according to the table regenerated from the Go source: which user method runs, which
   status each outcome is given, when the processor stays silent, which result codes it uses *)
Definition phase2 (reg : list bytes) (q : p2req) : list p2event :=
  match (if q_commit q then gen_branch_commit else gen_branch_rollback), gen_silent_status, gen_result_codes with
  | Some r, Some silent, Some (cfail, csucc) =>
      let respond := fun (st : N) (failed : bool) =>
        if (st =? silent)%N then []
        else [ERespond (q_msgid q) (q_commit q) (q_xid q) (q_bid q) st (if failed then cfail else csucc)] in
      if registered reg (q_resource q) then
        match ctx_of (q_app q) with
        | None => respond (r_bad r) true
        | Some ctx =>
            EInvoke (q_resource q) (r_method r =? 1)%N (q_xid q) (q_bid q) (q_resource q) ctx
            :: respond (if q_user_fails q then r_err r else r_ok r) (q_user_fails q)
        end
      else respond (r_unknown r) true
  | _, _, _ => []
  end.

(* what the table must be for the property: the obligation re-checked on every run *)
Definition table_expected : bool :=
  match gen_branch_commit, gen_branch_rollback, gen_silent_status, gen_result_codes with
  | Some c, Some r, Some silent, Some (cfail, csucc) =>
      (r_method c =? 1) && (r_phase c =? 2) && (r_ok c =? st_committed) && (r_err c =? st_commit_retry)
      && (r_bad c =? st_commit_retry) && (r_unknown c =? silent)
      && (r_method r =? 2) && (r_phase r =? 3) && (r_ok r =? st_rollbacked) && (r_err r =? st_rollback_retry)
      && (r_bad r =? st_rollback_retry) && (r_unknown r =? silent)
      && negb (silent =? st_committed) && negb (silent =? st_commit_retry)
      && negb (silent =? st_rollbacked) && negb (silent =? st_rollback_retry)
      && (cfail =? 0) && (csucc =? 1)
  | _, _, _, _ => false
  end%N.

Definition phase2_seq (reg : list bytes) (qs : list p2req) : list p2event := flat_map (phase2 reg) qs.
