(* C05 — proofs. *)
From Coq Require Import String.
From Coq Require Import List ZArith NArith Bool Lia.
From SeataV Require Import Base.Bytes Tcc.Json Tcc.JsonEquiv Gen.TccTable Tcc.TccModel.
Import ListNotations.
Open Scope Z_scope.

(* induction principle for the nested type *)
Section GovalInd.
  Variable P : goval -> Prop.
  Hypothesis Hnil : P GNil.
  Hypothesis Hbool : forall b, P (GBool b).
  Hypothesis Hint : forall z, P (GInt z).
  Hypothesis Hflt : forall m e, P (GFlt m e).
  Hypothesis Hstr : forall s, P (GStr s).
  Hypothesis Hbytes : forall b, P (GBytes b).
  Hypothesis Hlist : forall l, Forall P l -> P (GList l).
  Hypothesis Hmap : forall kvs, Forall (fun kv => P (snd kv)) kvs -> P (GMap kvs).
  Hypothesis Hstruct : forall kvs, Forall (fun kv => P (snd kv)) kvs -> P (GStruct kvs).

  Fixpoint goval_ind' (v : goval) : P v :=
    match v with
    | GNil => Hnil
    | GBool b => Hbool b
    | GInt z => Hint z
    | GFlt m e => Hflt m e
    | GStr s => Hstr s
    | GBytes b => Hbytes b
    | GList l => Hlist l ((fix go (l : list goval) : Forall P l :=
                             match l with
                             | [] => Forall_nil _
                             | x :: t => Forall_cons _ (goval_ind' x) (go t)
                             end) l)
    | GMap kvs => Hmap kvs ((fix go (l : list (bytes * goval)) : Forall (fun kv => P (snd kv)) l :=
                               match l with
                               | [] => Forall_nil _
                               | x :: t => Forall_cons _ (goval_ind' (snd x)) (go t)
                               end) kvs)
    | GStruct kvs => Hstruct kvs ((fix go (l : list (bytes * goval)) : Forall (fun kv => P (snd kv)) l :=
                               match l with
                               | [] => Forall_nil _
                               | x :: t => Forall_cons _ (goval_ind' (snd x)) (go t)
                               end) kvs)
    end.
End GovalInd.

Lemma map_kv_ext : forall (kvs : list (bytes * goval)),
  Forall (fun kv => decode (encode (snd kv)) = norm (snd kv)) kvs ->
  map (fun kv => (fst kv, decode (snd kv))) (map (fun kv => (fst kv, encode (snd kv))) kvs)
  = map (fun kv => (fst kv, norm (snd kv))) kvs.
Proof.
  induction 1 as [|kv l H _ IH]; simpl; [reflexivity|]. rewrite H, IH. reflexivity.
Qed.

(* json.Unmarshal (into interface{}) of json.Marshal of ANY value is its float64 normal form *)
Theorem roundtrip : forall v, decode (encode v) = norm v.
Proof.
  induction v using goval_ind'; simpl; try reflexivity.
  - f_equal. rewrite map_map. induction H as [|x l Hx _ IH]; simpl; [reflexivity|]. rewrite Hx, IH. reflexivity.
  - rewrite map_kv_ext by assumption. reflexivity.
  - rewrite map_kv_ext by assumption. reflexivity.
Qed.

Corollary roundtrip_equiv : forall v w, json_equiv v w -> decode (encode v) = norm w.
Proof. intros v w H. rewrite roundtrip. exact H. Qed.

(* ---- the normal form is idempotent: json_equiv is respected by decode . encode --------------- *)
Lemma strip_pos_idem : forall p e, let '(q, e') := strip_pos p e in strip_pos q e' = (q, e').
Proof.
  induction p as [p IH|p IH|]; intros e; simpl; try reflexivity. apply IH.
Qed.

Lemma dy_idem : forall m e, let '(m', e') := dy m e in dy m' e' = (m', e').
Proof.
  intros [|p|p] e; simpl; [reflexivity| |];
    pose proof (strip_pos_idem p e) as H; destruct (strip_pos p e) as [q e']; simpl; rewrite H; reflexivity.
Qed.

Lemma flt_norm_fix : forall m e, norm (flt_norm m e) = flt_norm m e.
Proof.
  intros m e. unfold flt_norm. pose proof (dy_idem m e) as H. destruct (dy m e) as [m' e'].
  simpl. unfold flt_norm. rewrite H. reflexivity.
Qed.

Lemma map_norm_fixed : forall (l : list (bytes * goval)),
  Forall (fun kv => norm (snd kv) = snd kv) l -> map (fun kv => (fst kv, norm (snd kv))) l = l.
Proof.
  induction 1 as [|[k v] l H _ IH]; simpl; [reflexivity|]. simpl in H. rewrite H, IH. reflexivity.
Qed.

Lemma norm_map_idem : forall (kvs : list (bytes * goval)),
  Forall (fun kv => norm (norm (snd kv)) = norm (snd kv)) kvs ->
  canon (map (fun kv => (fst kv, norm (snd kv))) (canon (map (fun kv => (fst kv, norm (snd kv))) kvs)))
  = canon (map (fun kv => (fst kv, norm (snd kv))) kvs).
Proof.
  intros kvs H.
  rewrite map_norm_fixed.
  - apply canon_idem.
  - apply (canon_values (fun v => norm v = v)).
    induction H as [|kv l Hk _ IH]; simpl; constructor; assumption.
Qed.

Theorem norm_idem : forall v, norm (norm v) = norm v.
Proof.
  induction v using goval_ind'; simpl; try reflexivity.
  - unfold flt_of_int. pose proof (dy_idem (round53 z) 0) as H. destruct (dy (round53 z) 0) as [m e].
    simpl. unfold flt_norm. rewrite H. reflexivity.
  - apply flt_norm_fix.
  - f_equal. rewrite map_map. induction H as [|x l Hx _ IH]; simpl; [reflexivity|]. rewrite Hx, IH. reflexivity.
  - f_equal. apply norm_map_idem. assumption.
  - f_equal. apply norm_map_idem. assumption.
Qed.

(* the literal statement: what comes back from JSON is JSON-equivalent to what went in *)
Theorem roundtrip_json_equiv : forall v, json_equiv (decode (encode v)) v.
Proof. intros v. unfold json_equiv. rewrite roundtrip. apply norm_idem. Qed.

(* ---- prepare ------------------------------------------------------------------------ *)

Theorem register_first : forall a xid fs r,
  let '(evs, ok) := prepare a true xid fs r in
  (* exactly one registration, it comes first, and it is (TCC, action name, xid, the tagged parameters) *)
  List.length (filter is_register evs) = 1%nat /\
  hd_error evs = Some (ERegister tcc_type (a_name a) xid (app_data a fs)) /\
  (* registered: exactly one try, after the registration, seeing the branch id; not registered: no try *)
  (forall b, r = ROk b -> evs = [ERegister tcc_type (a_name a) xid (app_data a fs); ETry (a_name a) b] /\ ok = true) /\
  ((forall b, r <> ROk b) -> filter is_try evs = [] /\ ok = false).
Proof.
  intros a xid fs r. unfold prepare.
  destruct r as [b| | |]; simpl; (split; [reflexivity|]); (split; [reflexivity|]); split.
  - intros b' Hb. inversion Hb. split; reflexivity.
  - intros Hn. exfalso. apply (Hn b). reflexivity.
  - intros b' Hb. discriminate.
  - intros _. split; reflexivity.
  - intros b' Hb. discriminate.
  - intros _. split; reflexivity.
  - intros b' Hb. discriminate.
  - intros _. split; reflexivity.
Qed.

(* sequences of prepares on one context: n prepares => n registrations, every try directly after the
   registration of its own action, as many tries as registrations that succeeded *)
Lemma prepare_events : forall a xid fs r,
  fst (prepare a true xid fs r) =
  ERegister tcc_type (a_name a) xid (app_data a fs) :: match r with ROk b => [ETry (a_name a) b] | _ => [] end.
Proof. intros a xid fs [b| | |]; reflexivity. Qed.

Definition no_try_head (l : list pevent) : Prop := match l with ETry _ _ :: _ => False | _ => True end.

Lemma paired_reg_skip : forall t r x d l, no_try_head l -> paired (ERegister t r x d :: l) = paired l.
Proof. intros t r x d [|[| ] l] H; simpl in *; try reflexivity. contradiction. Qed.

Lemma seq_no_try_head : forall xid ps, no_try_head (prepare_seq true xid ps).
Proof.
  intros xid [|[[a fs] r] ps]; unfold prepare_seq; cbn [flat_map fst snd]; [exact I|].
  rewrite prepare_events. exact I.
Qed.

Theorem register_first_seq : forall xid ps,
  let evs := prepare_seq true xid ps in
  List.length (filter is_register evs) = List.length ps /\
  paired evs = true /\
  List.length (filter is_try evs) = List.length (filter (fun p => reply_ok (snd p)) ps) /\
  evs = flat_map (fun p =>
          ERegister tcc_type (a_name (fst (fst p))) xid (app_data (fst (fst p)) (snd (fst p))) ::
          match snd p with ROk b => [ETry (a_name (fst (fst p))) b] | _ => [] end) ps.
Proof.
  intros xid ps. cbv zeta.
  induction ps as [|[[a fs] r] ps IH]; [repeat split; reflexivity|].
  destruct IH as (I1 & I2 & I3 & I4).
  pose proof (seq_no_try_head xid ps) as NH.
  change (prepare_seq true xid ((a, fs, r) :: ps))
    with (fst (prepare a true xid fs r) ++ prepare_seq true xid ps).
  rewrite prepare_events.
  destruct r as [b| | |].
  - cbn [app filter is_register is_try List.length paired reply_ok flat_map fst snd].
    rewrite bytes_eqb_refl, I1, I2, I3, <- I4. repeat split; reflexivity.
  - cbn [app filter is_register is_try List.length reply_ok flat_map fst snd].
    rewrite (paired_reg_skip _ _ _ _ _ NH), I1, I2, I3, <- I4. repeat split; reflexivity.
  - cbn [app filter is_register is_try List.length reply_ok flat_map fst snd].
    rewrite (paired_reg_skip _ _ _ _ _ NH), I1, I2, I3, <- I4. repeat split; reflexivity.
  - cbn [app filter is_register is_try List.length reply_ok flat_map fst snd].
    rewrite (paired_reg_skip _ _ _ _ _ NH), I1, I2, I3, <- I4. repeat split; reflexivity.
Qed.

(* what the coordinator sends back is what was registered: the context rebuilt from it is the
   float64 normal form of the captured map *)
Theorem context_roundtrip : forall a fs,
  ctx_of (AJson (app_data a fs)) =
  Some (canon (map (fun kv => (fst kv, norm (snd kv))) (canon (tagged_params fs ++ sys_entries a)))).
Proof.
  intros a fs. unfold ctx_of, app_data. rewrite roundtrip. unfold captured.
  cbn [norm map fst snd canon fold_left ins lookup].
  rewrite bytes_eqb_refl. reflexivity.
Qed.

Corollary context_equiv : forall a fs,
  exists c, ctx_of (AJson (app_data a fs)) = Some c /\ GMap c = norm (captured a fs).
Proof. intros a fs. eexists. split; [apply context_roundtrip|reflexivity]. Qed.

Corollary context_json_equiv : forall a fs,
  exists c, ctx_of (AJson (app_data a fs)) = Some c /\ json_equiv (GMap c) (captured a fs).
Proof.
  intros a fs. destruct (context_equiv a fs) as (c & Hc & He). exists c. split; [exact Hc|].
  unfold json_equiv. rewrite He. apply norm_idem.
Qed.

(* ---- phase two ---------------------------------------------------------------------- *)
(* the table regenerated from the current source is the one the property needs *)
Lemma table_ok : table_expected = true.
Proof. vm_compute. reflexivity. Qed.

Lemma phase2_is_ref : forall reg q, phase2 reg q = phase2_ref reg q.
Proof.
  intros reg q. pose proof table_ok as T. unfold table_expected in T. unfold phase2, phase2_ref.
  destruct gen_branch_commit as [c|]; [|discriminate].
  destruct gen_branch_rollback as [r|]; [|discriminate].
  destruct gen_silent_status as [silent|]; [|discriminate].
  destruct gen_result_codes as [[cfail csucc]|]; [|discriminate].
  repeat rewrite andb_true_iff in T.
  destruct T as (((((((((((((((((C1 & C2) & C3) & C4) & C5) & C6) & R1) & R2) & R3) & R4) & R5) & R6) & S1) & S2) & S3) & S4) & K1) & K2).
  apply N.eqb_eq in C1, C2, C3, C4, C5, C6, R1, R2, R3, R4, R5, R6, K1, K2.
  apply negb_true_iff in S1, S2, S3, S4.
  subst cfail csucc.
  destruct (q_commit q) eqn:Ec.
  - rewrite C1, C3, C4, C5, C6. rewrite !N.eqb_refl.
    destruct (q_user_fails q);
      rewrite ?(N.eqb_sym st_commit_retry silent), ?S2, ?(N.eqb_sym st_committed silent), ?S1;
      (destruct (registered reg (q_resource q)); [|reflexivity]);
      (destruct (ctx_of (q_app q)) as [ctx|]; reflexivity).
  - rewrite R1, R3, R4, R5, R6. rewrite !N.eqb_refl.
    destruct (q_user_fails q);
      rewrite ?(N.eqb_sym st_rollback_retry silent), ?S4, ?(N.eqb_sym st_rollbacked silent), ?S3;
      (destruct (registered reg (q_resource q)); [|reflexivity]);
      (destruct (ctx_of (q_app q)) as [ctx|]; reflexivity).
Qed.

Definition is_invoke (e : p2event) : bool := match e with EInvoke _ _ _ _ _ _ => true | _ => false end.

Theorem dispatch : forall reg q,
  (registered reg (q_resource q) = false -> phase2 reg q = []) /\
  (registered reg (q_resource q) = true ->
     forall ctx, ctx_of (q_app q) = Some ctx ->
       phase2 reg q =
         [EInvoke (q_resource q) (q_commit q) (q_xid q) (q_bid q) (q_resource q) ctx;
          ERespond (q_msgid q) (q_commit q) (q_xid q) (q_bid q)
                   (status_of (q_commit q) (q_user_fails q)) (code_of (q_user_fails q))]) /\
  (* unreadable application data: no user code, one response with the retryable-failure status *)
  (registered reg (q_resource q) = true -> ctx_of (q_app q) = None ->
     phase2 reg q = [ERespond (q_msgid q) (q_commit q) (q_xid q) (q_bid q)
                              (if q_commit q then st_commit_retry else st_rollback_retry) 0%N]) /\
  (* the reported status is committed / rollbacked iff the user method returned no error *)
  (status_of (q_commit q) (q_user_fails q) = (if q_commit q then st_committed else st_rollbacked)
     <-> q_user_fails q = false) /\
  (q_user_fails q = true ->
     status_of (q_commit q) (q_user_fails q) = (if q_commit q then st_commit_retry else st_rollback_retry)).
Proof.
  intros reg q. rewrite phase2_is_ref. unfold phase2_ref. repeat split.
  - intros H. rewrite H. reflexivity.
  - intros H ctx Hc. rewrite H, Hc. reflexivity.
  - intros H Hc. rewrite H, Hc. destruct (q_commit q); reflexivity.
  - destruct (q_commit q), (q_user_fails q); simpl; intros H; try reflexivity; discriminate.
  - intros ->. destruct (q_commit q); reflexivity.
  - intros ->. destruct (q_commit q); reflexivity.
Qed.

(* sequences: every request is handled on its own, in order; repeated requests are each
   invoked once; user code runs only for registered resources *)
Theorem dispatch_seq : forall reg qs,
  phase2_seq reg qs = flat_map (phase2 reg) qs /\
  (forall e, In e (phase2_seq reg qs) -> is_invoke e = true ->
     exists q, In q qs /\ registered reg (q_resource q) = true /\
               exists ctx, ctx_of (q_app q) = Some ctx /\
                 e = EInvoke (q_resource q) (q_commit q) (q_xid q) (q_bid q) (q_resource q) ctx) /\
  List.length (filter is_invoke (phase2_seq reg qs)) =
  List.length (filter (fun q => registered reg (q_resource q) &&
                           match ctx_of (q_app q) with Some _ => true | None => false end) qs).
Proof.
  intros reg qs. split; [reflexivity|].
  assert (E : phase2_seq reg qs = flat_map (phase2_ref reg) qs).
  { unfold phase2_seq. apply flat_map_ext. intros a. apply phase2_is_ref. }
  rewrite E. clear E. split.
  - intros e Hin Hinv. apply in_flat_map in Hin. destruct Hin as (q & Hq & He).
    exists q. split; [assumption|]. unfold phase2_ref in He.
    destruct (registered reg (q_resource q)); [|destruct He].
    split; [reflexivity|].
    destruct (ctx_of (q_app q)) as [ctx|].
    + exists ctx. split; [reflexivity|]. destruct He as [<-|[<-|[]]]; [reflexivity|discriminate].
    + destruct He as [<-|[]]. discriminate.
  - induction qs as [|q qs IH]; simpl; [reflexivity|].
    rewrite filter_app, app_length, IH. f_equal.
    unfold phase2_ref. destruct (registered reg (q_resource q)); simpl; [|reflexivity].
    destruct (ctx_of (q_app q)); reflexivity.
Qed.
