(* C05 — Go values, the JSON trees encoding/json produces for them, and what
   json.Unmarshal into interface{} gives back (numbers become float64, []byte
   becomes a base64 string, structs and maps become maps).  The textual layer
   of JSON (escaping, number syntax) is not modelled: a JSON number is kept as
   the exact value it denotes (an integer literal, or the dyadic rational m*2^e
   of a float64, which Go prints in a form that parses back to the same
   float64).  Definitions only. *)
From Coq Require Import List ZArith NArith Bool.
From SeataV Require Import Base.Bytes.
Import ListNotations.
Open Scope Z_scope.

Inductive goval :=
| GNil
| GBool (b : bool)
| GInt (z : Z)                             (* any integer kind *)
| GFlt (m e : Z)                           (* a float64 with value m * 2^e *)
| GStr (s : bytes)
| GBytes (b : bytes)                       (* []byte *)
| GList (l : list goval)
| GMap (kvs : list (bytes * goval))        (* map[string]T, keys as Go orders them when encoding *)
| GStruct (kvs : list (bytes * goval)).    (* exported fields in declaration order *)

Inductive jv :=
| JNull | JBool (b : bool) | JNumZ (z : Z) | JNumD (m e : Z) | JStr (s : bytes)
| JArr (l : list jv) | JObj (kvs : list (bytes * jv)).

(* ---- float64 ---------------------------------------------------------------- *)
(* strip the factors of two of a mantissa *)
Fixpoint strip_pos (p : positive) (e : Z) : positive * Z :=
  match p with
  | xO q => strip_pos q (e + 1)
  | _ => (p, e)
  end.

Definition dy (m e : Z) : Z * Z :=
  match m with
  | Z0 => (0, 0)
  | Zpos p => let '(q, e') := strip_pos p e in (Zpos q, e')
  | Zneg p => let '(q, e') := strip_pos p e in (Zneg q, e')
  end.

(* nearest float64 of an integer, ties to even (integers of the int64/uint64 range never overflow) *)
Definition round53 (z : Z) : Z :=
  let a := Z.abs z in
  if a <? 2 ^ 53 then z
  else
    let k := Z.log2 a - 52 in
    let q := a / 2 ^ k in
    let r := a mod 2 ^ k in
    let half := 2 ^ (k - 1) in
    let q' := if (half <? r) || ((r =? half) && Z.odd q) then q + 1 else q in
    Z.sgn z * (q' * 2 ^ k).

Definition flt_of_int (z : Z) : goval := let '(m, e) := dy (round53 z) 0 in GFlt m e.
Definition flt_norm (m e : Z) : goval := let '(m', e') := dy m e in GFlt m' e'.

(* ---- base64 (standard alphabet, padded) -------------------------------------- *)
Definition b64char (n : N) : byte :=
  n2b (if n <? 26 then 65 + n else if n <? 52 then 97 + (n - 26) else if n <? 62 then 48 + (n - 52)
       else if n =? 62 then 43 else 47)%N.

Fixpoint base64_fuel (fuel : nat) (l : bytes) : bytes :=
  match fuel with
  | O => []
  | S f =>
    match l with
    | [] => []
    | [a] => let x := (b2n a * 65536)%N in
             [b64char (x / 262144); b64char ((x / 4096) mod 64); n2b 61; n2b 61]
    | [a; b] => let x := (b2n a * 65536 + b2n b * 256)%N in
                [b64char (x / 262144); b64char ((x / 4096) mod 64); b64char ((x / 64) mod 64); n2b 61]
    | a :: b :: c :: t =>
        let x := (b2n a * 65536 + b2n b * 256 + b2n c)%N in
        b64char (x / 262144) :: b64char ((x / 4096) mod 64) :: b64char ((x / 64) mod 64) :: b64char (x mod 64)
        :: base64_fuel f t
    end
  end.
Definition base64 (l : bytes) : bytes := base64_fuel (S (length l)) l.

(* ---- maps: Go map assignment in sequence, read back in key order --------------- *)
Fixpoint bytes_ltb (a b : bytes) : bool :=
  match a, b with
  | [], [] => false
  | [], _ :: _ => true
  | _ :: _, [] => false
  | x :: a', y :: b' => if (b2n x <? b2n y)%N then true else if (b2n x =? b2n y)%N then bytes_ltb a' b' else false
  end.

Section Assoc.
  Context {A : Type}.
  Fixpoint ins (k : bytes) (v : A) (l : list (bytes * A)) : list (bytes * A) :=
    match l with
    | [] => [(k, v)]
    | (k', v') :: t =>
        if bytes_eqb k k' then (k, v) :: t
        else if bytes_ltb k k' then (k, v) :: l
        else (k', v') :: ins k v t
    end.
  Definition canon (l : list (bytes * A)) : list (bytes * A) :=
    fold_left (fun acc kv => ins (fst kv) (snd kv) acc) l [].
  Fixpoint lookup (k : bytes) (l : list (bytes * A)) : option A :=
    match l with
    | [] => None
    | (k', v) :: t => if bytes_eqb k k' then Some v else lookup k t
    end.
End Assoc.

(* ---- json.Marshal (as a tree) --------------------------------------------------- *)
Fixpoint encode (v : goval) : jv :=
  match v with
  | GNil => JNull
  | GBool b => JBool b
  | GInt z => JNumZ z
  | GFlt m e => JNumD m e
  | GStr s => JStr s
  | GBytes b => JStr (base64 b)
  | GList l => JArr (map encode l)
  | GMap kvs => JObj (map (fun kv => (fst kv, encode (snd kv))) kvs)
  | GStruct kvs => JObj (map (fun kv => (fst kv, encode (snd kv))) kvs)
  end.

(* ---- json.Unmarshal into interface{} ---------------------------------------------- *)
Fixpoint decode (j : jv) : goval :=
  match j with
  | JNull => GNil
  | JBool b => GBool b
  | JNumZ z => flt_of_int z
  | JNumD m e => flt_norm m e
  | JStr s => GStr s
  | JArr l => GList (map decode l)
  | JObj kvs => GMap (canon (map (fun kv => (fst kv, decode (snd kv))) kvs))
  end.

(* ---- the float64 normal form of a Go value ("JSON-equivalent" = equal normal forms) *)
Fixpoint norm (v : goval) : goval :=
  match v with
  | GNil => GNil
  | GBool b => GBool b
  | GInt z => flt_of_int z
  | GFlt m e => flt_norm m e
  | GStr s => GStr s
  | GBytes b => GStr (base64 b)
  | GList l => GList (map norm l)
  | GMap kvs => GMap (canon (map (fun kv => (fst kv, norm (snd kv))) kvs))
  | GStruct kvs => GMap (canon (map (fun kv => (fst kv, norm (snd kv))) kvs))
  end.

Definition json_equiv (a b : goval) : Prop := norm a = norm b.

(* structural equality (for the tie) *)
Fixpoint goval_eqb (a b : goval) : bool :=
  match a, b with
  | GNil, GNil => true
  | GBool x, GBool y => Bool.eqb x y
  | GInt x, GInt y => x =? y
  | GFlt m e, GFlt m' e' => (m =? m') && (e =? e')
  | GStr x, GStr y => bytes_eqb x y
  | GBytes x, GBytes y => bytes_eqb x y
  | GList l, GList l' =>
      (fix go (l l' : list goval) : bool :=
         match l, l' with
         | [], [] => true
         | x :: t, y :: t' => goval_eqb x y && go t t'
         | _, _ => false
         end) l l'
  | GMap l, GMap l' | GStruct l, GStruct l' =>
      (fix go (l l' : list (bytes * goval)) : bool :=
         match l, l' with
         | [], [] => true
         | (k, x) :: t, (k', y) :: t' => bytes_eqb k k' && goval_eqb x y && go t t'
         | _, _ => false
         end) l l'
  | _, _ => false
  end.
