(* C05 — vocabulary of the table tools/xlate/tcc.go regenerates from TCCResourceManager.BranchCommit /
   BranchRollback and the rm branch processors (coq/Gen/TccTable.v).  Definitions only. *)
From Coq Require Import NArith.

Record p2row := mkRow {
  r_method : N;      (* user method called: 1 Commit, 2 Rollback *)
  r_phase : N;       (* fence phase put into the context *)
  r_ok : N;          (* branch status returned when the user method returned no error *)
  r_err : N;         (* ... when it returned an error *)
  r_bad : N;         (* ... when the application data cannot be read (user method not called) *)
  r_unknown : N      (* ... when the resource is not registered *)
}.
