(* C17 — executable model of the XA branch protocol of seata-go.

   Identifier:  pkg/datasource/sql/xa_branch_xid.go (String / encode / decode),
                xa_xid_builder.go (XaIdBuild, XaIdBuildWithByte).
   Client:      conn_xa.go (autocommit path: createNewTxOnExecIfNeed -> BeginTx ->
                register, keepIfNecessary, XA START; statement; Commit = XA END,
                XA PREPARE; Rollback = XA END(fail), XA ROLLBACK; commitFailure),
                xa_resource_manager.go (BranchCommit/BranchRollback -> finishBranch ->
                db.go ConnectionForXA: the held connection, or a new one).
   Server:      the MySQL XA state diagram per branch identifier, as implemented by
                the stand-in server of harness/xarun/fakedb.go.

   Every modelled connection runs ONE branch (the harness pins a fresh pool
   connection per statement), and the coordinator hands out distinct branch ids, so
   the world is a product of per-branch machines sharing only the counters that
   address faults, number the connections and count registrations.  That locality
   is itself re-validated on every run: the real journal (produced against the
   GLOBAL stand-in server) is compared with this model's journal. *)
From Coq Require Import String List NArith Bool Decimal DecimalString DecimalN.
From Coq.Strings Require Import Byte.
From SeataV Require Import Base.Bytes.
Import ListNotations.
Open Scope N_scope.

(* ---------------------------------------------------------------- identifier *)

Definition dash : byte := x2d.

(* strconv.FormatUint(b, 10) *)
Definition dec (n : N) : bytes := list_byte_of_string (NilEmpty.string_of_uint (N.to_uint n)).

(* XABranchXid.String(): xid + "-" + FormatUint(branchId) *)
Definition xa_id (xid : bytes) (b : N) : bytes := xid ++ dash :: dec b.

Definition max_u64 : N := 18446744073709551615.

(* strconv.ParseUint(s, 10, 64) with the error dropped: 0 on a syntax error,
   MaxUint64 on overflow *)
Definition parse_u64 (s : bytes) : N :=
  match NilEmpty.uint_of_string (string_of_list_byte s) with
  | Some d => let n := N.of_uint d in if n <=? max_u64 then n else max_u64
  | None => 0
  end.

Fixpoint trim_left (c : byte) (s : bytes) : bytes :=
  match s with
  | x :: r => if byte_eqb x c then trim_left c r else s
  | [] => []
  end.

(* encode(): globalTransactionId / branchQualifier of XaIdBuild(xid, b) *)
Definition enc_gtrid (xid : bytes) : bytes := xid.
Definition enc_bqual (b : N) : bytes := if b =? 0 then [] else dash :: dec b.

(* decode(): XaIdBuildWithByte(gtrid, bqual) *)
Definition dec_xid (gtrid : bytes) : bytes := gtrid.
Definition dec_branch (bqual : bytes) : N :=
  match bqual with [] => 0 | _ => parse_u64 (trim_left dash bqual) end.

(* ---------------------------------------------------------------- server: XA state diagram of one branch *)

Inductive cmd := START | STMT | END_ | PREPARE | COMMIT | ROLLBACK.
(* RRb: XA END of a rollback-only branch: the server answers an XA_RB* error and the branch is IDLE *)
Inductive res := ROk | RFault | RRmfail | RNota | RDupid | RRb.
Inductive bstate := Active | Idle | Prepared.

Definition cmd_eqb (a b : cmd) : bool :=
  match a, b with
  | START, START | STMT, STMT | END_, END_ | PREPARE, PREPARE | COMMIT, COMMIT | ROLLBACK, ROLLBACK => true
  | _, _ => false
  end.
Definition res_ok (r : res) : bool := match r with ROk => true | _ => false end.

(* server-side state of one identifier: None = unknown to the server;
   Some (s, attached): attached = still bound to the session that started it *)
Definition dbst := option (bstate * bool).

(* own: the command arrives on the session that started the branch (a session
   runs one branch); detach: the server frees the session at PREPARE (>= 8.0.29) *)
Definition srv_step (detach : bool) (d : dbst) (own busy : bool) (c : cmd) : res * dbst :=
  match c with
  | START => if busy then (RRmfail, d)   (* the session is still bound to another branch *)
             else match d with None => (ROk, Some (Active, true)) | Some _ => (RDupid, d) end
  | STMT => match d with
            | Some (Active, true) => (ROk, d)
            | _ => (RRmfail, d)
            end
  | END_ => match d with
            | Some (Active, true) => if own then (ROk, Some (Idle, true)) else (RNota, d)
            | Some (_, true) => if own then (RRmfail, d) else (RNota, d)
            | _ => (RNota, d)
            end
  | PREPARE => match d with
               | Some (Idle, true) => if own then (ROk, Some (Prepared, negb detach)) else (RNota, d)
               | Some (_, true) => if own then (RRmfail, d) else (RNota, d)
               | _ => (RNota, d)
               end
  | COMMIT => match d with
              | None => (RNota, d)
              | Some (s, true) => if own then match s with Prepared => (ROk, None) | _ => (RRmfail, d) end
                                  else (RNota, d)
              | Some (_, false) => if busy then (RRmfail, d) else (ROk, None)
              end
  | ROLLBACK => match d with
                | None => (RNota, d)
                | Some (s, true) => if own then match s with Active => (RRmfail, d) | _ => (ROk, None) end
                                    else (RNota, d)
                | Some (_, false) => if busy then (RRmfail, d) else (ROk, None)
                end
  end.

(* the owning session disconnects: a PREPARED branch survives detached, an
   ACTIVE / IDLE one is rolled back by the server *)
Definition srv_kill (d : dbst) : dbst :=
  match d with
  | Some (Prepared, _) => Some (Prepared, false)
  | Some (_, true) => None
  | _ => d
  end.

Definition is_prepared (d : dbst) : bool :=
  match d with Some (Prepared, _) => true | _ => false end.

(* ---------------------------------------------------------------- world *)

Inductive ev :=
| EReg (xid : bytes) (ok : bool) (b : N)
| ESql (conn : nat) (c : cmd) (id : bytes) (r : res)
| EKill (conn : nat).

(* OErrBad: the error handed to database/sql is (wraps) driver.ErrBadConn *)
Inductive ores := OSkipped | OOk | OErr | OErrBad | OP2 (done : bool)
  | OChk (closed : list nat).   (* checker pass: the sessions it closed *)

Inductive op :=
| OAuto (g : nat) (via : option nat) (slow : bool)
    (* autocommit statement of global tx g; via = Some t: on the connection of op #t, taken back out
       of the pool (ResetSession), else on a fresh connection; slow: the statement outlasts the
       XA branch execution timeout *)
| OLocal                                           (* statement outside any global tx, fresh connection *)
| OPhase2 (target : nat) (commit stranger : bool)  (* phase two for the branch registered by op #target *)
| ORetry (g : nat) (slow : bool)
    (* database/sql's retry: the statement is run again on a NEW connection iff the attempt just
       before it handed back driver.ErrBadConn (db.ExecContext: up to two of these follow a statement) *)
| ORetire (target : nat)
    (* the pool retires the connection of op #target (idle limit, lifetime, db.Close): driver Close *)
| ORelease (target : nat)
    (* the next phase-two request for op #target lands on a process that does not hold the connection
       (RM cluster) while the holder stays connected: the keeper there has no entry *)
| OCheck (expired : bool)
    (* one pass of the two-phase timeout checker; expired: the hold time of whatever is prepared is over *)
| ONop.

Record env := {
  e_detach : bool;              (* SELECT VERSION() >= 8.0.29 *)
  e_xid : nat -> bytes;         (* xid of global transaction g *)
  e_bid : nat -> N;             (* branch id the coordinator assigns to the k-th registration *)
  e_refuse : nat -> bool;       (* the k-th registration is refused (result code or transport) *)
  e_fault : cmd -> nat -> bool; (* the n-th command of that kind fails without a state change *)
  e_fbad : cmd -> nat -> bool;  (* ... and the error it fails with is driver.ErrBadConn *)
  e_frb : nat -> bool           (* the n-th XA END meets a rollback-only branch (XA_RB* error, branch left IDLE) *)
}.

Record br := {
  r_op : nat; r_xid : bytes; r_b : N; r_conn : nat;
  r_db : dbst;      (* server-side state of xa_id r_xid r_b *)
  r_kept : bool;    (* the keeper of the DBResource has an entry for the identifier (-> r_conn) *)
  r_fin : bool;     (* phase two was delivered *)
  r_sfail : bool    (* registered, but XA START was not accepted *)
}.

(* XAConn fields that outlive a statement on a pooled connection *)
(* prepareTime: zero (a branch is in phase one / nothing ever happened), set at PREPARE, or
   pushed 1000 h into the past by cleanXABranchContext *)
Inductive ptime := PZero | PPrep | POld.
Record cst := {
  c_active : bool;        (* xaActive *)
  c_kept : bool;          (* isConnKept *)
  c_cur : option nat;     (* xaBranchXid: the branch (by op index) it names; None = nil *)
  c_pt : ptime
}.
Definition cst0 : cst := {| c_active := false; c_kept := false; c_cur := None; c_pt := PZero |}.

Record st := {
  s_brs : list br;
  s_nreg : nat; s_nconn : nat; s_nop : nat;
  s_cnt : cmd -> nat;
  s_jour : list ev;     (* newest first *)
  s_out : list ores;    (* newest first *)
  s_conns : list (nat * cst);   (* newest binding first *)
  s_opconn : list (nat * nat);  (* op index -> connection its statement ran on *)
  s_gone : list nat;            (* connections database/sql no longer has in its pool *)
  s_closed : list nat           (* sessions that are closed (driver Close of a connection that is not held, or dropped) *)
}.

Definition init : st :=
  {| s_brs := []; s_nreg := 0; s_nconn := 1 (* #0 is the version probe of sql.Open *); s_nop := 0;
     s_cnt := fun _ => 0%nat; s_jour := []; s_out := []; s_conns := []; s_opconn := []; s_gone := []; s_closed := [] |}.

Definition add_ev (s : st) (e : ev) : st :=
  {| s_brs := s_brs s; s_nreg := s_nreg s; s_nconn := s_nconn s; s_nop := s_nop s; s_cnt := s_cnt s;
     s_jour := e :: s_jour s; s_out := s_out s; s_conns := s_conns s; s_opconn := s_opconn s; s_gone := s_gone s; s_closed := s_closed s |}.
Definition set_brs (s : st) (l : list br) : st :=
  {| s_brs := l; s_nreg := s_nreg s; s_nconn := s_nconn s; s_nop := s_nop s; s_cnt := s_cnt s;
     s_jour := s_jour s; s_out := s_out s; s_conns := s_conns s; s_opconn := s_opconn s; s_gone := s_gone s; s_closed := s_closed s |}.
Definition bump_conn (s : st) : st :=
  {| s_brs := s_brs s; s_nreg := s_nreg s; s_nconn := S (s_nconn s); s_nop := s_nop s; s_cnt := s_cnt s;
     s_jour := s_jour s; s_out := s_out s; s_conns := s_conns s; s_opconn := s_opconn s; s_gone := s_gone s; s_closed := s_closed s |}.
Definition bump_reg (s : st) : st :=
  {| s_brs := s_brs s; s_nreg := S (s_nreg s); s_nconn := s_nconn s; s_nop := s_nop s; s_cnt := s_cnt s;
     s_jour := s_jour s; s_out := s_out s; s_conns := s_conns s; s_opconn := s_opconn s; s_gone := s_gone s; s_closed := s_closed s |}.
Definition set_conn (s : st) (c : nat) (x : cst) : st :=
  {| s_brs := s_brs s; s_nreg := s_nreg s; s_nconn := s_nconn s; s_nop := s_nop s; s_cnt := s_cnt s;
     s_jour := s_jour s; s_out := s_out s; s_conns := (c, x) :: s_conns s; s_opconn := s_opconn s; s_gone := s_gone s; s_closed := s_closed s |}.
Definition set_opconn (s : st) (c : nat) : st :=
  {| s_brs := s_brs s; s_nreg := s_nreg s; s_nconn := s_nconn s; s_nop := s_nop s; s_cnt := s_cnt s;
     s_jour := s_jour s; s_out := s_out s; s_conns := s_conns s; s_opconn := (s_nop s, c) :: s_opconn s; s_gone := s_gone s; s_closed := s_closed s |}.
(* the op is over: record its outcome *)
Definition finish (s : st) (o : ores) : st :=
  {| s_brs := s_brs s; s_nreg := s_nreg s; s_nconn := s_nconn s; s_nop := S (s_nop s); s_cnt := s_cnt s;
     s_jour := s_jour s; s_out := o :: s_out s; s_conns := s_conns s; s_opconn := s_opconn s; s_gone := s_gone s; s_closed := s_closed s |}.

Fixpoint lookup {A} (k : nat) (l : list (nat * A)) : option A :=
  match l with
  | [] => None
  | (k', v) :: l' => if Nat.eqb k' k then Some v else lookup k l'
  end.
Definition get_cst (s : st) (c : nat) : cst :=
  match lookup c (s_conns s) with Some x => x | None => cst0 end.

(* one command at the server: made to fail (no state change) or the state diagram *)
Definition iss (detach f : bool) (d : dbst) (own busy : bool) (c : cmd) : res * dbst :=
  if f then (RFault, d) else srv_step detach d own busy c.

(* XA END, possibly of a rollback-only branch *)
Definition iss_end (detach f rb : bool) (d : dbst) : res * dbst :=
  if rb then match d with Some (Active, true) => (RRb, Some (Idle, true)) | _ => (RFault, d) end
  else iss detach f d true false END_.

Fixpoint count_cmd (c : cmd) (t : list (cmd * res)) : nat :=
  match t with
  | [] => 0%nat
  | (c', _) :: t' => if cmd_eqb c' c then S (count_cmd c t') else count_cmd c t'
  end.

(* the commands of trace t reached the server on connection conn naming id *)
Definition emit (s : st) (conn : nat) (id : bytes) (t : list (cmd * res)) : st :=
  {| s_brs := s_brs s; s_nreg := s_nreg s; s_nconn := s_nconn s; s_nop := s_nop s;
     s_cnt := fun c => (s_cnt s c + count_cmd c t)%nat;
     s_jour := List.rev (map (fun cr => ESql conn (fst cr) id (snd cr)) t) ++ s_jour s; s_out := s_out s;
     s_conns := s_conns s; s_opconn := s_opconn s; s_gone := s_gone s; s_closed := s_closed s |}.

Definition close_conn (s : st) (c : nat) : st :=
  {| s_brs := s_brs s; s_nreg := s_nreg s; s_nconn := s_nconn s; s_nop := s_nop s; s_cnt := s_cnt s;
     s_jour := s_jour s; s_out := s_out s; s_conns := s_conns s; s_opconn := s_opconn s; s_gone := s_gone s;
     s_closed := c :: s_closed s |}.

Definition mk_br (o : nat) (xid : bytes) (b : N) (conn : nat) (d : dbst) (kept sfail : bool) : br :=
  {| r_op := o; r_xid := xid; r_b := b; r_conn := conn; r_db := d; r_kept := kept; r_fin := false; r_sfail := sfail |}.

(* XAConn.ExecContext in a global transaction on an autocommit connection whose xaActive is
   false, after the accepted registration: BeginTx (keepIfNecessary, XA START), the statement, then
   Commit (XA END; checkTimeout: XA ROLLBACK and, through commitErrorHandle, XA ROLLBACK again;
   XA PREPARE; commitFailure: [XA END(fail)] XA ROLLBACK) or Rollback (XA END(fail), XA ROLLBACK).
   busy: the session still carries another branch; slow: the statement outlasted the branch
   timeout; fS fM fE fE2 fP fR fR2: is the next START / STMT / END / second END / PREPARE /
   ROLLBACK / second ROLLBACK made to fail; rE: the first XA END meets a rollback-only branch.
   Result: commands with results, server state of the branch, connection still held, outcome,
   xaActive afterwards. *)
Definition auto_local (detach busy slow fS fM fE rE fE2 rE2 fP fR fR2 : bool)
  : list (cmd * res) * dbst * bool * ores * bool :=
  let '(r1, d1) := iss detach fS None true busy START in
  if negb (res_ok r1) then ([(START, r1)], d1, true, OErr, false)
  else
    let '(r2, d2) := iss detach fM d1 true false STMT in
    if negb (res_ok r2) then
      let '(r3, d3) := iss_end detach fE rE d2 in
      if negb (res_ok r3) then ([(START, r1); (STMT, r2); (END_, r3)], d3, true, OErr, true)
      else
        let '(r4, d4) := iss detach fR d3 true false ROLLBACK in
        ([(START, r1); (STMT, r2); (END_, r3); (ROLLBACK, r4)], d4, false, OErr, false)
    else
      let '(r3, d3) := iss_end detach fE rE d2 in
      if negb (res_ok r3) then
        let '(r4, d4) := iss_end detach fE2 rE2 d3 in
        let '(r5, d5) := iss detach fR d4 true false ROLLBACK in
        ([(START, r1); (STMT, r2); (END_, r3); (END_, r4); (ROLLBACK, r5)], d5, false, OErr, false)
      else if slow then
        (* checkTimeout rolls back itself and reports; commitErrorHandle rolls back again and its
           result is what Commit returns *)
        let '(r4, d4) := iss detach fR d3 true false ROLLBACK in
        let '(r5, d5) := iss detach fR2 d4 true false ROLLBACK in
        ([(START, r1); (STMT, r2); (END_, r3); (ROLLBACK, r4); (ROLLBACK, r5)], d5, false,
         if res_ok r5 then OOk else OErr, false)
      else
        let '(r4, d4) := iss detach fP d3 true false PREPARE in
        if negb (res_ok r4) then
          let '(r5, d5) := iss detach fR d4 true false ROLLBACK in
          ([(START, r1); (STMT, r2); (END_, r3); (PREPARE, r4); (ROLLBACK, r5)], d5, false, OErr, false)
        else ([(START, r1); (STMT, r2); (END_, r3); (PREPARE, r4)], d4, true, OOk, true).

Definition attached (d : dbst) : bool := match d with Some (_, true) => true | _ => false end.
(* the session of connection c is bound to a branch other than op #o's *)
Definition busy_on (l : list br) (c o : nat) : bool :=
  existsb (fun r => Nat.eqb (r_conn r) c && negb (Nat.eqb (r_op r) o) && attached (r_db r)) l.

Definition start_ok (t : list (cmd * res)) : bool :=
  match t with (START, ROk) :: _ => true | _ => false end.

(* which command's error Commit / Rollback / BeginTx hand to the caller (command kind, offset
   among this branch's commands of that kind); None: an error value made by the proxy or the server *)
Definition src (c : cmd) (off : nat) (r : res) : option (cmd * nat) :=
  match r with RFault => Some (c, off) | _ => None end.
Definition err_src (t : list (cmd * res)) : option (cmd * nat) :=
  match t with
  | [(START, r)] => src START 0 r
  | (START, _) :: (STMT, r2) :: rest =>
      if negb (res_ok r2) then src STMT 0 r2
      else match rest with
           | [(END_, r3); (END_, _); (ROLLBACK, r5)] => if res_ok r5 then src END_ 0 r3 else src ROLLBACK 0 r5
           | [(END_, _); (ROLLBACK, _); (ROLLBACK, r5)] => src ROLLBACK 1 r5
           | [(END_, _); (PREPARE, r4); (ROLLBACK, r5)] => if res_ok r5 then src PREPARE 0 r4 else src ROLLBACK 0 r5
           | _ => None
           end
  | _ => None
  end.

Definition kill_conn (c : nat) (l : list br) : list br :=
  map (fun r => if Nat.eqb (r_conn r) c
                then {| r_op := r_op r; r_xid := r_xid r; r_b := r_b r; r_conn := r_conn r;
                        r_db := srv_kill (r_db r); r_kept := r_kept r; r_fin := r_fin r; r_sfail := r_sfail r |}
                else r) l.

(* database/sql drops connection c from its pool and calls the driver's Close: XAConn.Close keeps
   the physical connection of a HELD XAConn open (phase two will need it), otherwise cleans the
   branch context and closes the session (the server rolls back an ACTIVE / IDLE branch, a
   PREPARED one survives detached) *)
Definition retire_conn (s : st) (c : nat) : st :=
  if existsb (Nat.eqb c) (s_gone s) then s
  else
    let cs := get_cst s c in
    let s1 := {| s_brs := if c_kept cs then s_brs s else kill_conn c (s_brs s);
                 s_nreg := s_nreg s; s_nconn := s_nconn s; s_nop := s_nop s; s_cnt := s_cnt s;
                 s_jour := s_jour s; s_out := s_out s;
                 s_conns := if c_kept cs then s_conns s else (c, cst0) :: s_conns s;
                 s_opconn := s_opconn s; s_gone := c :: s_gone s;
                 s_closed := if c_kept cs then s_closed s else c :: s_closed s |} in
    s1.

Definition do_auto_core (E : env) (s0 : st) (g : nat) (via : option nat) (slow : bool) : st :=
  let reuse := match via with Some t => lookup t (s_opconn s0) | None => None end in
  let reuse := match reuse with Some c => if existsb (Nat.eqb c) (s_gone s0) then None else Some c | None => None end in
  let conn := match reuse with Some c => c | None => s_nconn s0 end in
  let s0' := match reuse with Some _ => s0 | None => bump_conn s0 end in
  let s0' := set_opconn s0' conn in
  let cs := get_cst s0 conn in
  if c_active cs then
    (* BeginTx: "should NEVER happen: ... xa branch is active" — before any registration *)
    finish s0' OErr
  else
  let k := s_nreg s0 in
  let xid := e_xid E g in
  let b := e_bid E k in
  let s := bump_reg s0' in
  if e_refuse E k then
    (* cleanXABranchContext *)
    finish (set_conn (add_ev s (EReg xid false 0)) conn
              {| c_active := false; c_kept := c_kept cs; c_cur := if c_kept cs then c_cur cs else None; c_pt := POld |}) OErr
  else
    let s := add_ev s (EReg xid true b) in
    let f := e_fault E in
    let cnt := s_cnt s in
    let '(t, d, kept, o, act) :=
      auto_local (e_detach E) (busy_on (s_brs s) conn (s_nop s)) slow
                 (f START (cnt START)) (f STMT (cnt STMT)) (f END_ (cnt END_)) (e_frb E (cnt END_)) (f END_ (S (cnt END_))) (e_frb E (S (cnt END_)))
                 (f PREPARE (cnt PREPARE)) (f ROLLBACK (cnt ROLLBACK)) (f ROLLBACK (S (cnt ROLLBACK))) in
    let bad := match o, err_src t with
               | OErr, Some (c, off) => e_fbad E c (cnt c + off)
               | _, _ => false
               end in
    let s := emit s conn (xa_id xid b) t in
    let pt := match o with OOk => if act then PPrep else POld | _ => if act then PZero else POld end in
    let s := set_conn s conn {| c_active := act; c_kept := kept; c_cur := if kept then Some (s_nop s) else None; c_pt := pt |} in
    finish (set_brs s (mk_br (s_nop s) xid b conn d kept (negb (start_ok t)) :: s_brs s)) (if bad then OErrBad else o).

(* an error that is driver.ErrBadConn makes database/sql drop the connection *)
Definition post_bad (s : st) : st :=
  match s_out s, s_opconn s with
  | OErrBad :: _, (_, c) :: _ => retire_conn s c
  | _, _ => s
  end.

Definition do_auto (E : env) (s0 : st) (g : nat) (via : option nat) (slow : bool) : st :=
  post_bad (do_auto_core E s0 g via slow).

Definition do_local (E : env) (s0 : st) : st :=
  let conn := s_nconn s0 in
  let s := set_opconn (bump_conn s0) conn in
  let r := if e_fault E STMT (s_cnt s STMT) then RFault else ROk in
  post_bad (finish (emit s conn [] [(STMT, r)])
                   (if res_ok r then OOk else if e_fbad E STMT (s_cnt s STMT) then OErrBad else OErr)).

Fixpoint find_br (t : nat) (l : list br) : option br :=
  match l with
  | [] => None
  | r :: l' => if Nat.eqb (r_op r) t then Some r else find_br t l'
  end.

Definition upd_br (f : br -> br) (o : nat) (l : list br) : list br :=
  map (fun r => if Nat.eqb (r_op r) o then f r else r) l.
Definition set_db_kept (d : dbst) (kept fin : bool) (r : br) : br :=
  {| r_op := r_op r; r_xid := r_xid r; r_b := r_b r; r_conn := r_conn r;
     r_db := d; r_kept := kept; r_fin := fin; r_sfail := r_sfail r |}.
Definition unkeep (r : br) : br := set_db_kept (r_db r) false (r_fin r) r.
(* phase two at the server for one branch: the command arrives on the connection the keeper
   names (own = it is the one that started the branch) or on a new one *)
Definition p2_local (detach f : bool) (d : dbst) (kept busy commit : bool) : (cmd * res) * dbst :=
  let c := if commit then COMMIT else ROLLBACK in
  let rd := iss detach f d kept busy c in
  ((c, fst rd), snd rd).

(* XAResourceManager.BranchCommit / BranchRollback for (r_xid, r_b) of op #t; delivered to a
   PREPARED branch, or (rollback) to a registered branch whose XA START failed; the identifier is
   rebuilt from the request: xaIDBuilder(xid, branch id); ConnectionForXA: the keeper's
   connection or a new one; afterwards THAT connection's releaseIfNecessary (which releases the
   keeper entry of the identifier the connection currently carries) *)
Definition do_p2 (E : env) (s : st) (t : nat) (commit stranger : bool) : st :=
  match find_br t (s_brs s) with
  | None => finish s OSkipped
  | Some r =>
    if (is_prepared (r_db r) || (negb commit && r_sfail r)) && negb (r_fin r) then
      let id := xa_id (r_xid r) (r_b r) in
      let c := if commit then COMMIT else ROLLBACK in
      let strg := stranger && is_prepared (r_db r) in
      (* stranger: the phase-one process is gone: session dropped, nobody holds the connection *)
      let s := if strg then
                 (if existsb (Nat.eqb (r_conn r)) (s_closed s)
                  then set_brs s (upd_br unkeep t (kill_conn (r_conn r) (s_brs s)))   (* the session is closed already *)
                  else close_conn (set_brs (add_ev s (EKill (r_conn r))) (upd_br unkeep t (kill_conn (r_conn r) (s_brs s)))) (r_conn r))
               else s in
      let d := if strg then srv_kill (r_db r) else r_db r in
      let kept := if strg then false else r_kept r in
      let conn := if kept then r_conn r else s_nconn s in
      let busy := busy_on (s_brs s) conn t in
      let '(cr, d1) := p2_local (e_detach E) (e_fault E c (s_cnt s c)) d kept busy commit in
      (* the keeper's connection may have been closed meanwhile: the driver answers ErrBadConn, nothing reaches the server *)
      let dead := kept && existsb (Nat.eqb conn) (s_closed s) in
      let d' := if dead then d else d1 in
      let s := if kept then s else bump_conn s in
      let s := emit s conn id (if dead then [] else [cr]) in
      (* releaseIfNecessary of the serving XAConn *)
      let cs := get_cst s conn in
      let rel := if kept && c_kept cs then c_cur cs else None in
      let s := if kept && c_kept cs
               then set_conn s conn {| c_active := c_active cs; c_kept := false; c_cur := c_cur cs; c_pt := c_pt cs |} else s in
      let l := upd_br (fun x => set_db_kept d' (r_kept x) true x) t (s_brs s) in
      let l := match rel with Some o => upd_br unkeep o l | None => l end in
      finish (set_brs s l) (OP2 (if dead then false else res_ok (snd cr)))
    else finish s OSkipped
  end.

(* XAConn.CloseForce: close the session, clean the branch context, release the keeper entry of
   the identifier the connection carries *)
Definition force_one (s : st) (c : nat) : st :=
  let cs := get_cst s c in
  let l := kill_conn c (s_brs s) in
  let l := match (if c_kept cs then c_cur cs else None) with Some o => upd_br unkeep o l | None => l end in
  {| s_brs := l; s_nreg := s_nreg s; s_nconn := s_nconn s; s_nop := s_nop s; s_cnt := s_cnt s;
     s_jour := s_jour s; s_out := s_out s;
     s_conns := (c, {| c_active := false; c_kept := false; c_cur := c_cur cs; c_pt := POld |}) :: s_conns s;
     s_opconn := s_opconn s; s_gone := s_gone s; s_closed := c :: s_closed s |}.

(* the checker visits the keeper: a connection some entry names is closed when its prepare time
   is over: prepared longer than the hold time, or pushed into the past by a cleaned context;
   a connection still in phase one (zero prepare time) is left alone *)
Definition due (s : st) (expired : bool) (c : nat) : bool :=
  existsb (fun r => r_kept r && Nat.eqb (r_conn r) c) (s_brs s) &&
  match c_pt (get_cst s c) with POld => true | PPrep => expired | PZero => false end.

Definition do_check (E : env) (s : st) (expired : bool) : st :=
  if e_detach E then   (* only for servers that finish a prepared branch from another session *)
    let cs := filter (due s expired) (seq 0 (s_nconn s)) in
    let now := filter (fun c => negb (existsb (Nat.eqb c) (s_closed s))) cs in
    finish (fold_left force_one cs s) (OChk now)
  else finish s (OChk []).

Definition step (E : env) (s : st) (o : op) : st :=
  match o with
  | OAuto g via slow => do_auto E s g via slow
  | OLocal => do_local E s
  | OPhase2 t c x => do_p2 E s t c x
  | ORetry g slow => match s_out s with
                     | OErrBad :: _ => do_auto E s g None slow
                     | _ => finish s OSkipped
                     end
  | ORetire t => match lookup t (s_opconn s) with
                 | Some c => if existsb (Nat.eqb c) (s_gone s) then finish s OSkipped
                             else finish (retire_conn s c) OOk
                 | None => finish s OSkipped
                 end
  | ORelease t => match find_br t (s_brs s) with
                  | Some r => if is_prepared (r_db r) && negb (r_fin r)
                              then finish (set_brs s (upd_br unkeep t (s_brs s))) OSkipped
                              else finish s OSkipped
                  | None => finish s OSkipped
                  end
  | OCheck e => do_check E s e
  | ONop => finish s OSkipped
  end.

Definition run (E : env) (p : list op) : st := fold_left (step E) p init.

Definition journal (E : env) (p : list op) : list ev := List.rev (s_jour (run E p)).
Definition outcomes (E : env) (p : list op) : list ores := List.rev (s_out (run E p)).

(* ---------------------------------------------------------------- the property's language (specification side) *)

(* commands (with their results) that named identifier id, in journal order *)
Fixpoint cmds_of (id : bytes) (j : list ev) : list (cmd * res) :=
  match j with
  | [] => []
  | ESql _ c id' r :: j' => if bytes_eqb id' id then (c, r) :: cmds_of id j' else cmds_of id j'
  | _ :: j' => cmds_of id j'
  end.

Inductive sst := S0 | SA | SI | SP | SC | SR.

(* START stmt* END PREPARE (COMMIT | ROLLBACK), or a failure prefix START stmt* END ROLLBACK *)
Definition sstep (s : sst) (c : cmd) : option sst :=
  match s, c with
  | S0, START => Some SA
  | SA, STMT => Some SA
  | SA, END_ => Some SI
  | SI, PREPARE => Some SP
  | SI, ROLLBACK => Some SR
  | SP, COMMIT => Some SC
  | SP, ROLLBACK => Some SR
  | _, _ => None
  end.

(* strict: every command ISSUED for the identifier is legal where it is issued
   (a command made to fail leaves the state); anything the server rejects is illegal *)
Fixpoint legal_from (s : sst) (t : list (cmd * res)) : option sst :=
  match t with
  | [] => Some s
  | (c, r) :: t' =>
    match sstep s c, r with
    | Some s', ROk | Some s', RRb => legal_from s' t'
    | Some _, RFault => legal_from s t'
    | None, RNota | None, RFault | None, RRmfail =>
        (* nothing to roll back: XA ROLLBACK of a branch that never started or is already
           rolled back, answered XAER_NOTA (or made to fail), changes nothing (reading in docs/C17.md) *)
        (* likewise an XA END repeated on an already IDLE branch: refused, no effect *)
        match c, s with
        | ROLLBACK, S0 | ROLLBACK, SR | END_, SI => legal_from s t'
        | _, _ => None
        end
    | _, _ => None
    end
  end.
Definition legal_trace (t : list (cmd * res)) : bool :=
  match legal_from S0 t with Some _ => true | None => false end.

(* accepted: the commands the server ACCEPTED form a word of the language's prefix closure *)
(* results with which the server moved the branch on *)
Definition acc (c : cmd) (r : res) : bool :=
  match r, c with ROk, _ => true | RRb, END_ => true | _, _ => false end.
Fixpoint accepted_from (s : sst) (t : list (cmd * res)) : option sst :=
  match t with
  | [] => Some s
  | (c, r) :: t' =>
      if acc c r then match sstep s c with Some s' => accepted_from s' t' | None => None end
      else accepted_from s t'
  end.
Definition accepted_legal (t : list (cmd * res)) : bool :=
  match accepted_from S0 t with Some _ => true | None => false end.

(* registration first: an XA START names xa_id of the registration accepted just
   before it (and consumes it); a refused registration leaves nothing pending.
   None = violated; Some p = fine so far, p the pending registration *)
Fixpoint reg_scan (pending : option (bytes * N)) (j : list ev) : option (option (bytes * N)) :=
  match j with
  | [] => Some pending
  | EReg x true b :: j' => reg_scan (Some (x, b)) j'
  | EReg _ false _ :: j' => reg_scan None j'
  | ESql _ START id _ :: j' =>
      match pending with
      | Some (x, b) => if bytes_eqb id (xa_id x b) then reg_scan None j' else None
      | None => None
      end
  | _ :: j' => reg_scan pending j'
  end.
Definition reg_first (j : list ev) : bool :=
  match reg_scan None j with Some _ => true | None => false end.

(* well-formedness of an environment *)
Definition uniq_bid (E : env) : Prop := forall i j, e_bid E i = e_bid E j -> i = j.
(* XA END(success) and the XA END(fail) that follows it are not BOTH made to fail *)
Definition no_double_end (E : env) : Prop := forall n, e_fault E END_ n = true -> e_fault E END_ (S n) = false.
