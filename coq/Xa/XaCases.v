(* C17 — correspondence cases: what the real XA proxy did (journal, outcomes,
   identifier functions) against the model, evaluated with vm_compute by the driver. *)
From Coq Require Import String List NArith Bool.
From Coq.Strings Require Import Byte.
From SeataV Require Import Base.Bytes Xa.XaModel.
Import ListNotations.
Open Scope N_scope.

Record xcase := {
  c_detach : bool;
  c_xids : list bytes;
  c_bids : list N;
  c_refuse : list bool;
  c_faults : list (cmd * nat);
  c_fbad : list (cmd * nat);     (* the faults whose error is driver.ErrBadConn *)
  c_frb : list nat;              (* XA END occurrences that meet a rollback-only branch *)
  c_prog : list op;
  c_jour : list ev;      (* observed *)
  c_out : list ores      (* observed *)
}.

Definition env_of (c : xcase) : env :=
  {| e_detach := c_detach c;
     e_xid := fun g => nth g (c_xids c) [];
     e_bid := fun k => nth k (c_bids c) 0;
     e_refuse := fun k => nth k (c_refuse c) false;
     e_fault := fun k n => existsb (fun f => cmd_eqb k (fst f) && Nat.eqb n (snd f)) (c_faults c);
     e_fbad := fun k n => existsb (fun f => cmd_eqb k (fst f) && Nat.eqb n (snd f)) (c_fbad c);
     e_frb := fun n => existsb (Nat.eqb n) (c_frb c) |}.

Definition res_eqb (a b : res) : bool :=
  match a, b with
  | ROk, ROk | RFault, RFault | RRmfail, RRmfail | RNota, RNota | RDupid, RDupid | RRb, RRb => true
  | _, _ => false
  end.

Definition ev_eqb (a b : ev) : bool :=
  match a, b with
  | EReg x o n, EReg x' o' n' => bytes_eqb x x' && Bool.eqb o o' && N.eqb n n'
  | ESql c k i r, ESql c' k' i' r' => Nat.eqb c c' && cmd_eqb k k' && bytes_eqb i i' && res_eqb r r'
  | EKill c, EKill c' => Nat.eqb c c'
  | _, _ => false
  end.

Definition ores_eqb (a b : ores) : bool :=
  match a, b with
  | OSkipped, OSkipped | OOk, OOk | OErr, OErr | OErrBad, OErrBad => true
  | OP2 x, OP2 y => Bool.eqb x y
  | OChk x, OChk y => (fix leq (a b : list nat) := match a, b with [], [] => true | u :: a', v :: b' => Nat.eqb u v && leq a' b' | _, _ => false end) x y
  | _, _ => false
  end.

Fixpoint list_eqb {A} (f : A -> A -> bool) (a b : list A) : bool :=
  match a, b with
  | [], [] => true
  | x :: a', y :: b' => f x y && list_eqb f a' b'
  | _, _ => false
  end.

(* codes: 1 journal differs from the model's; 2 outcomes differ; 3 the observed journal is not
   registration-first; 4 some identifier's commands are not a legal sequence (strict) *)
Definition ids_of (j : list ev) : list bytes :=
  flat_map (fun e => match e with ESql _ _ (x :: i) _ => [x :: i] | _ => [] end) j.

Definition check_case (c : xcase) : list N :=
  let E := env_of c in
  (if list_eqb ev_eqb (journal E (c_prog c)) (c_jour c) then [] else [1]) ++
  (if list_eqb ores_eqb (outcomes E (c_prog c)) (c_out c) then [] else [2]) ++
  (if reg_first (c_jour c) then [] else [3]) ++
  (if forallb (fun id => accepted_legal (cmds_of id (c_jour c))) (ids_of (c_jour c)) then [] else [4]).

Fixpoint mism_from (i : nat) (l : list xcase) : list (nat * N) :=
  match l with
  | [] => []
  | c :: l' => map (fun e => (i, e)) (check_case c) ++ mism_from (S i) l'
  end.
Definition mismatches (l : list xcase) : list (nat * N) := mism_from 0 l.

(* identifier functions: XaIdBuild(xid, b).String(), its gtrid / bqual, and
   XaIdBuildWithByte(gtrid, bqual) *)
Record icase := {
  i_xid : bytes; i_b : N;
  i_str : bytes; i_gtrid : bytes; i_bqual : bytes;
  i_dec_xid : bytes; i_dec_b : N
}.

Definition check_icase (c : icase) : list N :=
  (if bytes_eqb (xa_id (i_xid c) (i_b c)) (i_str c) then [] else [11]) ++
  (if bytes_eqb (enc_gtrid (i_xid c)) (i_gtrid c) && bytes_eqb (enc_bqual (i_b c)) (i_bqual c) then [] else [12]) ++
  (if bytes_eqb (dec_xid (i_gtrid c)) (i_dec_xid c) && N.eqb (dec_branch (i_bqual c)) (i_dec_b c) then [] else [13]).

Fixpoint imism_from (i : nat) (l : list icase) : list (nat * N) :=
  match l with
  | [] => []
  | c :: l' => map (fun e => (i, e)) (check_icase c) ++ imism_from (S i) l'
  end.
Definition ident_mismatches (l : list icase) : list (nat * N) := imism_from 0 l.
