(* C17 — proofs about Xa/XaModel.v *)
From Coq Require Import String List NArith Bool Lia Decimal DecimalString DecimalN.
From Coq.Strings Require Import Byte.
From SeataV Require Import Base.Bytes Xa.XaModel.
Import ListNotations.
Open Scope N_scope.

(* ================================================================ identifier *)

Lemma uint_nodash d : ~ In dash (list_byte_of_string (NilEmpty.string_of_uint d)).
Proof.
  induction d; cbn; intros H; try (destruct H as [H|H]; [discriminate H | auto]); auto.
Qed.

Lemma dec_nodash n : ~ In dash (dec n).
Proof. apply uint_nodash. Qed.

Lemma dec_inj a b : dec a = dec b -> a = b.
Proof.
  unfold dec. intro H.
  apply (f_equal string_of_list_byte) in H. rewrite !string_of_list_byte_of_string in H.
  apply (f_equal NilEmpty.uint_of_string) in H. rewrite !NilEmpty.usu in H.
  injection H as H. apply (f_equal N.of_uint) in H. now rewrite !DecimalN.Unsigned.of_to in H.
Qed.

Lemma split_at_last (a : byte) l1 : forall r1 l2 r2,
  ~ In a r1 -> ~ In a r2 -> l1 ++ a :: r1 = l2 ++ a :: r2 -> l1 = l2 /\ r1 = r2.
Proof.
  induction l1 as [|x l1 IH]; intros r1 [|y l2] r2 H1 H2 E; cbn in E.
  - injection E as E. auto.
  - injection E as Ex Er. exfalso. apply H1. rewrite Er. apply in_or_app. right. now left.
  - injection E as Ex Er. exfalso. apply H2. rewrite <- Er. apply in_or_app. right. now left.
  - injection E as Ex Er. destruct (IH _ _ _ H1 H2 Er) as [-> ->]. now subst.
Qed.

Lemma xa_id_inj x1 b1 x2 b2 : xa_id x1 b1 = xa_id x2 b2 -> x1 = x2 /\ b1 = b2.
Proof.
  unfold xa_id. intro H.
  destruct (split_at_last dash _ _ _ _ (dec_nodash b1) (dec_nodash b2) H) as [Hx Hd].
  split; [assumption | now apply dec_inj].
Qed.

Lemma xa_id_nonempty x b : xa_id x b <> [].
Proof. unfold xa_id. destruct x; discriminate. Qed.

Lemma trim_left_notin c s : ~ In c s -> trim_left c s = s.
Proof.
  destruct s as [|x r]; cbn; [reflexivity|]. intro H.
  destruct (byte_eqb x c) eqn:E; [|reflexivity].
  apply byte_eqb_eq in E. subst. exfalso. apply H. now left.
Qed.

Lemma parse_dec b : b <= max_u64 -> parse_u64 (dec b) = b.
Proof.
  intro H. unfold parse_u64, dec.
  rewrite string_of_list_byte_of_string, NilEmpty.usu. cbn zeta.
  rewrite DecimalN.Unsigned.of_to.
  destruct (b <=? max_u64) eqn:E; [reflexivity|]. apply N.leb_gt in E. lia.
Qed.

Lemma ident_roundtrip x b : b <= max_u64 ->
  dec_xid (enc_gtrid x) = x /\ dec_branch (enc_bqual b) = b.
Proof.
  intro H. split; [reflexivity|].
  unfold enc_bqual. destruct (b =? 0) eqn:E.
  - apply N.eqb_eq in E. now subst.
  - unfold dec_branch. cbn [trim_left]. replace (byte_eqb dash dash) with true by reflexivity.
    rewrite trim_left_notin by apply dec_nodash. now apply parse_dec.
Qed.

(* ================================================================ one branch: finite case analyses *)

(* the server state agrees with the position in the property's language; a branch the
   server no longer knows (None) is compatible with every position: finished, never started,
   or dropped together with its session *)
Definition agree (s : sst) (d : dbst) : Prop :=
  match d with
  | Some (Active, true) => s = SA
  | Some (Idle, true) => s = SI
  | Some (Prepared, _) => s = SP
  | Some (_, false) => False
  | None => True
  end.

Ltac bools := repeat match goal with b : bool |- _ => destruct b end.

(* strict legality of everything one autocommit branch issues, on a free session *)
Lemma auto_local_legal detach slow fS fM fE rE fE2 rE2 fP fR fR2 :
  (rE = false -> fE = true -> fE2 = false \/ rE2 = true) ->
  let '(t, d, kept, o, act) := auto_local detach false slow fS fM fE rE fE2 rE2 fP fR fR2 in
  exists s, legal_from S0 t = Some s /\ agree s d /\ (is_prepared d = true -> kept = true).
Proof.
  intro H. bools; cbn; try (eexists; (split; [reflexivity|]); cbn; auto; fail);
    exfalso; destruct (H eq_refl eq_refl); discriminate.
Qed.

Lemma auto_local_accepted detach busy slow fS fM fE rE fE2 rE2 fP fR fR2 :
  let '(t, d, kept, o, act) := auto_local detach busy slow fS fM fE rE fE2 rE2 fP fR fR2 in
  exists s, accepted_from S0 t = Some s /\ agree s d.
Proof. bools; cbn; eexists; (split; [reflexivity|]); cbn; auto. Qed.

(* C17_failure on one branch: every fault combination, both server families, free or busy session *)
Lemma auto_local_failure detach busy slow fS fM fE rE fE2 rE2 fP fR fR2 :
  let '(t, d, kept, o, act) := auto_local detach busy slow fS fM fE rE fE2 rE2 fP fR fR2 in
  (o = OOk \/ o = OErr) /\
  ~ In (COMMIT, ROk) t /\
  (* truthful outcome (the timeout's own rollback not made to fail): success exactly when the branch is
     prepared, after START stmt END PREPARE all accepted *)
  ((slow = true -> fR = false) ->
     (o = OOk <-> is_prepared d = true) /\
     (o = OOk -> t = [(START, ROk); (STMT, ROk); (END_, ROk); (PREPARE, ROk)])) /\
  (* any failure before a successful PREPARE (a busy session and a timeout included): an error is returned *)
  ((slow = true -> fR = false) -> (busy || slow || fS || fM || fE || rE || fP) = true -> o = OErr) /\
  (* and, unless a compensating command is made to fail too, the branch is rolled back or never started;
     a rollback-only branch at XA END (rE) is a failure like any other: it IS rolled back *)
  ((busy || slow || fS || fM || fE || rE || fP) = true -> fR = false -> (rE = false -> fE = true -> fE2 = false \/ rE2 = true) ->
   (fM = true -> fE = false /\ rE = false) ->
     d = None /\ (fS = true \/ busy = true \/ In (ROLLBACK, ROk) t)).
Proof.
  bools; cbn; repeat split; auto; try discriminate; try (intros; discriminate);
    try (intros [H|H]; discriminate H); intros;
    repeat match goal with H : ?a = ?a -> _ |- _ => specialize (H eq_refl) end;
    try discriminate; intuition (try discriminate; auto 10).
Qed.

(* the branch-timeout path: a timed-out branch returns an error to the caller and is rolled back *)
Lemma auto_local_timeout detach fE2 rE2 fP fR2 :
  let '(t, d, kept, o, act) := auto_local detach false true false false false false fE2 rE2 fP false fR2 in
  o = OErr /\ d = None /\ kept = false /\ act = false /\
  exists r, t = [(START, ROk); (STMT, ROk); (END_, ROk); (ROLLBACK, ROk); (ROLLBACK, r)] /\ r <> ROk.
Proof. bools; cbn; repeat split; auto; eexists; split; try reflexivity; discriminate. Qed.

(* ... and the listed finding xa.timeout.rollback-fault: when the timeout's own XA ROLLBACK is made
   to fail, success is reported for a branch that the second XA ROLLBACK rolled back *)
Lemma auto_local_timeout_refuted :
  exists detach fE2 fP,
    let '(t, d, kept, o, act) := auto_local detach false true false false false false fE2 false fP true false in
    o = OOk /\ is_prepared d = false /\ In (ROLLBACK, ROk) t.
Proof. exists false, false, false. cbn. repeat split; auto 10. Qed.

Lemma auto_local_sfail detach busy slow fS fM fE rE fE2 rE2 fP fR fR2 :
  let '(t, d, kept, o, act) := auto_local detach busy slow fS fM fE rE fE2 rE2 fP fR fR2 in
  start_ok t = false -> d = None /\ o = OErr.
Proof. bools; cbn; auto; discriminate. Qed.

(* phase two, any server state: the accepted commands stay in the language *)
Lemma p2_local_accepted detach f d kept busy commit s :
  agree s d ->
  let '(cr, d') := p2_local detach f d kept busy commit in
  exists s', accepted_from s [cr] = Some s' /\ agree s' d'.
Proof.
  intros A. destruct d as [[[] []]|]; cbn in A; try contradiction; subst;
    destruct f, kept, busy, commit; cbn; eexists; (split; [reflexivity|]); cbn; auto.
Qed.

(* phase two for a PREPARED branch on the connection the keeper names (or, detached, on a free
   one), and a rollback request for a branch that never started: strictly legal, the identifier
   is the request's *)
Lemma p2_local_legal detach f d kept busy commit s :
  agree s d ->
  (is_prepared d = true /\ (attached d = true -> kept = true) /\ (attached d = false -> busy = false))
  \/ (d = None /\ s = S0 /\ commit = false) ->
  let '(cr, d') := p2_local detach f d kept busy commit in
  exists s', legal_from s [cr] = Some s' /\ agree s' d'.
Proof.
  intros A [(P & K & B)|(-> & -> & ->)].
  - destruct d as [[[] a]|]; try discriminate P. cbn in A. subst s. destruct a.
    + rewrite (K eq_refl). destruct f, busy, commit; cbn; eexists; (split; [reflexivity|]); cbn; auto.
    + rewrite (B eq_refl). destruct f, kept, commit; cbn; eexists; (split; [reflexivity|]); cbn; auto.
  - destruct f, kept, busy; cbn; eexists; (split; [reflexivity|]); cbn; auto.
Qed.

Lemma agree_kill s d : agree s d -> agree s (srv_kill d).
Proof. destruct d as [[[] []]|]; cbn; auto. Qed.

(* ================================================================ the journal of a run *)

Definition rid (r : br) : bytes := xa_id (r_xid r) (r_b r).
Definition tr (s : st) (id : bytes) : list (cmd * res) := cmds_of id (List.rev (s_jour s)).

Lemma cmds_of_app id a b : cmds_of id (a ++ b) = cmds_of id a ++ cmds_of id b.
Proof.
  induction a as [|e a IH]; cbn; [reflexivity|].
  destruct e; auto. destruct (bytes_eqb id0 id); cbn; now rewrite IH.
Qed.

Lemma accepted_from_app t1 : forall s t2,
  accepted_from s (t1 ++ t2) = match accepted_from s t1 with Some s' => accepted_from s' t2 | None => None end.
Proof.
  induction t1 as [|[c r] t1 IH]; intros s t2; cbn; [reflexivity|].
  destruct (acc c r); auto. destruct (sstep s c); auto.
Qed.

Lemma cmds_of_emit_same conn id t :
  cmds_of id (map (fun cr => ESql conn (fst cr) id (snd cr)) t) = t.
Proof.
  induction t as [|[c r] t IH]; cbn; [reflexivity|]. now rewrite bytes_eqb_refl, IH.
Qed.

Lemma cmds_of_emit_other conn id id' t : id <> id' ->
  cmds_of id' (map (fun cr => ESql conn (fst cr) id (snd cr)) t) = [].
Proof.
  intro H. induction t as [|[c r] t IH]; cbn; [reflexivity|].
  destruct (bytes_eqb id id') eqn:E; [apply bytes_eqb_eq in E; contradiction|]. exact IH.
Qed.

Lemma cmds_rev_cons id e j : cmds_of id (List.rev (e :: j)) = cmds_of id (List.rev j) ++ cmds_of id [e].
Proof. cbn [List.rev]. apply cmds_of_app. Qed.

Lemma cmds_rev_emit id conn id0 t j :
  cmds_of id (List.rev (List.rev (map (fun cr => ESql conn (fst cr) id0 (snd cr)) t) ++ j))
  = cmds_of id (List.rev j) ++ (if bytes_eqb id0 id then t else []).
Proof.
  rewrite rev_app_distr, rev_involutive, cmds_of_app. f_equal.
  destruct (bytes_eqb id0 id) eqn:X.
  - apply bytes_eqb_eq in X. subst. apply cmds_of_emit_same.
  - apply cmds_of_emit_other. intro Y. subst. now rewrite bytes_eqb_refl in X.
Qed.

Ltac norm :=
  unfold tr in *;
  cbn [s_jour s_brs s_nreg s_nop s_nconn finish set_brs bump_conn bump_reg add_ev emit set_conn set_opconn close_conn] in *;
  rewrite ?cmds_rev_emit, ?cmds_rev_cons; cbn [cmds_of]; rewrite ?app_nil_r.

Lemma neq_eqb a b : a <> b -> bytes_eqb a b = false.
Proof. intro H. destruct (bytes_eqb a b) eqn:X; [apply bytes_eqb_eq in X; contradiction|reflexivity]. Qed.

Definition rec_ok (s : st) (r : br) : Prop :=
  exists q, accepted_from S0 (tr s (rid r)) = Some q /\ agree q (r_db r).

Record Inv (E : env) (s : st) : Prop := {
  i_recs : forall r, In r (s_brs s) -> rec_ok s r;
  i_bids : forall r, In r (s_brs s) -> exists k, (k < s_nreg s)%nat /\ r_b r = e_bid E k;
  i_other : forall id, id <> [] -> (forall r, In r (s_brs s) -> rid r <> id) -> tr s id = [];
  i_ops : forall r, In r (s_brs s) -> (r_op r < s_nop s)%nat;
  i_nodup : NoDup (map r_op (s_brs s));
  i_ids : forall r1 r2, In r1 (s_brs s) -> In r2 (s_brs s) -> rid r1 = rid r2 -> r_op r1 = r_op r2
}.

Lemma inv_init E : Inv E init.
Proof. split; cbn; try tauto; try constructor. Qed.

Lemma find_br_in t l r : find_br t l = Some r -> In r l /\ r_op r = t.
Proof.
  induction l as [|x l IH]; cbn; [discriminate|].
  destruct (Nat.eqb (r_op x) t) eqn:E.
  - intro H; injection H as ->. apply PeanoNat.Nat.eqb_eq in E. auto.
  - intro H. destruct (IH H). auto.
Qed.

Lemma nodup_op_eq l x r : NoDup (map r_op l) -> In x l -> In r l -> r_op x = r_op r -> x = r.
Proof.
  induction l as [|y l IH]; intros ND Hx Hr Eo; [destruct Hx|].
  cbn in ND. inversion ND as [|? ? Hn ND']; subst.
  destruct Hx as [->|Hx], Hr as [->|Hr]; auto.
  - exfalso. apply Hn. rewrite Eo. now apply in_map.
  - exfalso. apply Hn. rewrite <- Eo. now apply in_map.
Qed.

(* what phase two does to the list of branch records: identities stay, the target's server state
   becomes d', any other record keeps its server state or loses its session *)
Definition p2_list (strg : bool) (c t : nat) (d' : dbst) (rel : option nat) (l : list br) : list br :=
  let l1 := if strg then upd_br unkeep t (kill_conn c l) else l in
  let l2 := upd_br (fun x => set_db_kept d' (r_kept x) true x) t l1 in
  match rel with Some o => upd_br unkeep o l2 | None => l2 end.

Lemma p2_list_in strg c t d' rel l x : In x (p2_list strg c t d' rel l) ->
  exists y, In y l /\ r_op x = r_op y /\ r_xid x = r_xid y /\ r_b x = r_b y /\
            ((r_op y = t /\ r_db x = d') \/ (r_op y <> t /\ (r_db x = r_db y \/ r_db x = srv_kill (r_db y)))).
Proof.
  unfold p2_list, upd_br, kill_conn. intro H.
  destruct strg, rel; repeat (apply in_map_iff in H; destruct H as (? & <- & H));
    (eexists; split; [eassumption|]);
    repeat match goal with |- context[Nat.eqb ?a ?b] => destruct (Nat.eqb a b) eqn:?; cbn end;
    repeat match goal with H : Nat.eqb _ _ = true |- _ => apply PeanoNat.Nat.eqb_eq in H
                      | H : Nat.eqb _ _ = false |- _ => apply PeanoNat.Nat.eqb_neq in H end;
    cbn in *; repeat split; auto; try (exfalso; congruence).
Qed.

Lemma p2_list_ops strg c t d' rel l : map r_op (p2_list strg c t d' rel l) = map r_op l.
Proof.
  unfold p2_list, upd_br, kill_conn. destruct strg, rel; rewrite ?map_map; apply map_ext; intro y;
    repeat match goal with |- context[Nat.eqb ?a ?b] => destruct (Nat.eqb a b) eqn:?; cbn end; reflexivity.
Qed.

Lemma p2_list_has strg c t d' rel l y : In y l -> exists x, In x (p2_list strg c t d' rel l) /\ rid x = rid y /\ r_op x = r_op y.
Proof.
  intro H. unfold p2_list, upd_br, kill_conn.
  destruct strg, rel; eexists; (split; [repeat (apply in_map; try eassumption); eassumption|]);
    repeat match goal with |- context[Nat.eqb ?a ?b] => destruct (Nat.eqb a b) eqn:?; cbn end; split; reflexivity.
Qed.

Section Step.
Variable E : env.
Hypothesis Hbid : uniq_bid E.

Lemma step_skip s o : Inv E s -> Inv E (finish s o).
Proof.
  intros [I1 I2 I3 I4 I5 I6]. split; norm.
  - exact I1.
  - exact I2.
  - exact I3.
  - intros r Hr. pose proof (I4 r Hr). lia.
  - exact I5.
  - exact I6.
Qed.

Lemma inv_wrap s s' : s_brs s' = s_brs s -> s_jour s' = s_jour s -> s_nreg s' = s_nreg s -> s_nop s' = s_nop s ->
  Inv E s -> Inv E s'.
Proof.
  intros B J R O [I1 I2 I3 I4 I5 I6]. unfold rec_ok, tr in *. split; rewrite ?B, ?J, ?R, ?O; auto.
  - intros r Hr. unfold rec_ok, tr. rewrite J. auto.
  - intros id N H. unfold tr. rewrite J. auto.
Qed.

Lemma in_kill c l x : In x (kill_conn c l) ->
  exists y, In y l /\ r_op x = r_op y /\ r_xid x = r_xid y /\ r_b x = r_b y /\
            (r_db x = r_db y \/ r_db x = srv_kill (r_db y)).
Proof.
  unfold kill_conn. intro H. apply in_map_iff in H. destruct H as (y & <- & H). exists y. split; [assumption|].
  destruct (Nat.eqb (r_conn y) c); cbn; auto.
Qed.

Lemma kill_ops c l : map r_op (kill_conn c l) = map r_op l.
Proof. unfold kill_conn. rewrite map_map. apply map_ext. intro y. destruct (Nat.eqb (r_conn y) c); reflexivity. Qed.

Lemma kill_has c l y : In y l -> exists x, In x (kill_conn c l) /\ rid x = rid y.
Proof.
  intro H. unfold kill_conn. eexists. split; [apply in_map; eassumption|].
  destruct (Nat.eqb (r_conn y) c); reflexivity.
Qed.

Lemma inv_brs_kill s s' c : s_brs s' = kill_conn c (s_brs s) -> s_jour s' = s_jour s -> s_nreg s' = s_nreg s ->
  s_nop s' = s_nop s -> Inv E s -> Inv E s'.
Proof.
  intros B J R O [I1 I2 I3 I4 I5 I6].
  assert (RidOf : forall x y, r_xid x = r_xid y -> r_b x = r_b y -> rid x = rid y) by (intros x y H1 H2; unfold rid; now rewrite H1, H2).
  split; rewrite ?B, ?R, ?O.
  - intros x Hx. destruct (in_kill _ _ _ Hx) as (y & Hy & Eo & Ex & Eb & Db).
    destruct (I1 y Hy) as (q & A & Bq). exists q. unfold tr. rewrite J, (RidOf x y Ex Eb). split; [exact A|].
    destruct Db as [-> | ->]; [assumption|now apply agree_kill].
  - intros x Hx. destruct (in_kill _ _ _ Hx) as (y & Hy & Eo & Ex & Eb & Db). rewrite Eb. exact (I2 y Hy).
  - intros id N H. unfold tr. rewrite J. apply (I3 id N). intros y Hy Y.
    destruct (kill_has c _ y Hy) as (x & Hx & Rx). apply (H x Hx). now rewrite Rx.
  - intros x Hx. destruct (in_kill _ _ _ Hx) as (y & Hy & Eo & _). rewrite Eo. exact (I4 y Hy).
  - rewrite kill_ops. exact I5.
  - intros x1 x2 H1 H2 X.
    destruct (in_kill _ _ _ H1) as (y1 & Hy1 & Eo1 & Ex1 & Eb1 & _).
    destruct (in_kill _ _ _ H2) as (y2 & Hy2 & Eo2 & Ex2 & Eb2 & _).
    rewrite Eo1, Eo2. apply (I6 y1 y2 Hy1 Hy2). rewrite <- (RidOf x1 y1 Ex1 Eb1), <- (RidOf x2 y2 Ex2 Eb2). exact X.
Qed.

Lemma inv_brs_map s s' g : s_brs s' = map g (s_brs s) ->
  (forall y, r_op (g y) = r_op y /\ r_xid (g y) = r_xid y /\ r_b (g y) = r_b y /\
             (r_db (g y) = r_db y \/ r_db (g y) = srv_kill (r_db y))) ->
  s_jour s' = s_jour s -> s_nreg s' = s_nreg s -> s_nop s' = s_nop s -> Inv E s -> Inv E s'.
Proof.
  intros B G J R O [I1 I2 I3 I4 I5 I6].
  assert (RidOf : forall y, rid (g y) = rid y) by (intro y; destruct (G y) as (_ & H1 & H2 & _); unfold rid; now rewrite H1, H2).
  split; rewrite ?B, ?R, ?O.
  - intros x Hx. apply in_map_iff in Hx. destruct Hx as (y & <- & Hy). destruct (G y) as (Eo & Ex & Eb & Db).
    destruct (I1 y Hy) as (q & A & Bq). exists q. unfold tr. rewrite J, RidOf. split; [exact A|].
    destruct Db as [-> | ->]; [assumption|now apply agree_kill].
  - intros x Hx. apply in_map_iff in Hx. destruct Hx as (y & <- & Hy). destruct (G y) as (_ & _ & Eb & _). rewrite Eb. exact (I2 y Hy).
  - intros id N H. unfold tr. rewrite J. apply (I3 id N). intros y Hy Y.
    apply (H (g y)); [now apply in_map|]. now rewrite RidOf.
  - intros x Hx. apply in_map_iff in Hx. destruct Hx as (y & <- & Hy). destruct (G y) as (Eo & _). rewrite Eo. exact (I4 y Hy).
  - rewrite map_map. rewrite (map_ext _ r_op); [exact I5|]. intro y. now destruct (G y).
  - intros x1 x2 H1 H2 X. apply in_map_iff in H1, H2. destruct H1 as (y1 & <- & Hy1), H2 as (y2 & <- & Hy2).
    destruct (G y1) as (E1 & _), (G y2) as (E2 & _). rewrite E1, E2. apply (I6 y1 y2 Hy1 Hy2). now rewrite !RidOf in X.
Qed.

Lemma force_one_inv s c : Inv E s -> Inv E (force_one s c).
Proof.
  intro I. unfold force_one.
  set (rel := if c_kept (get_cst s c) then c_cur (get_cst s c) else None).
  apply (inv_brs_map s _ (fun y => let y1 := if Nat.eqb (r_conn y) c
              then {| r_op := r_op y; r_xid := r_xid y; r_b := r_b y; r_conn := r_conn y;
                      r_db := srv_kill (r_db y); r_kept := r_kept y; r_fin := r_fin y; r_sfail := r_sfail y |} else y in
              match rel with Some o => if Nat.eqb (r_op y1) o then unkeep y1 else y1 | None => y1 end)); auto.
  - cbn [s_brs]. unfold kill_conn, upd_br. destruct rel; [rewrite map_map|]; apply map_ext; intro y; reflexivity.
  - intro y. destruct rel; destruct (Nat.eqb (r_conn y) c); cbn;
      repeat match goal with |- context[Nat.eqb ?a ?b] => destruct (Nat.eqb a b); cbn end; auto.
Qed.

Lemma do_check_inv s e : Inv E s -> Inv E (do_check E s e).
Proof.
  intro I. unfold do_check. destruct (e_detach E); [|now apply step_skip].
  apply step_skip. generalize (filter (due s e) (seq 0 (s_nconn s))). intro l. revert s I.
  induction l as [|c l IH]; intros s I; cbn [fold_left]; [assumption|]. apply IH. now apply force_one_inv.
Qed.

Lemma retire_inv s c : Inv E s -> Inv E (retire_conn s c).
Proof.
  intro I. unfold retire_conn. destruct (existsb (Nat.eqb c) (s_gone s)); [assumption|].
  destruct (c_kept (get_cst s c)).
  - apply (inv_wrap s); auto.
  - apply (inv_brs_kill s _ c); auto.
Qed.

Lemma post_bad_inv s : Inv E s -> Inv E (post_bad s).
Proof.
  intro I. unfold post_bad. destruct (s_out s) as [|[] ?]; auto. destruct (s_opconn s) as [|[? c] ?]; auto.
  now apply retire_inv.
Qed.

Lemma step_auto_core s g via slow : Inv E s -> Inv E (do_auto_core E s g via slow).
Proof.
  intros I. unfold do_auto_core.
  set (reuse0 := match via with Some t => lookup t (s_opconn s) | None => None end).
  set (reuse := match reuse0 with Some c => if existsb (Nat.eqb c) (s_gone s) then None else Some c | None => None end).
  set (conn := match reuse with Some c => c | None => s_nconn s end).
  set (sp := set_opconn match reuse with Some _ => s | None => bump_conn s end conn).
  assert (Ip : Inv E sp).
  { apply (inv_wrap s); auto; unfold sp; destruct reuse; reflexivity. }
  assert (Rp : s_nreg sp = s_nreg s) by (unfold sp; destruct reuse; reflexivity).
  assert (Op : s_nop sp = s_nop s) by (unfold sp; destruct reuse; reflexivity).
  destruct (c_active (get_cst s conn)); [now apply step_skip|].
  clearbody sp. clear I. rewrite <- Rp. 
  destruct (e_refuse E (s_nreg sp)).
  - destruct Ip as [I1 I2 I3 I4 I5 I6]. split; norm; auto.
    + intros r Hr. destruct (I1 r Hr) as (q & A & B). exists q. norm. auto.
    + intros r Hr. destruct (I2 r Hr) as (k & K1 & K2). exists k. split; [lia|auto].
    + intros id N O. specialize (I3 id N O). norm. exact I3.
    + intros r Hr. pose proof (I4 r Hr). lia.
  - set (xid := e_xid E g). set (b := e_bid E (s_nreg sp)).
    set (s1 := add_ev (bump_reg sp) (EReg xid true b)).
    pose proof (auto_local_accepted (e_detach E) (busy_on (s_brs s1) conn (s_nop s1)) slow
                  (e_fault E START (s_cnt s1 START)) (e_fault E STMT (s_cnt s1 STMT))
                  (e_fault E END_ (s_cnt s1 END_)) (e_frb E (s_cnt s1 END_)) (e_fault E END_ (S (s_cnt s1 END_)))
                  (e_frb E (S (s_cnt s1 END_)))
                  (e_fault E PREPARE (s_cnt s1 PREPARE)) (e_fault E ROLLBACK (s_cnt s1 ROLLBACK))
                  (e_fault E ROLLBACK (S (s_cnt s1 ROLLBACK)))) as L.
    destruct (auto_local _ _ _ _ _ _ _ _ _ _ _ _) as [[[[t d] kept] o] act].
    destruct L as (q & Lq & Aq).
    set (id := xa_id xid b).
    destruct Ip as [I1 I2 I3 I4 I5 I6].
    assert (Fresh : forall r, In r (s_brs sp) -> rid r <> id).
    { intros r Hr X. destruct (I2 r Hr) as (k & K1 & K2).
      apply xa_id_inj in X. destruct X as [_ X]. rewrite K2 in X. apply Hbid in X. lia. }
    assert (T0 : tr sp id = []).
    { apply I3; [apply xa_id_nonempty|exact Fresh]. }
    subst s1. split; norm.
    + intros r [<-|Hr].
      * exists q. norm. replace (rid (mk_br (s_nop sp) xid b conn d kept (negb (start_ok t)))) with id by reflexivity.
        rewrite bytes_eqb_refl, T0. cbn [app]. auto.
      * destruct (I1 r Hr) as (q' & A & B). exists q'. norm.
        rewrite (neq_eqb id (rid r)) by (intro X; exact (Fresh r Hr (eq_sym X))). norm. auto.
    + intros r [<-|Hr].
      * exists (s_nreg sp). cbn. split; [lia|reflexivity].
      * destruct (I2 r Hr) as (k & K1 & K2). exists k. split; [lia|auto].
    + intros id' N O. norm.
      rewrite (neq_eqb id id') by (intro X; exact (O _ (or_introl eq_refl) X)). norm.
      specialize (I3 id' N). norm. apply I3. intros r Hr. apply O. now right.
    + intros r [<-|Hr]; cbn; [lia|]. pose proof (I4 r Hr). lia.
    + cbn. constructor; [|exact I5].
      intro X. apply in_map_iff in X. destruct X as (r & X1 & X2). pose proof (I4 r X2). lia.
    + intros r1 r2 [<-|H1] [<-|H2] X; auto.
      * exfalso. exact (Fresh r2 H2 (eq_sym X)).
      * exfalso. exact (Fresh r1 H1 X).
Qed.

Lemma step_auto s g via slow : Inv E s -> Inv E (do_auto E s g via slow).
Proof. intro I. unfold do_auto. apply post_bad_inv. now apply step_auto_core. Qed.

Lemma step_local s : Inv E s -> Inv E (do_local E s).
Proof.
  intros [I1 I2 I3 I4 I5 I6]. unfold do_local. apply post_bad_inv.
  set (t := [(STMT, if e_fault E STMT (s_cnt (set_opconn (bump_conn s) (s_nconn s)) STMT) then RFault else ROk)]).
  split; norm; auto.
  - intros r Hr. destruct (I1 r Hr) as (q & A & B). exists q. norm.
    rewrite (neq_eqb [] (rid r)) by (intro X; symmetry in X; revert X; apply xa_id_nonempty). norm. auto.
  - intros id' N O. norm. rewrite (neq_eqb [] id') by congruence. norm.
    specialize (I3 id' N O). norm. exact I3.
  - intros r Hr. pose proof (I4 r Hr). lia.
Qed.

Lemma step_p2 s t commit stranger : Inv E s -> Inv E (do_p2 E s t commit stranger).
Proof.
  intro I. unfold do_p2.
  destruct (find_br t (s_brs s)) as [r|] eqn:F; [|now apply step_skip].
  destruct ((is_prepared (r_db r) || negb commit && r_sfail r) && negb (r_fin r)); [|now apply step_skip].
  apply find_br_in in F. destruct F as [Fin Fop].
  destruct I as [I1 I2 I3 I4 I5 I6].
  destruct (I1 r Fin) as (q & A & B).
  set (strg := stranger && is_prepared (r_db r)).
  set (c := if commit then COMMIT else ROLLBACK).
  set (sk := if strg then (if existsb (Nat.eqb (r_conn r)) (s_closed s) then set_brs s (upd_br unkeep t (kill_conn (r_conn r) (s_brs s))) else close_conn (set_brs (add_ev s (EKill (r_conn r))) (upd_br unkeep t (kill_conn (r_conn r) (s_brs s)))) (r_conn r)) else s).
  set (d := if strg then srv_kill (r_db r) else r_db r).
  set (kept := if strg then false else r_kept r).
  set (conn := if kept then r_conn r else s_nconn sk).
  assert (Ad : agree q d) by (unfold d; destruct strg; [now apply agree_kill|assumption]).
  pose proof (p2_local_accepted (e_detach E) (e_fault E c (s_cnt sk c)) d kept (busy_on (s_brs sk) conn t) commit q Ad) as L.
  destruct (p2_local _ _ _ _ _ _) as [cr0 d1].
  set (dead := kept && existsb (Nat.eqb conn) (s_closed sk)).
  set (d' := if dead then d else d1).
  set (trc := if dead then [] else [cr0]).
  assert (L' : exists q', accepted_from q trc = Some q' /\ agree q' d').
  { unfold trc, d'. destruct dead; [exists q; split; [reflexivity|assumption]|exact L]. }
  clear L. destruct L' as (q' & L1 & L2).
  set (id := xa_id (r_xid r) (r_b r)).
  set (sb := if kept then sk else bump_conn sk).
  set (se := emit sb conn id trc).
  set (cs := get_cst se conn).
  set (rel := if kept && c_kept cs then c_cur cs else None).
  set (sr := if kept && c_kept cs then set_conn se conn {| c_active := c_active cs; c_kept := false; c_cur := c_cur cs; c_pt := c_pt cs |} else se).
  assert (Jr : s_jour sr = List.rev (map (fun x => ESql conn (fst x) id (snd x)) trc) ++ s_jour sk).
  { unfold sr, se, sb. destruct (kept && c_kept cs), kept; reflexivity. }
  assert (Jk : forall id', cmds_of id' (List.rev (s_jour sk)) = cmds_of id' (List.rev (s_jour s))).
  { intro id'. unfold sk. destruct strg; [|reflexivity]. destruct (existsb _ _); [reflexivity|]. cbn [close_conn set_brs add_ev s_jour]. rewrite cmds_rev_cons. cbn [cmds_of]. now rewrite app_nil_r. }
  assert (Tr : forall id', tr sr id' = tr s id' ++ (if bytes_eqb id id' then trc else [])).
  { intro id'. unfold tr. rewrite Jr, cmds_rev_emit, Jk. reflexivity. }
  assert (Lst : upd_br (fun x => set_db_kept d' (r_kept x) true x) t (s_brs sr) = 
                match rel with Some o => upd_br unkeep o (upd_br (fun x => set_db_kept d' (r_kept x) true x) t (s_brs sr)) | None => upd_br (fun x => set_db_kept d' (r_kept x) true x) t (s_brs sr) end
                \/ True) by (right; exact I).
  clear Lst.
  assert (Bs : s_brs sr = if strg then upd_br unkeep t (kill_conn (r_conn r) (s_brs s)) else s_brs s).
  { unfold sr, se, sb, sk. destruct (kept && c_kept cs), kept, strg; try reflexivity; destruct (existsb _ _); reflexivity. }
  assert (Final : (match rel with Some o => upd_br unkeep o (upd_br (fun x => set_db_kept d' (r_kept x) true x) t (s_brs sr))
                   | None => upd_br (fun x => set_db_kept d' (r_kept x) true x) t (s_brs sr) end)
                  = p2_list strg (r_conn r) t d' rel (s_brs s)).
  { unfold p2_list. rewrite Bs. reflexivity. }
  assert (Nr : s_nreg sr = s_nreg s) by (unfold sr, se, sb, sk; destruct (kept && c_kept cs), kept, strg; try reflexivity; destruct (existsb _ _); reflexivity).
  assert (No : s_nop sr = s_nop s) by (unfold sr, se, sb, sk; destruct (kept && c_kept cs), kept, strg; try reflexivity; destruct (existsb _ _); reflexivity).
  change (Inv E (finish (set_brs sr match rel with Some o => upd_br unkeep o (upd_br (fun x => set_db_kept d' (r_kept x) true x) t (s_brs sr))
                   | None => upd_br (fun x => set_db_kept d' (r_kept x) true x) t (s_brs sr) end) (OP2 (if dead then false else res_ok (snd cr0))))).
  rewrite Final.
  assert (RidOf : forall x y, r_xid x = r_xid y -> r_b x = r_b y -> rid x = rid y) by (intros x y H1 H2; unfold rid; now rewrite H1, H2).
  split; cbn [finish set_brs s_brs s_nreg s_nop]; rewrite ?Nr, ?No.
  - intros x Hx. destruct (p2_list_in _ _ _ _ _ _ _ Hx) as (y & Hy & Eo & Ex & Eb & Db).
    unfold rec_ok. change (tr (finish (set_brs sr (p2_list strg (r_conn r) t d' rel (s_brs s))) (OP2 (if dead then false else res_ok (snd cr0)))) (rid x)) with (tr sr (rid x)).
    rewrite (RidOf x y Ex Eb), Tr.
    destruct Db as [[Yt Dx]|[Yt Dx]].
    + assert (y = r) by (apply (nodup_op_eq _ y r I5 Hy Fin); congruence). subst y.
      exists q'. fold id. rewrite bytes_eqb_refl, accepted_from_app, A, Dx. auto.
    + destruct (I1 y Hy) as (qy & Ay & By). exists qy.
      rewrite (neq_eqb id (rid y)).
      * rewrite app_nil_r. split; [exact Ay|]. destruct Dx as [-> | ->]; [assumption|now apply agree_kill].
      * intro X. apply Yt. rewrite <- Fop. apply (I6 y r Hy Fin). now rewrite <- X.
  - intros x Hx. destruct (p2_list_in _ _ _ _ _ _ _ Hx) as (y & Hy & Eo & Ex & Eb & Db). rewrite Eb. exact (I2 y Hy).
  - intros id' N O.
    change (tr (finish (set_brs sr (p2_list strg (r_conn r) t d' rel (s_brs s))) (OP2 (if dead then false else res_ok (snd cr0)))) id') with (tr sr id').
    rewrite Tr. rewrite (neq_eqb id id').
    + rewrite app_nil_r. apply (I3 id' N). intros y Hy Y.
      destruct (p2_list_has strg (r_conn r) t d' rel _ y Hy) as (x & Hx & Rx & _). apply (O x Hx). now rewrite Rx.
    + intro X. destruct (p2_list_has strg (r_conn r) t d' rel _ r Fin) as (x & Hx & Rx & _). apply (O x Hx). now rewrite Rx.
  - intros x Hx. destruct (p2_list_in _ _ _ _ _ _ _ Hx) as (y & Hy & Eo & _). rewrite Eo. pose proof (I4 y Hy). lia.
  - rewrite p2_list_ops. exact I5.
  - intros x1 x2 H1 H2 X.
    destruct (p2_list_in _ _ _ _ _ _ _ H1) as (y1 & Hy1 & Eo1 & Ex1 & Eb1 & _).
    destruct (p2_list_in _ _ _ _ _ _ _ H2) as (y2 & Hy2 & Eo2 & Ex2 & Eb2 & _).
    rewrite Eo1, Eo2. apply (I6 y1 y2 Hy1 Hy2). rewrite <- (RidOf x1 y1 Ex1 Eb1), <- (RidOf x2 y2 Ex2 Eb2). exact X.
Qed.

Lemma step_inv s o : Inv E s -> Inv E (step E s o).
Proof.
  destruct o; cbn [step]; [apply step_auto|apply step_local|apply step_p2| | | |apply do_check_inv|apply step_skip].
  - destruct (s_out s) as [|[] ?]; try now apply step_skip. now apply step_auto.
  - destruct (lookup target (s_opconn s)); [|now apply step_skip].
    destruct (existsb _ _); [now apply step_skip|]. intro I. apply step_skip. now apply retire_inv.
  - destruct (find_br target (s_brs s)); [|now apply step_skip].
    destruct (is_prepared _ && _); [|now apply step_skip]. intro I. apply step_skip.
    apply (inv_brs_map s _ (fun y => if Nat.eqb (r_op y) target then unkeep y else y)); auto.
    intro y. destruct (Nat.eqb (r_op y) target); cbn; auto.
Qed.

Lemma run_inv_from p : forall s, Inv E s -> Inv E (fold_left (step E) p s).
Proof. induction p as [|o p IH]; intros s I; cbn; [assumption|]. apply IH. now apply step_inv. Qed.

Lemma run_inv p : Inv E (run E p).
Proof. apply run_inv_from. apply inv_init. Qed.

Lemma run_accepted p id : id <> [] -> exists q, accepted_from S0 (cmds_of id (journal E p)) = Some q.
Proof.
  intro N. pose proof (run_inv p) as I. unfold journal. fold (tr (run E p) id).
  destruct (existsb (fun r => bytes_eqb (rid r) id) (s_brs (run E p))) eqn:X.
  - apply existsb_exists in X. destruct X as (r & Hr & Hb). apply bytes_eqb_eq in Hb. subst id.
    destruct (i_recs _ _ I r Hr) as (q & A & _). now exists q.
  - rewrite (i_other _ _ I id N).
    + exists S0. reflexivity.
    + intros r Hr Y. assert (existsb (fun r => bytes_eqb (rid r) id) (s_brs (run E p)) = true).
      { apply existsb_exists. exists r. split; [assumption|]. rewrite Y. apply bytes_eqb_refl. }
      congruence.
Qed.
End Step.

Theorem accepted_all E p id :
  uniq_bid E -> id <> [] -> accepted_legal (cmds_of id (journal E p)) = true.
Proof.
  intros U N. unfold accepted_legal. destruct (run_accepted E U p id N) as (q & Hq). now rewrite Hq.
Qed.

(* never COMMIT without a successful PREPARE, spelled out on traces *)
Lemma accepted_commit_needs_prepare t : forall s q,
  accepted_from s t = Some q -> In (COMMIT, ROk) t ->
  s = SP \/ In (PREPARE, ROk) t.
Proof.
  induction t as [|[c r] t IH]; intros s q A H; [destruct H|].
  cbn in A. destruct H as [H|H].
  - injection H as -> ->. destruct s; cbn in A; try discriminate. now left.
  - destruct (acc c r) eqn:Ar; [|destruct (IH _ _ A H); [now left | right; now right]].
    destruct (sstep s c) as [s'|] eqn:S; [|discriminate].
    destruct (IH _ _ A H) as [->|X]; [|right; now right].
    destruct s, c; cbn in S; try discriminate. destruct r; try discriminate Ar. right. now left.
Qed.

Theorem commit_needs_prepare E p id :
  uniq_bid E -> id <> [] -> In (COMMIT, ROk) (cmds_of id (journal E p)) -> In (PREPARE, ROk) (cmds_of id (journal E p)).
Proof.
  intros U N H. pose proof (accepted_all E p id U N) as A. unfold accepted_legal in A.
  destruct (accepted_from S0 (cmds_of id (journal E p))) as [q|] eqn:X; [|discriminate].
  destruct (accepted_commit_needs_prepare _ _ _ X H) as [Y|Y]; [discriminate|assumption].
Qed.

(* ================================================================ registration first *)

Lemma reg_scan_app a : forall p b,
  reg_scan p (a ++ b) = match reg_scan p a with Some p' => reg_scan p' b | None => None end.
Proof.
  induction a as [|e a IH]; intros p b; cbn; [reflexivity|].
  destruct e as [x [|] n|c k i r|c]; auto.
  destruct k; auto. destruct p as [[x n]|]; auto. destruct (bytes_eqb i (xa_id x n)); auto.
Qed.

Lemma reg_scan_nostart conn id t : count_cmd START t = 0%nat -> forall p,
  reg_scan p (map (fun cr => ESql conn (fst cr) id (snd cr)) t) = Some p.
Proof.
  induction t as [|[c r] t IH]; intros H p; cbn; [reflexivity|].
  cbn in H. destruct c; cbn in *; try discriminate; auto.
Qed.

Lemma auto_local_shape detach busy slow fS fM fE rE fE2 rE2 fP fR fR2 :
  let '(t, _, _, _, _) := auto_local detach busy slow fS fM fE rE fE2 rE2 fP fR fR2 in
  exists r1 rest, t = (START, r1) :: rest /\ count_cmd START rest = 0%nat.
Proof. bools; cbn; eexists; eexists; split; reflexivity. Qed.

Lemma reg_scan_reg p x b j : reg_scan p (EReg x true b :: j) = reg_scan (Some (x, b)) j.
Proof. reflexivity. Qed.
Lemma reg_scan_start x b c r j : reg_scan (Some (x, b)) (ESql c START (xa_id x b) r :: j) = reg_scan None j.
Proof. cbn [reg_scan]. now rewrite bytes_eqb_refl. Qed.

Lemma reg_emit conn id t j : count_cmd START t = 0%nat ->
  reg_scan None (List.rev j) = Some None ->
  reg_scan None (List.rev (List.rev (map (fun cr => ESql conn (fst cr) id (snd cr)) t) ++ j)) = Some None.
Proof.
  intros C H. rewrite rev_app_distr, rev_involutive, reg_scan_app, H. now apply reg_scan_nostart.
Qed.

Lemma fold_force_jour l : forall s, s_jour (fold_left force_one l s) = s_jour s.
Proof. induction l as [|c l IH]; intro s; cbn [fold_left]; [reflexivity|]. now rewrite IH. Qed.

Definition reg_inv (s : st) : Prop := reg_scan None (List.rev (s_jour s)) = Some None.

Lemma reg_step E s o : reg_inv s -> reg_inv (step E s o).
Proof.
  unfold reg_inv. intro H.
  assert (PB : forall s', reg_scan None (List.rev (s_jour s')) = Some None -> reg_scan None (List.rev (s_jour (post_bad s'))) = Some None).
  { intros s' H'. unfold post_bad. destruct (s_out s') as [|[] ?]; auto. destruct (s_opconn s') as [|[? c0] ?]; auto.
    unfold retire_conn. destruct (existsb _ _); auto. }
  assert (AU : forall g via slow, reg_scan None (List.rev (s_jour (do_auto E s g via slow))) = Some None).
  { intros g via slow. unfold do_auto. apply PB. unfold do_auto_core.
    set (reuse0 := match via with Some t => lookup t (s_opconn s) | None => None end).
    set (reuse := match reuse0 with Some c => if existsb (Nat.eqb c) (s_gone s) then None else Some c | None => None end).
    set (conn := match reuse with Some c => c | None => s_nconn s end).
    set (sp := set_opconn match reuse with Some _ => s | None => bump_conn s end conn).
    assert (Jp : s_jour sp = s_jour s) by (unfold sp; destruct reuse; reflexivity).
    destruct (c_active (get_cst s conn)); [cbn [finish s_jour]; now rewrite Jp|].
    destruct (e_refuse E (s_nreg s)).
    + cbn [finish add_ev bump_reg set_conn s_jour List.rev]. now rewrite Jp, reg_scan_app, H.
    + set (s1 := add_ev (bump_reg sp) (EReg (e_xid E g) true (e_bid E (s_nreg s)))).
      pose proof (auto_local_shape (e_detach E) (busy_on (s_brs s1) conn (s_nop s1)) slow
        (e_fault E START (s_cnt s1 START)) (e_fault E STMT (s_cnt s1 STMT)) (e_fault E END_ (s_cnt s1 END_))
        (e_frb E (s_cnt s1 END_)) (e_fault E END_ (S (s_cnt s1 END_))) (e_frb E (S (s_cnt s1 END_))) (e_fault E PREPARE (s_cnt s1 PREPARE))
        (e_fault E ROLLBACK (s_cnt s1 ROLLBACK)) (e_fault E ROLLBACK (S (s_cnt s1 ROLLBACK)))) as L.
      destruct (auto_local _ _ _ _ _ _ _ _ _ _ _ _) as [[[[t d] kept] oo] act]. destruct L as (r1 & rest & -> & Hc).
      subst s1. cbn [finish set_brs set_conn emit add_ev bump_reg s_jour]. rewrite Jp.
      rewrite rev_app_distr, rev_involutive. cbn [List.rev map fst snd].
      rewrite <- app_assoc, reg_scan_app. rewrite H. rewrite <- app_comm_cons, app_nil_l, reg_scan_reg, reg_scan_start.
      now apply reg_scan_nostart. }
  destruct o as [g via slow| |t c x|g slow|t|t|e|]; cbn [step].
  - apply AU.
  - unfold do_local. apply PB. cbn [finish emit set_opconn bump_conn s_jour]. apply reg_emit; [reflexivity|exact H].
  - unfold do_p2. destruct (find_br t (s_brs s)) as [r|]; [|exact H].
    destruct ((is_prepared (r_db r) || negb c && r_sfail r) && negb (r_fin r)); [|exact H].
    set (strg := x && is_prepared (r_db r)).
    set (sk := if strg then (if existsb (Nat.eqb (r_conn r)) (s_closed s) then set_brs s (upd_br unkeep t (kill_conn (r_conn r) (s_brs s))) else close_conn (set_brs (add_ev s (EKill (r_conn r))) (upd_br unkeep t (kill_conn (r_conn r) (s_brs s)))) (r_conn r)) else s).
    assert (Hk : reg_scan None (List.rev (s_jour sk)) = Some None).
    { unfold sk. destruct strg; [|exact H]. destruct (existsb _ _); [exact H|]. cbn [close_conn set_brs add_ev s_jour List.rev]. now rewrite reg_scan_app, H. }
    clearbody sk.
    destruct (p2_local _ _ _ _ _ _) as [[k rs] d1] eqn:P.
    assert (K0 : count_cmd START [(k, rs)] = 0%nat).
    { unfold p2_local in P. injection P as <- _ _. destruct c; reflexivity. }
    match goal with |- context[emit _ _ _ (if ?D then [] else _)] => set (dead := D) end.
    set (trc := if dead then [] else [(k, rs)]).
    assert (K : count_cmd START trc = 0%nat) by (unfold trc; destruct dead; [reflexivity|exact K0]).
    match goal with |- context[set_brs ?S _] => assert (J : s_jour S =
       List.rev (map (fun cr => ESql (if (if strg then false else r_kept r) then r_conn r else s_nconn sk) (fst cr) (xa_id (r_xid r) (r_b r)) (snd cr)) trc) ++ s_jour sk) end.
    { destruct (if strg then false else r_kept r); cbn [s_jour emit bump_conn set_conn];
        match goal with |- context[if ?b then set_conn _ _ _ else _] => destruct b end; reflexivity. }
    cbn [finish set_brs s_jour]. rewrite J. now apply reg_emit.
  - destruct (s_out s) as [|[] ?]; try exact H. apply AU.
  - destruct (lookup t (s_opconn s)); [|exact H]. destruct (existsb _ _); [exact H|].
    cbn [finish s_jour]. unfold retire_conn. destruct (existsb _ _); exact H.
  - destruct (find_br t (s_brs s)); [|exact H]. destruct (is_prepared _ && _); exact H.
  - unfold do_check. destruct (e_detach E); [|exact H]. cbn [finish s_jour].
    now rewrite fold_force_jour.
  - exact H.
Qed.

Theorem reg_first_all E p : reg_first (journal E p) = true.
Proof.
  assert (forall l s, reg_inv s -> reg_inv (fold_left (step E) l s)) as F.
  { induction l as [|o l IH]; intros s H; cbn; [assumption|]. apply IH. now apply reg_step. }
  unfold reg_first, journal. specialize (F p init eq_refl). unfold reg_inv in F. unfold run. now rewrite F.
Qed.

(* ================================================================ the pool retires a connection *)

(* a HELD connection (phase two will need it) is left alone by Close: nothing changes at the
   server, nothing reaches it *)
Lemma retire_held s c : c_kept (get_cst s c) = true ->
  s_brs (retire_conn s c) = s_brs s /\ s_jour (retire_conn s c) = s_jour s.
Proof. intro H. unfold retire_conn. destruct (existsb _ _); [auto|]. rewrite H. auto. Qed.

(* whatever is closed, a PREPARED branch stays PREPARED *)
Lemma kill_keeps_prepared d : is_prepared (srv_kill d) = is_prepared d.
Proof. destruct d as [[[] []]|]; reflexivity. Qed.

(* ================================================================ the two-phase timeout checker *)

(* a held connection whose branch was just PREPARED is not due within the hold time, and a
   connection still in phase one is never due *)
Lemma due_hold s c : c_pt (get_cst s c) = PPrep -> due s false c = false.
Proof. intro H. unfold due. rewrite H. apply andb_false_r. Qed.

Lemma due_phase_one s e c : c_pt (get_cst s c) = PZero -> due s e c = false.
Proof. intro H. unfold due. rewrite H. apply andb_false_r. Qed.
