(* C17 — proofs about Xa/XaModel.v *)
From Coq Require Import String List NArith Bool Lia Decimal DecimalString DecimalN.
From Coq.Strings Require Import Byte.
From SeataV Require Import Base.Bytes Xa.XaModel.
Import ListNotations.
Open Scope N_scope.

(* ================================================================ identifier *)

Lemma uint_nodash d : ~ In dash (list_byte_of_string (NilEmpty.string_of_uint d)).
Proof.
  induction d; cbn; intros H; try (destruct H as [H|H]; [discriminate H | auto]); auto.
Qed.

Lemma dec_nodash n : ~ In dash (dec n).
Proof. apply uint_nodash. Qed.

Lemma dec_inj a b : dec a = dec b -> a = b.
Proof.
  unfold dec. intro H.
  apply (f_equal string_of_list_byte) in H. rewrite !string_of_list_byte_of_string in H.
  apply (f_equal NilEmpty.uint_of_string) in H. rewrite !NilEmpty.usu in H.
  injection H as H. apply (f_equal N.of_uint) in H. now rewrite !DecimalN.Unsigned.of_to in H.
Qed.

Lemma split_at_last (a : byte) l1 : forall r1 l2 r2,
  ~ In a r1 -> ~ In a r2 -> l1 ++ a :: r1 = l2 ++ a :: r2 -> l1 = l2 /\ r1 = r2.
Proof.
  induction l1 as [|x l1 IH]; intros r1 [|y l2] r2 H1 H2 E; cbn in E.
  - injection E as E. auto.
  - injection E as Ex Er. exfalso. apply H1. rewrite Er. apply in_or_app. right. now left.
  - injection E as Ex Er. exfalso. apply H2. rewrite <- Er. apply in_or_app. right. now left.
  - injection E as Ex Er. destruct (IH _ _ _ H1 H2 Er) as [-> ->]. now subst.
Qed.

Lemma xa_id_inj x1 b1 x2 b2 : xa_id x1 b1 = xa_id x2 b2 -> x1 = x2 /\ b1 = b2.
Proof.
  unfold xa_id. intro H.
  destruct (split_at_last dash _ _ _ _ (dec_nodash b1) (dec_nodash b2) H) as [Hx Hd].
  split; [assumption | now apply dec_inj].
Qed.

Lemma xa_id_nonempty x b : xa_id x b <> [].
Proof. unfold xa_id. destruct x; discriminate. Qed.

Lemma trim_left_notin c s : ~ In c s -> trim_left c s = s.
Proof.
  destruct s as [|x r]; cbn; [reflexivity|]. intro H.
  destruct (byte_eqb x c) eqn:E; [|reflexivity].
  apply byte_eqb_eq in E. subst. exfalso. apply H. now left.
Qed.

Lemma parse_dec b : b <= max_u64 -> parse_u64 (dec b) = b.
Proof.
  intro H. unfold parse_u64, dec.
  rewrite string_of_list_byte_of_string, NilEmpty.usu. cbn zeta.
  rewrite DecimalN.Unsigned.of_to.
  destruct (b <=? max_u64) eqn:E; [reflexivity|]. apply N.leb_gt in E. lia.
Qed.

Lemma ident_roundtrip x b : b <= max_u64 ->
  dec_xid (enc_gtrid x) = x /\ dec_branch (enc_bqual b) = b.
Proof.
  intro H. split; [reflexivity|].
  unfold enc_bqual. destruct (b =? 0) eqn:E.
  - apply N.eqb_eq in E. now subst.
  - unfold dec_branch. cbn [trim_left]. replace (byte_eqb dash dash) with true by reflexivity.
    rewrite trim_left_notin by apply dec_nodash. now apply parse_dec.
Qed.

(* ================================================================ one branch: finite case analyses *)

(* the server state agrees with the position in the property's language *)
Definition agree (s : sst) (d : dbst) : Prop :=
  match d with
  | Some (Active, true) => s = SA
  | Some (Idle, true) => s = SI
  | Some (Prepared, _) => s = SP
  | Some (_, false) => False
  | None => s = S0 \/ s = SC \/ s = SR
  end.

Ltac bools := repeat match goal with b : bool |- _ => destruct b end.

Lemma auto_local_legal detach fS fM fE fE2 fP fR :
  (fE = true -> fE2 = false) ->
  let '(t, d, kept, o) := auto_local detach fS fM fE fE2 fP fR in
  exists s, legal_from S0 t = Some s /\ agree s d /\ (is_prepared d = true -> kept = true).
Proof.
  intro H. destruct fE; [rewrite (H eq_refl)|]; bools; cbn; eexists; (split; [reflexivity|]); cbn; auto.
Qed.

Lemma auto_local_accepted detach fS fM fE fE2 fP fR :
  let '(t, d, kept, o) := auto_local detach fS fM fE fE2 fP fR in
  exists s, accepted_from S0 t = Some s /\ agree s d /\ (is_prepared d = true -> kept = true).
Proof. bools; cbn; eexists; (split; [reflexivity|]); cbn; auto. Qed.

(* C17_failure on one branch, every fault combination and both server families *)
Lemma auto_local_failure detach fS fM fE fE2 fP fR :
  let '(t, d, kept, o) := auto_local detach fS fM fE fE2 fP fR in
  (* truthful outcome: success exactly when the branch is prepared, after START stmt END PREPARE all accepted *)
  (o = OOk <-> is_prepared d = true) /\
  (o = OOk -> t = [(START, ROk); (STMT, ROk); (END_, ROk); (PREPARE, ROk)]) /\
  (o = OOk \/ o = OErr) /\
  (* any failure before a successful PREPARE: an error is returned, nothing is ever committed, and
     (unless the compensating command is made to fail too) the branch is rolled back or never started *)
  ((fS || fM || fE || fP) = true -> o = OErr /\ ~ In (COMMIT, ROk) t) /\
  ((fS || fM || fE || fP) = true -> fR = false -> (fE = true -> fE2 = false) -> (fM = true -> fE = false) ->
     d = None /\ (fS = true \/ last t (START, ROk) = (ROLLBACK, ROk))).
Proof.
  bools; cbn; repeat split; auto; try discriminate; try (intros; discriminate);
    try (intros [H|H]; discriminate H); try (intros; exfalso; auto; fail); intros;
    try (match goal with H : ?a = ?a -> _ = _ |- _ => specialize (H eq_refl); discriminate H end);
    intuition (try discriminate; auto).
Qed.

Lemma p2_local_legal detach f d kept commit stranger s :
  agree s d -> is_prepared d = true -> (is_prepared d = true -> kept = true) ->
  let '(cr, d', _) := p2_local detach f d kept commit stranger in
  exists s', legal_from s [cr] = Some s' /\ agree s' d' /\ accepted_from s [cr] = Some s'.
Proof.
  intros A P K. destruct d as [[[] a]|]; try discriminate P. cbn in A. subst s.
  rewrite (K eq_refl). destruct a, f, commit, stranger; cbn; eexists; (split; [reflexivity|]); cbn; auto.
Qed.

(* ================================================================ the journal of a run *)

Definition rid (r : br) : bytes := xa_id (r_xid r) (r_b r).
Definition tr (s : st) (id : bytes) : list (cmd * res) := cmds_of id (List.rev (s_jour s)).

Lemma cmds_of_app id a b : cmds_of id (a ++ b) = cmds_of id a ++ cmds_of id b.
Proof.
  induction a as [|e a IH]; cbn; [reflexivity|].
  destruct e; auto. destruct (bytes_eqb id0 id); cbn; now rewrite IH.
Qed.

Lemma legal_from_app t1 : forall s t2,
  legal_from s (t1 ++ t2) = match legal_from s t1 with Some s' => legal_from s' t2 | None => None end.
Proof.
  induction t1 as [|[c r] t1 IH]; intros s t2; cbn; [reflexivity|].
  destruct (sstep s c); destruct r; auto.
Qed.

Lemma accepted_from_app t1 : forall s t2,
  accepted_from s (t1 ++ t2) = match accepted_from s t1 with Some s' => accepted_from s' t2 | None => None end.
Proof.
  induction t1 as [|[c r] t1 IH]; intros s t2; cbn; [reflexivity|].
  destruct r; auto. destruct (sstep s c); auto.
Qed.

Lemma cmds_of_emit_same conn id t :
  cmds_of id (map (fun cr => ESql conn (fst cr) id (snd cr)) t) = t.
Proof.
  induction t as [|[c r] t IH]; cbn; [reflexivity|]. now rewrite bytes_eqb_refl, IH.
Qed.

Lemma cmds_of_emit_other conn id id' t : id <> id' ->
  cmds_of id' (map (fun cr => ESql conn (fst cr) id (snd cr)) t) = [].
Proof.
  intro H. induction t as [|[c r] t IH]; cbn; [reflexivity|].
  destruct (bytes_eqb id id') eqn:E; [apply bytes_eqb_eq in E; contradiction|]. exact IH.
Qed.

Lemma tr_emit s conn id t id' :
  tr (emit s conn id t) id' = tr s id' ++ (if bytes_eqb id id' then t else []).
Proof.
  unfold tr, emit; cbn [s_jour]. rewrite rev_app_distr, rev_involutive, cmds_of_app.
  destruct (bytes_eqb id id') eqn:E.
  - apply bytes_eqb_eq in E. subst. now rewrite cmds_of_emit_same.
  - rewrite cmds_of_emit_other; [reflexivity|]. intro X. subst. now rewrite bytes_eqb_refl in E.
Qed.

Lemma tr_add_nonsql s e id : (forall c k i r, e <> ESql c k i r) -> tr (add_ev s e) id = tr s id.
Proof.
  intro H. unfold tr, add_ev; cbn [s_jour]. cbn [List.rev]. rewrite cmds_of_app.
  destruct e; cbn; try now rewrite app_nil_r. exfalso. eapply H. reflexivity.
Qed.

(* which notion of legality the invariant carries: strict (issued commands) or accepted only *)
Definition lfrom (strict : bool) := if strict then legal_from else accepted_from.

Lemma lfrom_app strict t1 s t2 :
  lfrom strict s (t1 ++ t2) = match lfrom strict s t1 with Some s' => lfrom strict s' t2 | None => None end.
Proof. destruct strict; [apply legal_from_app | apply accepted_from_app]. Qed.

Definition rec_ok (strict : bool) (s : st) (r : br) : Prop :=
  exists q, lfrom strict S0 (tr s (rid r)) = Some q /\ agree q (r_db r) /\
            (r_fin r = false -> is_prepared (r_db r) = true -> r_kept r = true).

Record Inv (strict : bool) (E : env) (s : st) : Prop := {
  i_recs : forall r, In r (s_brs s) -> rec_ok strict s r;
  i_bids : forall r, In r (s_brs s) -> exists k, (k < s_nreg s)%nat /\ r_b r = e_bid E k;
  i_other : forall id, id <> [] -> (forall r, In r (s_brs s) -> rid r <> id) -> tr s id = [];
  i_ops : forall r, In r (s_brs s) -> (r_op r < s_nop s)%nat;
  i_nodup : NoDup (map r_op (s_brs s));
  i_ids : forall r1 r2, In r1 (s_brs s) -> In r2 (s_brs s) -> rid r1 = rid r2 -> r_op r1 = r_op r2
}.

Lemma inv_init strict E : Inv strict E init.
Proof. split; cbn; try tauto; try constructor. Qed.

Lemma find_br_in t l r : find_br t l = Some r -> In r l /\ r_op r = t.
Proof.
  induction l as [|x l IH]; cbn; [discriminate|].
  destruct (Nat.eqb (r_op x) t) eqn:E.
  - intro H; injection H as ->. apply PeanoNat.Nat.eqb_eq in E. auto.
  - intro H. destruct (IH H). auto.
Qed.

Lemma put_br_map_op r' l : map r_op (put_br r' l) = map r_op l.
Proof.
  induction l as [|y l IH]; cbn; [reflexivity|].
  destruct (Nat.eqb (r_op y) (r_op r')) eqn:E; cbn; [|now rewrite IH].
  apply PeanoNat.Nat.eqb_eq in E. now rewrite E.
Qed.

Lemma put_br_in r' l x : NoDup (map r_op l) -> In x (put_br r' l) ->
  x = r' \/ (In x l /\ r_op x <> r_op r').
Proof.
  induction l as [|y l IH]; cbn; [tauto|]. intro ND. inversion ND as [|? ? Hn ND']; subst.
  destruct (Nat.eqb (r_op y) (r_op r')) eqn:E.
  - apply PeanoNat.Nat.eqb_eq in E. intros [<-|H]; [now left|].
    right. split; [now right|]. intro X. apply Hn. rewrite E, <- X. now apply in_map.
  - apply PeanoNat.Nat.eqb_neq in E. intros [<-|H]; [right; split; [now left|assumption]|].
    destruct (IH ND' H) as [->|[H1 H2]]; [now left|]. right. split; [now right|assumption].
Qed.

Section Step.
Variable strict : bool.
Variable E : env.
Hypothesis Hbid : uniq_bid E.
Hypothesis Hend : strict = true -> no_double_end E.

Lemma auto_local_l detach fS fM fE fE2 fP fR :
  (strict = true -> fE = true -> fE2 = false) ->
  let '(t, d, kept, o) := auto_local detach fS fM fE fE2 fP fR in
  exists s, lfrom strict S0 t = Some s /\ agree s d /\ (is_prepared d = true -> kept = true).
Proof.
  intro H. destruct strict; cbn [lfrom].
  - apply auto_local_legal. auto.
  - apply auto_local_accepted.
Qed.

Lemma cmds_rev_cons id e j : cmds_of id (List.rev (e :: j)) = cmds_of id (List.rev j) ++ cmds_of id [e].
Proof. cbn [List.rev]. apply cmds_of_app. Qed.

Lemma cmds_rev_emit id conn id0 t j :
  cmds_of id (List.rev (List.rev (map (fun cr => ESql conn (fst cr) id0 (snd cr)) t) ++ j))
  = cmds_of id (List.rev j) ++ (if bytes_eqb id0 id then t else []).
Proof.
  rewrite rev_app_distr, rev_involutive, cmds_of_app. f_equal.
  destruct (bytes_eqb id0 id) eqn:X.
  - apply bytes_eqb_eq in X. subst. apply cmds_of_emit_same.
  - apply cmds_of_emit_other. intro Y. subst. now rewrite bytes_eqb_refl in X.
Qed.

Ltac norm :=
  unfold tr in *;
  cbn [s_jour s_brs s_nreg s_nop s_nconn finish set_brs bump_conn bump_reg add_ev emit set_cnt] in *;
  rewrite ?cmds_rev_emit, ?cmds_rev_cons; cbn [cmds_of]; rewrite ?app_nil_r.

Lemma neq_eqb a b : a <> b -> bytes_eqb a b = false.
Proof. intro H. destruct (bytes_eqb a b) eqn:X; [apply bytes_eqb_eq in X; contradiction|reflexivity]. Qed.

Lemma step_auto s g : Inv strict E s -> Inv strict E (do_auto E s g).
Proof.
  intros I. unfold do_auto.
  destruct (e_refuse E (s_nreg s)).
  - (* refused: nothing but the registration event *)
    destruct I as [I1 I2 I3 I4 I5 I6]. split; norm; auto.
    + intros r Hr. destruct (I1 r Hr) as (q & A & B & C). exists q. norm. auto.
    + intros r Hr. destruct (I2 r Hr) as (k & K1 & K2). exists k. split; [lia|auto].
    + intros id N O. specialize (I3 id N O). norm. exact I3.
    + intros r Hr. pose proof (I4 r Hr). lia.
  - set (xid := e_xid E g). set (b := e_bid E (s_nreg s)).
    set (s1 := add_ev (bump_conn (bump_reg s)) (EReg xid true b)).
    pose proof (auto_local_l (e_detach E) (e_fault E START (s_cnt s1 START)) (e_fault E STMT (s_cnt s1 STMT))
                  (e_fault E END_ (s_cnt s1 END_)) (e_fault E END_ (S (s_cnt s1 END_)))
                  (e_fault E PREPARE (s_cnt s1 PREPARE)) (e_fault E ROLLBACK (s_cnt s1 ROLLBACK))) as L.
    destruct (auto_local _ _ _ _ _ _ _) as [[[t d] kept] o].
    assert (L' : exists q, lfrom strict S0 t = Some q /\ agree q d /\ (is_prepared d = true -> kept = true)).
    { apply L. intros Hs Hf. exact (Hend Hs _ Hf). }
    clear L. destruct L' as (q & Lq & Aq & Kq).
    set (id := xa_id xid b).
    destruct I as [I1 I2 I3 I4 I5 I6].
    assert (Fresh : forall r, In r (s_brs s) -> rid r <> id).
    { intros r Hr X. destruct (I2 r Hr) as (k & K1 & K2).
      apply xa_id_inj in X. destruct X as [_ X]. rewrite K2 in X. apply Hbid in X. lia. }
    assert (T0 : tr s id = []).
    { apply I3; [apply xa_id_nonempty|exact Fresh]. }
    subst s1. split; norm.
    + intros r [<-|Hr].
      * exists q. norm. replace (rid (mk_br (s_nop s) xid b (s_nconn s) d kept)) with id by reflexivity.
        rewrite bytes_eqb_refl, T0. cbn [app]. auto.
      * destruct (I1 r Hr) as (q' & A & B & C). exists q'. norm.
        rewrite (neq_eqb id (rid r)) by (intro X; exact (Fresh r Hr (eq_sym X))). norm. auto.
    + intros r [<-|Hr].
      * exists (s_nreg s). cbn. split; [lia|reflexivity].
      * destruct (I2 r Hr) as (k & K1 & K2). exists k. split; [lia|auto].
    + intros id' N O. norm.
      rewrite (neq_eqb id id') by (intro X; exact (O _ (or_introl eq_refl) X)). norm.
      specialize (I3 id' N). norm. apply I3. intros r Hr. apply O. now right.
    + intros r [<-|Hr]; cbn; [lia|]. pose proof (I4 r Hr). lia.
    + cbn. constructor; [|exact I5].
      intro X. apply in_map_iff in X. destruct X as (r & X1 & X2). pose proof (I4 r X2). lia.
    + intros r1 r2 [<-|H1] [<-|H2] X; auto.
      * exfalso. exact (Fresh r2 H2 (eq_sym X)).
      * exfalso. exact (Fresh r1 H1 X).
Qed.

Lemma step_local s : Inv strict E s -> Inv strict E (do_local E s).
Proof.
  intros [I1 I2 I3 I4 I5 I6]. unfold do_local.
  set (t := [(STMT, if e_fault E STMT (s_cnt (bump_conn s) STMT) then RFault else ROk)]).
  split; norm; auto.
  - intros r Hr. destruct (I1 r Hr) as (q & A & B & C). exists q. norm.
    rewrite (neq_eqb [] (rid r)) by (intro X; symmetry in X; revert X; apply xa_id_nonempty). norm. auto.
  - intros id' N O. norm. rewrite (neq_eqb [] id') by congruence. norm.
    specialize (I3 id' N O). norm. exact I3.
  - intros r Hr. pose proof (I4 r Hr). lia.
Qed.

Lemma step_skip s : Inv strict E s -> Inv strict E (finish s OSkipped).
Proof.
  intros [I1 I2 I3 I4 I5 I6]. split; norm.
  - exact I1.
  - exact I2.
  - exact I3.
  - intros r Hr. pose proof (I4 r Hr). lia.
  - exact I5.
  - exact I6.
Qed.

Lemma in_put_new r r' l : In r l -> r_op r' = r_op r -> In r' (put_br r' l).
Proof.
  intros H Eo. induction l as [|y l IH]; cbn; [destruct H|].
  destruct (Nat.eqb (r_op y) (r_op r')) eqn:Z; [now left|]. right. destruct H as [->|H].
  - rewrite Eo, PeanoNat.Nat.eqb_refl in Z. discriminate.
  - now apply IH.
Qed.

Lemma in_put_old x r' l : In x l -> r_op x <> r_op r' -> In x (put_br r' l).
Proof.
  intros H Eo. induction l as [|y l IH]; cbn; [destruct H|].
  destruct (Nat.eqb (r_op y) (r_op r')) eqn:Z.
  - apply PeanoNat.Nat.eqb_eq in Z. destruct H as [->|H]; [contradiction|now right].
  - destruct H as [->|H]; [now left|right; now apply IH].
Qed.

Lemma nodup_op_eq l x r : NoDup (map r_op l) -> In x l -> In r l -> r_op x = r_op r -> x = r.
Proof.
  induction l as [|y l IH]; intros ND Hx Hr Eo; [destruct Hx|].
  cbn in ND. inversion ND as [|? ? Hn ND']; subst.
  destruct Hx as [->|Hx], Hr as [->|Hr]; auto.
  - exfalso. apply Hn. rewrite Eo. now apply in_map.
  - exfalso. apply Hn. rewrite <- Eo. now apply in_map.
Qed.

Lemma step_p2 s t commit stranger : Inv strict E s -> Inv strict E (do_p2 E s t commit stranger).
Proof.
  intro I. unfold do_p2.
  destruct (find_br t (s_brs s)) as [r|] eqn:F; [|now apply step_skip].
  destruct (is_prepared (r_db r) && negb (r_fin r)) eqn:G; [|now apply step_skip].
  apply andb_true_iff in G. destruct G as [G1 G2]. apply negb_true_iff in G2.
  apply find_br_in in F. destruct F as [Fin Fop].
  destruct I as [I1 I2 I3 I4 I5 I6].
  destruct (I1 r Fin) as (q & A & B & C).
  set (c := if commit then COMMIT else ROLLBACK).
  pose proof (p2_local_legal (e_detach E) (e_fault E c (s_cnt s c)) (r_db r) (r_kept r) commit stranger q B G1 (C G2)) as L.
  destruct (p2_local _ _ _ _ _ _) as [[cr d] kept1].
  destruct L as (q' & L1 & L2 & L3).
  assert (Lq : lfrom strict q [cr] = Some q') by (destruct strict; assumption).
  set (id := xa_id (r_xid r) (r_b r)).
  set (r' := {| r_op := r_op r; r_xid := r_xid r; r_b := r_b r; r_conn := r_conn r; r_db := d; r_kept := false; r_fin := true |}).
  assert (Rid : rid r' = rid r) by reflexivity.
  assert (Other : forall x, In x (s_brs s) -> r_op x <> r_op r' -> bytes_eqb id (rid x) = false).
  { intros x Hx Hn. apply neq_eqb. intro X. apply Hn. cbn [r' r_op]. apply (I6 x r Hx Fin). now rewrite <- X. }
  destruct kept1, stranger; (split; norm; auto;
  [ intros x Hx; destruct (put_br_in r' _ x I5 Hx) as [->|[Hx1 Hx2]];
    [ exists q'; norm; rewrite Rid; fold id; rewrite bytes_eqb_refl, lfrom_app; norm;
      change (xa_id (r_xid r) (r_b r)) with (rid r); rewrite A; repeat split; auto; cbn; discriminate
    | destruct (I1 x Hx1) as (qx & Ax & Bx & Cx); exists qx; norm; rewrite (Other x Hx1 Hx2); norm; auto ]
  | intros x Hx; destruct (put_br_in r' _ x I5 Hx) as [->|[Hx1 Hx2]]; [exact (I2 r Fin)|exact (I2 x Hx1)]
  | intros id' N O; norm;
    rewrite (neq_eqb id id') by (intro X; exact (O r' (in_put_new r r' _ Fin eq_refl) X)); norm;
    specialize (I3 id' N); norm; apply I3; intros x Hx Y;
    destruct (PeanoNat.Nat.eq_dec (r_op x) (r_op r)) as [Eo|Eo];
    [ rewrite (nodup_op_eq _ x r I5 Hx Fin Eo) in Y; exact (O r' (in_put_new r r' _ Fin eq_refl) Y)
    | exact (O x (in_put_old x r' _ Hx Eo) Y) ]
  | intros x Hx; destruct (put_br_in r' _ x I5 Hx) as [->|[Hx1 Hx2]];
    [ cbn; pose proof (I4 r Fin); lia | pose proof (I4 x Hx1); lia ]
  | rewrite put_br_map_op; exact I5
  | intros x1 x2 H1 H2 X;
    destruct (put_br_in r' _ x1 I5 H1) as [->|[A1 B1]], (put_br_in r' _ x2 I5 H2) as [->|[A2 B2]]; auto;
    [ cbn [r' r_op]; symmetry; apply (I6 x2 r A2 Fin); now rewrite <- X
    | cbn [r' r_op]; apply (I6 x1 r A1 Fin); now rewrite X ] ]).
Qed.

Lemma step_inv s o : Inv strict E s -> Inv strict E (step E s o).
Proof.
  destruct o; cbn [step]; [apply step_auto|apply step_local|apply step_p2|apply step_skip].
Qed.

Lemma run_inv_from p : forall s, Inv strict E s -> Inv strict E (fold_left (step E) p s).
Proof. induction p as [|o p IH]; intros s I; cbn; [assumption|]. apply IH. now apply step_inv. Qed.

Lemma run_inv p : Inv strict E (run E p).
Proof. apply run_inv_from. apply inv_init. Qed.

Lemma run_lfrom p id : id <> [] -> exists q, lfrom strict S0 (cmds_of id (journal E p)) = Some q.
Proof.
  intro N. pose proof (run_inv p) as I. unfold journal. fold (tr (run E p) id).
  destruct (existsb (fun r => bytes_eqb (rid r) id) (s_brs (run E p))) eqn:X.
  - apply existsb_exists in X. destruct X as (r & Hr & Hb). apply bytes_eqb_eq in Hb. subst id.
    destruct (i_recs _ _ _ I r Hr) as (q & A & _). now exists q.
  - rewrite (i_other _ _ _ I id N).
    + exists S0. destruct strict; reflexivity.
    + intros r Hr Y. assert (existsb (fun r => bytes_eqb (rid r) id) (s_brs (run E p)) = true).
      { apply existsb_exists. exists r. split; [assumption|]. rewrite Y. apply bytes_eqb_refl. }
      congruence.
Qed.
End Step.

Theorem legal_all E p id :
  uniq_bid E -> no_double_end E -> id <> [] -> legal_trace (cmds_of id (journal E p)) = true.
Proof.
  intros U D N. unfold legal_trace.
  destruct (run_lfrom true E U (fun _ => D) p id N) as (q & Hq). cbn [lfrom] in Hq. now rewrite Hq.
Qed.

Theorem accepted_all E p id :
  uniq_bid E -> id <> [] -> accepted_legal (cmds_of id (journal E p)) = true.
Proof.
  intros U N. unfold accepted_legal.
  destruct (run_lfrom false E U (fun H => False_ind _ (Bool.diff_false_true H)) p id N) as (q & Hq).
  cbn [lfrom] in Hq. now rewrite Hq.
Qed.

(* never COMMIT without a successful PREPARE, spelled out on traces *)
Lemma accepted_commit_needs_prepare t : forall s q,
  accepted_from s t = Some q -> In (COMMIT, ROk) t ->
  s = SP \/ In (PREPARE, ROk) t.
Proof.
  induction t as [|[c r] t IH]; intros s q A H; [destruct H|].
  cbn in A. destruct H as [H|H].
  - injection H as -> ->. destruct s; cbn in A; try discriminate. now left.
  - destruct r; try (destruct (IH _ _ A H); [now left | right; now right]).
    destruct (sstep s c) as [s'|] eqn:S; [|discriminate].
    destruct (IH _ _ A H) as [->|X]; [|right; now right].
    destruct s, c; cbn in S; try discriminate. right. now left.
Qed.

Theorem commit_needs_prepare E p id :
  uniq_bid E -> id <> [] -> In (COMMIT, ROk) (cmds_of id (journal E p)) -> In (PREPARE, ROk) (cmds_of id (journal E p)).
Proof.
  intros U N H. pose proof (accepted_all E p id U N) as A. unfold accepted_legal in A.
  destruct (accepted_from S0 (cmds_of id (journal E p))) as [q|] eqn:X; [|discriminate].
  destruct (accepted_commit_needs_prepare _ _ _ X H) as [Y|Y]; [discriminate|assumption].
Qed.

(* ================================================================ registration first *)

Lemma reg_scan_app a : forall p b,
  reg_scan p (a ++ b) = match reg_scan p a with Some p' => reg_scan p' b | None => None end.
Proof.
  induction a as [|e a IH]; intros p b; cbn; [reflexivity|].
  destruct e as [x [|] n|c k i r|c]; auto.
  destruct k; auto. destruct p as [[x n]|]; auto. destruct (bytes_eqb i (xa_id x n)); auto.
Qed.

Lemma reg_scan_nostart conn id t : count_cmd START t = 0%nat -> forall p,
  reg_scan p (map (fun cr => ESql conn (fst cr) id (snd cr)) t) = Some p.
Proof.
  induction t as [|[c r] t IH]; intros H p; cbn; [reflexivity|].
  cbn in H. destruct c; cbn in *; try discriminate; auto.
Qed.

Lemma auto_local_shape detach fS fM fE fE2 fP fR :
  let '(t, _, _, _) := auto_local detach fS fM fE fE2 fP fR in
  exists r1 rest, t = (START, r1) :: rest /\ count_cmd START rest = 0%nat.
Proof. bools; cbn; eexists; eexists; split; reflexivity. Qed.

Lemma reg_scan_reg p x b j : reg_scan p (EReg x true b :: j) = reg_scan (Some (x, b)) j.
Proof. reflexivity. Qed.
Lemma reg_scan_start x b c r j : reg_scan (Some (x, b)) (ESql c START (xa_id x b) r :: j) = reg_scan None j.
Proof. cbn [reg_scan]. now rewrite bytes_eqb_refl. Qed.

Lemma reg_emit conn id t j : count_cmd START t = 0%nat ->
  reg_scan None (List.rev j) = Some None ->
  reg_scan None (List.rev (List.rev (map (fun cr => ESql conn (fst cr) id (snd cr)) t) ++ j)) = Some None.
Proof.
  intros C H. rewrite rev_app_distr, rev_involutive, reg_scan_app, H. now apply reg_scan_nostart.
Qed.

Definition reg_inv (s : st) : Prop := reg_scan None (List.rev (s_jour s)) = Some None.

Lemma reg_step E s o : reg_inv s -> reg_inv (step E s o).
Proof.
  unfold reg_inv. intro H. destruct o as [g| |t c x|]; cbn [step].
  - unfold do_auto. destruct (e_refuse E (s_nreg s)).
    + cbn [finish add_ev bump_conn bump_reg s_jour List.rev]. now rewrite reg_scan_app, H.
    + pose proof (auto_local_shape (e_detach E)
        (e_fault E START (s_cnt (add_ev (bump_conn (bump_reg s)) (EReg (e_xid E g) true (e_bid E (s_nreg s)))) START))
        (e_fault E STMT (s_cnt (add_ev (bump_conn (bump_reg s)) (EReg (e_xid E g) true (e_bid E (s_nreg s)))) STMT))
        (e_fault E END_ (s_cnt (add_ev (bump_conn (bump_reg s)) (EReg (e_xid E g) true (e_bid E (s_nreg s)))) END_))
        (e_fault E END_ (S (s_cnt (add_ev (bump_conn (bump_reg s)) (EReg (e_xid E g) true (e_bid E (s_nreg s)))) END_)))
        (e_fault E PREPARE (s_cnt (add_ev (bump_conn (bump_reg s)) (EReg (e_xid E g) true (e_bid E (s_nreg s)))) PREPARE))
        (e_fault E ROLLBACK (s_cnt (add_ev (bump_conn (bump_reg s)) (EReg (e_xid E g) true (e_bid E (s_nreg s)))) ROLLBACK))) as L.
      destruct (auto_local _ _ _ _ _ _ _) as [[[t d] kept] o]. destruct L as (r1 & rest & -> & Hc).
      cbn [finish set_brs emit add_ev bump_conn bump_reg s_jour].
      rewrite rev_app_distr, rev_involutive. cbn [List.rev map fst snd].
      rewrite <- app_assoc, reg_scan_app. rewrite H. rewrite <- app_comm_cons, app_nil_l, reg_scan_reg, reg_scan_start. now apply reg_scan_nostart.
  - unfold do_local. cbn [finish emit bump_conn s_jour]. apply reg_emit; [reflexivity|exact H].
  - unfold do_p2. destruct (find_br t (s_brs s)) as [r|]; [|exact H].
    destruct (is_prepared (r_db r) && negb (r_fin r)); [|exact H].
    destruct (p2_local _ _ _ _ _ _) as [[[k rs] d] kept1] eqn:P.
    assert (K : count_cmd START [(k, rs)] = 0%nat).
    { unfold p2_local in P. injection P as <- _ _ _. destruct c; reflexivity. }
    destruct kept1, x; cbn [finish set_brs emit add_ev bump_conn s_jour];
      apply reg_emit; auto; cbn [List.rev]; rewrite reg_scan_app, H; reflexivity.
  - exact H.
Qed.

Theorem reg_first_all E p : reg_first (journal E p) = true.
Proof.
  assert (forall l s, reg_inv s -> reg_inv (fold_left (step E) l s)) as F.
  { induction l as [|o l IH]; intros s H; cbn; [assumption|]. apply IH. now apply reg_step. }
  unfold reg_first, journal. specialize (F p init eq_refl). unfold reg_inv in F. unfold run. now rewrite F.
Qed.
