(* Theorems about the load-balance model: every candidate of every policy is a
   registered open session, nil only when nothing is open, the XID rule; and
   the (refuted / partial) re-announcement statement. *)
From Coq Require Import String Ascii.
From Coq Require Import List NArith Bool Lia.
From Coq Require Import ZifyN ZifyNat ZifyBool.
From SeataV Require Import Base.Bytes Remoting.LbModel.
Import ListNotations.
Open Scope N_scope.

(* ---- registered and open ---- *)
Definition live (st : state) (id : N) : Prop :=
  exists s, In s (st_sess st) /\ s_id s = id /\ s_closed s = false.

Lemma is_open_live st id : is_open st id = true <-> live st id.
Proof.
  unfold is_open, live. rewrite existsb_exists. split.
  - intros (s & Hin & H). apply andb_true_iff in H as [H1 H2].
    exists s. repeat split; auto. now apply N.eqb_eq.
    unfold is_open_s in H2. now destruct (s_closed s).
  - intros (s & Hin & H1 & H2). exists s. split; auto.
    apply andb_true_iff. split. now apply N.eqb_eq. unfold is_open_s. now rewrite H2.
Qed.

Lemma in_opens st s : In s (opens st) <-> In s (st_sess st) /\ s_closed s = false.
Proof.
  unfold opens. rewrite filter_In. unfold is_open_s. destruct (s_closed s); intuition discriminate.
Qed.

Lemma opens_live st s : In s (opens st) -> is_open st (s_id s) = true.
Proof.
  intro H. apply is_open_live. apply in_opens in H as [H1 H2]. exists s. auto.
Qed.

Lemma in_open_at st a s : In s (open_at st a) <-> In s (opens st) /\ s_addr s = a.
Proof.
  unfold open_at. rewrite filter_In. rewrite bytes_eqb_eq. tauto.
Qed.

Lemma rand_some st id : In (Some id) (rand st) -> is_open st id = true.
Proof.
  unfold rand, open_ids. destruct (map s_id (opens st)) eqn:E.
  - intros [H|[]]. discriminate.
  - rewrite <- E. intro H. apply in_map_iff in H as (x & Hx & Hin). inversion Hx; subst.
    apply in_map_iff in Hin as (s & <- & Hs). now apply opens_live.
Qed.

Lemma rand_none st : In None (rand st) -> open_ids st = [].
Proof.
  unfold rand. destruct (open_ids st) eqn:E; auto.
  intro H. apply in_map_iff in H as (x & Hx & _). discriminate.
Qed.

Lemma rand_nonempty st : rand st <> [].
Proof. unfold rand. destruct (open_ids st); discriminate. Qed.

Lemma map_some_in {A} (f : A -> N) l id :
  In (Some id) (map (fun s => Some (f s)) l) -> exists s, In s l /\ f s = id.
Proof.
  intro H. apply in_map_iff in H as (s & Hs & Hin). inversion Hs. eauto.
Qed.

Lemma map_some_none {A} (f : A -> N) l : ~ In None (map (fun s => Some (f s)) l).
Proof. intro H. apply in_map_iff in H as (s & Hs & _). discriminate. Qed.

(* ---- XID ---- *)
Lemma cand_xid_some st xid id : In (Some id) (cand_xid st xid) -> is_open st id = true.
Proof.
  unfold cand_xid. destruct (xid_target xid) as [a|]; [|apply rand_some].
  destruct (open_at st a) as [|s0 l0] eqn:E; [apply rand_some|]. rewrite <- E.
  intro H. apply map_some_in in H as (s & Hs & <-).
  apply in_open_at in Hs as [Hs _]. now apply opens_live.
Qed.

Lemma cand_xid_none st xid : In None (cand_xid st xid) -> open_ids st = [].
Proof.
  unfold cand_xid. destruct (xid_target xid) as [a|]; [|apply rand_none].
  destruct (open_at st a) as [|s0 l0] eqn:E; [apply rand_none|]. rewrite <- E.
  intro H. now apply map_some_none in H.
Qed.

(* ---- round robin ---- *)
Lemma cand_rr_some st id : In (Some id) (cand_rr st) -> is_open st id = true.
Proof.
  unfold cand_rr. destruct (opens st) as [|s0 l0] eqn:E.
  - intros [H|[]]. discriminate.
  - intro H. apply map_some_in in H as (x & Hx & <-).
    apply in_open_at in Hx as [Hx _]. now apply opens_live.
Qed.

Lemma cand_rr_none st : In None (cand_rr st) -> open_ids st = [].
Proof.
  unfold cand_rr, open_ids. destruct (opens st) eqn:E; auto.
  intro H. now apply map_some_none in H.
Qed.

(* ---- least active ---- *)
Lemma cand_la_some st id : In (Some id) (cand_la st) -> is_open st id = true.
Proof.
  unfold cand_la. destruct (opens st) as [|s0 l0] eqn:E.
  - intros [H|[]]. discriminate.
  - intro H. apply map_some_in in H as (x & Hx & <-).
    apply filter_In in Hx as [Hx _]. rewrite <- E in Hx. now apply opens_live.
Qed.

Lemma cand_la_none st : In None (cand_la st) -> open_ids st = [].
Proof.
  unfold cand_la, open_ids. destruct (opens st) eqn:E; auto.
  intro H. now apply map_some_none in H.
Qed.

(* ---- consistent hash ---- *)
Section Hash.
Variable hash : bytes -> N.

Lemma in_map_rand st (r : ring) c r0 :
  In (c, r0) (map (fun c => (c, r)) (rand st)) -> In c (rand st).
Proof. intro H. apply in_map_iff in H as (x & Hx & Hin). now inversion Hx; subst. Qed.

Lemma ch_some st key id r : In (Some id, r) (ch_outcomes hash st key) -> is_open st id = true.
Proof.
  unfold ch_outcomes.
  set (with_ring := fun r0 : ring => match succ r0 (hash key) with
    | None => map (fun c => (c, r0)) (rand st)
    | Some s => if is_open st s then [(Some s, r0)] else
        flat_map (fun r' => match succ r' (hash key) with
                  | None => map (fun c => (c, r')) (rand st)
                  | Some s' => if is_open st s' then [(Some s', r')] else map (fun c => (c, r')) (rand st)
                  end) (build_worlds hash st) end).
  assert (W : forall r0, In (Some id, r) (with_ring r0) -> is_open st id = true).
  { intros r0. unfold with_ring. destruct (succ r0 (hash key)) as [s|].
    - destruct (is_open st s) eqn:Es.
      + intros [H|[]]. now inversion H; subst.
      + intro H. apply in_flat_map in H as (r' & _ & H).
        destruct (succ r' (hash key)) as [s'|].
        * destruct (is_open st s') eqn:Es'.
          -- destruct H as [H|[]]. now inversion H; subst.
          -- apply in_map_rand in H. now apply rand_some.
        * apply in_map_rand in H. now apply rand_some.
    - intro H. apply in_map_rand in H. now apply rand_some. }
  destruct (st_ring st) as [r0|].
  - apply W.
  - intro H. apply in_flat_map in H as (r0 & _ & H). eapply W; eauto.
Qed.

Lemma ch_none st key r : In (None, r) (ch_outcomes hash st key) -> open_ids st = [].
Proof.
  unfold ch_outcomes.
  set (with_ring := fun r0 : ring => match succ r0 (hash key) with
    | None => map (fun c => (c, r0)) (rand st)
    | Some s => if is_open st s then [(Some s, r0)] else
        flat_map (fun r' => match succ r' (hash key) with
                  | None => map (fun c => (c, r')) (rand st)
                  | Some s' => if is_open st s' then [(Some s', r')] else map (fun c => (c, r')) (rand st)
                  end) (build_worlds hash st) end).
  assert (W : forall r0, In (None, r) (with_ring r0) -> open_ids st = []).
  { intros r0. unfold with_ring. destruct (succ r0 (hash key)) as [s|].
    - destruct (is_open st s) eqn:Es.
      + intros [H|[]]. discriminate.
      + intro H. apply in_flat_map in H as (r' & _ & H).
        destruct (succ r' (hash key)) as [s'|].
        * destruct (is_open st s') eqn:Es'.
          -- destruct H as [H|[]]. discriminate.
          -- apply in_map_rand in H. now apply rand_none.
        * apply in_map_rand in H. now apply rand_none.
    - intro H. apply in_map_rand in H. now apply rand_none. }
  destruct (st_ring st) as [r0|].
  - apply W.
  - intro H. apply in_flat_map in H as (r0 & _ & H). eapply W; eauto.
Qed.

(* ---- the selection theorems, for EVERY state (hence after every history) ---- *)
Lemma in_candidates p st xid c :
  In c (candidates hash p st xid) <-> exists st', In (c, st') (outcomes hash p st xid).
Proof.
  unfold candidates. rewrite in_map_iff. split.
  - intros ([c' st'] & <- & H). eauto.
  - intros (st' & H). exists (c, st'). auto.
Qed.

Theorem candidates_live p st xid id :
  In (Some id) (candidates hash p st xid) -> live st id.
Proof.
  intro H. apply is_open_live. apply in_candidates in H as (st' & H).
  destruct p; cbn [outcomes] in H; apply in_map_iff in H as (x & Hx & Hin); inversion Hx; subst.
  - now apply rand_some.
  - eapply cand_xid_some; eauto.
  - now apply cand_rr_some.
  - destruct x as [c r]. cbn in *. subst. eapply ch_some; eauto.
  - now apply cand_la_some.
Qed.

Theorem candidates_nil_only_when_none_open p st xid :
  In None (candidates hash p st xid) -> open_ids st = [].
Proof.
  intro H. apply in_candidates in H as (st' & H).
  destruct p; cbn [outcomes] in H; apply in_map_iff in H as (x & Hx & Hin); inversion Hx; subst.
  - now apply rand_none.
  - eapply cand_xid_none; eauto.
  - now apply cand_rr_none.
  - destruct x as [c r]. cbn in *. subst. eapply ch_none; eauto.
  - now apply cand_la_none.
Qed.

Lemma open_ids_nil_not_live st id : open_ids st = [] -> ~ live st id.
Proof.
  intros H (s & Hin & Hid & Hc).
  assert (In s (opens st)) by (apply in_opens; auto).
  unfold open_ids in H. destruct (opens st); [contradiction|discriminate].
Qed.

Theorem candidates_all_nil_when_none_open p st xid c :
  open_ids st = [] -> In c (candidates hash p st xid) -> c = None.
Proof.
  intros H Hin. destruct c as [id|]; auto.
  apply candidates_live in Hin. now apply open_ids_nil_not_live in Hin.
Qed.

(* XID: xid = ip:port:id and an open session connected to ip:port exists =>
   every candidate is an open session connected to ip:port *)
Theorem candidates_xid st xid a c :
  xid_target xid = Some a ->
  (exists s, In s (st_sess st) /\ s_closed s = false /\ s_addr s = a) ->
  In c (candidates hash PXid st xid) ->
  exists s, c = Some (s_id s) /\ In s (st_sess st) /\ s_closed s = false /\ s_addr s = a.
Proof.
  intros Ht (s0 & Hin0 & Hc0 & Ha0) H. subst a.
  apply in_candidates in H as (st' & H). cbn [outcomes] in H.
  apply in_map_iff in H as (x & Hx & Hin). injection Hx as Hxc Hst. subst x st'.
  unfold cand_xid in Hin. rewrite Ht in Hin.
  assert (In s0 (open_at st (s_addr s0))) by (apply in_open_at; split; auto; apply in_opens; auto).
  destruct (open_at st (s_addr s0)) as [|s1 l1] eqn:E; [contradiction|]. rewrite <- E in Hin.
  apply in_map_iff in Hin as (s & <- & Hs).
  apply in_open_at in Hs as [Hs Ha]. apply in_opens in Hs as [Hs Hc].
  exists s. repeat split; auto.
Qed.

(* ---- non-emptiness: Select always has an answer in the model ---- *)
Lemma insert_sorted_in a l x : In x (insert_sorted a l) <-> x = a \/ In x l.
Proof.
  induction l as [|b l IH]; cbn.
  - intuition.
  - destruct (bytes_leb a b); cbn; [intuition|]. rewrite IH. intuition.
Qed.

Lemma sort_bytes_in l x : In x (sort_bytes l) <-> In x l.
Proof.
  induction l as [|a l IH]; cbn; [tauto|].
  rewrite insert_sorted_in, IH. intuition.
Qed.

Lemma insert_sorted_length a l : length (insert_sorted a l) = S (length l).
Proof.
  induction l as [|b l IH]; cbn; auto. destruct (bytes_leb a b); cbn; auto.
Qed.

Lemma sort_bytes_length l : length (sort_bytes l) = length l.
Proof.
  unfold sort_bytes. induction l as [|a l IH]; cbn [fold_right]; auto.
  now rewrite insert_sorted_length, IH.
Qed.

Lemma dedup_length l : (length (dedup l) <= length l)%nat.
Proof.
  induction l as [|a l IH]; cbn; auto. destruct (existsb (bytes_eqb a) l); cbn; lia.
Qed.

Lemma dedup_nonempty l : l <> [] -> dedup l <> [].
Proof.
  induction l as [|a l IH]; [congruence|]. intros _. cbn.
  destruct (existsb (bytes_eqb a) l) eqn:E; [|discriminate].
  apply IH. destruct l; [discriminate|discriminate].
Qed.

Lemma dedup_in l x : In x (dedup l) -> In x l.
Proof.
  induction l as [|a l IH]; cbn; auto.
  destruct (existsb (bytes_eqb a) l); cbn; intuition.
Qed.

Lemma open_at_nonempty st a : In a (map s_addr (opens st)) -> open_at st a <> [].
Proof.
  intro H. apply in_map_iff in H as (s & Ha & Hs).
  assert (In s (open_at st a)) by (apply in_open_at; auto).
  destruct (open_at st a); [contradiction|discriminate].
Qed.

Lemma map_nonempty {A B} (f : A -> B) l : l <> [] -> map f l <> [].
Proof. destruct l; [congruence|discriminate]. Qed.

Lemma cand_rr_nonempty st : cand_rr st <> [].
Proof.
  unfold cand_rr. destruct (opens st) eqn:E; [discriminate|]. rewrite <- E.
  apply map_nonempty. apply open_at_nonempty.
  apply sort_bytes_in. apply nth_In.
  rewrite sort_bytes_length.
  assert (Hne : map s_addr (opens st) <> []) by (rewrite E; discriminate).
  pose proof (dedup_nonempty _ Hne) as Hd. pose proof (dedup_length (map s_addr (opens st))) as Hl.
  set (n := N.of_nat (length (dedup (map s_addr (opens st))))).
  assert (0 < n) by (unfold n; destruct (dedup (map s_addr (opens st))); [congruence|cbn; lia]).
  assert (st_seq st mod n < n) by (apply N.mod_lt; lia).
  unfold n in *. lia.
Qed.

Lemma min_act_attained st os : os <> [] ->
  exists s, In s os /\ act_of (st_act st) (s_addr s) = min_act st os.
Proof.
  intro H. unfold min_act. destruct os as [|s0 os]; [congruence|]. clear H.
  set (d := act_of (st_act st) (s_addr s0)).
  assert (G : forall l, fold_right (fun s m => N.min (act_of (st_act st) (s_addr s)) m) d l = d
              \/ exists s, In s l /\ act_of (st_act st) (s_addr s)
                 = fold_right (fun s m => N.min (act_of (st_act st) (s_addr s)) m) d l).
  { induction l as [|x l IH]; cbn; [now left|].
    destruct (N.min_spec (act_of (st_act st) (s_addr x))
               (fold_right (fun s m => N.min (act_of (st_act st) (s_addr s)) m) d l)) as [[_ ->]|[_ ->]].
    - right. exists x. auto.
    - destruct IH as [IH|(s & Hs & IH)]; [now left|]. right. exists s. auto. }
  destruct (G (s0 :: os)) as [G1|(s & Hs & G1)].
  - exists s0. split; [now left|]. now rewrite G1.
  - exists s. auto.
Qed.

Lemma cand_la_nonempty st : cand_la st <> [].
Proof.
  unfold cand_la. destruct (opens st) eqn:E; [discriminate|].
  apply map_nonempty.
  destruct (min_act_attained st (s :: l)) as (x & Hx & Hm); [discriminate|].
  assert (In x (filter (fun s0 => act_of (st_act st) (s_addr s0) =? min_act st (s :: l)) (s :: l))).
  { apply filter_In. split; auto. now apply N.eqb_eq. }
  destruct (filter _ (s :: l)); [contradiction|discriminate].
Qed.

Lemma cand_xid_nonempty st xid : cand_xid st xid <> [].
Proof.
  unfold cand_xid. destruct (xid_target xid); [|apply rand_nonempty].
  destruct (open_at st b) eqn:E; [apply rand_nonempty|discriminate].
Qed.

Lemma worlds_of_nonempty st addrs :
  (forall a, In a addrs -> open_at st a <> []) -> worlds_of hash st addrs <> [].
Proof.
  induction addrs as [|a addrs IH]; intro H; cbn; [discriminate|].
  assert (Ha : open_at st a <> []) by (apply H; now left).
  assert (Hw : worlds_of hash st addrs <> []) by (apply IH; intros; apply H; now right).
  destruct (open_at st a) as [|s l]; [congruence|]. cbn.
  destruct (worlds_of hash st addrs); [congruence|]. discriminate.
Qed.

Lemma build_worlds_nonempty st : build_worlds hash st <> [].
Proof.
  unfold build_worlds. apply worlds_of_nonempty.
  intros a Ha. apply open_at_nonempty. now apply dedup_in.
Qed.

Lemma flat_map_nonempty {A B} (f : A -> list B) l :
  l <> [] -> (forall x, In x l -> f x <> []) -> flat_map f l <> [].
Proof.
  destruct l as [|x l]; [congruence|]. intros _ H. cbn.
  specialize (H x (or_introl eq_refl)). destruct (f x); [congruence|discriminate].
Qed.

Lemma ch_nonempty st key : ch_outcomes hash st key <> [].
Proof.
  unfold ch_outcomes.
  set (with_ring := fun r0 : ring => match succ r0 (hash key) with
    | None => map (fun c => (c, r0)) (rand st)
    | Some s => if is_open st s then [(Some s, r0)] else
        flat_map (fun r' => match succ r' (hash key) with
                  | None => map (fun c => (c, r')) (rand st)
                  | Some s' => if is_open st s' then [(Some s', r')] else map (fun c => (c, r')) (rand st)
                  end) (build_worlds hash st) end).
  assert (W : forall r0, with_ring r0 <> []).
  { intro r0. unfold with_ring. destruct (succ r0 (hash key)).
    - destruct (is_open st n); [discriminate|].
      apply flat_map_nonempty; [apply build_worlds_nonempty|].
      intros r' _. destruct (succ r' (hash key)).
      + destruct (is_open st n0); [discriminate|]. apply map_nonempty, rand_nonempty.
      + apply map_nonempty, rand_nonempty.
    - apply map_nonempty, rand_nonempty. }
  destruct (st_ring st); [apply W|].
  apply flat_map_nonempty; [apply build_worlds_nonempty|]. intros; apply W.
Qed.

Theorem candidates_nonempty p st xid : candidates hash p st xid <> [].
Proof.
  unfold candidates. apply map_nonempty.
  destruct p; cbn [outcomes]; apply map_nonempty.
  - apply rand_nonempty.
  - apply cand_xid_nonempty.
  - apply cand_rr_nonempty.
  - apply ch_nonempty.
  - apply cand_la_nonempty.
Qed.

End Hash.

(* =================================================================== *)
(* Re-announcement *)
Lemma crun_log c evs c0 sent :
  In (c0, sent) (snd (crun c evs)) -> sent = on_open c0.
Proof.
  revert c. induction evs as [|e evs IH]; intros c H; cbn in H; [contradiction|].
  destruct (cstep c e) as [c' out] eqn:E. destruct (crun c' evs) as [cf rest] eqn:R.
  cbn in H. specialize (IH c'). rewrite R in IH. cbn in IH.
  destruct e as [t r sok|p|a ok]; cbn in E.
  - inversion E; subst; auto.
  - destruct (cl_cur c); inversion E; subst; auto.
  - destruct ok; inversion E; subst; auto. destruct H as [H|H]; [now inversion H|auto].
Qed.

Lemma dedupN_in l x : In x l -> In x (dedupN l).
Proof.
  induction l as [|a l IH]; cbn; [tauto|]. intros [->|H].
  - destruct (existsb (N.eqb x) l) eqn:E; [|now left].
    apply IH. apply existsb_exists in E as (y & Hy & Hxy). apply N.eqb_eq in Hxy. now subst.
  - destruct (existsb (N.eqb a) l); [auto|right; auto].
Qed.

Lemma on_open_announces rs t r :
  In (t, r) rs ->
  In (RegisterRM (sort_bytes (ids_of rs t))) (map (fun t => RegisterRM (sort_bytes (ids_of rs t))) (branch_types rs))
  /\ In r (sort_bytes (ids_of rs t)).
Proof.
  intro H. split.
  - apply (in_map (fun t0 => RegisterRM (sort_bytes (ids_of rs t0)))).
    apply dedupN_in. apply (in_map fst rs (t, r)). exact H.
  - apply (proj2 (sort_bytes_in (fun _ => 0) _ _)). unfold ids_of.
    apply (in_map snd (filter (fun x => fst x =? t) rs) (t, r)).
    apply filter_In. split; auto. cbn. apply N.eqb_refl.
Qed.

(* THE re-announcement theorem (full, after the fix): over ALL histories of
   register-resource / connection-lost (session still open or already closed by the
   peer) / reconnect (to any address, with or without a failing first write) events,
   every session that gets established carries RegisterTM and, for every resource
   the client holds, of whatever branch type, a RegisterRM naming it *)
Theorem reannounce_full evs c sent :
  In (c, sent) (snd (crun cinit evs)) ->
  In RegisterTM sent /\
  forall t r, In (t, r) (cl_resources c) -> exists ids, In (RegisterRM ids) sent /\ In r ids.
Proof.
  intro H. apply crun_log in H. subst sent. split; [now left|].
  intros t r Hr. destruct (on_open_announces (cl_resources c) t r Hr) as [H1 H2].
  exists (sort_bytes (ids_of (cl_resources c) t)). split; [right; exact H1|exact H2].
Qed.

(* the same as the executable predicate the tie evaluates on the real run *)
Theorem reannounce_full_bool evs c sent :
  In (c, sent) (snd (crun cinit evs)) -> reannounced c sent = true.
Proof.
  intro H. destruct (reannounce_full evs c sent H) as [Htm Hrm].
  unfold reannounced. apply andb_true_iff. split.
  - unfold has_tm. apply existsb_exists. exists RegisterTM. auto.
  - apply forallb_forall. intros [t r] Hin. cbn [snd].
    destruct (Hrm t r Hin) as (ids & Hs & Hr).
    unfold announces. apply existsb_exists. exists (RegisterRM ids). split; auto.
    apply existsb_exists. exists r. split; auto. apply bytes_eqb_refl.
Qed.

(* nothing extra on a client without resources: the first connection is unaffected *)
Lemma on_open_no_resources c : cl_resources c = [] -> on_open c = [RegisterTM].
Proof. intro H. unfold on_open. now rewrite H. Qed.

(* every REGISTERED open session is an announced one: after any history (connections
   lost in either way, reconnects to any address, failed first writes on a fresh
   connection, resources registered while connected or not) a connected client has had
   RegisterTM written successfully on its session, and every resource it holds has been
   announced on that session or is pending (its own announcement failed on this session:
   it is held all the same and the next session is told, theorem reannounce_full) *)
Definition announced_inv (c : client) : Prop :=
  cl_connected c = true ->
  cl_tm c = true /\ (forall x, In x (cl_resources c) -> In x (cl_rm c) \/ In x (cl_pending c)).

Lemma cstep_announced c e : announced_inv c -> announced_inv (fst (cstep c e)).
Proof.
  unfold announced_inv. intro H.
  destruct e as [t r sok|p|a ok]; cbn.
  - unfold cl_connected in *. cbn. destruct (cl_cur c) eqn:E; [|discriminate].
    intros _. destruct (H eq_refl) as [H1 H2]. split; auto.
    intros x Hx. apply in_app_or in Hx as [Hx|Hx].
    + destruct (H2 x Hx); destruct sok; cbn; [left|left|right|right]; auto; apply in_or_app; auto.
    + destruct sok; cbn; [left|right]; apply in_or_app; auto.
  - unfold cl_connected in *. destruct (cl_cur c) eqn:E; cbn; [discriminate|rewrite E; exact H].
  - unfold cl_connected. destruct ok; cbn; [auto|discriminate].
Qed.

Lemma crun_announced evs : forall c, announced_inv c -> announced_inv (fst (crun c evs)).
Proof.
  induction evs as [|e evs IH]; intros c H; cbn; [exact H|].
  pose proof (cstep_announced c e H) as H1.
  destruct (cstep c e) as [c' out]. specialize (IH c' H1).
  destruct (crun c' evs) as [cf rest]. exact IH.
Qed.

Theorem registered_announced evs :
  cl_connected (fst (crun cinit evs)) = true ->
  cl_tm (fst (crun cinit evs)) = true
  /\ forall x, In x (cl_resources (fst (crun cinit evs))) ->
       In x (cl_rm (fst (crun cinit evs))) \/ In x (cl_pending (fst (crun cinit evs))).
Proof. apply (crun_announced evs cinit). unfold announced_inv. cbn. discriminate. Qed.

(* a failed announcement leaves nothing registered *)
Lemma failed_announcement_not_registered c a :
  cl_connected (fst (cstep c (CReconnect a false))) = false
  /\ cl_all (fst (cstep c (CReconnect a false))) = cl_all c.
Proof. cbn. auto. Qed.

(* the per-address map: a connection lost with the session already closed leaves
   its entry behind; one lost while open removes it *)
Lemma stale_entry_stays c a :
  cl_cur c = Some a ->
  cnt_of (cl_server (fst (cstep c (CConnLost true)))) a = cnt_of (cl_server c) a.
Proof. intro H. cbn. now rewrite H. Qed.
