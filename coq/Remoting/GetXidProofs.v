(* B1 obligation of C19's XID clause in the integrated path: every message type with
   an Xid field that the client sends is understood by SessionManager.getXid — named
   in a type assertion / type-switch case, or reached by the reflection fallback on a
   field "Xid".  The table is regenerated from the source on every run
   (tools/xlate getxid -> Gen/GetXidTable.v). *)
From Coq Require Import String List Bool.
From SeataV Require Import Gen.GetXidTable.
Import ListNotations.
Local Open Scope string_scope.

Definition getxid_understands (t : string) : bool :=
  go_getxid_fallback || existsb (String.eqb t) go_getxid_named.

Definition getxid_table_ok : bool :=
  forallb getxid_understands go_xid_messages
  && match go_getxid_unrecognised with [] => true | _ => false end
  && match go_xid_messages with [] => false | _ => true end.

Lemma go_getxid_table_ok : getxid_table_ok = true.
Proof. vm_compute. reflexivity. Qed.

Theorem go_getxid_covers t :
  In t go_xid_messages -> go_getxid_fallback = true \/ In t go_getxid_named.
Proof.
  intro H. pose proof go_getxid_table_ok as T. unfold getxid_table_ok in T.
  apply andb_true_iff in T as [T _]. apply andb_true_iff in T as [T _].
  rewrite forallb_forall in T. specialize (T t H). unfold getxid_understands in T.
  apply orb_true_iff in T as [T|T]; [now left|right].
  apply existsb_exists in T as (x & Hx & E). apply String.eqb_eq in E. now subst.
Qed.

(* the lock query is one of them (what a dropped case would lose) *)
Lemma go_xid_messages_has_lock_query : In "GlobalLockQueryRequest" go_xid_messages.
Proof. vm_compute. tauto. Qed.
