(* C15 — proofs about the phase-two processing model (ProcessorModel.v). *)
From Coq Require Import String List NArith ZArith Bool Permutation Lia.
From SeataV Require Import Remoting.ProcessorModel.
Import ListNotations.
Open Scope string_scope.

Lemma plookup_in c d p : plookup c d = Some p -> In (c, p) d.
Proof.
  induction d as [|[c' p'] r IH]; cbn; [discriminate|].
  destruct (N.eqb c c') eqn:E.
  - apply N.eqb_eq in E. intro H. inversion H; subst. now left.
  - intro H. right. auto.
Qed.

Lemma row_ok_process ref row mgrs r o :
  p_sends ref = 1%nat -> p_rc_err ref = 0%N -> p_rc_ok ref = 1%N ->
  row_ok ref row = true -> process_row row mgrs r o = process_row ref mgrs r o.
Proof.
  intros HS HE HO H. unfold row_ok in H.
  repeat (apply andb_true_iff in H; destruct H as [H ?]).
  cbn [forallb] in *.
  repeat match goal with
         | X : _ && _ = true |- _ => apply andb_true_iff in X; destruct X
         | X : (_ =? _)%string = true |- _ => apply String.eqb_eq in X
         | X : N.eqb _ _ = true |- _ => apply N.eqb_eq in X
         | X : (_ =? _)%nat = true |- _ => apply Nat.eqb_eq in X
         end.
  unfold process_row.
  repeat match goal with X : _ = _ |- _ => rewrite X; clear X end.
  reflexivity.
Qed.

(* how the row registered for a type code treats a manager error *)
Definition mode_of (d : list (N * proc)) (c : N) : N :=
  match plookup c d with Some (PPhase2 row) => p_err_mode row | _ => 0%N end.

Lemma wf_rows d :
  wf_dispatch d = true ->
  (exists rc, plookup 3 d = Some (PPhase2 rc) /\ row_ok (commit_row (p_err_mode rc)) rc = true) /\
  (exists rr, plookup 5 d = Some (PPhase2 rr) /\ row_ok (rollback_row (p_err_mode rr)) rr = true) /\
  (forall c row, plookup c d = Some (PPhase2 row) -> c = 3%N \/ c = 5%N).
Proof.
  unfold wf_dispatch. intro H. apply andb_true_iff in H. destruct H as [H1 H2].
  destruct (plookup 3 d) as [[rc|]|] eqn:L3; try discriminate.
  destruct (plookup 5 d) as [[rr|]|] eqn:L5; try discriminate.
  repeat (apply andb_true_iff in H1; destruct H1 as [H1 ?]).
  split; [eauto|]. split; [eauto|].
  intros c row L. apply plookup_in in L. rewrite forallb_forall in H2. specialize (H2 _ L). cbn in H2.
  apply orb_true_iff in H2. destruct H2 as [H2|H2].
  - left. now apply N.eqb_eq.
  - right. now apply N.eqb_eq.
Qed.

Definition meth_of (code : N) : string := if N.eqb code 3 then "BranchCommit" else "BranchRollback".
Definition resp_of (code : N) : string := if N.eqb code 3 then "BranchCommitResponse" else "BranchRollbackResponse".

(* silence after a manager error: always (mode 1) or only without a status to report (mode 2) *)
Definition silent (mode st : N) : bool := N.eqb mode 1 || (N.eqb mode 2 && N.eqb st 0).

(* what a well-formed dispatch does with a request, in closed form *)
Definition expected (mode : N) (mgrs : list N) (r : req) (o : outcome) : list wev :=
  if N.eqb (r_code r) 3 || N.eqb (r_code r) 5 then
    if existsb (N.eqb (r_btype r)) mgrs then
      let c := Consult (r_btype r) (meth_of (r_code r)) (VN (r_xid r)) (VZ (r_branch r)) (VN (r_resource r)) (VN (r_data r)) in
      match o with
      | OPanic => [c; Panic]
      | ORet st failed =>
          if failed && silent mode st then [c]
          else [c; Respond (resp_of (r_code r)) (VZ (r_id r)) (VN (r_xid r)) (VZ (r_branch r)) (VN st)
                           (if failed then 0 else 1)%N]
      end
    else [Panic]
  else [].

Lemma process_expected d mgrs r o :
  wf_dispatch d = true -> process d mgrs r o = expected (mode_of d (r_code r)) mgrs r o.
Proof.
  intro W. destruct (wf_rows d W) as ((rc & L3 & K3) & (rr & L5 & K5) & ONLY).
  unfold process, expected, mode_of.
  destruct (N.eqb (r_code r) 3) eqn:E3; [|destruct (N.eqb (r_code r) 5) eqn:E5].
  - apply N.eqb_eq in E3. rewrite E3, L3. cbn [orb].
    rewrite (row_ok_process (commit_row (p_err_mode rc)) rc) by (reflexivity || exact K3).
    unfold process_row, meth_of, resp_of, silent. cbn -[existsb N.eqb andb orb].
    destruct (existsb (N.eqb (r_btype r)) mgrs); [|reflexivity].
    destruct o as [st [|]|]; cbn -[N.eqb]; try reflexivity.
  - apply N.eqb_eq in E5. rewrite E5, L5. cbn [orb].
    rewrite (row_ok_process (rollback_row (p_err_mode rr)) rr) by (reflexivity || exact K5).
    unfold process_row, meth_of, resp_of, silent. cbn -[existsb N.eqb andb orb].
    destruct (existsb (N.eqb (r_btype r)) mgrs); [|reflexivity].
    destruct o as [st [|]|]; cbn -[N.eqb]; try reflexivity.
  - cbn [orb]. destruct (plookup (r_code r) d) as [[row|nm]|] eqn:L; try reflexivity.
    destruct (ONLY _ _ L) as [X|X]; rewrite X in *; discriminate.
Qed.

Theorem route d mgrs r o m meth x b rs dt :
  wf_dispatch d = true -> In (Consult m meth x b rs dt) (process d mgrs r o) ->
  m = r_btype r /\ existsb (N.eqb m) mgrs = true
  /\ ((r_code r = 3%N /\ meth = "BranchCommit") \/ (r_code r = 5%N /\ meth = "BranchRollback"))
  /\ x = VN (r_xid r) /\ b = VZ (r_branch r) /\ rs = VN (r_resource r) /\ dt = VN (r_data r).
Proof.
  intros W I. rewrite (process_expected d mgrs r o W) in I. unfold expected in I.
  destruct (N.eqb (r_code r) 3) eqn:E3; [|destruct (N.eqb (r_code r) 5) eqn:E5]; cbn [orb] in I;
    try contradiction;
    (destruct (existsb (N.eqb (r_btype r)) mgrs) eqn:EX;
     [|destruct I as [I|[]]; discriminate]);
    assert (C : Consult m meth x b rs dt = Consult (r_btype r) (meth_of (r_code r)) (VN (r_xid r)) (VZ (r_branch r)) (VN (r_resource r)) (VN (r_data r)))
      by (destruct o as [st [|]|]; cbn in I;
          try (destruct (silent (mode_of d (r_code r)) st); cbn in I); intuition congruence);
    inversion C; subst; unfold meth_of; rewrite ?E3, ?E5; cbn;
    repeat split; auto.
  - left. split; [now apply N.eqb_eq|reflexivity].
  - right. split; [now apply N.eqb_eq|reflexivity].
Qed.

Theorem echo d mgrs r st :
  wf_dispatch d = true -> (r_code r = 3%N \/ r_code r = 5%N) ->
  existsb (N.eqb (r_btype r)) mgrs = true ->
  process d mgrs r (ORet st false) =
    [Consult (r_btype r) (meth_of (r_code r)) (VN (r_xid r)) (VZ (r_branch r)) (VN (r_resource r)) (VN (r_data r));
     Respond (resp_of (r_code r)) (VZ (r_id r)) (VN (r_xid r)) (VZ (r_branch r)) (VN st) 1%N].
Proof.
  intros W C EX. rewrite (process_expected d mgrs r _ W). unfold expected. rewrite EX.
  destruct C as [C|C]; rewrite C; reflexivity.
Qed.

Definition is_respond (e : wev) : bool := match e with Respond _ _ _ _ _ _ => true | _ => false end.

(* every response on the wire: the request's kind, id, xid, branch id, the status the
   manager returned, and result code Success exactly when the manager did not fail *)
Theorem respond_only_truthful d mgrs r o resp i x b s rc :
  wf_dispatch d = true -> In (Respond resp i x b s rc) (process d mgrs r o) ->
  exists st failed, o = ORet st failed /\ s = VN st /\ i = VZ (r_id r) /\ x = VN (r_xid r) /\ b = VZ (r_branch r)
             /\ resp = resp_of (r_code r) /\ rc = (if failed then 0 else 1)%N.
Proof.
  intros W I. rewrite (process_expected d mgrs r o W) in I. unfold expected in I.
  destruct (N.eqb (r_code r) 3 || N.eqb (r_code r) 5); [|contradiction].
  destruct (existsb (N.eqb (r_btype r)) mgrs); [|destruct I as [I|[]]; discriminate].
  destruct o as [st failed|]; cbn in I.
  - destruct (failed && silent (mode_of d (r_code r)) st); cbn in I.
    + destruct I as [I|[]]; discriminate.
    + destruct I as [I|[I|[]]]; [discriminate|]. inversion I; subst. exists st, failed. repeat split; reflexivity.
  - destruct I as [I|[I|[]]]; discriminate.
Qed.

(* at most one response per request, whatever the manager did *)
Theorem at_most_one_response d mgrs r o :
  wf_dispatch d = true -> (length (filter is_respond (process d mgrs r o)) <= 1)%nat.
Proof.
  intro W. rewrite (process_expected d mgrs r o W). unfold expected.
  destruct (N.eqb (r_code r) 3 || N.eqb (r_code r) 5); [|cbn; lia].
  destruct (existsb (N.eqb (r_btype r)) mgrs); [|cbn; lia].
  destruct o as [st failed|]; [|cbn; lia].
  destruct (failed && silent (mode_of d (r_code r)) st); cbn; lia.
Qed.

(* success statuses of phase two *)
Definition success_status (s : val) : bool :=
  match s with VN n => N.eqb n 5 || N.eqb n 8 | _ => false end.

(* the manager failed (an error with a status that is not itself a success status, or a
   panic): no response says success — neither by its status nor by its result code *)
Theorem no_false_success d mgrs r o :
  wf_dispatch d = true ->
  (o = OPanic \/ exists st, o = ORet st true /\ success_status (VN st) = false) ->
  forall resp i x b s rc, In (Respond resp i x b s rc) (process d mgrs r o) ->
    success_status s = false /\ rc = 0%N.
Proof.
  intros W F resp i x b s rc I.
  destruct (respond_only_truthful _ _ _ _ _ _ _ _ _ _ W I) as (st & failed & E & -> & _ & _ & _ & _ & ->).
  destruct F as [->|(st' & -> & NS)]; [discriminate|]. inversion E; subst. now split.
Qed.

(* a panicking manager is never answered *)
Theorem panic_no_response d mgrs r :
  wf_dispatch d = true -> forallb (fun e => negb (is_respond e)) (process d mgrs r OPanic) = true.
Proof.
  intro W. rewrite (process_expected d mgrs r _ W). unfold expected.
  destruct (N.eqb (r_code r) 3 || N.eqb (r_code r) 5); [|reflexivity].
  destruct (existsb (N.eqb (r_btype r)) mgrs); reflexivity.
Qed.

(* the hypothesis on the manager's status is needed where a failure status is passed on
   (mode 2): a manager that returns an error TOGETHER WITH a success status gets that
   status reported (with result code Failed) *)
Lemma false_success_refuted_mode2 :
  exists r st, success_status (VN st) = true /\
    In (Respond "BranchCommitResponse" (VZ (r_id r)) (VN (r_xid r)) (VZ (r_branch r)) (VN st) 0%N)
       (process [(3%N, PPhase2 (commit_row 2)); (5%N, PPhase2 (rollback_row 2))] [1%N] r (ORet st true)).
Proof.
  exists (mkReq 3 7 1 100 1 2 0), 5%N. split; [reflexivity|]. vm_compute. right. now left.
Qed.

(* independence: the events of a request are a function of that request and of its
   manager outcome only (process has no other argument that varies), hence any
   reordering of the stream, and any interleaving of the per-request event
   lists, shows the same multiset of events *)
Theorem independent_perm d mgrs (s s' : stream) :
  Permutation s s' -> Permutation (concat (per_request d mgrs s)) (concat (per_request d mgrs s')).
Proof.
  intro P. unfold per_request. rewrite <- !flat_map_concat_map.
  induction P; cbn.
  - constructor.
  - now apply Permutation_app_head.
  - rewrite !app_assoc. apply Permutation_app_tail. apply Permutation_app_comm.
  - etransitivity; eauto.
Qed.

Lemma concat_all_nil {A} (ls : list (list A)) : Forall (fun l => l = []) ls -> concat ls = [].
Proof. induction 1; cbn; [reflexivity|]. subst. exact IHForall. Qed.

Theorem merge_perm {A} (ls : list (list A)) out : merge ls out -> Permutation (concat ls) out.
Proof.
  induction 1.
  - rewrite concat_all_nil by assumption. constructor.
  - rewrite concat_app in *. cbn in *.
    etransitivity; [apply Permutation_sym, Permutation_middle|].
    constructor. etransitivity; [|exact IHmerge]. reflexivity.
Qed.

Theorem independent d mgrs (s s' : stream) out out' :
  Permutation s s' -> merge (per_request d mgrs s) out -> merge (per_request d mgrs s') out' ->
  Permutation out out'.
Proof.
  intros P M M'. apply merge_perm in M. apply merge_perm in M'.
  etransitivity; [apply Permutation_sym; exact M|].
  etransitivity; [|exact M']. now apply independent_perm.
Qed.
