(* C14 — model of the pending-request table of the remoting client
   (pkg/remoting/getty: GettyRemotingClient.SendSyncRequest / SendAsyncRequest /
   SendAsyncResponse, GettyRemoting.sendAsync / NotifyRpcMessageResponse,
   syncCallback; processor/client: clientOnResponseProcessor,
   clientHeartBeatProcessor; message.NewMessageFuture).

   A labelled transition system.  getty hands every inbound message to its own
   task-pool goroutine, so the delivery of a reply is TWO atomic steps —
   EDeliver (look the future up, write Response, signal Done) and ERemove
   (delete the entry) — and any other step may happen in between; the wake-up of
   a waiter (EWake) and its timeout (ETimeout) are steps of their own as well.

   The five facts of the source the behaviour hangs on are a parameter (cfg),
   regenerated from the working tree by `xlate futures` (Gen/FuturesCfg.v):
   the theorems are proved for every configuration with good_cfg = true and the
   check proves good_cfg of the regenerated one.  Definitions only; proofs are
   in FuturesProofs.v. *)
From Coq Require Import List NArith ZArith Bool.
Import ListNotations.

(* ---- association lists (first match wins; remove deletes every match) ---- *)
Section Assoc.
  Context {K V : Type}.
  Variable eqb : K -> K -> bool.
  Fixpoint alookup (k : K) (l : list (K * V)) : option V :=
    match l with
    | [] => None
    | (k', v) :: r => if eqb k k' then Some v else alookup k r
    end.
  Fixpoint aremove (k : K) (l : list (K * V)) : list (K * V) :=
    match l with
    | [] => []
    | (k', v) :: r => if eqb k k' then aremove k r else (k', v) :: aremove k r
    end.
  Definition aupsert (k : K) (v : V) (l : list (K * V)) : list (K * V) :=
    (k, v) :: aremove k l.
End Assoc.

(* ---- what the source says (regenerated) ---- *)
Record cfg := mkCfg {
  c_cap : nat;            (* capacity of MessageFuture.Done *)
  c_nonblock : bool;      (* the completion signal is sent with select/default *)
  c_tmo_removes : bool;   (* the timeout branch of syncCallback removes the entry from `futures` *)
  c_store_nocb : bool;    (* sendAsync stores a future also when there is no callback *)
  c_pong_removes : bool;  (* the heartbeat processor removes the entry carrying the pong's id *)
  c_store_first : bool;   (* every delivery site writes MessageFuture.Response BEFORE it signals Done *)
  c_ids_plain : bool      (* request ids are int32(idGenerator.Inc()) at both send sites: what id_of models *)
}.

Definition good_cfg (c : cfg) : bool :=
  (1 <=? c_cap c)%nat && c_nonblock c && c_tmo_removes c
  && negb (c_store_nocb c) && negb (c_pong_removes c) && c_store_first c && c_ids_plain c.

(* the tree as pinned, before the repairs *)
Definition pinned_cfg : cfg := mkCfg 0 false false true true true true.
Definition fixed_cfg : cfg := mkCfg 1 true true false false true true.
(* the repaired table, but the payload written after the completion signal *)
Definition store_after_cfg : cfg := mkCfg 1 true true false false false true.

(* ---- ids: int32(uint32 counter), wrap explicit ---- *)
Definition two32 : N := 4294967296.
Definition id_of (n : N) : Z :=
  let u := (n mod two32)%N in
  if (u <? 2147483648)%N then Z.of_N u else (Z.of_N u - 4294967296)%Z.

(* ---- state ---- *)
Inductive wstat :=
| Waiting
| DoneOk (body : N)
| DoneErr (e : N).        (* 1 timeout, 2 write error, 3 no session, 4 returned (nil, nil): no reply, no error *)

Record waiter := mkW {
  w_n : N;                (* the counter value it drew *)
  w_id : Z;               (* = id_of w_n *)
  w_resp : option N;      (* MessageFuture.Response *)
  w_tok : nat;            (* signals buffered in Done *)
  w_stat : wstat
}.

Inductive owner :=
| OWaiter (k : N)         (* the future a waiter blocks on *)
| ONone (tok : nat).      (* a future nobody waits on (send without callback) *)

Record st := mkSt {
  ctr : N;                        (* client idGenerator (mathematical count; id_of wraps) *)
  hbc : N;                        (* listener idGenerator (heartbeats) *)
  live : bool;                    (* an open session is registered *)
  table : list (Z * owner);       (* GettyRemoting.futures *)
  waiters : list (N * waiter);
  premoves : list Z;              (* delivery goroutines between their two steps *)
  parked : nat                    (* delivery goroutines blocked for ever on Done *)
}.

Definition init (c0 h0 : N) (lv : bool) : st := mkSt c0 h0 lv [] [] [] 0.

Inductive ev :=
| ESend (w : N) (wfail : bool)    (* SendSyncRequest / SendAsyncRequest by waiter w; wfail: WritePkg fails *)
| EWrite (id : Z) (wfail : bool)  (* SendAsyncResponse(id, _): send without callback *)
| EHeartbeat (wfail : bool)       (* OnCron: id from the listener's own generator, no callback *)
| EDeliver (id : Z) (body : N)    (* reply, step 1 *)
| ERemove (id : Z)                (* reply, step 2 *)
| EWake (w : N)                   (* waiter takes the signal and returns Response *)
| ETimeout (w : N)                (* waiter's timer fires first *)
| EPong (id : Z)                  (* heartbeat answer *)
| EClose                          (* connection lost *)
| EOpen.                          (* a new session is registered *)

Definition getw (k : N) (s : st) : option waiter := alookup N.eqb k (waiters s).
Definition setw (k : N) (w : waiter) (s : st) : st :=
  mkSt (ctr s) (hbc s) (live s) (table s) (aupsert N.eqb k w (waiters s)) (premoves s) (parked s).
Definition set_table (t : list (Z * owner)) (s : st) : st :=
  mkSt (ctr s) (hbc s) (live s) t (waiters s) (premoves s) (parked s).
Definition add_premove (id : Z) (s : st) : st :=
  mkSt (ctr s) (hbc s) (live s) (table s) (waiters s) (id :: premoves s) (parked s).
Definition park (s : st) : st :=
  mkSt (ctr s) (hbc s) (live s) (table s) (waiters s) (premoves s) (S (parked s)).

Fixpoint remove1 (id : Z) (l : list Z) : option (list Z) :=
  match l with
  | [] => None
  | x :: r => if Z.eqb id x then Some r
              else match remove1 id r with Some r' => Some (x :: r') | None => None end
  end.

(* send without callback (response / heartbeat) *)
Definition write_nocb (c : cfg) (id : Z) (wfail : bool) (s : st) : st :=
  if live s && c_store_nocb c && negb wfail
  then set_table (aupsert Z.eqb id (ONone 0) (table s)) s
  else if live s && c_store_nocb c   (* stored, write failed: Delete(id) *)
       then set_table (aremove Z.eqb id (table s)) s
       else s.

(* the signal on a future owned by waiter k *)
Definition signal (c : cfg) (k : N) (w : waiter) (id : Z) (b : N) (s : st) : st :=
  let w1 := mkW (w_n w) (w_id w) (Some b) (w_tok w) (w_stat w) in
  match w_stat w, c_cap c with
  | Waiting, O =>        (* unbuffered, receiver in its select: handed over at once *)
      add_premove id (setw k (mkW (w_n w) (w_id w) (Some b) (w_tok w) (DoneOk b)) s)
  | _, _ =>
      if (w_tok w <? c_cap c)%nat
      then add_premove id (setw k (mkW (w_n w) (w_id w) (Some b) (S (w_tok w)) (w_stat w)) s)
      else if c_nonblock c then add_premove id (setw k w1 s)
           else park (setw k w1 s)
  end.

Definition step (c : cfg) (s : st) (e : ev) : st :=
  match e with
  | ESend k wfail =>
      match getw k s with
      | Some _ => s                                   (* waiter names are used once *)
      | None =>
          let n := (ctr s + 1)%N in
          let id := id_of n in
          let s1 := mkSt n (hbc s) (live s) (table s) (waiters s) (premoves s) (parked s) in
          if negb (live s) then setw k (mkW n id None 0 (DoneErr 3)) s1
          else if wfail
               then setw k (mkW n id None 0 (DoneErr 2)) (set_table (aremove Z.eqb id (table s)) s1)
               else setw k (mkW n id None 0 Waiting)
                         (set_table (aupsert Z.eqb id (OWaiter k) (table s)) s1)
      end
  | EWrite id wfail => write_nocb c id wfail s
  | EHeartbeat wfail =>
      let n := (hbc s + 1)%N in
      write_nocb c (id_of n) wfail
                 (mkSt (ctr s) n (live s) (table s) (waiters s) (premoves s) (parked s))
  | EDeliver id b =>
      match alookup Z.eqb id (table s) with
      | None => s
      | Some (OWaiter k) =>
          match getw k s with
          | Some w => signal c k w id b s
          | None => s
          end
      | Some (ONone tok) =>
          if (tok <? c_cap c)%nat
          then add_premove id (set_table (aupsert Z.eqb id (ONone (S tok)) (table s)) s)
          else if c_nonblock c then add_premove id s else park s
      end
  | ERemove id =>
      match remove1 id (premoves s) with
      | None => s
      | Some pr => mkSt (ctr s) (hbc s) (live s) (aremove Z.eqb id (table s)) (waiters s) pr (parked s)
      end
  | EWake k =>
      match getw k s with
      | Some w =>
          match w_stat w, w_tok w, w_resp w with
          | Waiting, S t, Some b =>
              (* signal before store: while the delivery that signalled is still between its steps
                 the waiter may read Response before it is written and returns (nil, nil) *)
              if negb (c_store_first c) && existsb (Z.eqb (w_id w)) (premoves s)
              then setw k (mkW (w_n w) (w_id w) (w_resp w) t (DoneErr 4)) s
              else setw k (mkW (w_n w) (w_id w) (w_resp w) t (DoneOk b)) s
          | _, _, _ => s
          end
      | None => s
      end
  | ETimeout k =>
      match getw k s with
      | Some w =>
          match w_stat w with
          | Waiting =>
              let s1 := setw k (mkW (w_n w) (w_id w) (w_resp w) (w_tok w) (DoneErr 1)) s in
              if c_tmo_removes c then set_table (aremove Z.eqb (w_id w) (table s1)) s1 else s1
          | _ => s
          end
      | None => s
      end
  | EPong id =>
      if c_pong_removes c then set_table (aremove Z.eqb id (table s)) s else s
  | EClose => mkSt (ctr s) (hbc s) false (table s) (waiters s) (premoves s) (parked s)
  | EOpen => mkSt (ctr s) (hbc s) true (table s) (waiters s) (premoves s) (parked s)
  end.

Definition run (c : cfg) (s : st) (evs : list ev) : st := fold_left (step c) evs s.

Definition is_waiting (w : waiter) : bool :=
  match w_stat w with Waiting => true | _ => false end.

(* nothing is in progress: every waiter has returned, no delivery is between its steps *)
Definition quiescent (s : st) : bool :=
  forallb (fun kw => negb (is_waiting (snd kw))) (waiters s)
  && match premoves s with [] => true | _ => false end.

Definition stat_of (k : N) (s : st) : option wstat :=
  match getw k s with Some w => Some (w_stat w) | None => None end.

(* the ids of the requests written along a history (every ESend that is carried out draws one
   from the client's generator, also the requests nobody waits for: OnOpen's RegisterRM
   re-announcements are ESend _ true — the id is consumed, nothing stays in the table) *)
Fixpoint drawn (c : cfg) (s : st) (evs : list ev) : list Z :=
  match evs with
  | [] => []
  | e :: r =>
      (match e with
       | ESend k _ => match getw k s with None => [id_of (ctr s + 1)] | Some _ => [] end
       | _ => []
       end) ++ drawn c (step c s e) r
  end.
