(* C14 — tie: the model (at the regenerated configuration) evaluated on the
   histories the harness performed on the real client; checkpoints compare the
   size of the pending-future table and the number of parked deliveries, the end
   compares every caller's request id and outcome. *)
From Coq Require Import List NArith ZArith Bool.
From SeataV Require Import Remoting.FuturesModel Gen.FuturesCfg.
Import ListNotations.

Inductive tev :=
| TE (e : ev)
| TN (k : N)      (* a request written without callback (OnOpen's RegisterRM re-announcement) *)
| TObs (ntable nparked : N).

Record fout := mkOut { fo_k : N; fo_has_id : bool; fo_id : Z; fo_sync : bool; fo_class : N; fo_val : Z }.

Record fcase := mkCase { fc_c0 : N; fc_h0 : N; fc_evs : list tev; fc_out : list fout }.

Fixpoint walk (c : cfg) (s : st) (l : list tev) (acc : list N) : st * list N :=
  match l with
  | [] => (s, acc)
  | TE e :: r => walk c (step c s e) r acc
  | TN k :: r =>
      (* from the client's generator it is a send whose entry does not stay (the id is consumed,
         nobody waits); from the listener's generator it draws an id like a heartbeat *)
      walk c (step c s (if c_ids_plain c then ESend k true else EHeartbeat false)) r acc
  | TObs nt np :: r =>
      let a1 := if N.eqb (N.of_nat (length (table s))) nt then acc else 1%N :: acc in
      let a2 := if N.eqb (N.of_nat (parked s)) np then a1 else 2%N :: a1 in
      walk c s r a2
  end.

(* codes: 1 table size, 2 parked count, 3 outcome, 4 request id, 5 waiter unknown to the model *)
Definition check_out (s : st) (o : fout) : list N :=
  match getw (fo_k o) s with
  | None => [5%N]
  | Some w =>
      (if fo_has_id o && negb (Z.eqb (fo_id o) (w_id w)) then [4%N] else []) ++
      (if fo_sync o then
         match w_stat w, fo_class o with
         | Waiting, 0%N => []
         | DoneOk b, 1%N => if Z.eqb (Z.of_N b) (fo_val o) then [] else [3%N]
         | DoneErr e, 2%N => if Z.eqb (Z.of_N e) (fo_val o) then [] else [3%N]
         | _, _ => [3%N]
         end
       else [])
  end.

Definition check_case (c : fcase) : list N :=
  let '(s, acc) := walk go_futures_cfg (init (fc_c0 c) (fc_h0 c) false) (fc_evs c) [] in
  acc ++ flat_map (check_out s) (fc_out c).

Fixpoint mism_from (i : nat) (l : list fcase) : list (nat * N) :=
  match l with
  | [] => []
  | c :: r => map (fun e => (i, e)) (check_case c) ++ mism_from (S i) r
  end.
Definition mismatches (l : list fcase) : list (nat * N) := mism_from 0 l.
