(* C15 — tie: the model at the regenerated dispatch table evaluated on the
   requests the harness delivered; per request the observed events (manager
   consultations, response frames, panic) must be exactly what `process` says. *)
From Coq Require Import String List NArith ZArith Bool.
From SeataV Require Import Remoting.ProcessorModel Gen.DispatchTable.
Import ListNotations.
Open Scope string_scope.

Definition val_eqb (a b : val) : bool :=
  match a, b with
  | VN x, VN y => N.eqb x y
  | VZ x, VZ y => Z.eqb x y
  | VBad x, VBad y => String.eqb x y
  | _, _ => false
  end.

Definition wev_eqb (a b : wev) : bool :=
  match a, b with
  | Consult m me x b1 r d, Consult m' me' x' b1' r' d' =>
      N.eqb m m' && String.eqb me me' && val_eqb x x' && val_eqb b1 b1' && val_eqb r r' && val_eqb d d'
  | Respond t i x b1 s rc, Respond t' i' x' b1' s' rc' =>
      String.eqb t t' && val_eqb i i' && val_eqb x x' && val_eqb b1 b1' && val_eqb s s' && N.eqb rc rc'
  | Panic, Panic => true
  | _, _ => false
  end.

Fixpoint wevs_eqb (a b : list wev) : bool :=
  match a, b with
  | [], [] => true
  | x :: a', y :: b' => wev_eqb x y && wevs_eqb a' b'
  | _, _ => false
  end.

Record pcase := mkP { pc_mgrs : list N; pc_req : req; pc_out : outcome; pc_obs : list wev }.

(* code 1: the events observed for the request differ from the model's *)
Definition check_case (c : pcase) : list N :=
  if wevs_eqb (process go_dispatch (pc_mgrs c) (pc_req c) (pc_out c)) (pc_obs c) then [] else [1%N].

Fixpoint mism_from (i : nat) (l : list pcase) : list (nat * N) :=
  match l with
  | [] => []
  | c :: r => map (fun e => (i, e)) (check_case c) ++ mism_from (S i) r
  end.
Definition mismatches (l : list pcase) : list (nat * N) := mism_from 0 l.
