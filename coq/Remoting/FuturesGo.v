(* C14 — the obligation on the regenerated configuration: what the source says
   now is a configuration for which the theorems of FuturesProofs.v hold. *)
From Coq Require Import String.
From Coq Require Import List NArith ZArith Bool.
From SeataV Require Import Remoting.FuturesModel Remoting.FuturesProofs Gen.FuturesCfg.
Import ListNotations.

Lemma go_futures_good : good_cfg go_futures_cfg = true /\ go_futures_unrecognised = [].
Proof. split; vm_compute; reflexivity. Qed.

Lemma go_own_reply : forall c0 h0 lv evs k w b,
  getw k (run go_futures_cfg (init c0 h0 lv) evs) = Some w -> w_stat w = DoneOk b ->
  In (EDeliver (w_id w) b) evs.
Proof. intros. eapply own_reply; eauto. exact (proj1 go_futures_good). Qed.

Lemma go_receives : forall c0 h0 lv evs k w b,
  (N.of_nat (length evs) < two32)%N ->
  let s := run go_futures_cfg (init c0 h0 lv) evs in
  getw k s = Some w -> w_stat w = Waiting ->
  exists b', stat_of k (run go_futures_cfg s [EDeliver (w_id w) b; EWake k]) = Some (DoneOk b')
             /\ In (EDeliver (w_id w) b') (evs ++ [EDeliver (w_id w) b]).
Proof. intros c0 h0 lv evs k w b L. apply receives; [exact (proj1 go_futures_good)|exact L]. Qed.

Lemma go_timeout : forall c0 h0 lv evs k w,
  getw k (run go_futures_cfg (init c0 h0 lv) evs) = Some w ->
  (forall b, ~ In (EDeliver (w_id w) b) evs) ->
  (w_stat w = Waiting \/ exists e, w_stat w = DoneErr e)
  /\ (w_stat w = Waiting ->
      stat_of k (step go_futures_cfg (run go_futures_cfg (init c0 h0 lv) evs) (ETimeout k)) = Some (DoneErr 1)).
Proof.
  intros c0 h0 lv evs k w G NR. split.
  - eapply no_reply_no_body; eauto. exact (proj1 go_futures_good).
  - intro W. eapply timeout_fires; eauto.
Qed.

Lemma go_outcome_stable : forall s evs k x,
  stat_of k s = Some x -> x <> Waiting -> stat_of k (run go_futures_cfg s evs) = Some x.
Proof. intros. now apply outcome_stable_run. Qed.

Lemma go_no_block : forall c0 h0 lv evs,
  parked (run go_futures_cfg (init c0 h0 lv) evs) = 0%nat.
Proof. intros. apply never_parked. exact (proj1 go_futures_good). Qed.

Lemma go_no_leak : forall c0 h0 lv evs,
  quiescent (run go_futures_cfg (init c0 h0 lv) evs) = true ->
  table (run go_futures_cfg (init c0 h0 lv) evs) = [].
Proof. intros. apply no_leak; [exact (proj1 go_futures_good)|assumption]. Qed.

Lemma go_fresh_ok : forall c0 h0 lv evs k b,
  let s := run go_futures_cfg (init c0 h0 lv) evs in
  live s = true -> getw k s = None ->
  stat_of k (run go_futures_cfg s [ESend k false; EDeliver (id_of (ctr s + 1)) b; EWake k]) = Some (DoneOk b).
Proof. intros c0 h0 lv evs k b. apply fresh_ok. exact (proj1 go_futures_good). Qed.

Lemma go_request_ids_distinct : forall c0 h0 lv evs,
  (N.of_nat (length evs) < two32)%N -> NoDup (drawn go_futures_cfg (init c0 h0 lv) evs).
Proof. intros. now apply drawn_nodup. Qed.
