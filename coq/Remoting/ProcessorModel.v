(* C15 — model of the client's phase-two request handling:
   listener.OnMessage (type code -> processor), rmBranchCommitProcessor /
   rmBranchRollbackProcessor.Process (request -> manager of the request's branch
   type -> one response echoing id / xid / branch id / status), rm cache
   (branch type -> manager).  The dispatch table and the two processor rows are
   REGENERATED from the source (Gen/DispatchTable.v); `process` interprets a row,
   it does not assume what the row says.  Definitions only. *)
From Coq Require Import String List NArith ZArith Bool.
Import ListNotations.
Open Scope string_scope.

Record prow := mkRow {
  p_req : string;                    (* request struct asserted from the body *)
  p_rm_key : string;                 (* expression given to GetResourceManager *)
  p_method : string;                 (* manager method called *)
  p_args : list (string * string);   (* BranchResource literal: field -> expression *)
  p_err_mode : N;                    (* what follows the manager call: 1 = `if err != nil { return err }` (silence on
                                        every failure); 2 = `if err != nil { if status == BranchStatusUnknown { return err } }`
                                        (silence only when there is no status to report); 0 = no return on error *)
  p_rc_err : N;                      (* ResultCode put into the response when err != nil (0 Failed, 1 Success, 9 unrecognised) *)
  p_rc_ok : N;                       (* ResultCode when err == nil *)
  p_resp : string;                   (* response struct built *)
  p_fields : list (string * string); (* response literal: Xid / BranchId / BranchStatus -> expression *)
  p_resp_id : string;                (* first argument of SendAsyncResponse *)
  p_sends : nat                      (* number of SendAsyncResponse calls *)
}.

Inductive proc :=
| PPhase2 (row : prow)
| POther (name : string).

(* expressions are canonical: locals that merely alias a request field are resolved by the translator *)
Record req := mkReq {
  r_code : N;        (* type code of the body *)
  r_id : Z;          (* RpcMessage.ID *)
  r_xid : N;         (* abstract xid *)
  r_branch : Z;
  r_btype : N;       (* branch type byte *)
  r_resource : N;
  r_data : N
}.

Inductive val := VN (n : N) | VZ (z : Z) | VBad (e : string).

Definition eval (e : string) (r : req) (st : N) : val :=
  if e =? "request.Xid" then VN (r_xid r)
  else if e =? "request.BranchId" then VZ (r_branch r)
  else if e =? "request.BranchType" then VN (r_btype r)
  else if e =? "request.ResourceId" then VN (r_resource r)
  else if e =? "request.ApplicationData" then VN (r_data r)
  else if e =? "status" then VN st
  else if e =? "rpcMessage.ID" then VZ (r_id r)
  else VBad e.

Fixpoint sfind (k : string) (l : list (string * string)) : string :=
  match l with
  | [] => "<absent>"
  | (k', v) :: r => if k =? k' then v else sfind k r
  end.

(* what the manager does with the request *)
Inductive outcome :=
| ORet (st : N) (failed : bool)     (* returns (st, err) ; failed = (err != nil) *)
| OPanic.

Inductive wev :=
| Consult (mgr : N) (method : string) (xid branch resource data : val)
| Respond (resp : string) (id xid branch status : val) (resultcode : N)
| Panic.

Fixpoint plookup (c : N) (d : list (N * proc)) : option proc :=
  match d with
  | [] => None
  | (c', p) :: r => if N.eqb c c' then Some p else plookup c r
  end.

Definition process_row (row : prow) (mgrs : list N) (r : req) (o : outcome) : list wev :=
  match eval (p_rm_key row) r 0 with
  | VN bt =>
      if existsb (N.eqb bt) mgrs then
        let c := Consult bt (p_method row)
                   (eval (sfind "Xid" (p_args row)) r 0) (eval (sfind "BranchId" (p_args row)) r 0)
                   (eval (sfind "ResourceId" (p_args row)) r 0) (eval (sfind "ApplicationData" (p_args row)) r 0) in
        match o with
        | OPanic => [c; Panic]
        | ORet st failed =>
            if failed && (N.eqb (p_err_mode row) 1 || (N.eqb (p_err_mode row) 2 && N.eqb st 0)) then [c]
            else c :: repeat (Respond (p_resp row) (eval (p_resp_id row) r st)
                                (eval (sfind "Xid" (p_fields row)) r st) (eval (sfind "BranchId" (p_fields row)) r st)
                                (eval (sfind "BranchStatus" (p_fields row)) r st)
                                (if failed then p_rc_err row else p_rc_ok row)) (p_sends row)
        end
      else [Panic]       (* "No ResourceManagerCache for BranchType" *)
  | _ => [Panic]
  end.

Definition process (disp : list (N * proc)) (mgrs : list N) (r : req) (o : outcome) : list wev :=
  match plookup (r_code r) disp with
  | Some (PPhase2 row) => process_row row mgrs r o
  | _ => []                  (* other processors / no processor: nothing on the wire for C15 *)
  end.

(* a concurrent stream: every request handled in its own goroutine; the wire
   shows some interleaving of the per-request event lists *)
Definition stream := list (req * outcome).
Definition per_request (disp : list (N * proc)) (mgrs : list N) (s : stream) : list (list wev) :=
  map (fun ro => process disp mgrs (fst ro) (snd ro)) s.

Inductive merge {A} : list (list A) -> list A -> Prop :=
| merge_nil : forall ls, Forall (fun l => l = []) ls -> merge ls []
| merge_step : forall pre x l post out,
    merge (pre ++ l :: post) out -> merge (pre ++ (x :: l) :: post) (x :: out).

(* ---- the two rows the property needs ---- *)
Definition commit_row (mode : N) : prow :=
  mkRow "BranchCommitRequest" "request.BranchType" "BranchCommit"
        [("ResourceId", "request.ResourceId"); ("BranchId", "request.BranchId");
         ("ApplicationData", "request.ApplicationData"); ("Xid", "request.Xid")]
        mode 0 1 "BranchCommitResponse"
        [("Xid", "request.Xid"); ("BranchId", "request.BranchId"); ("BranchStatus", "status")]
        "rpcMessage.ID" 1.
Definition rollback_row (mode : N) : prow :=
  mkRow "BranchRollbackRequest" "request.BranchType" "BranchRollback"
        [("BranchType", "request.BranchType"); ("Xid", "request.Xid"); ("BranchId", "request.BranchId");
         ("ResourceId", "request.ResourceId"); ("ApplicationData", "request.ApplicationData")]
        mode 0 1 "BranchRollbackResponse"
        [("Xid", "request.Xid"); ("BranchId", "request.BranchId"); ("BranchStatus", "status")]
        "rpcMessage.ID" 1.

Definition pairs_eqb (a b : list (string * string)) : bool :=
  (length a =? length b)%nat &&
  forallb (fun kv => sfind (fst kv) b =? snd kv) a.

(* a row is as good as the reference row when everything `process` reads from it agrees *)
Definition row_ok (ref row : prow) : bool :=
  (p_req row =? p_req ref) && (p_rm_key row =? p_rm_key ref) && (p_method row =? p_method ref)
  && forallb (fun f => sfind f (p_args row) =? sfind f (p_args ref)) ["Xid"; "BranchId"; "ResourceId"; "ApplicationData"]
  && N.eqb (p_err_mode row) (p_err_mode ref) && N.eqb (p_rc_err row) 0 && N.eqb (p_rc_ok row) 1
  && (p_resp row =? p_resp ref)
  && forallb (fun f => sfind f (p_fields row) =? sfind f (p_fields ref)) ["Xid"; "BranchId"; "BranchStatus"]
  && (p_resp_id row =? p_resp_id ref) && (p_sends row =? 1)%nat.

Definition is_phase2 (p : proc) : bool := match p with PPhase2 _ => true | _ => false end.

Definition wf_dispatch (d : list (N * proc)) : bool :=
  match plookup 3 d, plookup 5 d with
  | Some (PPhase2 rc), Some (PPhase2 rr) =>
      (* either way of treating a manager error is a configuration the theorems cover *)
      (N.eqb (p_err_mode rc) 1 || N.eqb (p_err_mode rc) 2) && (N.eqb (p_err_mode rr) 1 || N.eqb (p_err_mode rr) 2)
      && row_ok (commit_row (p_err_mode rc)) rc && row_ok (rollback_row (p_err_mode rr)) rr
  | _, _ => false
  end
  && forallb (fun cp => negb (is_phase2 (snd cp)) || N.eqb (fst cp) 3 || N.eqb (fst cp) 5) d.

(* managers: (type name, branch type it registers under) — no two under one branch type *)
Fixpoint nodupN (l : list N) : bool :=
  match l with [] => true | x :: r => negb (existsb (N.eqb x) r) && nodupN r end.
Definition wf_managers (m : list (string * N)) : bool :=
  nodupN (map snd m) && forallb (fun bt => existsb (N.eqb bt) (map snd m)) [0; 1; 3]%N.
