(* C15 — the obligations on the regenerated dispatch table, and the theorems of
   ProcessorProofs.v instantiated at it. *)
From Coq Require Import String.
From Coq Require Import List NArith ZArith Bool Permutation.
From SeataV Require Import Remoting.ProcessorModel Remoting.ProcessorProofs Gen.DispatchTable.
From SeataV Require Remoting.FuturesModel Remoting.FuturesProofs Gen.FuturesCfg.
Import ListNotations.
Open Scope string_scope.

Lemma go_dispatch_good :
  wf_dispatch go_dispatch = true /\ wf_managers go_managers = true /\ go_dispatch_unrecognised = [].
Proof. repeat split; vm_compute; reflexivity. Qed.

Definition go_wf := proj1 go_dispatch_good.

Lemma go_route mgrs r o m meth x b rs dt :
  In (Consult m meth x b rs dt) (process go_dispatch mgrs r o) ->
  m = r_btype r /\ existsb (N.eqb m) mgrs = true
  /\ ((r_code r = 3%N /\ meth = "BranchCommit") \/ (r_code r = 5%N /\ meth = "BranchRollback"))
  /\ x = VN (r_xid r) /\ b = VZ (r_branch r) /\ rs = VN (r_resource r) /\ dt = VN (r_data r).
Proof. apply route. exact go_wf. Qed.

Lemma go_echo mgrs r st :
  (r_code r = 3%N \/ r_code r = 5%N) -> existsb (N.eqb (r_btype r)) mgrs = true ->
  process go_dispatch mgrs r (ORet st false) =
    [Consult (r_btype r) (meth_of (r_code r)) (VN (r_xid r)) (VZ (r_branch r)) (VN (r_resource r)) (VN (r_data r));
     Respond (resp_of (r_code r)) (VZ (r_id r)) (VN (r_xid r)) (VZ (r_branch r)) (VN st) 1%N].
Proof. apply echo. exact go_wf. Qed.

Lemma go_no_false_success mgrs r o :
  (o = OPanic \/ exists st, o = ORet st true /\ success_status (VN st) = false) ->
  forall resp i x b s rc, In (Respond resp i x b s rc) (process go_dispatch mgrs r o) ->
    success_status s = false /\ rc = 0%N.
Proof. apply no_false_success. exact go_wf. Qed.

Lemma go_at_most_one_response mgrs r o :
  (length (filter is_respond (process go_dispatch mgrs r o)) <= 1)%nat.
Proof. apply at_most_one_response. exact go_wf. Qed.

Lemma go_panic_no_response mgrs r :
  forallb (fun e => negb (is_respond e)) (process go_dispatch mgrs r OPanic) = true.
Proof. apply panic_no_response. exact go_wf. Qed.

Lemma go_respond_only_truthful mgrs r o resp i x b s rc :
  In (Respond resp i x b s rc) (process go_dispatch mgrs r o) ->
  exists st failed, o = ORet st failed /\ s = VN st /\ i = VZ (r_id r) /\ x = VN (r_xid r) /\ b = VZ (r_branch r)
             /\ resp = resp_of (r_code r) /\ rc = (if failed then 0 else 1)%N.
Proof. apply respond_only_truthful. exact go_wf. Qed.

Lemma go_independent mgrs (s s' : stream) out out' :
  Permutation s s' -> merge (per_request go_dispatch mgrs s) out -> merge (per_request go_dispatch mgrs s') out' ->
  Permutation out out'.
Proof. apply independent. Qed.

(* the reply does not depend on the client's own pending requests: sending a response under ANY id
   (in particular one that a pending client request carries: both id spaces are small integers)
   leaves the pending-request table as it is, and nothing in `process` reads that table *)
Lemma go_reply_ignores_pending_table (s : FuturesModel.st) id wf :
  FuturesModel.step FuturesCfg.go_futures_cfg s (FuturesModel.EWrite id wf) = s.
Proof. apply FuturesProofs.write_inert. vm_compute. reflexivity. Qed.
