(* C14 — proofs about the pending-request table model (FuturesModel.v). *)
From Coq Require Import List NArith ZArith Bool Lia ZifyN ZifyNat ZifyBool.
From SeataV Require Import Remoting.FuturesModel.
Import ListNotations.

Ltac Zify.zify_post_hook ::= Z.div_mod_to_equations.

(* ------------------------------------------------------------ association lists *)
Section AssocFacts.
  Context {K V : Type}.
  Variable eqb : K -> K -> bool.
  Hypothesis eqb_eq : forall a b, eqb a b = true <-> a = b.

  Lemma eqb_refl' a : eqb a a = true.
  Proof. now apply eqb_eq. Qed.
  Lemma eqb_neq' a b : a <> b -> eqb a b = false.
  Proof. intro H. destruct (eqb a b) eqn:E; [apply eqb_eq in E; contradiction|reflexivity]. Qed.

  Lemma alookup_aremove_eq k (l : list (K * V)) : alookup eqb k (aremove eqb k l) = None.
  Proof.
    induction l as [|[k' v] r IH]; cbn; [reflexivity|].
    destruct (eqb k k') eqn:E; [exact IH|]. cbn. now rewrite E.
  Qed.
  Lemma alookup_aremove_neq k k' (l : list (K * V)) :
    k <> k' -> alookup eqb k (aremove eqb k' l) = alookup eqb k l.
  Proof.
    intro N. induction l as [|[k2 v] r IH]; cbn; [reflexivity|].
    destruct (eqb k' k2) eqn:E.
    - apply eqb_eq in E. subst k2. rewrite (eqb_neq' _ _ N). exact IH.
    - cbn. destruct (eqb k k2); [reflexivity|exact IH].
  Qed.
  Lemma alookup_aupsert_eq k v (l : list (K * V)) : alookup eqb k (aupsert eqb k v l) = Some v.
  Proof. unfold aupsert. cbn. now rewrite eqb_refl'. Qed.
  Lemma alookup_aupsert_neq k k' v (l : list (K * V)) :
    k <> k' -> alookup eqb k (aupsert eqb k' v l) = alookup eqb k l.
  Proof. intro N. unfold aupsert. cbn. rewrite (eqb_neq' _ _ N). now apply alookup_aremove_neq. Qed.
  Lemma alookup_all_none (l : list (K * V)) : (forall k, alookup eqb k l = None) -> l = [].
  Proof.
    destruct l as [|[k v] r]; [reflexivity|]. intro H. specialize (H k). cbn in H.
    now rewrite eqb_refl' in H.
  Qed.
End AssocFacts.

Lemma Neqb_eq : forall a b, N.eqb a b = true <-> a = b. Proof. exact N.eqb_eq. Qed.
Lemma Zeqb_eq : forall a b, Z.eqb a b = true <-> a = b. Proof. exact Z.eqb_eq. Qed.

Definition tl_rm_eq := @alookup_aremove_eq Z owner Z.eqb.
Definition tl_rm_neq := @alookup_aremove_neq Z owner Z.eqb Zeqb_eq.
Definition tl_up_eq := @alookup_aupsert_eq Z owner Z.eqb Zeqb_eq.
Definition tl_up_neq := @alookup_aupsert_neq Z owner Z.eqb Zeqb_eq.

(* ------------------------------------------------------------ waiters *)
Lemma getw_setw k k' w s :
  getw k (setw k' w s) = if N.eqb k k' then Some w else getw k s.
Proof.
  unfold getw, setw; cbn. destruct (N.eqb k k') eqn:E; [reflexivity|].
  apply (@alookup_aremove_neq N waiter N.eqb Neqb_eq). now apply N.eqb_neq.
Qed.
Lemma getw_setw_eq k w s : getw k (setw k w s) = Some w.
Proof. rewrite getw_setw. now rewrite N.eqb_refl. Qed.
Lemma getw_setw_neq k k' w s : k <> k' -> getw k (setw k' w s) = getw k s.
Proof. intro H. rewrite getw_setw. apply N.eqb_neq in H. now rewrite H. Qed.

Lemma remove1_in id l r : remove1 id l = Some r -> In id l.
Proof.
  revert r. induction l as [|x l IH]; cbn; [discriminate|]. intros r.
  destruct (Z.eqb id x) eqn:E; [apply Z.eqb_eq in E; auto|].
  destruct (remove1 id l) eqn:R; [|discriminate]. intros _. right. eapply IH. reflexivity.
Qed.
Lemma remove1_keeps id l r x : remove1 id l = Some r -> x <> id -> In x l -> In x r.
Proof.
  revert r. induction l as [|y l IH]; cbn; [discriminate|]. intros r.
  destruct (Z.eqb id y) eqn:E.
  - apply Z.eqb_eq in E. subst y. intros H N [A|A]; [congruence|]. now inversion H; subst.
  - destruct (remove1 id l) eqn:R; [|discriminate]. intros H N [A|A]; inversion H; subst.
    + now left.
    + right. now apply (IH l0).
Qed.
Lemma remove1_sub id l r x : remove1 id l = Some r -> In x r -> In x l.
Proof.
  revert r. induction l as [|y l IH]; cbn; [discriminate|]. intros r.
  destruct (Z.eqb id y) eqn:E.
  - intros H A. inversion H; subst. now right.
  - destruct (remove1 id l) eqn:R; [|discriminate]. intros H A. inversion H; subst.
    destruct A as [A|A]; [now left|right; now apply (IH l0)].
Qed.

(* ------------------------------------------------------------ shape of a good configuration *)
Lemma good_cfg_shape c : good_cfg c = true -> exists n, c = mkCfg (S n) true true false false true true.
Proof.
  destruct c as [cap nb tr sn pr sf ip]. unfold good_cfg; cbn.
  destruct cap; cbn; [discriminate|].
  destruct nb, tr, sn, pr, sf, ip; cbn; try discriminate. intros _. now exists cap.
Qed.

Lemma run_app c s a b : run c s (a ++ b) = run c (run c s a) b.
Proof. unfold run. apply fold_left_app. Qed.
Lemma run_snoc c s a e : run c s (a ++ [e]) = step c (run c s a) e.
Proof. now rewrite run_app. Qed.

(* ------------------------------------------------------------ invariants of a good configuration *)
(* T: every entry of the table belongs to a waiter that still needs it *)
Definition InvT (s : st) : Prop :=
  forall id o, alookup Z.eqb id (table s) = Some o ->
    exists k w, o = OWaiter k /\ getw k s = Some w /\ w_id w = id /\
      (forall e, w_stat w <> DoneErr e) /\
      ((w_stat w = Waiting /\ w_tok w = 0%nat) \/ In id (premoves s)).

(* R: what a waiter holds came from a reply that carried its own id *)
Definition InvR (evs : list ev) (s : st) : Prop :=
  forall k w, getw k s = Some w ->
    (forall b, w_resp w = Some b -> In (EDeliver (w_id w) b) evs) /\
    (forall b, w_stat w = DoneOk b -> In (EDeliver (w_id w) b) evs) /\
    (w_tok w <> 0%nat -> w_resp w <> None).

Definition Inv (evs : list ev) (s : st) : Prop := InvT s /\ parked s = 0%nat /\ InvR evs s.

Lemma InvR_mono evs e s : InvR evs s -> InvR (evs ++ [e]) s.
Proof.
  intros H k w G. destruct (H k w G) as (A & B & C). repeat split; auto.
  - intros b Hb. apply in_or_app. left. auto.
  - intros b Hb. apply in_or_app. left. auto.
Qed.

Ltac same T P R := (split; [exact T | split; [exact P | exact R]]).
Ltac inv_some := match goal with H : Some _ = Some _ |- _ => inversion H; subst; clear H end.

Lemma step_inv n evs s e :
  let c := mkCfg (S n) true true false false true true in
  Inv evs s -> Inv (evs ++ [e]) (step c s e).
Proof.
  intros c (T & P & R). apply (InvR_mono _ e) in R.
  destruct e as [k wf|id wf|wf|id b|id|k|k|id| |]; cbn [step].
  - (* ESend *)
    destruct (getw k s) as [w0|] eqn:G; [same T P R|].
    set (nn := (ctr s + 1)%N).
    assert (OLD : forall k' w', getw k' s = Some w' -> k' <> k) by (intros k' w' G' ->; congruence).
    destruct (negb (live s)); [|destruct wf].
    + (* no session *)
      split; [|split; [exact P|]].
      * intros id o L. cbn [table setw set_table add_premove park] in L. destruct (T id o L) as (k' & w' & -> & G' & I & E & D).
        exists k', w'. repeat split; auto. rewrite getw_setw_neq; [exact G'|eauto].
      * intros k' w' G'. rewrite getw_setw in G'. destruct (N.eqb k' k) eqn:E.
        -- inv_some. cbn. split; [|split]; intros; try discriminate; congruence.
        -- apply (R k' w' G').
    + (* write fails *)
      split; [|split; [exact P|]].
      * intros id o L. cbn [table setw set_table add_premove park] in L.
        destruct (Z.eq_dec id (id_of nn)) as [->|N]; [now rewrite tl_rm_eq in L|].
        rewrite tl_rm_neq in L by exact N.
        destruct (T id o L) as (k' & w' & -> & G' & I & E & D).
        exists k', w'. repeat split; auto. rewrite getw_setw_neq; [exact G'|eauto].
      * intros k' w' G'. rewrite getw_setw in G'. destruct (N.eqb k' k) eqn:E.
        -- inv_some. cbn. split; [|split]; intros; try discriminate; congruence.
        -- apply (R k' w' G').
    + (* stored and written *)
      split; [|split; [exact P|]].
      * intros id o L. cbn [table setw set_table add_premove park] in L.
        destruct (Z.eq_dec id (id_of nn)) as [->|N].
        -- rewrite tl_up_eq in L. inv_some. eexists k, _. split; [reflexivity|].
           split; [apply getw_setw_eq|]. cbn. repeat split; try discriminate. now left.
        -- rewrite tl_up_neq in L by exact N.
           destruct (T id o L) as (k' & w' & -> & G' & I & E & D).
           exists k', w'. repeat split; auto. rewrite getw_setw_neq; [exact G'|eauto].
      * intros k' w' G'. rewrite getw_setw in G'. destruct (N.eqb k' k) eqn:E.
        -- inv_some. cbn. split; [|split]; intros; try discriminate; congruence.
        -- apply (R k' w' G').
  - (* EWrite *) unfold write_nocb; cbn. rewrite !andb_false_r. cbn. same T P R.
  - (* EHeartbeat *) unfold write_nocb; cbn. rewrite !andb_false_r. cbn. same T P R.
  - (* EDeliver *)
    destruct (alookup Z.eqb id (table s)) as [o|] eqn:L; [|same T P R].
    destruct (T id o L) as (k & w & -> & G & I & E & D). rewrite G.
    unfold signal. cbn [c_cap c_nonblock c].
    assert (SH : forall w2, w_n w2 = w_n w -> w_id w2 = w_id w -> w_stat w2 = w_stat w ->
                 w_resp w2 = Some b -> (w_tok w2 <> 0%nat -> True) ->
                 Inv (evs ++ [EDeliver id b]) (add_premove id (setw k w2 s))).
    { intros w2 Hn Hi Hs Hr _. split; [|split; [exact P|]].
      - intros id' o' L'. cbn [table setw set_table add_premove park] in L'. destruct (T id' o' L') as (k' & w' & -> & G' & I' & E' & D').
        destruct (N.eq_dec k' k) as [->|NK].
        + exists k, w2. rewrite G in G'. inv_some. repeat split; auto.
          * cbn. apply getw_setw_eq.
          * now rewrite Hs.
          * right. cbn. left. congruence.
        + exists k', w'. repeat split; auto.
          * cbn. unfold add_premove. cbn. change (getw k' (setw k w2 s) = Some w').
            now rewrite getw_setw_neq.
          * destruct D' as [D'|D']; [now left|right; cbn; now right].
      - intros k' w' G'. change (getw k' (setw k w2 s) = Some w') in G'.
        rewrite getw_setw in G'. destruct (N.eqb k' k) eqn:EK.
        + inv_some. destruct (R k w G) as (A & B & C). split; [|split].
          * intros b' Hb. rewrite Hr in Hb. rewrite Hi. apply in_or_app. right. left. congruence.
          * intros b' Hb. rewrite Hs in Hb. rewrite Hi. auto.
          * intros _. now rewrite Hr.
        + apply (R k' w' G'). }
    destruct (w_stat w) eqn:WS.
    + destruct (w_tok w <? S n)%nat; apply SH; cbn; auto.
    + destruct (w_tok w <? S n)%nat; apply SH; cbn; auto.
    + destruct (w_tok w <? S n)%nat; apply SH; cbn; auto.
  - (* ERemove *)
    destruct (remove1 id (premoves s)) as [pr|] eqn:RM; [|same T P R].
    split; [|split; [exact P|]].
    + intros id' o L. cbn [table setw set_table add_premove park] in L.
      destruct (Z.eq_dec id' id) as [->|N]; [now rewrite tl_rm_eq in L|].
      rewrite tl_rm_neq in L by exact N.
      destruct (T id' o L) as (k' & w' & -> & G' & I & E & D).
      exists k', w'. repeat split; auto. destruct D as [D|D]; [now left|right]. cbn.
      eapply remove1_keeps; eauto.
    + intros k' w' G'. apply (R k' w' G').
  - (* EWake *)
    destruct (getw k s) as [w|] eqn:G; [|same T P R].
    destruct (w_stat w) eqn:WS; try (same T P R).
    destruct (w_tok w) as [|t] eqn:WT; [same T P R|].
    destruct (w_resp w) as [b|] eqn:WR; [|same T P R].
    cbn [c_store_first c negb andb].
    split; [|split; [exact P|]].
    + intros id o L. cbn [table setw set_table add_premove park] in L. destruct (T id o L) as (k' & w' & -> & G' & I & E & D).
      destruct (N.eq_dec k' k) as [->|NK].
      * rewrite G in G'. inv_some. eexists k, _. split; [reflexivity|].
        split; [apply getw_setw_eq|]. cbn. repeat split; try discriminate.
        destruct D as [[_ D]|D]; [congruence|now right].
      * exists k', w'. repeat split; auto. now rewrite getw_setw_neq.
    + intros k' w' G'. rewrite getw_setw in G'. destruct (N.eqb k' k) eqn:EK.
      * inv_some. cbn. destruct (R k w G) as (A & B & C). split; [|split].
        -- intros b' Hb. apply A. congruence.
        -- intros b' Hb. inversion Hb; subst. now apply A.
        -- intros _. congruence.
      * apply (R k' w' G').
  - (* ETimeout *)
    destruct (getw k s) as [w|] eqn:G; [|same T P R].
    destruct (w_stat w) eqn:WS; try (same T P R).
    cbn [c_tmo_removes c].
    split; [|split; [exact P|]].
    + intros id o L. cbn [table setw set_table add_premove park] in L.
      destruct (Z.eq_dec id (w_id w)) as [->|N]; [now rewrite tl_rm_eq in L|].
      rewrite tl_rm_neq in L by exact N.
      destruct (T id o L) as (k' & w' & -> & G' & I & E & D).
      assert (k' <> k) by (intros ->; rewrite G in G'; inv_some; congruence).
      exists k', w'. repeat split; auto. cbn.
      change (getw k' (setw k (mkW (w_n w) (w_id w) (w_resp w) (w_tok w) (DoneErr 1)) s) = Some w').
      now rewrite getw_setw_neq.
    + intros k' w' G'.
      change (getw k' (setw k (mkW (w_n w) (w_id w) (w_resp w) (w_tok w) (DoneErr 1)) s) = Some w') in G'.
      rewrite getw_setw in G'. destruct (N.eqb k' k) eqn:EK.
      * inv_some. cbn. destruct (R k w G) as (A & B & C). split; [|split]; auto. intros; discriminate.
      * apply (R k' w' G').
  - (* EPong *) same T P R.
  - (* EClose *) same T P R.
  - (* EOpen *) same T P R.
Qed.

Lemma init_inv c0 h0 lv : Inv [] (init c0 h0 lv).
Proof.
  repeat split; try (intros; discriminate).
Qed.

Lemma run_inv c c0 h0 lv evs :
  good_cfg c = true -> Inv evs (run c (init c0 h0 lv) evs).
Proof.
  intro G. destruct (good_cfg_shape c G) as [n ->].
  induction evs as [|e evs IH] using rev_ind; [apply init_inv|].
  rewrite run_snoc. now apply step_inv.
Qed.

(* ------------------------------------------------------------ theorems that need no freshness of ids *)
Theorem own_reply c c0 h0 lv evs k w b :
  good_cfg c = true ->
  getw k (run c (init c0 h0 lv) evs) = Some w -> w_stat w = DoneOk b ->
  In (EDeliver (w_id w) b) evs.
Proof.
  intros G Gw S. destruct (run_inv c c0 h0 lv evs G) as (_ & _ & R).
  destruct (R k w Gw) as (_ & B & _). auto.
Qed.

Theorem never_parked c c0 h0 lv evs :
  good_cfg c = true -> parked (run c (init c0 h0 lv) evs) = 0%nat.
Proof. intro G. now destruct (run_inv c c0 h0 lv evs G) as (_ & P & _). Qed.

Lemma alookup_in {V} k (l : list (N * V)) v : alookup N.eqb k l = Some v -> exists k', In (k', v) l.
Proof.
  induction l as [|[k' v'] r IH]; cbn; [discriminate|].
  destruct (N.eqb k k'); intro H.
  - inversion H; subst. exists k'. now left.
  - destruct (IH H) as [k2 I]. exists k2. now right.
Qed.

Theorem no_leak c c0 h0 lv evs :
  good_cfg c = true ->
  quiescent (run c (init c0 h0 lv) evs) = true -> table (run c (init c0 h0 lv) evs) = [].
Proof.
  intros G Q. destruct (run_inv c c0 h0 lv evs G) as (T & _ & _).
  set (s := run c (init c0 h0 lv) evs) in *.
  unfold quiescent in Q. apply andb_true_iff in Q. destruct Q as [QW QP].
  apply (@alookup_all_none Z owner Z.eqb Zeqb_eq). intro id.
  destruct (alookup Z.eqb id (table s)) as [o|] eqn:L; [exfalso|reflexivity].
  destruct (T id o L) as (k & w & -> & Gw & I & E & [[W _]|D]).
  - unfold getw in Gw. destruct (alookup_in _ _ _ Gw) as [k' IN].
    rewrite forallb_forall in QW. specialize (QW _ IN). cbn in QW.
    unfold is_waiting in QW. now rewrite W in QW.
  - destruct (premoves s); [contradiction|discriminate].
Qed.

(* an outcome, once reached, never changes (any configuration) *)
Theorem outcome_stable c s e k x :
  stat_of k s = Some x -> x <> Waiting -> stat_of k (step c s e) = Some x.
Proof.
  unfold stat_of. intros H NW.
  destruct (getw k s) as [w|] eqn:G; [|discriminate]. inversion H; subst x; clear H.
  assert (KEEP : forall k' w', (k' = k -> w_stat w' = w_stat w) ->
            forall s', getw k s' = Some w ->
            match getw k (setw k' w' s') with Some w0 => Some (w_stat w0) | None => None end
            = Some (w_stat w)).
  { intros k' w' Hs s' G'. rewrite getw_setw. destruct (N.eqb k k') eqn:E.
    - apply N.eqb_eq in E. now rewrite Hs by auto.
    - now rewrite G'. }
  destruct e as [k1 wf|id wf|wf|id b|id|k1|k1|id| |]; cbn [step].
  - destruct (getw k1 s) eqn:G1; [now rewrite G|].
    assert (k1 <> k) by (intros ->; congruence).
    destruct (negb (live s)); [|destruct wf];
      (rewrite getw_setw_neq by auto); unfold getw in *; cbn; now rewrite G.
  - unfold write_nocb. destruct (live s && c_store_nocb c && negb wf);
      [|destruct (live s && c_store_nocb c)]; unfold getw in *; cbn; now rewrite G.
  - unfold write_nocb. cbn.
    destruct (live s && c_store_nocb c && negb wf);
      [|destruct (live s && c_store_nocb c)]; unfold getw in *; cbn; now rewrite G.
  - destruct (alookup Z.eqb id (table s)) as [[k1|tok]|]; [| |now rewrite G].
    + destruct (getw k1 s) as [w1|] eqn:G1; [|now rewrite G].
      unfold signal.
      assert (k1 = k -> w1 = w) by (intros ->; congruence).
      destruct (w_stat w1) eqn:S1, (c_cap c) eqn:CC;
        try (destruct (w_tok w1 <? _)%nat; [|destruct (c_nonblock c)]);
        unfold add_premove, park; cbn -[getw setw];
        try (change (getw k (mkSt ?a ?b ?d ?t (waiters ?s1) ?p ?q)) with (getw k s1));
        apply KEEP; auto; cbn; intro EK; specialize (H EK); subst w1; try congruence.
    + destruct (tok <? c_cap c)%nat; [|destruct (c_nonblock c)];
        unfold getw in *; cbn; now rewrite G.
  - destruct (remove1 id (premoves s)); unfold getw in *; cbn; now rewrite G.
  - destruct (getw k1 s) as [w1|] eqn:G1; [|now rewrite G].
    destruct (w_stat w1) eqn:S1; try now rewrite G.
    destruct (w_tok w1); [now rewrite G|]. destruct (w_resp w1); [|now rewrite G].
    destruct (negb (c_store_first c) && existsb (Z.eqb (w_id w1)) (premoves s));
      (rewrite getw_setw; destruct (N.eqb k k1) eqn:E; [|now rewrite G];
       apply N.eqb_eq in E; subst k1; congruence).
  - destruct (getw k1 s) as [w1|] eqn:G1; [|now rewrite G].
    destruct (w_stat w1) eqn:S1; try now rewrite G.
    assert (k1 <> k) by (intros ->; congruence).
    destruct (c_tmo_removes c); unfold set_table; cbn -[getw setw];
      try (change (getw k (mkSt ?a ?b ?d ?t (waiters ?s1) ?p ?q)) with (getw k s1));
      rewrite getw_setw_neq by auto; now rewrite G.
  - destruct (c_pong_removes c); unfold getw in *; cbn; now rewrite G.
  - unfold getw in *; cbn; now rewrite G.
  - unfold getw in *; cbn; now rewrite G.
Qed.

Lemma outcome_stable_run c s evs k x :
  stat_of k s = Some x -> x <> Waiting -> stat_of k (run c s evs) = Some x.
Proof.
  revert s. induction evs as [|e evs IH]; intros s H N; [exact H|].
  cbn. apply IH; [now apply outcome_stable|exact N].
Qed.

(* the timer of a waiting caller fires: it returns the timeout error *)
Theorem timeout_fires c s k w :
  getw k s = Some w -> w_stat w = Waiting -> stat_of k (step c s (ETimeout k)) = Some (DoneErr 1).
Proof.
  intros G W. cbn [step]. rewrite G, W. unfold stat_of.
  destruct (c_tmo_removes c); unfold set_table; cbn -[getw setw];
    try (change (getw k (mkSt ?a ?b ?d ?t (waiters ?s1) ?p ?q)) with (getw k s1));
    now rewrite getw_setw_eq.
Qed.

(* a caller whose reply never comes ends with an error or is still waiting —
   never with a body *)
Theorem no_reply_no_body c c0 h0 lv evs k w :
  good_cfg c = true ->
  getw k (run c (init c0 h0 lv) evs) = Some w ->
  (forall b, ~ In (EDeliver (w_id w) b) evs) ->
  w_stat w = Waiting \/ exists e, w_stat w = DoneErr e.
Proof.
  intros G Gw NR. destruct (w_stat w) eqn:S; [now left| |right; eauto].
  exfalso. apply (NR body). eapply own_reply; eauto.
Qed.

(* after any history a fresh request completes with the body of its reply *)
Theorem fresh_ok c c0 h0 lv evs k b :
  good_cfg c = true ->
  let s := run c (init c0 h0 lv) evs in
  live s = true -> getw k s = None ->
  stat_of k (run c s [ESend k false; EDeliver (id_of (ctr s + 1)) b; EWake k]) = Some (DoneOk b).
Proof.
  intros G s LV FR. destruct (good_cfg_shape c G) as [n ->].
  cbn [run fold_left]. 
  set (id := id_of (ctr s + 1)).
  assert (S1 : step (mkCfg (S n) true true false false true true) s (ESend k false) =
     setw k (mkW (ctr s + 1) id None 0 Waiting)
          (set_table (aupsert Z.eqb id (OWaiter k) (table s))
             (mkSt (ctr s + 1) (hbc s) (live s) (table s) (waiters s) (premoves s) (parked s)))).
  { cbn [step]. rewrite FR, LV. reflexivity. }
  rewrite S1. clear S1.
  set (s1 := setw k _ _).
  assert (L1 : alookup Z.eqb id (table s1) = Some (OWaiter k)) by (subst s1; cbn [table setw set_table]; apply tl_up_eq).
  assert (G1 : getw k s1 = Some (mkW (ctr s + 1) id None 0 Waiting)) by (subst s1; apply getw_setw_eq).
  assert (S2 : step (mkCfg (S n) true true false false true true) s1 (EDeliver id b) =
     add_premove id (setw k (mkW (ctr s + 1) id (Some b) 1 Waiting) s1)).
  { cbn [step]. rewrite L1, G1. unfold signal. cbn. reflexivity. }
  rewrite S2. clear S2.
  set (s2 := add_premove id _).
  assert (G2 : getw k s2 = Some (mkW (ctr s + 1) id (Some b) 1 Waiting)).
  { subst s2. unfold add_premove. cbn -[getw setw].
    change (getw k (setw k (mkW (ctr s + 1) id (Some b) 1 Waiting) s1) = Some (mkW (ctr s + 1) id (Some b) 1 Waiting)).
    apply getw_setw_eq. }
  cbn [step]. rewrite G2. cbn. unfold stat_of. now rewrite getw_setw_eq.
Qed.

(* ------------------------------------------------------------ ids: int32(uint32) is injective on any window shorter than 2^32 *)
Lemma id_of_inj a b : (a < b)%N -> (b - a < two32)%N -> id_of a <> id_of b.
Proof.
  unfold id_of, two32. intros L D.
  destruct (N.ltb_spec (a mod 4294967296) 2147483648), (N.ltb_spec (b mod 4294967296) 2147483648); lia.
Qed.

(* ------------------------------------------------------------ waiters are only added, and keep their id *)
Lemma step_keeps_waiter c s e k w :
  getw k s = Some w ->
  exists w', getw k (step c s e) = Some w' /\ w_n w' = w_n w /\ w_id w' = w_id w.
Proof.
  intro G.
  assert (SW : forall k' w2 s', getw k s' = Some w -> (k' = k -> w_n w2 = w_n w /\ w_id w2 = w_id w) ->
             exists w', getw k (setw k' w2 s') = Some w' /\ w_n w' = w_n w /\ w_id w' = w_id w).
  { intros k' w2 s' G' H. rewrite getw_setw. destruct (N.eqb k k') eqn:E.
    - apply N.eqb_eq in E. destruct (H (eq_sym E)). eauto.
    - eauto. }
  destruct e as [k1 wf|id wf|wf|id b|id|k1|k1|id| |]; cbn [step].
  - destruct (getw k1 s) eqn:G1; [eauto|].
    assert (k1 <> k) by (intros ->; congruence).
    destruct (negb (live s)); [|destruct wf]; apply SW; auto; try (intros; contradiction).
  - unfold write_nocb. destruct (live s && c_store_nocb c && negb wf);
      [|destruct (live s && c_store_nocb c)]; eauto.
  - unfold write_nocb. cbn. destruct (live s && c_store_nocb c && negb wf);
      [|destruct (live s && c_store_nocb c)]; eauto.
  - destruct (alookup Z.eqb id (table s)) as [[k1|tok]|]; [| |eauto].
    + destruct (getw k1 s) as [w1|] eqn:G1; [|eauto].
      assert (k1 = k -> w1 = w) by (intros ->; congruence).
      unfold signal.
      destruct (w_stat w1) eqn:S1, (c_cap c) eqn:CC;
        try (destruct (w_tok w1 <? _)%nat; [|destruct (c_nonblock c)]);
        unfold add_premove, park; cbn -[getw setw];
        try (change (getw k (mkSt ?a ?b ?d ?t (waiters ?s1) ?p ?q)) with (getw k s1));
        apply SW; auto; cbn; intro EK; specialize (H EK); subst w1; auto.
    + destruct (tok <? c_cap c)%nat; [|destruct (c_nonblock c)]; eauto.
  - destruct (remove1 id (premoves s)); eauto.
  - destruct (getw k1 s) as [w1|] eqn:G1; [|eauto].
    destruct (w_stat w1) eqn:S1; eauto.
    destruct (w_tok w1); eauto. destruct (w_resp w1); eauto.
    destruct (negb (c_store_first c) && existsb (Z.eqb (w_id w1)) (premoves s));
      (apply SW; auto; cbn; intros ->; rewrite G in G1; inversion G1; auto).
  - destruct (getw k1 s) as [w1|] eqn:G1; [|eauto].
    destruct (w_stat w1) eqn:S1; eauto.
    destruct (c_tmo_removes c); unfold set_table; cbn -[getw setw];
      try (change (getw k (mkSt ?a ?b ?d ?t (waiters ?s1) ?p ?q)) with (getw k s1));
      apply SW; auto; cbn; intros ->; rewrite G in G1; inversion G1; auto.
  - destruct (c_pong_removes c); eauto.
  - eauto.
  - eauto.
Qed.

(* ------------------------------------------------------------ freshness of ids: histories shorter than 2^32 *)
Definition wl_up_eq := @alookup_aupsert_eq N waiter N.eqb Neqb_eq.
Definition wl_up_neq := @alookup_aupsert_neq N waiter N.eqb Neqb_eq.

Definition InvN (c0 len : N) (s : st) : Prop :=
  (ctr s <= c0 + len)%N /\ (c0 <= ctr s)%N /\
  (forall k w, getw k s = Some w -> (c0 < w_n w <= ctr s)%N /\ w_id w = id_of (w_n w)) /\
  (forall k1 k2 w1 w2, getw k1 s = Some w1 -> getw k2 s = Some w2 -> w_n w1 = w_n w2 -> k1 = k2) /\
  (forall k w, getw k s = Some w -> w_stat w = Waiting -> w_tok w = 0%nat ->
       alookup Z.eqb (w_id w) (table s) = Some (OWaiter k) /\ ~ In (w_id w) (premoves s)) /\
  (forall id, In id (premoves s) -> exists k w, getw k s = Some w /\ w_id w = id).

Lemma InvN_ext c0 len len' s s' :
  (len <= len')%N -> ctr s' = ctr s -> table s' = table s -> waiters s' = waiters s ->
  premoves s' = premoves s -> InvN c0 len s -> InvN c0 len' s'.
Proof.
  intros L E1 E2 E3 E4 (C1 & C0 & U1 & U2 & W & PM). unfold InvN, getw in *.
  rewrite E1, E2, E3, E4.
  split; [lia|]. split; [lia|]. split; [exact U1|]. split; [exact U2|]. split; [exact W|exact PM].
Qed.

Lemma ids_distinct c0 len s k1 k2 w1 w2 :
  InvN c0 len s -> (len <= two32)%N ->
  getw k1 s = Some w1 -> getw k2 s = Some w2 -> w_id w1 = w_id w2 -> k1 = k2.
Proof.
  intros (C1 & C0 & U1 & U2 & _) L G1 G2 E.
  destruct (U1 _ _ G1) as (R1 & I1). destruct (U1 _ _ G2) as (R2 & I2).
  apply (U2 k1 k2 w1 w2 G1 G2).
  destruct (N.lt_total (w_n w1) (w_n w2)) as [LT|[EQ|LT]]; [exfalso|exact EQ|exfalso].
  - apply (id_of_inj (w_n w1) (w_n w2)); [exact LT|lia|congruence].
  - apply (id_of_inj (w_n w2) (w_n w1)); [exact LT|lia|congruence].
Qed.

Lemma step_invN n evs c0 len s e :
  let c := mkCfg (S n) true true false false true true in
  Inv evs s -> InvN c0 len s -> (len < two32)%N -> InvN c0 (len + 1) (step c s e).
Proof.
  intros c (T & _ & _) HN LEN.
  assert (DIST : forall k1 k2 w1 w2, getw k1 s = Some w1 -> getw k2 s = Some w2 ->
                   w_id w1 = w_id w2 -> k1 = k2)
    by (intros; eapply (ids_distinct c0 len s); eauto; lia).
  assert (SAME : InvN c0 (len + 1) s) by (apply (InvN_ext c0 len (len + 1) s s); auto; lia).
  pose proof HN as (C1 & C0 & U1 & U2 & W & PM).
  destruct e as [k wf|id wf|wf|id b|id|k|k|id| |]; cbn [step].
  - (* ESend *)
    destruct (getw k s) as [w0|] eqn:G; [exact SAME|].
    set (nn := (ctr s + 1)%N).
    assert (FRESH : forall k' w', getw k' s = Some w' -> k' <> k /\ w_id w' <> id_of nn).
    { intros k' w' G'. split; [intros ->; congruence|].
      destruct (U1 _ _ G') as (R1 & I1). rewrite I1. apply id_of_inj; subst nn; lia. }
    assert (NOPM : ~ In (id_of nn) (premoves s)).
    { intro I. destruct (PM _ I) as (k2 & w2 & G2 & E2). now apply (FRESH _ _ G2). }
    assert (COMMON : forall stt tbl,
        (stt = Waiting -> alookup Z.eqb (id_of nn) tbl = Some (OWaiter k)) ->
        (forall id, id <> id_of nn -> alookup Z.eqb id tbl = alookup Z.eqb id (table s)) ->
        InvN c0 (len + 1)
          (setw k (mkW nn (id_of nn) None 0 stt)
             (set_table tbl (mkSt nn (hbc s) (live s) (table s) (waiters s) (premoves s) (parked s))))).
    { intros stt tbl HK HO. unfold InvN, getw, setw, set_table. cbn [ctr table waiters premoves].
      fold nn. split; [subst nn; lia|]. split; [subst nn; lia|]. split; [|split; [|split]].
      - intros k' w' G'. destruct (N.eq_dec k' k) as [->|NK].
        + rewrite wl_up_eq in G'. inversion G'; subst w'. cbn. split; [subst nn; lia|reflexivity].
        + rewrite wl_up_neq in G' by exact NK. destruct (U1 _ _ G') as (R1 & I1). split; [subst nn; lia|exact I1].
      - intros k1 k2 w1 w2 G1 G2 E.
        destruct (N.eq_dec k1 k) as [->|N1], (N.eq_dec k2 k) as [->|N2]; [reflexivity| | |].
        + rewrite wl_up_eq in G1. rewrite wl_up_neq in G2 by exact N2. inversion G1; subst w1. cbn in E.
          destruct (U1 _ _ G2) as (R2 & _). subst nn. lia.
        + rewrite wl_up_eq in G2. rewrite wl_up_neq in G1 by exact N1. inversion G2; subst w2. cbn in E.
          destruct (U1 _ _ G1) as (R1 & _). subst nn. lia.
        + rewrite wl_up_neq in G1 by exact N1. rewrite wl_up_neq in G2 by exact N2. eapply U2; eauto.
      - intros k' w' G' WS WT. destruct (N.eq_dec k' k) as [->|NK].
        + rewrite wl_up_eq in G'. inversion G'; subst w'. cbn in *. split; [now apply HK|exact NOPM].
        + rewrite wl_up_neq in G' by exact NK. destruct (W _ _ G' WS WT) as (L1 & L2).
          split; [|exact L2]. rewrite HO; [exact L1|]. now apply (FRESH _ _ G').
      - intros id I. destruct (PM _ I) as (k2 & w2 & G2 & E2). exists k2, w2. split; [|exact E2].
        rewrite wl_up_neq; [exact G2|]. now apply (FRESH _ _ G2). }
    destruct (negb (live s)); [|destruct wf].
    + apply (COMMON (DoneErr 3) (table s)); [discriminate|reflexivity].
    + apply (COMMON (DoneErr 2)); [discriminate|]. intros id N. now apply tl_rm_neq.
    + apply (COMMON Waiting); [intros _; apply tl_up_eq|]. intros id N. now apply tl_up_neq.
  - (* EWrite *) unfold write_nocb; cbn. rewrite !andb_false_r. cbn. exact SAME.
  - (* EHeartbeat *) unfold write_nocb; cbn. rewrite !andb_false_r. cbn.
    eapply InvN_ext; [| | | | |exact HN]; try reflexivity; lia.
  - (* EDeliver *)
    destruct (alookup Z.eqb id (table s)) as [o|] eqn:L; [|exact SAME].
    destruct (T id o L) as (k & w & -> & G & I & E & D). rewrite G.
    assert (SH : forall w2, w_n w2 = w_n w -> w_id w2 = w_id w -> w_stat w2 = w_stat w ->
                 w_tok w2 <> 0%nat ->
                 InvN c0 (len + 1) (add_premove id (setw k w2 s))).
    { intros w2 Hn Hi Hs Ht. unfold InvN, getw, add_premove, setw. cbn [ctr table waiters premoves].
      split; [lia|]. split; [lia|]. split; [|split; [|split]].
      - intros k' w' G'. destruct (N.eq_dec k' k) as [->|NK].
        + rewrite wl_up_eq in G'. inversion G'; subst w'. rewrite Hn, Hi. apply (U1 _ _ G).
        + rewrite wl_up_neq in G' by exact NK. apply (U1 _ _ G').
      - intros k1 k2 w1 w2' G1 G2 EE.
        assert (X : forall k' w', alookup N.eqb k' (aupsert N.eqb k w2 (waiters s)) = Some w' ->
                      exists w0, getw k' s = Some w0 /\ w_n w0 = w_n w').
        { intros k' w' G'. destruct (N.eq_dec k' k) as [->|NK].
          - rewrite wl_up_eq in G'. inversion G'; subst w'. eauto.
          - rewrite wl_up_neq in G' by exact NK. eauto. }
        destruct (X _ _ G1) as (a1 & A1 & B1). destruct (X _ _ G2) as (a2 & A2 & B2).
        apply (U2 k1 k2 a1 a2 A1 A2). congruence.
      - intros k' w' G' WS WT. destruct (N.eq_dec k' k) as [->|NK].
        + rewrite wl_up_eq in G'. inversion G'; subst w'. contradiction.
        + rewrite wl_up_neq in G' by exact NK. destruct (W _ _ G' WS WT) as (L1 & L2).
          split; [exact L1|]. intros [X|X]; [|contradiction].
          apply NK. apply (DIST k' k w' w G' G). congruence.
      - intros id' [X|X].
        + subst id'. exists k, w2. split; [apply wl_up_eq|congruence].
        + destruct (PM _ X) as (k2 & w2' & G2 & E2). destruct (N.eq_dec k2 k) as [->|NK].
          * exists k, w2. split; [apply wl_up_eq|]. rewrite G in G2. inversion G2; subst. congruence.
          * exists k2, w2'. split; [|exact E2]. now rewrite wl_up_neq. }
    unfold signal. cbn [c_cap c_nonblock c].
    destruct (w_stat w) eqn:WS;
      (destruct (w_tok w <? S n)%nat eqn:LT; apply SH; cbn; auto;
       apply Nat.ltb_ge in LT; lia).
  - (* ERemove *)
    destruct (remove1 id (premoves s)) as [pr|] eqn:RM; [|exact SAME].
    unfold InvN, getw. cbn [ctr table waiters premoves].
    split; [lia|]. split; [lia|]. split; [exact U1|]. split; [exact U2|]. split.
    + intros k' w' G' WS WT. destruct (W _ _ G' WS WT) as (L1 & L2). split.
      * rewrite tl_rm_neq; [exact L1|]. intro X. apply L2. rewrite X. eapply remove1_in; eauto.
      * intro X. apply L2. eapply remove1_sub; eauto.
    + intros id' X. apply PM. eapply remove1_sub; eauto.
  - (* EWake *)
    destruct (getw k s) as [w|] eqn:G; [|exact SAME].
    destruct (w_stat w) eqn:WS; try exact SAME.
    destruct (w_tok w) as [|t] eqn:WT; [exact SAME|].
    destruct (w_resp w) as [b|] eqn:WR; [|exact SAME].
    cbn [c_store_first c negb andb].
    unfold InvN, getw, setw. cbn [ctr table waiters premoves].
    split; [lia|]. split; [lia|]. split; [|split; [|split]].
    + intros k' w' G'. destruct (N.eq_dec k' k) as [->|NK].
      * rewrite wl_up_eq in G'. inversion G'; subst w'. cbn. apply (U1 _ _ G).
      * rewrite wl_up_neq in G' by exact NK. apply (U1 _ _ G').
    + intros k1 k2 w1 w2' G1 G2 EE.
      assert (X : forall k' w', alookup N.eqb k' (aupsert N.eqb k (mkW (w_n w) (w_id w) (Some b) t (DoneOk b)) (waiters s)) = Some w' ->
                    exists w0, getw k' s = Some w0 /\ w_n w0 = w_n w').
      { intros k' w' G'. destruct (N.eq_dec k' k) as [->|NK].
        - rewrite wl_up_eq in G'. inversion G'; subst w'. eauto.
        - rewrite wl_up_neq in G' by exact NK. eauto. }
      destruct (X _ _ G1) as (a1 & A1 & B1). destruct (X _ _ G2) as (a2 & A2 & B2).
      apply (U2 k1 k2 a1 a2 A1 A2). congruence.
    + intros k' w' G' WS' WT'. destruct (N.eq_dec k' k) as [->|NK].
      * rewrite wl_up_eq in G'. inversion G'; subst w'. discriminate.
      * rewrite wl_up_neq in G' by exact NK. apply (W _ _ G' WS' WT').
    + intros id' X. destruct (PM _ X) as (k2 & w2' & G2 & E2). destruct (N.eq_dec k2 k) as [->|NK].
      * eexists k, _. split; [apply wl_up_eq|]. cbn. rewrite G in G2. inversion G2; subst. reflexivity.
      * exists k2, w2'. split; [|exact E2]. now rewrite wl_up_neq.
  - (* ETimeout *)
    destruct (getw k s) as [w|] eqn:G; [|exact SAME].
    destruct (w_stat w) eqn:WS; try exact SAME.
    cbn [c_tmo_removes c]. unfold InvN, getw, setw, set_table. cbn [ctr table waiters premoves].
    split; [lia|]. split; [lia|]. split; [|split; [|split]].
    + intros k' w' G'. destruct (N.eq_dec k' k) as [->|NK].
      * rewrite wl_up_eq in G'. inversion G'; subst w'. cbn. apply (U1 _ _ G).
      * rewrite wl_up_neq in G' by exact NK. apply (U1 _ _ G').
    + intros k1 k2 w1 w2' G1 G2 EE.
      assert (X : forall k' w', alookup N.eqb k' (aupsert N.eqb k (mkW (w_n w) (w_id w) (w_resp w) (w_tok w) (DoneErr 1)) (waiters s)) = Some w' ->
                    exists w0, getw k' s = Some w0 /\ w_n w0 = w_n w').
      { intros k' w' G'. destruct (N.eq_dec k' k) as [->|NK].
        - rewrite wl_up_eq in G'. inversion G'; subst w'. eauto.
        - rewrite wl_up_neq in G' by exact NK. eauto. }
      destruct (X _ _ G1) as (a1 & A1 & B1). destruct (X _ _ G2) as (a2 & A2 & B2).
      apply (U2 k1 k2 a1 a2 A1 A2). congruence.
    + intros k' w' G' WS' WT'. destruct (N.eq_dec k' k) as [->|NK].
      * rewrite wl_up_eq in G'. inversion G'; subst w'. discriminate.
      * rewrite wl_up_neq in G' by exact NK. destruct (W _ _ G' WS' WT') as (L1 & L2).
        split; [|exact L2]. rewrite tl_rm_neq; [exact L1|].
        intro X. apply NK. apply (DIST k' k w' w G' G X).
    + intros id' X. destruct (PM _ X) as (k2 & w2' & G2 & E2). destruct (N.eq_dec k2 k) as [->|NK].
      * eexists k, _. split; [apply wl_up_eq|]. cbn. rewrite G in G2. inversion G2; subst. reflexivity.
      * exists k2, w2'. split; [|exact E2]. now rewrite wl_up_neq.
  - (* EPong *) exact SAME.
  - (* EClose *) eapply InvN_ext; [| | | | |exact HN]; try reflexivity; lia.
  - (* EOpen *) eapply InvN_ext; [| | | | |exact HN]; try reflexivity; lia.
Qed.

Lemma run_invN c c0 h0 lv evs :
  good_cfg c = true -> (N.of_nat (length evs) <= two32)%N ->
  InvN c0 (N.of_nat (length evs)) (run c (init c0 h0 lv) evs).
Proof.
  intro G. destruct (good_cfg_shape c G) as [n E].
  induction evs as [|e evs IH] using rev_ind; intro L.
  - cbn. unfold InvN, getw. cbn. repeat split; try lia; try discriminate; try contradiction.
  - rewrite run_snoc. rewrite app_length in *. cbn [length] in *.
    replace (N.of_nat (length evs + 1)) with (N.of_nat (length evs) + 1)%N by lia.
    subst c. eapply step_invN.
    + apply (run_inv (mkCfg (S n) true true false false true true) c0 h0 lv evs G).
    + apply IH. lia.
    + lia.
Qed.

Lemma getw_add_premove k id s : getw k (add_premove id s) = getw k s.
Proof. reflexivity. Qed.

(* the positive half: a caller that is still waiting when a reply carrying its id
   is delivered returns a body of a reply that carried its id *)
Theorem receives c c0 h0 lv evs k w b :
  good_cfg c = true -> (N.of_nat (length evs) < two32)%N ->
  let s := run c (init c0 h0 lv) evs in
  getw k s = Some w -> w_stat w = Waiting ->
  exists b', stat_of k (run c s [EDeliver (w_id w) b; EWake k]) = Some (DoneOk b')
             /\ In (EDeliver (w_id w) b') (evs ++ [EDeliver (w_id w) b]).
Proof.
  intros G LEN s Gw WS.
  pose proof (run_inv c c0 h0 lv evs G) as (T & _ & R).
  pose proof (run_invN c c0 h0 lv evs G ltac:(lia)) as HN.
  fold s in T, R, HN.
  destruct (good_cfg_shape c G) as [n E].
  assert (AFTER : exists w1, getw k (step c s (EDeliver (w_id w) b)) = Some w1 /\
            w_stat w1 = Waiting /\ w_id w1 = w_id w /\ exists t b1, w_tok w1 = S t /\ w_resp w1 = Some b1).
  { subst c. cbn [step].
    destruct (alookup Z.eqb (w_id w) (table s)) as [o|] eqn:L.
    - destruct (T _ _ L) as (k' & w' & -> & G' & I' & _ & _).
      assert (k' = k) by (eapply (ids_distinct c0 _ s); eauto; lia). subst k'.
      rewrite Gw in G'. inversion G'; subst w'. rewrite Gw.
      unfold signal. cbn [c_cap c_nonblock]. rewrite WS.
      destruct (w_tok w <? S n)%nat eqn:LT.
      + eexists. split; [rewrite getw_add_premove; apply getw_setw_eq|].
        cbn. repeat split; eauto.
      + apply Nat.ltb_ge in LT. destruct (w_tok w) as [|t] eqn:WT; [lia|].
        eexists. split; [rewrite getw_add_premove; apply getw_setw_eq|].
        cbn. repeat split; eauto.
    - destruct HN as (_ & _ & _ & _ & W & _).
      destruct (w_tok w) as [|t] eqn:WT.
      + destruct (W _ _ Gw WS WT) as (L1 & _). congruence.
      + exists w. repeat split; auto. destruct (R _ _ Gw) as (_ & _ & C).
        destruct (w_resp w) as [b1|] eqn:WR; [eauto|]. exfalso. apply C; [lia|reflexivity]. }
  destruct AFTER as (w1 & G1 & S1 & I1 & t & b1 & T1 & R1).
  exists b1. cbn [run fold_left]. split.
  - set (s1 := step c s (EDeliver (w_id w) b)) in *. clearbody s1.
    rewrite E. cbn [step]. rewrite G1, S1, T1, R1. cbn [c_store_first negb andb]. unfold stat_of. now rewrite getw_setw_eq.
  - pose proof (run_inv c c0 h0 lv (evs ++ [EDeliver (w_id w) b]) G) as (_ & _ & R').
    rewrite run_snoc in R'. fold s in R'. destruct (R' _ _ G1) as (A & _ & _).
    specialize (A b1 R1). rewrite I1 in A. exact A.
Qed.

(* ------------------------------------------------------------ the pinned tree did not have these properties *)
Example pinned_parks :
  parked (run pinned_cfg (init 0 0 true) [ESend 1 false; ETimeout 1; EDeliver 1 7]) = 1%nat.
Proof. vm_compute. reflexivity. Qed.

Example pinned_leaks :
  let s := run pinned_cfg (init 0 0 true) [ESend 1 false; ETimeout 1; EWrite 5 false] in
  quiescent s = true /\ length (table s) = 2%nat.
Proof. vm_compute. split; reflexivity. Qed.

(* a response sent for the coordinator's request 1 steals the entry of the
   caller's own request 1: its reply parks, the caller can only time out *)
Example pinned_steals :
  let s := run pinned_cfg (init 0 0 true) [ESend 1 false; EWrite 1 false; EDeliver 1 7; EWake 1] in
  stat_of 1 s = Some Waiting /\ parked s = 1%nat.
Proof. vm_compute. split; reflexivity. Qed.

Example fixed_is_good : good_cfg fixed_cfg = true.
Proof. reflexivity. Qed.
Example pinned_is_not_good : good_cfg pinned_cfg = false.
Proof. reflexivity. Qed.

(* with the payload written after the signal the waiter can return without its reply *)
Example store_after_returns_nil :
  stat_of 1 (run store_after_cfg (init 0 0 true) [ESend 1 false; EDeliver 1 7; EWake 1; ERemove 1]) = Some (DoneErr 4).
Proof. vm_compute. reflexivity. Qed.
Example store_after_is_not_good : good_cfg store_after_cfg = false.
Proof. reflexivity. Qed.

(* a send without callback (every phase-two response, every heartbeat) neither reads nor changes
   the pending-request table, whatever is pending and whatever id it carries *)
Lemma write_inert c s id wf : c_store_nocb c = false -> step c s (EWrite id wf) = s.
Proof.
  intro H. cbn [step]. unfold write_nocb. rewrite H, !andb_false_r. reflexivity.
Qed.

(* ------------------------------------------------------------ one generator: the ids of all requests of a history are distinct *)
Lemma ctr_step c s e :
  ctr (step c s e) = match e with
                     | ESend k _ => match getw k s with None => (ctr s + 1)%N | Some _ => ctr s end
                     | _ => ctr s
                     end.
Proof.
  destruct e as [k wf|id wf|wf|id b|id|k|k|id| |]; cbn [step].
  - destruct (getw k s); [reflexivity|]. destruct (negb (live s)); [|destruct wf]; reflexivity.
  - unfold write_nocb. destruct (live s && c_store_nocb c && negb wf); [|destruct (live s && c_store_nocb c)]; reflexivity.
  - unfold write_nocb. cbn. destruct (live s && c_store_nocb c && negb wf); [|destruct (live s && c_store_nocb c)]; reflexivity.
  - destruct (alookup Z.eqb id (table s)) as [[k|tok]|]; [| |reflexivity].
    + destruct (getw k s) as [w|]; [|reflexivity]. unfold signal.
      destruct (w_stat w), (c_cap c); try (destruct (w_tok w <? _)%nat; [|destruct (c_nonblock c)]); reflexivity.
    + destruct (tok <? c_cap c)%nat; [|destruct (c_nonblock c)]; reflexivity.
  - destruct (remove1 id (premoves s)); reflexivity.
  - destruct (getw k s) as [w|]; [|reflexivity]. destruct (w_stat w); try reflexivity.
    destruct (w_tok w); [reflexivity|]. destruct (w_resp w); [|reflexivity].
    destruct (negb (c_store_first c) && existsb (Z.eqb (w_id w)) (premoves s)); reflexivity.
  - destruct (getw k s) as [w|]; [|reflexivity]. destruct (w_stat w); try reflexivity.
    destruct (c_tmo_removes c); reflexivity.
  - destruct (c_pong_removes c); reflexivity.
  - reflexivity.
  - reflexivity.
Qed.

Lemma drawn_range c evs : forall s x, In x (drawn c s evs) ->
  exists n, x = id_of n /\ (ctr s < n <= ctr s + N.of_nat (length evs))%N.
Proof.
  induction evs as [|e r IH]; intros s x I; [contradiction|].
  cbn [drawn] in I. apply in_app_or in I. destruct I as [I|I].
  - destruct e; try contradiction. destruct (getw w s); [contradiction|].
    destruct I as [<-|[]]. exists (ctr s + 1)%N. split; [reflexivity|]. cbn [length]. lia.
  - destruct (IH _ _ I) as (n & -> & R). exists n. split; [reflexivity|].
    rewrite ctr_step in R. cbn [length].
    destruct e; try lia. destruct (getw w s); lia.
Qed.

Theorem drawn_nodup c evs : forall s,
  (N.of_nat (length evs) < two32)%N -> NoDup (drawn c s evs).
Proof.
  induction evs as [|e r IH]; intros s L; [constructor|].
  cbn [drawn]. cbn [length] in L.
  assert (REST : NoDup (drawn c (step c s e) r)) by (apply IH; lia).
  destruct e; try exact REST. destruct (getw w s) eqn:G; [exact REST|].
  cbn [app]. constructor; [|exact REST].
  intro I. destruct (drawn_range _ _ _ _ I) as (n & E & R).
  rewrite ctr_step, G in R.
  apply (id_of_inj (ctr s + 1) n); [lia| |exact E]. unfold two32 in *. lia.
Qed.

(* were such a request sent under an id of the listener's generator (as heartbeats are), its
   answer could carry the id of a pending caller: that caller is handed the other request's answer *)
Example second_generator_confuses :
  let evs := [ESend 1 false; EHeartbeat false; EDeliver (id_of 8) 99; EWake 1] in
  stat_of 1 (run fixed_cfg (init 7 7 true) evs) = Some (DoneOk 99)
  /\ id_of (7 + 1) = id_of (7 + 1).
Proof. vm_compute. split; reflexivity. Qed.
